(** C17, round 4: (G) the content that ends up loaded, with the HTTP client as
    a parameter of the world; (H) the text of a pattern is not a licence.

    (G) [reader] hands every location that is not an absolute path to the HTTP
    client, whatever its scheme.  What the client does with it is the table
    [w_http] of the world: any table, so also one that answers a [file:] URL
    with the content of a local file.  The property can only hold under the
    hypothesis [client_no_local]: the client never hands back the content of a
    local file.  Under it, content of a local file reaches a list only through
    [OpenFile], hence only for an absolute location whose cleaned form matches
    a configured pattern; this is an invariant of the state along every
    history.  Without the hypothesis the property is refuted
    ([client_hypothesis_needed]: the witness is a client with a handler for the
    file scheme).  The harness evaluates the hypothesis, in its executable
    form [client_no_local_b], on the client that package home really builds.

    A marker names a content: "the content of the local file p is delivered"
    is "the marker delivered is the marker of p in [w_files]". *)
From Coq Require Import List NArith Bool Lia.
From AGH Require Import Base.Run Base.Bytes Base.PathClean Base.Glob Model.SafeFS
  Proofs.GlobCase Proofs.GlobClass Proofs.SafeFS.
Import ListNotations.
Local Open Scope N_scope.

(** * Vocabulary *)

(** [m] is the content of some local file of the world. *)
Definition local_content (w : world) (m : N) : Prop := exists p, lookup p (w_files w) = Some m.

(** The HTTP client never hands back the content of a local file. *)
Definition client_no_local (w : world) : Prop :=
  forall u m, lookup u (w_http w) = Some m -> ~ local_content w m.

(** Marker 0 is "no file in data/filters", never a content. *)
Definition markers_nonzero (w : world) : Prop := forall p, lookup p (w_files w) <> Some 0.

(** Different files have different contents (so that a content names its file). *)
Definition files_distinct (w : world) : Prop :=
  forall p p' m, lookup p (w_files w) = Some m -> lookup p' (w_files w) = Some m -> p = p'.

(** [m], if it is the content of a local file at all, is the content of a
    local file that a configured pattern matches. *)
Definition content_ok (w : world) (m : N) : Prop :=
  local_content w m -> exists p, lookup p (w_files w) = Some m /\ safe (w_pats w) p.

Definition entries (st : state) : list flt := s_block st ++ s_allow st.

(** Every list of the state holds, in data/filters, nothing or acceptable content. *)
Definition state_ok (w : world) (st : state) : Prop :=
  forall f, In f (entries st) -> content_ok w (f_loaded f).

(** * The executable form of the hypothesis *)

Lemma lookup_in k (l : list (bytes * N)) v : lookup k l = Some v -> In (k, v) l.
Proof.
  induction l as [|[k' v'] r IH]; cbn [lookup]; [discriminate|].
  destruct (eqb_bytes k k') eqn:E.
  - apply eqb_bytes_eq in E. subst k'. intros [= ->]. left. reflexivity.
  - intros H. right. apply IH, H.
Qed.

Lemma is_file_marker_spec files m :
  is_file_marker files m = false -> forall p, lookup p files <> Some m.
Proof.
  unfold is_file_marker. intros H p Hl. apply lookup_in in Hl.
  assert (existsb (fun x : bytes * N => snd x =? m) files = true) as Ht.
  { apply existsb_exists. exists (p, m). split; [exact Hl|]. cbn. apply N.eqb_refl. }
  congruence.
Qed.

Theorem client_no_local_b_sound w :
  client_no_local_b (w_files w) (w_http w) = true -> client_no_local w.
Proof.
  unfold client_no_local_b, client_no_local, local_content. intros H u m Hu (p & Hp).
  apply lookup_in in Hu. rewrite forallb_forall in H. specialize (H _ Hu). cbn in H.
  apply negb_true_iff in H. exact (is_file_marker_spec _ _ H p Hp).
Qed.

(** * The single decision *)

(** Under the hypothesis, if reading a location yields the content of a local
    file, the location is absolute, what was opened is its cleaned form, and a
    configured pattern matches that. *)
Theorem delivered_local_implies_safe w loc m :
  client_no_local w ->
  fetch w (reader (w_pats w) loc) = Some m -> local_content w m ->
  is_abs loc = true /\ reader (w_pats w) loc = OpenFile (clean loc) /\
  lookup (clean loc) (w_files w) = Some m /\ safe (w_pats w) (clean loc).
Proof.
  intros Hc Hf Hl. destruct (reader (w_pats w) loc) as [p|u|k] eqn:E; cbn [fetch] in Hf.
  - apply reader_open in E as (Ha & -> & Hs). auto.
  - exfalso. exact (Hc _ _ Hf Hl).
  - discriminate.
Qed.

(** With distinct contents: the file whose content arrived is the cleaned location. *)
Corollary delivered_local_is_cleaned_location w loc m p :
  client_no_local w -> files_distinct w ->
  fetch w (reader (w_pats w) loc) = Some m -> lookup p (w_files w) = Some m ->
  is_abs loc = true /\ p = clean loc /\ safe (w_pats w) p.
Proof.
  intros Hc Hd Hf Hp.
  destruct (delivered_local_implies_safe w loc m Hc Hf (ex_intro _ p Hp)) as (Ha & _ & Hl & Hs).
  rewrite (Hd _ _ _ Hp Hl). auto.
Qed.

(** No spelling that is not an absolute path delivers local content: relative
    paths and every scheme ([file:], [ftp:], ...). *)
Corollary nonabsolute_never_local w loc m :
  client_no_local w -> is_abs loc = false ->
  fetch w (reader (w_pats w) loc) = Some m -> ~ local_content w m.
Proof.
  intros Hc Ha Hf Hl. destruct (delivered_local_implies_safe w loc m Hc Hf Hl) as (Ha' & _).
  congruence.
Qed.

Lemma fetched_content_ok w loc m :
  client_no_local w -> fetch w (reader (w_pats w) loc) = Some m -> content_ok w m.
Proof.
  intros Hc Hf Hl. destruct (delivered_local_implies_safe w loc m Hc Hf Hl) as (_ & _ & H1 & H2).
  exists (clean loc). auto.
Qed.

(** * Where the loaded content of a state comes from *)

Lemma update_new w f ev m :
  update w f = (ev, UNew m) -> fetch w (reader (w_pats w) (f_url f)) = Some m.
Proof.
  unfold update. intros [= _ H].
  destruct (reader (w_pats w) (f_url f)) as [p|u|k] eqn:E.
  - destruct (fetch w (OpenFile p)) as [m'|]; [|discriminate].
    destruct (m' =? f_sum f); [discriminate|]. injection H as ->. reflexivity.
  - destruct (fetch w (HttpGet u)) as [m'|]; [|discriminate].
    destruct (m' =? f_sum f); [discriminate|]. injection H as ->. reflexivity.
  - destruct k; cbn in H; discriminate.
Qed.

(** The provenance of an entry after a step: it was there before, it has no
    file, or its file holds what reading some location yielded. *)
Definition provenance (w : world) (st : state) (f' : flt) : Prop :=
  (exists f, In f (entries st) /\ f_loaded f' = f_loaded f) \/
  f_loaded f' = 0 \/
  (exists loc, fetch w (reader (w_pats w) loc) = Some (f_loaded f')).

Lemma entries_set_list st white l f :
  In f (entries (set_list st white l)) -> In f l \/ In f (entries st).
Proof.
  unfold entries, set_list. destruct white; cbn; intros H; apply in_app_or in H as [H|H]; auto;
    right; apply in_or_app; auto.
Qed.

Lemma get_list_entries st white f : In f (get_list st white) -> In f (entries st).
Proof. unfold entries, get_list. destruct white; intros H; apply in_or_app; auto. Qed.

Lemma prov_old w st f : In f (entries st) -> provenance w st f.
Proof. intros H. left. exists f. auto. Qed.

Lemma replace_first_in old g l l' :
  replace_first old g l = Some l' ->
  forall x, In x l' -> In x l \/ exists f, In f l /\ x = g f.
Proof.
  revert l'. induction l as [|f r IH]; cbn [replace_first]; intros l'; [discriminate|].
  destruct (eqb_bytes (f_url f) old).
  - intros [= <-] x [<-|Hx]; [right; exists f; split; [left; reflexivity|reflexivity]|left; right; exact Hx].
  - destruct (replace_first old g r) as [r'|]; [|discriminate]. cbn. intros [= <-] x [<-|Hx].
    + left. left. reflexivity.
    + destruct (IH _ eq_refl x Hx) as [H|(f0 & H1 & H2)]; [left; right; exact H|].
      right. exists f0. split; [right; exact H1|exact H2].
Qed.

Lemma find_first_in old l f : find_first old l = Some f -> In f l.
Proof.
  induction l as [|g r IH]; cbn [find_first]; [discriminate|].
  destruct (eqb_bytes (f_url g) old); [intros [= ->]; left; reflexivity|intros H; right; apply IH, H].
Qed.

Lemma add_provenance w st loc white st' s evs :
  add w st loc white = (st', s, evs) -> forall f', In f' (entries st') -> provenance w st f'.
Proof.
  unfold add. destruct (validate_url _ _ _ loc) as [k|].
  - destruct k; intros [= <- _ _] f' H; apply prov_old, H.
  - destruct (url_exists st loc); [intros [= <- _ _] f' H; apply prov_old, H|].
    destruct (update w _) as [ev r] eqn:E.
    destruct r; try (intros [= <- _ _] f' H; apply prov_old, H).
    intros [= <- _ _] f' H. apply entries_set_list in H as [H|H]; [|apply prov_old, H].
    apply in_app_or in H as [H|[<-|[]]]; [apply prov_old, (get_list_entries _ _ _ H)|].
    right. right. exists loc. apply update_new in E. exact E.
Qed.

Lemma set_url_provenance w st old new en white st' s evs :
  set_url w st old new en white = (st', s, evs) ->
  forall f', In f' (entries st') -> provenance w st f'.
Proof.
  unfold set_url. destruct (validate_url _ _ _ new) as [k|].
  - destruct k; intros [= <- _ _] f' H; apply prov_old, H.
  - destruct (find_first old (get_list st white)) as [f|] eqn:Ef;
      [|intros [= <- _ _] f' H; apply prov_old, H].
    pose proof (get_list_entries _ _ _ (find_first_in _ _ _ Ef)) as Hf.
    destruct (negb (eqb_bytes (f_url f) new) && url_exists st new);
      [intros [= <- _ _] f' H; apply prov_old, H|].
    (* every way the entry is rewritten: [put g] with a known [f_loaded (g _)] *)
    assert (Hput : forall g, (forall x, provenance w st (g x)) ->
              forall f', In f' (entries match replace_first old g (get_list st white) with
                                        | Some l => set_list st white l
                                        | None => st
                                        end) -> provenance w st f').
    { intros g Hg f' H. destruct (replace_first old g (get_list st white)) as [l|] eqn:Er;
        [|apply prov_old, H].
      apply entries_set_list in H as [H|H]; [|apply prov_old, H].
      destruct (replace_first_in _ _ _ _ Er _ H) as [H1|(f0 & _ & ->)];
        [apply prov_old, (get_list_entries _ _ _ H1)|apply Hg]. }
    destruct en.
    + destruct (negb (eqb_bytes (f_url f) new) || negb (Bool.eqb (f_enabled f) true)).
      * destruct (update w _) as [ev r] eqn:E. destruct r.
        -- intros [= <- _ _] f' H. apply prov_old, H.
        -- intros [= <- _ _] f' H. apply prov_old, H.
        -- intros [= <- _ _]. apply Hput. intros _. right. left. reflexivity.
        -- intros [= <- _ _]. apply Hput. intros _. right. right. exists new.
           apply update_new in E. exact E.
      * intros [= <- _ _]. apply Hput. intros _. left. exists f. auto.
    + intros [= <- _ _]. apply Hput. intros _. left. exists f. auto.
Qed.

Lemma refresh_pass_sel_shape w sel l :
  map fst (fst (fst (refresh_pass_sel w sel l))) = l /\
  Forall (fun x => snd x = UErr \/ snd x = snd (update w (fst x)))
         (fst (fst (refresh_pass_sel w sel l))).
Proof.
  induction l as [|f r [IH1 IH2]]; cbn [refresh_pass_sel]; [split; constructor|].
  destruct (sel f).
  - destruct (update w f) as [ev res] eqn:E.
    destruct (refresh_pass_sel w sel r) as [[rs evs] dead]. cbn in IH1, IH2.
    assert (Hres : res = snd (update w f)) by (rewrite E; reflexivity).
    destruct res; cbn; try (split; [f_equal; exact IH1|constructor; [right; exact Hres|exact IH2]]).
    split.
    + f_equal. rewrite map_map. cbn. apply map_id.
    + constructor; [left; reflexivity|]. apply Forall_forall. intros x Hx.
      apply in_map_iff in Hx as (g & <- & _). left. reflexivity.
  - destruct (refresh_pass_sel w sel r) as [[rs evs] dead]. cbn in *.
    split; [f_equal; exact IH1|constructor; [left; reflexivity|exact IH2]].
Qed.

(** What a refresh pass writes back: the entry itself, or the entry with the
    content that reading its own location yielded. *)
Lemma applied_provenance w st l rs dead :
  map fst rs = l -> (forall f, In f l -> In f (entries st)) ->
  Forall (fun x => snd x = UErr \/ snd x = snd (update w (fst x))) rs ->
  forall f', In f' (map (apply_refresh dead) rs) -> provenance w st f'.
Proof.
  intros Hm Hl Hs f' H. apply in_map_iff in H as ([f r] & <- & Hx).
  assert (Hf : In f (entries st)).
  { apply Hl. rewrite <- Hm. apply in_map_iff. exists (f, r). auto. }
  rewrite Forall_forall in Hs. specialize (Hs _ Hx). cbn [fst snd] in Hs. cbn [apply_refresh].
  destruct r; try (apply prov_old, Hf).
  destruct Hs as [Hs|Hs]; [discriminate|].
  right. right. exists (f_url f). cbn. destruct (update w f) as [ev r'] eqn:E. cbn in Hs. subst r'.
  apply update_new in E. exact E.
Qed.

Lemma refresh_provenance w st white st' s evs :
  refresh w st white = (st', s, evs) -> forall f', In f' (entries st') -> provenance w st f'.
Proof.
  unfold refresh. pose proof (refresh_pass_shape w (get_list st white)) as [H1 H2].
  destruct (refresh_pass w (get_list st white)) as [[rs evs'] dead]. cbn in H1, H2.
  intros [= <- _ _] f' H. apply entries_set_list in H as [H|H]; [|apply prov_old, H].
  eapply applied_provenance; eauto. intros f. apply get_list_entries.
Qed.

Lemma provenance_trans w st st1 f' :
  (forall f, In f (entries st1) -> provenance w st f) -> provenance w st1 f' -> provenance w st f'.
Proof.
  intros H [(f & Hf & He)|[H0|H1]].
  - destruct (H _ Hf) as [(g & Hg & He')|[H0|(loc & Hl)]].
    + left. exists g. split; [exact Hg|congruence].
    + right. left. congruence.
    + right. right. exists loc. congruence.
  - right. left. exact H0.
  - right. right. exact H1.
Qed.

Lemma periodic_provenance w st due st' s evs :
  periodic w st due = (st', s, evs) -> forall f', In f' (entries st') -> provenance w st f'.
Proof.
  unfold periodic. pose proof (refresh_pass_sel_shape w (is_due due) (s_block st)) as [H1 H2].
  destruct (refresh_pass_sel w (is_due due) (s_block st)) as [[rs evs1] dead]. cbn in H1, H2.
  set (st1 := set_list st false (map (apply_refresh dead) rs)).
  assert (Hst1 : forall f, In f (entries st1) -> provenance w st f).
  { intros f H. apply entries_set_list in H as [H|H]; [|apply prov_old, H].
    eapply applied_provenance; eauto. intros g Hg. apply (get_list_entries st false), Hg. }
  destruct dead; [intros [= <- _ _]; exact Hst1|].
  pose proof (refresh_pass_sel_shape w (is_due due) (s_allow st1)) as [H3 H4].
  destruct (refresh_pass_sel w (is_due due) (s_allow st1)) as [[rs2 evs2] dead2]. cbn in H3, H4.
  intros [= <- _ _] f' H. unfold entries in H. cbn [s_block s_allow set_list] in H.
  apply in_app_or in H as [H|H].
  - apply Hst1. unfold entries. apply in_or_app. left. exact H.
  - apply provenance_trans with (st1 := st1); [exact Hst1|].
    eapply applied_provenance; eauto. intros g Hg. apply (get_list_entries st1 true), Hg.
Qed.

Theorem step_provenance w st o st' s evs :
  step w st o = (st', s, evs) -> forall f', In f' (entries st') -> provenance w st f'.
Proof.
  destruct o; cbn [step];
    [apply add_provenance|apply set_url_provenance|apply refresh_provenance|apply periodic_provenance].
Qed.

(** * The invariant *)

Lemma step_state_ok w st o st' s evs :
  client_no_local w -> markers_nonzero w ->
  step w st o = (st', s, evs) -> state_ok w st -> state_ok w st'.
Proof.
  intros Hc Hz Hs Hok f' Hf'.
  destruct (step_provenance _ _ _ _ _ _ Hs _ Hf') as [(f & Hf & ->)|[->|(loc & Hl)]].
  - apply Hok, Hf.
  - intros (p & Hp). exfalso. exact (Hz _ Hp).
  - eapply fetched_content_ok; eauto.
Qed.

(** In every world whose HTTP client hands back no local file, from every
    starting state that holds only acceptable content (an empty data
    directory, lists loaded from safe files, anything downloaded) and along
    every history of add / set-url / refresh / periodic refresh, with
    locations of any spelling and scheme, planted or offered: the lists never
    come to hold the content of a local file that no configured pattern
    matches. *)
Theorem loaded_local_content_safe w : client_no_local w -> markers_nonzero w ->
  forall ops st, state_ok w st -> state_ok w (fst (run w st ops)).
Proof.
  intros Hc Hz. induction ops as [|o r IH]; intros st Hok; cbn [run]; [exact Hok|].
  destruct (step w st o) as [[st1 s] evs] eqn:E.
  specialize (IH st1 (step_state_ok _ _ _ _ _ _ Hc Hz E Hok)).
  destruct (run w st1 r) as [st2 outs]. exact IH.
Qed.

(** With no patterns configured no content of a local file is ever loaded. *)
Theorem no_patterns_no_local_content w ops st f :
  client_no_local w -> markers_nonzero w -> w_pats w = [] ->
  (forall g, In g (entries st) -> ~ local_content w (f_loaded g)) ->
  In f (entries (fst (run w st ops))) -> ~ local_content w (f_loaded f).
Proof.
  intros Hc Hz Hp H0 Hf Hl.
  assert (Hok : state_ok w st) by (intros g Hg Hlg; exfalso; exact (H0 _ Hg Hlg)).
  destruct (loaded_local_content_safe w Hc Hz ops st Hok f Hf Hl) as (p & _ & (g & Hin & _)).
  rewrite Hp in Hin. exact Hin.
Qed.

(** With distinct contents, in the terms of the files themselves. *)
Corollary loaded_file_is_safe w ops st f p :
  client_no_local w -> markers_nonzero w -> files_distinct w -> state_ok w st ->
  In f (entries (fst (run w st ops))) -> lookup p (w_files w) = Some (f_loaded f) ->
  safe (w_pats w) p.
Proof.
  intros Hc Hz Hd Hok Hf Hp.
  destruct (loaded_local_content_safe w Hc Hz ops st Hok f Hf (ex_intro _ p Hp)) as (p' & Hp' & Hs).
  rewrite (Hd _ _ _ Hp Hp'). exact Hs.
Qed.

(** * The hypothesis is needed, and it is satisfiable *)

(** /x/b, not matched by anything; a client with a handler for the file scheme *)
Definition ex_secret : bytes := [47;120;47;98].
Definition ex_file_url : bytes := [102;105;108;101;58;47;47] ++ ex_secret.          (* file:///x/b *)
Definition ex_world_file_client : world :=
  {| w_pats := []; w_files := [(ex_secret, 2)]; w_dirs := []; w_http := [(ex_file_url, 2)]; w_urlok := [] |}.
Definition ex_planted_file_url : state :=
  {| s_block := [{| f_url := ex_file_url; f_enabled := true; f_loaded := 0; f_sum := 0 |}]; s_allow := [] |}.

(** Without the hypothesis the property fails: no patterns at all, a list from
    the configuration whose location is a [file:] URL, one refresh, and the
    list holds the content of the local file. *)
Theorem client_hypothesis_needed :
  exists w st ops, markers_nonzero w /\ w_pats w = [] /\ state_ok w st /\
                   ~ state_ok w (fst (run w st ops)).
Proof.
  exists ex_world_file_client, ex_planted_file_url, [ORefresh false]. repeat split.
  - intros p. cbn. destruct (eqb_bytes p ex_secret); discriminate.
  - intros f [<-|[]] (p & Hp). cbn in Hp. destruct (eqb_bytes p ex_secret); discriminate.
  - intros H.
    assert (Hin : In {| f_url := ex_file_url; f_enabled := true; f_loaded := 2; f_sum := 2 |}
                     (entries (fst (run ex_world_file_client ex_planted_file_url [ORefresh false]))))
      by (vm_compute; left; reflexivity).
    destruct (H _ Hin) as (p & _ & (g & [] & _)). exists ex_secret. reflexivity.
Qed.

Example client_hypothesis_refuted_there : ~ client_no_local ex_world_file_client.
Proof. intros H. apply (H ex_file_url 2 eq_refl). exists ex_secret. reflexivity. Qed.

(** The premises hold in a world where something happens: /s/a is safe and
    read, /x/b is not, an http list is fetched, the [file:] URL yields nothing. *)
Definition ex_http_url : bytes := [104;116;116;112;58;47;47;104;47;108].             (* http://h/l *)
Definition ex_world_ok : world :=
  {| w_pats := [[47;115;47;42]]; w_files := [([47;115;47;97], 1); (ex_secret, 2)]; w_dirs := [];
     w_http := [(ex_http_url, 100)]; w_urlok := [ex_http_url] |}.
Definition ex_planted_ok : state :=
  {| s_block := [{| f_url := ex_file_url; f_enabled := true; f_loaded := 0; f_sum := 0 |};
                 {| f_url := [47;115;47;46;47;97]; f_enabled := true; f_loaded := 0; f_sum := 0 |};
                 {| f_url := ex_secret; f_enabled := true; f_loaded := 0; f_sum := 0 |};
                 {| f_url := ex_http_url; f_enabled := true; f_loaded := 0; f_sum := 0 |}];
     s_allow := [] |}.

Example ex_premises_hold :
  client_no_local ex_world_ok /\ markers_nonzero ex_world_ok /\ files_distinct ex_world_ok /\
  state_ok ex_world_ok ex_planted_ok /\
  map f_loaded (s_block (fst (run ex_world_ok ex_planted_ok [ORefresh false]))) = [0; 1; 0; 100].
Proof.
  split; [apply client_no_local_b_sound; reflexivity|].
  split; [intros p; cbn; repeat (destruct (eqb_bytes p _); [discriminate|]); discriminate|].
  split.
  - intros p p' m. cbn.
    destruct (eqb_bytes p [47;115;47;97]) eqn:E1; destruct (eqb_bytes p' [47;115;47;97]) eqn:E2;
      destruct (eqb_bytes p ex_secret) eqn:E3; destruct (eqb_bytes p' ex_secret) eqn:E4;
      try apply eqb_bytes_eq in E1; try apply eqb_bytes_eq in E2;
      try apply eqb_bytes_eq in E3; try apply eqb_bytes_eq in E4; congruence.
  - split; [|reflexivity].
    intros f Hf (p & Hp). exfalso. cbn in Hf.
    assert (f_loaded f = 0) as Hz by (repeat (destruct Hf as [<-|Hf]; [reflexivity|]); destruct Hf).
    rewrite Hz in Hp. cbn in Hp. repeat (destruct (eqb_bytes p _); [discriminate|]). discriminate.
Qed.

(** * (H) The text of a pattern is not a licence *)

(** Whether a path is read is decided by the matcher alone.  That the path is,
    character for character, one of the configured patterns counts for
    nothing: if no pattern matches it, it is not opened. *)
Theorem pattern_text_no_licence pats loc :
  In (clean loc) pats ->
  (forall g, In g pats -> glob_match g (clean loc) <> GOk true) ->
  forall p, reader pats loc <> OpenFile p.
Proof.
  intros _ Hn p H. apply reader_open in H as (_ & -> & (g & Hin & Hm)). exact (Hn _ Hin Hm).
Qed.

(** The premises are satisfiable: a class, a negated class, an escape, each
    configured alone, do not match their own text; the file they do match is
    opened, the file named like the pattern is not. *)
Definition ex_pat_class : bytes := [47;108;47;91;97;98;93;46;116].       (* /l/[ab].t *)
Definition ex_pat_neg : bytes := [47;108;47;91;94;97;93;46;116].         (* /l/[^a].t *)
Definition ex_pat_esc : bytes := [47;108;47;92;42;46;116].               (* /l/\*.t  *)

Example ex_pattern_text_premises :
  In (clean ex_pat_class) [ex_pat_class] /\
  (forall g, In g [ex_pat_class] -> glob_match g (clean ex_pat_class) <> GOk true) /\
  glob_match ex_pat_class ex_pat_class = GOk false /\
  glob_match ex_pat_neg ex_pat_neg = GOk false /\
  glob_match ex_pat_esc ex_pat_esc = GOk false.
Proof.
  split; [left; reflexivity|]. split; [|repeat split; reflexivity].
  intros g [<-|[]]. vm_compute. discriminate.
Qed.

Example ex_pattern_text_rejected :
  reader [ex_pat_class] ex_pat_class = Reject RUnsafe /\
  reader [ex_pat_class] [47;108;47;97;46;116] = OpenFile [47;108;47;97;46;116] /\          (* /l/a.t *)
  reader [ex_pat_neg] ex_pat_neg = Reject RUnsafe /\
  reader [ex_pat_neg] [47;108;47;98;46;116] = OpenFile [47;108;47;98;46;116] /\            (* /l/b.t *)
  reader [ex_pat_esc] ex_pat_esc = Reject RUnsafe /\
  reader [ex_pat_esc] [47;108;47;42;46;116] = OpenFile [47;108;47;42;46;116].              (* /l/*.t *)
Proof. repeat split; reflexivity. Qed.

(** With the single pattern [lit1 ++ "[" ++ cs ++ "]" ++ lit2] (literal bytes
    around a class of plain ASCII members) whatever is opened is
    [lit1 ++ [c] ++ lit2] for a member [c]: one character in the place of the
    brackets; a location whose cleaned form is the pattern's own text is never
    opened.  The same for one escape. *)
Theorem class_pattern_opens_members lit1 cs lit2 loc p :
  forallb is_lit lit1 = true -> forallb is_cmember cs = true -> cs <> [] ->
  forallb is_lit lit2 = true ->
  reader [lit1 ++ c_lbr :: cs ++ c_rbr :: lit2] loc = OpenFile p ->
  exists c, In c cs /\ p = lit1 ++ c :: lit2 /\ p = clean loc.
Proof.
  intros H1 Hc Hne H2 H. apply reader_open in H as (_ & Hp & (g & [<-|[]] & Hm)).
  destruct (class_pattern_exact _ _ _ _ H1 Hc Hne H2 Hm) as (c & Hin & He). exists c. auto.
Qed.

Theorem class_pattern_own_text_rejected lit1 cs lit2 loc p :
  forallb is_lit lit1 = true -> forallb is_cmember cs = true -> cs <> [] ->
  forallb is_lit lit2 = true ->
  clean loc = lit1 ++ c_lbr :: cs ++ c_rbr :: lit2 ->
  reader [lit1 ++ c_lbr :: cs ++ c_rbr :: lit2] loc <> OpenFile p.
Proof.
  intros H1 Hc Hne H2 Hcl H. apply reader_open in H as (_ & -> & (g & [<-|[]] & Hm)).
  rewrite Hcl in Hm. exact (class_pattern_not_own_text _ _ _ H1 Hc Hne H2 Hm).
Qed.

Theorem escape_pattern_opens_escaped lit1 c lit2 loc p :
  forallb is_lit lit1 = true -> forallb is_lit lit2 = true ->
  reader [lit1 ++ c_bslash :: c :: lit2] loc = OpenFile p ->
  p = lit1 ++ c :: lit2 /\ p = clean loc.
Proof.
  intros H1 H2 H. apply reader_open in H as (_ & Hp & (g & [<-|[]] & Hm)).
  split; [apply escape_pattern_exact; assumption|exact Hp].
Qed.

Example ex_class_pattern_premises :
  forallb is_lit [47;108;47] = true /\ forallb is_cmember [97;98] = true /\
  forallb is_lit [46;116] = true /\
  reader [[47;108;47] ++ c_lbr :: [97;98] ++ c_rbr :: [46;116]] [47;108;47;46;47;97;46;116]
    = OpenFile [47;108;47;97;46;116] /\                                                       (* /l/./a.t *)
  clean ex_pat_class = [47;108;47] ++ c_lbr :: [97;98] ++ c_rbr :: [46;116].
Proof. repeat split; reflexivity. Qed.

(** C05: two explicit corollaries of the table checks.

    1. [sites_exclusive]: take ANY number of threads that only release what
       they hold ([balanced]; nothing else is asked of them, so they may also
       run through the access sites listed as findings).  In any state of any
       interleaving, two distinct threads are never *both* at access sites of
       the checked table that conflict (same field, at least one write): if
       thread 1 has executed the prefix [d1] of its program and holds at least
       the locks the table lists for site [a1], and thread 2 likewise for
       [a2], the state is not reachable.  Hence a race of the abstract machine
       always involves an access that is not a checked table entry.

    2. [only_listed_cycles]: every cycle of the acquired-while-held relation
       (re-entrant acquisitions are cycles of length one) goes through a pair
       that is listed as a known finding.

    Both are generic in the table; Proofs/LockTableInst.v instantiates them
    with the table extracted from the current source. *)
From Coq Require Import List String Bool Arith Lia.
From AGH Require Import Base.Conc Model.Guards Proofs.Conc Proofs.LockTable.
Import ListNotations.
Local Open Scope string_scope.
Local Open Scope list_scope.
Local Open Scope nat_scope.

(** * Threads that only release what they hold *)

Fixpoint balanced (h : held) (p : list event) : bool :=
  match p with
  | [] => true
  | Acq l m :: r => balanced ((l, m) :: h) r
  | Rel l m :: r => mem_lm (l, m) h && balanced (remove_one (l, m) h) r
  | Rd _ :: r | Wr _ :: r => balanced h r
  end.

(** the locks a thread holds after executing the events [d], starting with [h] *)
Fixpoint held_after (h : held) (d : list event) : held :=
  match d with
  | [] => h
  | Acq l m :: r => held_after ((l, m) :: h) r
  | Rel l m :: r => held_after (remove_one (l, m) h) r
  | Rd _ :: r | Wr _ :: r => held_after h r
  end.

Lemma held_after_app : forall d d' h,
  held_after h (d ++ d') = held_after (held_after h d) d'.
Proof.
  induction d as [|e d IH]; intros d' h; [reflexivity|].
  destruct e; cbn [app held_after]; apply IH.
Qed.

(** Conforming threads are balanced (the premise of the new theorem is weaker
    than the one of [table_race_free_ro]). *)
Lemma conforms_balanced : forall tbl p h, conforms tbl h p = true -> balanced h p = true.
Proof.
  intros tbl p; induction p as [|e p IH]; intros h H; [reflexivity|].
  destruct e as [l m|l m|f|f]; cbn [conforms balanced] in *.
  - apply IH; assumption.
  - apply andb_true_iff in H as [H1 H2]. rewrite H1; cbn. apply IH; assumption.
  - apply andb_true_iff in H as [_ H2]. apply IH; assumption.
  - apply andb_true_iff in H as [_ H2]. apply IH; assumption.
Qed.

(** * The invariant of Proofs/Conc.v, positional: thread i of the state is
    program i of [progs] after some prefix [d], and its ghost lock set is
    [held_after [] d]. *)

Definition at_prefix (p : list event) (h : held) (r : list event) : Prop :=
  exists d, p = d ++ r /\ h = held_after [] d /\ balanced h r = true.

Lemma at_prefix_acq : forall p h l m r,
  at_prefix p h (Acq l m :: r) -> at_prefix p ((l, m) :: h) r.
Proof.
  intros p h l m r (d & Hp & Hh & Hb). exists (d ++ [Acq l m]).
  split; [rewrite <- app_assoc; exact Hp|]. split; [|exact Hb].
  rewrite held_after_app, <- Hh. reflexivity.
Qed.

Lemma at_prefix_rel : forall p h l m r,
  at_prefix p h (Rel l m :: r) ->
  mem_lm (l, m) h = true /\ at_prefix p (remove_one (l, m) h) r.
Proof.
  intros p h l m r (d & Hp & Hh & Hb). cbn [balanced] in Hb.
  apply andb_true_iff in Hb as [Hm Hb]. split; [exact Hm|].
  exists (d ++ [Rel l m]).
  split; [rewrite <- app_assoc; exact Hp|]. split; [|exact Hb].
  rewrite held_after_app, <- Hh. reflexivity.
Qed.

Lemma at_prefix_rd : forall p h f r, at_prefix p h (Rd f :: r) -> at_prefix p h r.
Proof.
  intros p h f r (d & Hp & Hh & Hb). exists (d ++ [Rd f]).
  split; [rewrite <- app_assoc; exact Hp|]. split; [|exact Hb].
  rewrite held_after_app, <- Hh. reflexivity.
Qed.

Lemma at_prefix_wr : forall p h f r, at_prefix p h (Wr f :: r) -> at_prefix p h r.
Proof.
  intros p h f r (d & Hp & Hh & Hb). exists (d ++ [Wr f]).
  split; [rewrite <- app_assoc; exact Hp|]. split; [|exact Hb].
  rewrite held_after_app, <- Hh. reflexivity.
Qed.

Definition pinv (progs : list (list event)) (s : state) : Prop :=
  exists its : list ithread,
    map snd its = threads s /\
    Forall2 (fun p it => at_prefix p (fst it) (rest (snd it)) /\ ann_ok (snd it)) progs its /\
    forall l, lockok (locks s l) (total (l, W) its) (total (l, R) its) (ptotal l its).

Lemma pinv_init : forall progs,
  Forall (fun p => balanced [] p = true) progs -> pinv progs (init progs).
Proof.
  intros progs HF.
  exists (map (fun p => ([], TH false p)) progs); cbn [init threads locks].
  split; [rewrite map_map; reflexivity|]. split.
  - induction HF as [|p ps Hp _ IH]; cbn [map]; constructor; [|exact IH].
    cbn [fst snd rest]. split; [|apply ann_ok_false].
    exists []. repeat split; assumption.
  - intros l.
    assert (Ht : forall x, total x (map (fun p => ([], TH false p)) progs) = 0)
      by (clear; intros x; induction progs; simpl; auto).
    assert (Hp : ptotal l (map (fun p => ([], TH false p)) progs) = 0)
      by (clear; induction progs; simpl; auto).
    rewrite !Ht, Hp. unfold lockok, l0; simpl. intuition congruence.
Qed.

Lemma pinv_step : forall progs s s', step s s' -> pinv progs s -> pinv progs s'.
Proof.
  intros progs s s' Hs (its & Hm & HF & HL); destruct Hs as [lt lt' pre th th' post Ht].
  cbn [threads locks] in *.
  apply map_eq_app in Hm as (ipre & itl & -> & Hpre & Htl).
  apply map_eq_cons in Htl as ([h th0] & ipost & -> & Hit & Hpost).
  cbn [snd] in Hit; subst th0.
  apply Forall2_app_inv_r in HF as (ppre & ptl & HFpre & HFtl & ->).
  inversion HFtl as [|p x ps xs [HP _] HFpost]; subst. cbn [fst snd] in HP.
  destruct (tstep_inv (at_prefix p) (at_prefix_acq p) (at_prefix_rel p)
              (at_prefix_rd p) (at_prefix_wr p) _ _ _ _ Ht h HP)
    as (h' & HP' & Ha' & HL').
  exists (ipre ++ (h', th') :: ipost).
  split; [rewrite map_app; simpl; try congruence; subst; reflexivity|].
  split.
  - apply Forall2_app; [assumption|]. constructor; [split; assumption|assumption].
  - intros l. specialize (HL l). specialize (HL' l).
    rewrite !total_app, ptotal_app in *. simpl in *.
    eapply lockok_ext; [| | |apply HL'].
    4: eapply lockok_ext; [| | |apply HL].
    4-6: rewrite Nat.add_comm, <- Nat.add_assoc; reflexivity.
    all: lia.
Qed.

Lemma pinv_reachable : forall progs,
  Forall (fun p => balanced [] p = true) progs ->
  forall s, reachable (init progs) s -> pinv progs s.
Proof.
  intros progs HF s Hr; induction Hr.
  - apply pinv_init; assumption.
  - eapply pinv_step; eassumption.
Qed.

Lemma Forall2_nth_error : forall (A B : Type) (R : A -> B -> Prop) l l' n a b,
  Forall2 R l l' -> nth_error l n = Some a -> nth_error l' n = Some b -> R a b.
Proof.
  intros A B R l l' n a b HF; revert n; induction HF as [|x y l l' Hxy _ IH]; intros n Ha Hb.
  - destruct n; discriminate.
  - destruct n as [|n]; cbn [nth_error] in *.
    + inversion Ha; inversion Hb; subst; assumption.
    + eapply IH; eassumption.
Qed.

(** Two distinct threads, by position: what each holds is determined by the
    prefix of its own program it has executed, and no lock is held by both
    when one of them holds it in write mode. *)
Lemma pinv_two : forall progs s pre t1 mid t2 post p1 p2 d1 d2,
  pinv progs s ->
  threads s = pre ++ t1 :: mid ++ t2 :: post ->
  nth_error progs (List.length pre) = Some p1 ->
  nth_error progs (List.length pre + S (List.length mid)) = Some p2 ->
  p1 = d1 ++ rest t1 -> p2 = d2 ++ rest t2 ->
  forall g,
    ~ (1 <= cnt (g, W) (held_after [] d1) /\
       1 <= cnt (g, W) (held_after [] d2) + cnt (g, R) (held_after [] d2)) /\
    ~ (1 <= cnt (g, W) (held_after [] d2) /\
       1 <= cnt (g, W) (held_after [] d1) + cnt (g, R) (held_after [] d1)).
Proof.
  intros progs s pre t1 mid t2 post p1 p2 d1 d2 (its & Hm & HF & HL) Hth Hn1 Hn2 Hp1 Hp2.
  rewrite Hth in Hm.
  apply map_eq_app in Hm as (i1 & itl & -> & Hi1 & Htl).
  apply map_eq_cons in Htl as ([h1 x1] & itl2 & -> & Hx1 & Htl2).
  apply map_eq_app in Htl2 as (i2 & itl3 & -> & Hi2 & Htl3).
  apply map_eq_cons in Htl3 as ([h2 x2] & i3 & -> & Hx2 & _).
  cbn [snd] in Hx1, Hx2; subst x1 x2.
  assert (L1 : List.length i1 = List.length pre) by (rewrite <- Hi1; symmetry; apply map_length).
  assert (L2 : List.length i2 = List.length mid) by (rewrite <- Hi2; symmetry; apply map_length).
  assert (N1 : nth_error (i1 ++ (h1, t1) :: i2 ++ (h2, t2) :: i3) (List.length pre) = Some (h1, t1)).
  { rewrite <- L1. rewrite nth_error_app2 by lia. rewrite Nat.sub_diag. reflexivity. }
  assert (N2 : nth_error (i1 ++ (h1, t1) :: i2 ++ (h2, t2) :: i3)
                 (List.length pre + S (List.length mid)) = Some (h2, t2)).
  { rewrite <- L1, <- L2. rewrite nth_error_app2 by lia.
    replace (List.length i1 + S (List.length i2) - List.length i1) with (S (List.length i2)) by lia.
    cbn [nth_error]. rewrite nth_error_app2 by lia. rewrite Nat.sub_diag. reflexivity. }
  destruct (Forall2_nth_error _ _ _ _ _ _ _ _ HF Hn1 N1) as [(e1 & E1 & Hh1 & _) _].
  destruct (Forall2_nth_error _ _ _ _ _ _ _ _ HF Hn2 N2) as [(e2 & E2 & Hh2 & _) _].
  cbn [fst snd] in *.
  rewrite Hp1 in E1. apply app_inv_tail in E1. subst e1.
  rewrite Hp2 in E2. apply app_inv_tail in E2. subst e2.
  subst h1 h2.
  intros g. specialize (HL g).
  rewrite !total_app in HL; simpl in HL; rewrite !total_app in HL; simpl in HL.
  destruct HL as (Hwt & Hwf & Hx & _ & _).
  destruct (writer (locks s g)).
  - specialize (Hwt eq_refl). split; intros [A B]; lia.
  - specialize (Hwf eq_refl). split; intros [A B]; lia.
Qed.

(** * Conflicting checked sites are mutually exclusive *)

Lemma write_site_cnt : forall ro a h,
  access_ok_ro ro a = true -> a_write a = true -> subset_held (a_held a) h = true ->
  ro (a_field a) = false /\ guards (a_field a) <> [] /\
  forall g, In g (guards (a_field a)) -> 1 <= cnt (g, W) h.
Proof.
  intros ro a h Hok Hw Hs. unfold access_ok_ro in Hok. rewrite Hw in Hok.
  apply andb_true_iff in Hok as [Hro Hg].
  split; [destruct (ro (a_field a)); [discriminate|reflexivity]|].
  destruct (guards (a_field a)) as [|g0 gs] eqn:E; [discriminate|].
  split; [discriminate|]. intros g Hin.
  rewrite forallb_forall in Hg. apply mem_cnt.
  change (holds_w h g = true). eapply subset_holds_w; [exact Hs|apply Hg; exact Hin].
Qed.

Lemma read_site_cnt : forall ro a h,
  access_ok_ro ro a = true -> a_write a = false -> subset_held (a_held a) h = true ->
  ro (a_field a) = true \/
  exists g, In g (guards (a_field a)) /\ 1 <= cnt (g, W) h + cnt (g, R) h.
Proof.
  intros ro a h Hok Hw Hs. unfold access_ok_ro in Hok. rewrite Hw in Hok.
  apply orb_true_iff in Hok as [Hro|Hg]; [left; exact Hro|right].
  apply existsb_exists in Hg as (g & Hin & Hh).
  exists g; split; [exact Hin|]. apply holds_cnt. eapply subset_holds; eassumption.
Qed.

Theorem sites_exclusive : forall ro tbl,
  forallb (access_ok_ro ro) tbl = true ->
  forall progs, Forall (fun p => balanced [] p = true) progs ->
  forall s, reachable (init progs) s ->
  forall pre t1 mid t2 post, threads s = pre ++ t1 :: mid ++ t2 :: post ->
  forall p1 p2 d1 d2,
    nth_error progs (List.length pre) = Some p1 ->
    nth_error progs (List.length pre + S (List.length mid)) = Some p2 ->
    p1 = d1 ++ rest t1 -> p2 = d2 ++ rest t2 ->
  forall a1 a2, In a1 tbl -> In a2 tbl ->
    a_field a1 = a_field a2 -> (a_write a1 || a_write a2) = true ->
    subset_held (a_held a1) (held_after [] d1) = true ->
    subset_held (a_held a2) (held_after [] d2) = true ->
    False.
Proof.
  intros ro tbl Hok progs HF s Hr pre t1 mid t2 post Hth p1 p2 d1 d2 Hn1 Hn2 Hp1 Hp2
         a1 a2 Hin1 Hin2 Hf Hw Hs1 Hs2.
  pose proof (pinv_two progs s pre t1 mid t2 post p1 p2 d1 d2
                (pinv_reachable progs HF s Hr) Hth Hn1 Hn2 Hp1 Hp2) as Hex.
  rewrite forallb_forall in Hok.
  pose proof (Hok a1 Hin1) as Hok1. pose proof (Hok a2 Hin2) as Hok2.
  destruct (a_write a1) eqn:W1; destruct (a_write a2) eqn:W2; try discriminate.
  - destruct (write_site_cnt ro a1 _ Hok1 W1 Hs1) as (_ & Hne & A1).
    destruct (write_site_cnt ro a2 _ Hok2 W2 Hs2) as (_ & _ & A2).
    rewrite <- Hf in A2.
    destruct (guards (a_field a1)) as [|g gs]; [congruence|].
    destruct (Hex g) as [H _]. apply H. split.
    + apply A1; left; reflexivity.
    + specialize (A2 g (or_introl eq_refl)). lia.
  - destruct (write_site_cnt ro a1 _ Hok1 W1 Hs1) as (Hro & _ & A1).
    destruct (read_site_cnt ro a2 _ Hok2 W2 Hs2) as [A2|(g & Hin & A2)];
      rewrite <- Hf in *; [congruence|].
    destruct (Hex g) as [H _]. apply H. split; [apply A1; assumption|assumption].
  - destruct (write_site_cnt ro a2 _ Hok2 W2 Hs2) as (Hro & _ & A2).
    destruct (read_site_cnt ro a1 _ Hok1 W1 Hs1) as [A1|(g & Hin & A1)];
      rewrite Hf in *; [congruence|].
    destruct (Hex g) as [_ H]. apply H. split; [apply A2; assumption|assumption].
Qed.

(** The premises are satisfiable up to the last one: two balanced threads that
    both go to a write site of the same field; thread 1 has reached it holding
    the guard, thread 2 is still in front of the lock. *)
Example sites_exclusive_example :
  let tbl := [Access "r" "fn" "querylog.queryLog.buffer" true
                [("querylog.queryLog.bufferLock", W)] "x.go:1"] in
  let p := [Acq "querylog.queryLog.bufferLock" W; Wr "querylog.queryLog.buffer";
            Rel "querylog.queryLog.bufferLock" W] in
  forallb (access_ok_ro (never_written tbl)) tbl = true /\
  Forall (fun p => balanced [] p = true) [p; p] /\
  subset_held [("querylog.queryLog.bufferLock", W)]
    (held_after [] [Acq "querylog.queryLog.bufferLock" W]) = true /\
  subset_held [("querylog.queryLog.bufferLock", W)] (held_after [] []) = false.
Proof.
  cbn zeta. split; [reflexivity|]. split; [|split; reflexivity].
  constructor; [reflexivity|]. constructor; [reflexivity|]. constructor.
Qed.

(** * Lock-order cycles *)

(** [chain l c = Some l']: the pairs of [c] form a path from [l] to [l'] in
    the acquired-while-held relation (each pair is acquired while the previous
    target is held). *)
Fixpoint chain (l : lock) (c : list order_pair) : option lock :=
  match c with
  | [] => Some l
  | o :: r => if String.eqb (fst (o_held o)) l then chain (fst (o_acq o)) r else None
  end.

Definition cycle (c : list order_pair) : Prop :=
  c <> [] /\ exists l, chain l c = Some l.

Lemma chain_rank : forall rank c l l',
  forallb (order_ok rank) c = true -> chain l c = Some l' ->
  rank l <= rank l' /\ (c <> [] -> rank l < rank l').
Proof.
  intros rank c; induction c as [|o c IH]; intros l l' Hok Hc.
  - inversion Hc; subst. split; [lia|congruence].
  - cbn [chain] in Hc. cbn [forallb] in Hok. apply andb_true_iff in Hok as [Ho Hok].
    destruct (String.eqb (fst (o_held o)) l) eqn:E; [|discriminate].
    apply String.eqb_eq in E. subst l.
    destruct (IH _ _ Hok Hc) as [Hle _].
    unfold order_ok in Ho. apply Nat.ltb_lt in Ho. split; [lia|intros _; lia].
Qed.

Theorem only_listed_cycles : forall rank known ord,
  forallb (order_ok rank) (checked_order known ord) = true ->
  forall c, incl c ord -> cycle c ->
  exists o, In o c /\ listed known (order_key o) = true.
Proof.
  intros rank known ord Hok c Hincl [Hne (l & Hc)].
  destruct (existsb (fun o => listed known (order_key o)) c) eqn:E.
  - apply existsb_exists in E as (o & Hin & Ho). exists o; split; assumption.
  - exfalso.
    assert (Hall : forallb (order_ok rank) c = true).
    { apply forallb_forall. intros o Hin.
      rewrite forallb_forall in Hok. apply Hok.
      unfold checked_order. apply filter_In. split; [apply Hincl; exact Hin|].
      apply negb_true_iff.
      destruct (listed known (order_key o)) eqn:L; [|reflexivity].
      assert (existsb (fun o => listed known (order_key o)) c = true)
        by (apply existsb_exists; exists o; split; assumption).
      congruence. }
    destruct (chain_rank rank c l l Hall Hc) as [_ Hlt]. specialize (Hlt Hne). lia.
Qed.

(** The definition is not vacuous: an ABBA pair and a re-entrant acquisition
    are cycles, a properly nested pair is not part of one. *)
Example cycle_example :
  let ab := OrderPair "r" "f" ("a", W) ("b", W) "x.go:1" in
  let ba := OrderPair "r" "g" ("b", W) ("a", W) "x.go:2" in
  let ll := OrderPair "r" "h" ("l", R) ("l", R) "x.go:3" in
  cycle [ab; ba] /\ cycle [ll] /\ ~ cycle [ab].
Proof.
  cbn zeta. split; [|split].
  - split; [discriminate|]. exists "a". reflexivity.
  - split; [discriminate|]. exists "l". reflexivity.
  - intros [_ (l & H)]. cbn [chain fst o_held o_acq] in H.
    destruct (String.eqb "a" l) eqn:E; [|discriminate].
    apply String.eqb_eq in E. subst l. discriminate.
Qed.

(** C10: the file is current after every operation of every history, and
    static leases change only through the static-lease operations. *)
From Coq Require Import List ZArith NArith Bool Lia Permutation.
From AGH Require Import Base.Run Model.Dhcp4 Proofs.Dhcp4 Proofs.Dhcp4Names.
Import ListNotations.
Local Open Scope N_scope.

(** * UpdateStaticLease cannot fail after it removed the old lease *)

Lemma validate_static_host c mac ip host s h :
  validate_static c mac ip host s = Some h ->
  in_subnet c ip = true /\
  (hidx (ix s) h = None \/
   exists dip d, hidx (ix s) h = Some dip /\ In d (leases s) /\ l_ip d = dip /\ l_mac d = mac).
Proof.
  intros V. destruct (validate_static_some _ _ _ _ _ _ V) as (_ & Hsub & _). split; auto.
  unfold validate_static in V. destruct (normalize host) as [n|]; [|discriminate].
  destruct (negb (valid_hostname n)); [discriminate|].
  destruct (hidx (ix s) n) as [dip|] eqn:Eh.
  - destruct (lease_by_ip dip (leases s)) as [d|] eqn:El; [|discriminate].
    destruct (N.eqb_spec (l_mac d) mac) as [Em|]; cbn [negb] in V; [|discriminate].
    assert (n = h).
    { destruct (iidx (ix s) ip && _); [discriminate|]. destruct (ip =? c_gw c); [discriminate|].
      destruct (negb (in_subnet c ip)); [discriminate|]. congruence. }
    subst n. apply lease_by_ip_some in El as [? ?]. right. exists dip, d. auto.
  - assert (n = h).
    { destruct (iidx (ix s) ip && _); [discriminate|]. destruct (ip =? c_gw c); [discriminate|].
      destruct (negb (in_subnet c ip)); [discriminate|]. congruence. }
    subst n. auto.
Qed.

Lemma rm_lease_hidx c ip mac host s s1 :
  rm_lease c ip mac host s = Some s1 ->
  (s1 = s /\ leases s = []) \/
  exists l, In l (leases s) /\ l_mac l = mac /\ hidx (ix s1) = hupd (hidx (ix s)) (l_host l) None.
Proof.
  unfold rm_lease. destruct (leases s) as [|a0 r0] eqn:EL0; cbn [is_nil]; [intros H; inversion H; auto|].
  rewrite <- EL0 in *. clear EL0 a0 r0.
  destruct (find_index _ (leases s)) as [[i l]|] eqn:Ef; [|discriminate].
  destruct ((l_mac l =? mac) && eqb_bytes (l_host l) host) eqn:Ec; [|discriminate].
  intros H; inversion H; subst. right.
  apply find_index_some in Ef as [Ei _]. apply andb_true_iff in Ec as [Em _]. apply N.eqb_eq in Em.
  exists l. split; [eapply nth_error_In; eauto|]. split; auto.
  unfold rm_lease_by_index. rewrite Ei. reflexivity.
Qed.

(** Once validateStaticLease has accepted the lease and the old lease of the
    client is removed, addLease cannot fail: in reachable states
    UpdateStaticLease never returns after a change without storing. *)
Lemma static_update_no_late_failure c mac ip host s fi found h s1 :
  FullInv c s -> live mac = true ->
  find_lease mac (leases s) = Some (fi, found) ->
  validate_static c mac ip host s = Some h ->
  rm_lease c (l_ip found) (l_mac found) (l_host found) s = Some s1 ->
  exists s2, add_lease c (Lease ip mac h true exp_zero) s1 = Some s2.
Proof.
  intros [I H] Hlive Ef Ev Er.
  apply find_index_some in Ef as [Efi Efm]. cbn in Efm. apply N.eqb_eq in Efm.
  destruct (validate_static_host _ _ _ _ _ _ Ev) as [Hsub Hh].
  apply add_lease_ok; [exact Hsub|]. cbn [l_host].
  destruct (rm_lease_hidx _ _ _ _ _ _ Er) as [[_ E0]|(l & Hl & Elm & Ehx)].
  { rewrite E0 in Efi. destruct fi; discriminate. }
  right. rewrite Ehx.
  destruct Hh as [Hn|(dip & d & Ehd & Hd & Edi & Edm)].
  - rewrite hupd_eq. destruct (eqb_bytes h (l_host l)); auto.
  - (* the entry for [h] points to the client's own lease, which is the one removed *)
    assert (d = l).
    { eapply (one_holder c s I); eauto. right. split; [congruence|]. rewrite Edm. exact Hlive. }
    subst d.
    apply H in Ehd as [_ Hin]. apply in_map_iff in Hin as (l' & E & Hl'). inversion E; subst.
    assert (l' = l) by (eapply (one_holder c s I); eauto). subst l'.
    apply hupd_same.
Qed.

(** * The file is current *)

(** The file lists exactly the leases in memory, each once (expiry at whole
    seconds, none for static leases). *)
Definition FileCurrent (s : state) : Prop := Permutation (disk s) (map db_lease (leases s)).

Lemma store_current s : FileCurrent (store s).
Proof. apply store_list_perm. Qed.

Lemma trunc_s_idem e : trunc_s (trunc_s e) = trunc_s e.
Proof. unfold trunc_s. rewrite Z.div_mul by (unfold ns_per_s; lia). reflexivity. Qed.

Lemma db_lease_idem l : db_lease (db_lease l) = db_lease l.
Proof.
  unfold db_lease. cbn [set_exp l_static l_exp l_ip l_mac l_host].
  destruct (l_static l); [reflexivity|]. rewrite trunc_s_idem. reflexivity.
Qed.

Lemma load_disk c d : disk (load c d) = d.
Proof.
  unfold load.
  assert (H : forall d' s, disk (fold_left (load_step c) d' s) = disk s).
  { induction d' as [|l d' IH]; intros s; cbn; auto. rewrite IH. unfold load_step.
    destruct (valid_mac (l_mac l)); auto.
    destruct (add_lease c (reload_lease l) s) eqn:E; auto. apply add_lease_some in E; tauto. }
  rewrite H. reflexivity.
Qed.

(** Reloading any file that lists the table restores exactly that file. *)
Lemma load_current_leases c s d :
  FullInv c s -> NamesStable (leases s) -> Permutation d (map db_lease (leases s)) ->
  leases (load c d) = d.
Proof.
  intros [I H] St P. unfold load.
  assert (Pn : forall p, In p (names d) <-> In p (names (leases s))).
  { intros p. rewrite <- (names_db (leases s)). split; intros Hp.
    - eapply Permutation_in; [apply Permutation_map, P|exact Hp].
    - eapply Permutation_in; [apply Permutation_map, Permutation_sym, P|exact Hp]. }
  rewrite load_fold_all; cbn [leases ix hidx empty_index app]; auto.
  - unfold HInv; cbn. intros h ip. split; [discriminate|intros [_ []]].
  - intros l Hl. eapply Permutation_in in Hl; [|exact P].
    apply in_map_iff in Hl as (l0 & <- & Hl0). pose proof I as [[_ _ C D E] _ _].
    split; [|split].
    + unfold reload_lease. cbn [db_lease set_exp l_static l_host l_ip].
      destruct (l_static l0) eqn:Es; cbn [negb andb]; auto.
      destruct (is_nil (l_host l0)) eqn:En; cbn [negb]; auto.
      rewrite (St l0 Hl0 Es); [destruct l0; reflexivity|].
      intros E'. rewrite E' in En. discriminate.
    + unfold range_ok. cbn. destruct (l_static l0) eqn:Es; [apply D|apply C]; auto.
    + exact (mac_ok_valid l0 (E l0 Hl0)).
  - eapply Permutation_NoDup; [apply Permutation_sym, Permutation_map, P|].
    fold (ips (map db_lease (leases s))). rewrite ips_db. apply I.
  - apply HInv_unique with (hi := hidx (ix s)).
    eapply HInv_mem; [|exact H]. intros p. symmetry. apply Pn.
Qed.

Lemma restart_current c s :
  FullInv c s -> NamesStable (leases s) -> FileCurrent s -> FileCurrent (restart c s).
Proof.
  intros F St P. unfold FileCurrent, restart in *.
  rewrite load_disk, (load_current_leases c s (disk s) F St P).
  eapply Permutation_trans; [exact P|].
  eapply Permutation_trans; [|apply Permutation_map, Permutation_sym, P].
  rewrite map_map. erewrite map_ext; [reflexivity|]. intros l. symmetry. apply db_lease_idem.
Qed.

Theorem step_current c s now busy o :
  FullInv c s -> op_ok o -> NamesStable (leases s) -> FileCurrent s ->
  FileCurrent (fst (step c s now busy o)).
Proof.
  intros F Ho St P. destruct o; cbn [step fst]; cbn in Ho; auto.
  - unfold discover. destruct (find_lease mac (leases s)) as [[? ?]|]; [apply store_current|].
    destruct (allocate _ c now busy mac s) as [s' r]; destruct r; apply store_current.
  - unfold request. destruct (request_lease c mac sid reqip ciaddr s) as [r|[i l]]; cbn; auto.
    destruct (l_static l); apply store_current.
  - unfold decline. destruct (find_index _ (leases s)) as [[? old]|]; [|apply store_current].
    destruct (rm_dynamic_lease c _ _ _ s) as [s1 e]. destruct e; [apply store_current|].
    destruct (allocate _ c now busy mac s1) as [s2 r]; destruct r; apply store_current.
  - unfold release. destruct (find_index _ (leases s)) as [[? old]|]; [|apply store_current].
    destruct (rm_dynamic_lease c _ _ _ s) as [s1 e]. destruct e; apply store_current.
  - unfold static_add. destruct (ip =? c_gw c); cbn; auto.
    destruct (valid_mac mac); cbn; auto.
    destruct (if is_nil host then Some [] else _) as [h|]; cbn; auto.
    destruct (rm_dynamic_lease c mac ip h s) as [s1 e]. destruct e; [apply store_current|].
    destruct (add_lease c _ s1); apply store_current.
  - unfold static_update. destruct (find_lease mac (leases s)) as [[fi found]|] eqn:Ef; cbn; auto.
    destruct (validate_static c mac ip host s) as [h|] eqn:Ev; cbn; auto.
    destruct (rm_lease c _ _ _ s) as [s1|] eqn:Er; cbn; auto.
    destruct (static_update_no_late_failure _ _ _ _ _ _ _ _ _ F Ho Ef Ev Er) as (s2 & ->).
    apply store_current.
  - unfold static_remove. destruct (valid_mac mac); cbn; auto.
    destruct (rm_lease c ip mac host s) as [s1|]; cbn; auto. apply store_current.
  - apply restart_current; auto.
Qed.

(** After every operation of any history (hence after every prefix of it). *)
Theorem file_current_reachable c h : hist_ok h -> FileCurrent (run c h empty_state).
Proof.
  assert (G : forall s, hist_ok h -> FullInv c s -> NamesStable (leases s) -> FileCurrent s ->
                        FileCurrent (run c h s)).
  { unfold run. induction h as [|[[now busy] o] h IH]; intros s Hh F St P; cbn; auto.
    inversion Hh; subst.
    apply IH; [assumption|apply step_full|apply step_names|apply step_current]; auto. }
  intros Hh. apply G; [assumption|apply empty_state_full|intros l []|constructor].
Qed.

(** * Static leases change only through the static-lease operations *)

(** The reservations: (address, hardware address, hostname) of the static leases. *)
Definition statics (L : list lease) : list (N * N * bytes) :=
  map (fun l => (l_ip l, l_mac l, l_host l)) (filter l_static L).

Definition static_op (o : op) : bool :=
  match o with OStaticAdd _ _ _ | OStaticUpdate _ _ _ | OStaticRemove _ _ _ => true | _ => false end.

Lemma statics_app a b : statics (a ++ b) = statics a ++ statics b.
Proof. unfold statics. rewrite filter_app, map_app. reflexivity. Qed.

Lemma statics_add c l s s' :
  add_lease c l s = Some s' -> l_static l = false -> statics (leases s') = statics (leases s).
Proof.
  intros Ea Hs. apply add_lease_some in Ea as (-> & _). rewrite statics_app.
  unfold statics at 2. cbn. rewrite Hs. cbn. apply app_nil_r.
Qed.

Lemma rm_dyn_statics c mac ip host ls x :
  statics (fst (fst (rm_dyn c mac ip host ls x))) = statics ls.
Proof.
  revert x; induction ls as [|l r IH]; intros x; cbn [rm_dyn]; [reflexivity|].
  destruct ((l_mac l =? mac) || (l_ip l =? ip)).
  - destruct (l_static l) eqn:Es; cbn [fst]; [reflexivity|].
    rewrite IH. unfold statics. cbn. rewrite Es. reflexivity.
  - destruct (negb (l_static l) && negb (is_nil (l_host l)) && eqb_bytes (l_host l) host) eqn:Ec.
    + specialize (IH (Index (hupd (hidx x) (l_host l) None) (iidx x) (offs x))).
      destruct (rm_dyn c mac ip host r _) as [[r' x'] e]. cbn [fst] in *.
      apply andb_true_iff in Ec as [Ec _]. apply andb_true_iff in Ec as [Ec _].
      apply negb_true_iff in Ec. unfold statics in *. cbn. rewrite Ec. exact IH.
    + specialize (IH x). destruct (rm_dyn c mac ip host r x) as [[r' x'] e]. cbn [fst] in *.
      unfold statics in *. cbn. destruct (l_static l); cbn; congruence.
Qed.

Lemma rm_dynamic_statics c mac ip host s :
  statics (leases (fst (rm_dynamic_lease c mac ip host s))) = statics (leases s).
Proof.
  unfold rm_dynamic_lease. pose proof (rm_dyn_statics c mac ip host (leases s) (ix s)) as H.
  destruct (rm_dyn c mac ip host (leases s) (ix s)) as [[ls x] e]. exact H.
Qed.

Lemma statics_update_dynamic i f L l :
  nth_error L i = Some l -> l_static l = false -> l_static (f l) = false ->
  statics (update_nth i f L) = statics L.
Proof.
  intros E Hs Hf. destruct (nth_error_split' _ _ _ E) as (l1 & l2 & -> & <-).
  rewrite update_nth_split, !statics_app. f_equal.
  unfold statics. cbn. rewrite Hs, Hf. reflexivity.
Qed.

Lemma reserve_statics c now mac s :
  statics (leases (fst (reserve c now mac s))) = statics (leases s).
Proof.
  unfold reserve. destruct (next_ip c s) as [ip|].
  - destruct (add_lease c _ s) as [s'|] eqn:Ea; cbn [fst]; [|reflexivity].
    eapply statics_add; eauto.
  - destruct (find_expired now (leases s)) as [[i l]|] eqn:Ef; cbn [fst]; [|reflexivity].
    apply find_index_some in Ef as [Ei Ep]. unfold expired in Ep.
    apply andb_true_iff in Ep as [Ep _]. apply negb_true_iff in Ep.
    cbn [leases set_leases]. eapply statics_update_dynamic; eauto.
Qed.

(** The lease reserveLease hands out is a dynamic one. *)
Lemma reserve_at_dynamic c now mac s i :
  snd (reserve c now mac s) = RsAt i ->
  exists l, nth_error (leases (fst (reserve c now mac s))) i = Some l /\ l_static l = false.
Proof.
  unfold reserve. destruct (next_ip c s) as [ip|].
  - destruct (add_lease c _ s) as [s'|] eqn:Ea; cbn; [|discriminate].
    intros E; inversion E; subst. apply add_lease_some in Ea as (-> & _).
    eexists. split; [rewrite nth_error_app2, Nat.sub_diag by lia; reflexivity|reflexivity].
  - destruct (find_expired now (leases s)) as [[j l]|] eqn:Ef; cbn; [|discriminate].
    intros E; inversion E; subst. apply find_index_some in Ef as [Ei Ep].
    unfold expired in Ep. apply andb_true_iff in Ep as [Ep _]. apply negb_true_iff in Ep.
    eexists. split; [apply nth_error_update_nth; eauto|exact Ep].
Qed.

Lemma blocklist_statics c now i s l :
  nth_error (leases s) i = Some l -> l_static l = false ->
  statics (leases (blocklist c now i s)) = statics (leases s).
Proof.
  intros E Hs. unfold blocklist. rewrite E. cbn [leases].
  eapply statics_update_dynamic; [exact E|exact Hs|exact Hs].
Qed.

(** allocateLease leaves the reservations alone and hands out a dynamic lease. *)
Lemma allocate_statics c now busy mac : forall fuel s,
  statics (leases (fst (allocate fuel c now busy mac s))) = statics (leases s) /\
  (forall i, snd (allocate fuel c now busy mac s) = RsAt i ->
     exists l, nth_error (leases (fst (allocate fuel c now busy mac s))) i = Some l /\
               l_static l = false).
Proof.
  induction fuel as [|f IH]; intros s; cbn [allocate]; [split; [reflexivity|discriminate]|].
  pose proof (reserve_statics c now mac s) as R1.
  pose proof (reserve_at_dynamic c now mac s) as R2.
  destruct (reserve c now mac s) as [s1 r]; cbn [fst snd] in *.
  destruct r; try (split; [exact R1|discriminate]).
  destruct (R2 i eq_refl) as (l & El & Els).
  destruct (mem_ip (ip_at s1 i) busy).
  - destruct (IH (blocklist c now i s1)) as [A B]. split; auto.
    rewrite A, (blocklist_statics c now i s1 l El Els). exact R1.
  - cbn [fst snd]. split; [exact R1|]. intros j E; inversion E; subst. eauto.
Qed.

Lemma commit_statics c now i host s l :
  nth_error (leases s) i = Some l -> l_static l = false ->
  statics (leases (commit c now i host s)) = statics (leases s).
Proof.
  intros E Hs. unfold commit. rewrite E. cbn [leases].
  eapply statics_update_dynamic; eauto.
Qed.

Lemma request_lease_at c mac sid reqip ci s i l :
  request_lease c mac sid reqip ci s = inr (i, l) -> nth_error (leases s) i = Some l.
Proof.
  intros Er. unfold request_lease in Er.
  assert (Hc : forall ip, check_lease mac ip (leases s) = ClAt i l -> nth_error (leases s) i = Some l).
  { intros ip. unfold check_lease.
    destruct (find_lease mac (leases s)) as [[j x]|] eqn:Ef; [|discriminate].
    destruct (l_ip x =? ip); [|discriminate]. intros E; inversion E; subst.
    apply find_index_some in Ef as [? _]. auto. }
  repeat match type of Er with
         | context [if ?b then _ else _] => destruct b
         | context [match ?o with Some _ => _ | None => _ end] => destruct o
         | context [match check_lease ?a ?b ?c with _ => _ end] =>
             let E := fresh "E" in destruct (check_lease a b c) eqn:E
         end; inversion Er; subst; eauto.
Qed.

(** DISCOVER, REQUEST, DECLINE, RELEASE and the passing of time leave the
    reservations exactly as they are, in any state. *)
Theorem message_keeps_statics c s now busy o :
  static_op o = false -> o <> ORestart ->
  statics (leases (fst (step c s now busy o))) = statics (leases s).
Proof.
  intros Ho Hr. destruct o; try discriminate; try congruence; cbn [step fst].
  - unfold discover. destruct (find_lease mac (leases s)) as [[? ?]|]; [reflexivity|].
    pose proof (proj1 (allocate_statics c now busy mac (alloc_fuel c s) s)) as R.
    destruct (allocate _ c now busy mac s) as [s' r]; destruct r; exact R.
  - unfold request. destruct (request_lease c mac sid reqip ciaddr s) as [r|[i l]] eqn:Er; cbn [fst]; auto.
    destruct (l_static l) eqn:Es; cbn [fst store leases]; auto.
    eapply commit_statics; eauto. eapply request_lease_at; eauto.
  - unfold decline. destruct (find_index _ (leases s)) as [[? old]|]; [|reflexivity].
    pose proof (rm_dynamic_statics c (l_mac old) (l_ip old) (l_host old) s) as R1.
    destruct (rm_dynamic_lease c _ _ _ s) as [s1 e]. cbn [fst] in R1.
    destruct e; [exact R1|].
    destruct (allocate_statics c now busy mac (alloc_fuel c s1) s1) as [R2 R3].
    destruct (allocate _ c now busy mac s1) as [s2 r]. cbn [fst snd] in *.
    destruct r; cbn [fst store leases]; try congruence.
    destruct (R3 _ eq_refl) as (l & El & Els).
    rewrite (commit_statics c now i (l_host old) s2 l El Els). congruence.
  - unfold release. destruct (find_index _ (leases s)) as [[? old]|]; [|reflexivity].
    pose proof (rm_dynamic_statics c (l_mac old) (l_ip old) (l_host old) s) as R1.
    destruct (rm_dynamic_lease c _ _ _ s) as [s1 e]. destruct e; exact R1.
  - reflexivity.
Qed.

Lemma Permutation_filter' {A} (f : A -> bool) l l' :
  Permutation l l' -> Permutation (filter f l) (filter f l').
Proof.
  induction 1; cbn; auto.
  - destruct (f x); auto.
  - destruct (f x), (f y); auto. apply perm_swap.
  - eapply Permutation_trans; eauto.
Qed.

Lemma statics_perm L L' : Permutation L L' -> Permutation (statics L) (statics L').
Proof. intros P. unfold statics. apply Permutation_map, Permutation_filter', P. Qed.

Lemma statics_db L : statics (map db_lease L) = statics L.
Proof.
  unfold statics. induction L as [|l L IH]; cbn; auto.
  destruct (l_static l); cbn; rewrite IH; reflexivity.
Qed.

Lemma op_eq_restart o : o = ORestart \/ o <> ORestart.
Proof. destruct o; auto; right; discriminate. Qed.

(** In every reachable state, an operation that is not one of the
    static-lease operations (a restart included) leaves the reservations as
    they are. *)
Theorem static_only_via_api c h now busy o : hist_ok h ->
  let s := run c h empty_state in
  static_op o = false ->
  Permutation (statics (leases (fst (step c s now busy o)))) (statics (leases s)).
Proof.
  intros Hh s Ho. destruct (op_eq_restart o) as [->|Hr].
  - cbn [step fst]. unfold restart.
    pose proof (full_inv_reachable c h Hh) as F. pose proof (names_stable_reachable c h) as St.
    pose proof (file_current_reachable c h Hh) as P. fold s in F, St, P.
    rewrite (load_current_leases c s (disk s) F St P).
    eapply Permutation_trans; [apply statics_perm, P|]. rewrite statics_db. apply Permutation_refl.
  - rewrite message_keeps_statics; auto.
Qed.

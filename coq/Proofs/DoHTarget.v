(** C16 (round 6): a ClientID in the path is the lower-casing of a label of the
    request target decoded exactly once (Model/DoHTarget.v). *)
From Coq Require Import List NArith Bool Arith Lia.
From AGH Require Import Base.Run Base.Bytes Base.Dom Base.PathClean Model.GoLower Proofs.GoLower
  Model.ClientID Proofs.ClientID Model.DoHTarget.
Import ListNotations.
Local Open Scope N_scope.

(** * url.unescape *)

Lemma unescape_ind (P : bytes -> Prop) :
  P [] ->
  (forall c r, c <> percent -> P r -> P (c :: r)) ->
  (forall a b r, P r -> P (percent :: a :: b :: r)) ->
  P [percent] -> (forall a, P [percent; a]) ->
  forall s, P s.
Proof.
  intros H0 H1 H2 H3 H4 s.
  assert (H : forall n s, (length s <= n)%nat -> P s).
  { induction n as [|n IH]; intros [|c r] Hl; auto; cbn in Hl; try lia.
    destruct (N.eq_dec c percent) as [->|Hc].
    - destruct r as [|a [|b r]]; auto. apply H2. apply IH. cbn in Hl. lia.
    - apply H1; auto. apply IH. lia. }
  eapply H. reflexivity.
Qed.

Lemma unescape_other c r :
  c <> percent ->
  unescape (c :: r) = match unescape r with Some t => Some (c :: t) | None => None end.
Proof. intros H. cbn [unescape]. apply N.eqb_neq in H. rewrite H. reflexivity. Qed.

Lemma unescape_escape a b r :
  unescape (percent :: a :: b :: r) =
    match hex_val a, hex_val b with
    | Some x, Some y => match unescape r with Some t => Some (16 * x + y :: t) | None => None end
    | _, _ => None
    end.
Proof. reflexivity. Qed.

(** Without a percent sign there is nothing to decode. *)
Lemma unescape_no_percent s : mem percent s = false -> unescape s = Some s.
Proof.
  induction s as [|c r IH]; [reflexivity|]. cbn [mem existsb]. intros H.
  apply orb_false_iff in H as [Hc Hr]. rewrite unescape_other.
  - unfold mem in IH. rewrite (IH Hr). reflexivity.
  - intros ->. rewrite N.eqb_refl in Hc. discriminate.
Qed.

Corollary unescape_changed_has_percent d y : unescape d = Some y -> d <> y -> mem percent d = true.
Proof.
  intros H Hn. destruct (mem percent d) eqn:E; [reflexivity|].
  rewrite (unescape_no_percent _ E) in H. congruence.
Qed.

Lemma unescape_app_plain a b :
  mem percent a = false ->
  unescape (a ++ b) = match unescape b with Some t => Some (a ++ t) | None => None end.
Proof.
  induction a as [|c r IH]; cbn [app].
  - intros _. destruct (unescape b); reflexivity.
  - cbn [mem existsb]. intros H. apply orb_false_iff in H as [Hc Hr]. rewrite unescape_other.
    + unfold mem in IH. rewrite (IH Hr). destruct (unescape b); reflexivity.
    + intros ->. rewrite N.eqb_refl in Hc. discriminate.
Qed.

(** A byte that is neither a percent sign nor a hex digit passes through. *)
Lemma unescape_keeps_byte c s y :
  c <> percent -> hex_val c = None ->
  unescape s = Some y -> mem c s = true -> mem c y = true.
Proof.
  intros Hc Hh. revert y. induction s as [|c0 r Hc0 IH|a b r IH| |a] using unescape_ind; intros y.
  - discriminate.
  - rewrite unescape_other by exact Hc0. destruct (unescape r) as [t|]; [|discriminate].
    intros [= <-]. cbn [mem existsb]. intros H. apply orb_true_iff in H as [H|H].
    + rewrite H. reflexivity.
    + unfold mem in IH. rewrite (IH t eq_refl H). apply orb_true_r.
  - rewrite unescape_escape. destruct (hex_val a) as [x|] eqn:Ea; [|discriminate].
    destruct (hex_val b) as [z|] eqn:Eb; [|discriminate].
    destruct (unescape r) as [t|]; [|discriminate]. intros [= <-].
    cbn [mem existsb]. intros H.
    assert (Hr : existsb (N.eqb c) r = true).
    { apply orb_true_iff in H as [H|H]; [apply N.eqb_eq in H; congruence|].
      apply orb_true_iff in H as [H|H]; [apply N.eqb_eq in H; congruence|].
      apply orb_true_iff in H as [H|H]; [apply N.eqb_eq in H; congruence|exact H]. }
    unfold mem in IH. rewrite (IH t eq_refl Hr). apply orb_true_r.
  - discriminate.
  - discriminate.
Qed.

Lemma unescape_nil_inv s : unescape s = Some [] -> s = [].
Proof.
  destruct s as [|c r]; [reflexivity|]. cbn [unescape]. destruct (c =? percent).
  - destruct r as [|a [|b r]]; try discriminate.
    destruct (hex_val a), (hex_val b); try discriminate. destruct (unescape r); discriminate.
  - destruct (unescape r); discriminate.
Qed.

(** * The request target *)

(** "/dns-query/" ++ x *)
Definition dq_path (x : bytes) : bytes := slash :: dns_query ++ slash :: x.

Lemma existsb_mem_false (f : N -> bool) b s : existsb f s = false -> f b = true -> mem b s = false.
Proof.
  intros H Hb. apply mem_false_In. intros Hin.
  assert (existsb f s = true) by (apply existsb_exists; eauto). congruence.
Qed.

Lemma parse_target_dq seg d :
  existsb bad_target_byte seg = false -> mem qmark seg = false ->
  unescape seg = Some d ->
  parse_target (dq_path seg) = TPath (dq_path d).
Proof.
  intros Hb Hq Hu. unfold parse_target, dq_path.
  assert (E1 : existsb bad_target_byte (slash :: dns_query ++ slash :: seg) = false) by exact Hb.
  assert (Hm : mem qmark (slash :: dns_query ++ slash :: seg) = false) by exact Hq.
  rewrite E1. replace (negb (slash =? slash)) with false by reflexivity.
  unfold cut_query. apply index_byte_None in Hm. rewrite Hm.
  change (slash :: dns_query ++ slash :: seg) with ((slash :: dns_query ++ [slash]) ++ seg).
  rewrite unescape_app_plain by reflexivity. rewrite Hu. reflexivity.
Qed.

Lemma real_dns_query : real dns_query.
Proof. repeat split; discriminate || reflexivity. Qed.

(** An element that path.Clean leaves alone. *)
Lemma clean_dq d : real d -> clean (dq_path d) = dq_path d.
Proof.
  intros Hd. unfold dq_path.
  assert (Hw : wf true [d; dns_query]).
  { apply wf_real; [exact Hd|]. apply wf_real; [exact real_dns_query|constructor]. }
  pose proof (clean_stack_abs_fixed _ Hw) as Hs.
  assert (E : slash :: join slash (rev [d; dns_query]) = slash :: dns_query ++ slash :: d).
  { cbn [rev app]. rewrite join_cons by discriminate. reflexivity. }
  rewrite E in Hs. rewrite clean_unfold_abs by reflexivity. rewrite Hs. exact E.
Qed.

Lemma path_id_dq d : real d -> path_id (dq_path d) d.
Proof. intros Hd. split; [left; apply clean_dq, Hd|apply Hd]. Qed.

Lemma valid_label_real l : valid_label l -> real l.
Proof.
  intros H. pose proof (valid_label_no_dot l H) as Hdot.
  repeat split.
  - apply H.
  - intros ->. discriminate.
  - intros ->. discriminate.
  - apply (valid_label_no_byte l slash H). reflexivity.
Qed.

Lemma valid_label_no_percent l : valid_label l -> mem percent l = false.
Proof. intros H. apply (valid_label_no_byte l percent H). reflexivity. Qed.

(** The outcome for "/dns-query/<d>", [d] one plain element. *)
Lemma from_doh_path_segment d :
  real d ->
  from_doh_path (dq_path d) =
    match validate_hostname_label d with
    | Some e => CidErr (EPathLabel e)
    | None => CidOk (lower d)
    end.
Proof. intros Hd. apply from_doh_path_id, path_id_dq, Hd. Qed.

(** * Theorems *)

(** Soundness: a ClientID of a request that net/http let through comes from
    the request target decoded ONCE: [D] is that decoding, the id is the
    lower-casing of an element [x] of [D] that is a valid label as it stands;
    in particular [x] contains no percent sign: nothing is decoded after
    net/http. *)
Theorem path_id_decoded_once t D id :
  parse_target t = TPath D -> from_doh_path D = CidOk id -> id <> [] ->
  unescape (cut_query t) = Some D /\
  exists x, path_id D x /\ valid_label x /\ mem percent x = false /\ id = lower x.
Proof.
  intros Hp Hf Hn. split.
  - unfold parse_target in Hp. destruct (existsb bad_target_byte t); [discriminate|].
    destruct t as [|c t']; [discriminate|]. destruct (negb (c =? slash)); [discriminate|].
    destruct (unescape (cut_query (c :: t'))); [|discriminate]. congruence.
  - destruct (from_doh_path_sound D id Hf Hn) as (x & H1 & H2 & H3).
    exists x. auto using valid_label_no_percent.
Qed.

(** The same for the whole of clientIDFromDNSContext. *)
Theorem target_label_valid_as_sent host strict t tls hh D id :
  doh_of_target host strict t tls hh = Some (D, CidOk id) -> id <> [] ->
  let r := {| d_path := D; d_tls_sni := tls; d_host_hdr := hh |} in
  parse_target t = TPath D /\
  exists x, valid_label x /\ mem percent x = false /\ id = lower x /\
    (path_id D x \/
     (path_plain D /\ host <> [] /\
      exists cli, server_name_from_http r = inr cli /\ immediate_sub cli host x)).
Proof.
  unfold doh_of_target. destruct (parse_target t) as [| |p] eqn:Ep; try discriminate.
  intros [= <- Hc] Hn. cbv zeta. split; [reflexivity|].
  change (client_id_of DoH host strict None
            (Some {| d_path := p; d_tls_sni := tls; d_host_hdr := hh |}) = CidOk id) in Hc.
  destruct (label_valid_as_sent _ _ _ _ _ _ Hc Hn) as (x & Hv & _ & _ & Hl & Hsrc).
  exists x. split; [exact Hv|]. split; [apply valid_label_no_percent, Hv|]. split; [exact Hl|].
  destruct Hsrc as [(_ & r & [= <-] & Hp)|(Hr & Hh & cli & Hs & Hi)].
  - left. exact Hp.
  - right. destruct Hr as [Hr|[Hr|(_ & r & [= <-] & Hpl)]]; try discriminate.
    split; [exact Hpl|]. split; [exact Hh|]. exists cli. split; [exact Hs|exact Hi].
Qed.

(** Exactness for the ordinary shape "/dns-query/<segment>": the segment is
    decoded once; if the result is a valid label, its lower-casing is the
    ClientID; if it is one plain element and not a valid label, the request
    fails. *)
Theorem target_segment_exact seg d :
  existsb bad_target_byte seg = false -> mem qmark seg = false ->
  unescape seg = Some d ->
  parse_target (dq_path seg) = TPath (dq_path d) /\
  (valid_label d -> from_doh_path (dq_path d) = CidOk (lower d)) /\
  (real d -> ~ valid_label d -> exists e, from_doh_path (dq_path d) = CidErr (EPathLabel e)).
Proof.
  intros Hb Hq Hu. split; [apply parse_target_dq; assumption|]. split.
  - intros Hv. rewrite (from_doh_path_segment d (valid_label_real d Hv)).
    apply validate_hostname_label_spec in Hv. rewrite Hv. reflexivity.
  - intros Hr Hv. rewrite (from_doh_path_segment d Hr).
    destruct (validate_hostname_label d) as [e|] eqn:V; [eauto|].
    apply validate_hostname_label_spec in V. contradiction.
Qed.

(** A segment that still decodes to something else after the one decoding
    -- a doubly (or more) encoded label -- is never a ClientID: the request
    fails with a label error, whatever the TLS state, the Host header and the
    configuration. *)
Theorem double_encoded_not_id seg d y :
  existsb bad_target_byte seg = false -> mem qmark seg = false ->
  unescape seg = Some d -> unescape d = Some y -> valid_label y -> d <> y ->
  exists e,
    from_doh_path (dq_path d) = CidErr (EPathLabel e) /\
    forall host strict tls hh,
      doh_of_target host strict (dq_path seg) tls hh = Some (dq_path d, CidErr (EPathLabel e)).
Proof.
  intros Hb Hq Hu Hu2 Hv Hne.
  pose proof (unescape_changed_has_percent d y Hu2 Hne) as Hpc.
  assert (Hr : real d).
  { repeat split.
    - intros ->. apply Hne. cbn in Hu2. injection Hu2 as Hu2. exact Hu2.
    - intros ->. apply Hne. cbn in Hu2. injection Hu2 as Hu2. exact Hu2.
    - intros ->. apply Hne. cbn in Hu2. injection Hu2 as Hu2. exact Hu2.
    - destruct (mem slash d) eqn:E; [|reflexivity].
      assert (Hy : mem slash y = true)
        by (eapply (unescape_keeps_byte slash d y); [discriminate|reflexivity|exact Hu2|exact E]).
      rewrite (valid_label_no_byte y slash Hv eq_refl) in Hy. discriminate. }
  assert (Hnv : ~ valid_label d).
  { intros H. rewrite (valid_label_no_percent d H) in Hpc. discriminate. }
  destruct (target_segment_exact seg d Hb Hq Hu) as (Hp & _ & He).
  destruct (He Hr Hnv) as (e & Hf). exists e. split; [exact Hf|].
  intros host strict tls hh. unfold doh_of_target. rewrite Hp. cbn [client_id_of d_path].
  rewrite Hf. reflexivity.
Qed.

(** * The variant that decodes the element again (refuted) *)

Definition from_doh_path_again (path : bytes) : cid_res :=
  let parts := split slash (clean path) in
  let parts := match parts with [] :: r => r | _ => parts end in
  match parts with
  | [] => CidErr EPathShape
  | p0 :: r =>
      if negb (eqb_bytes p0 dns_query) then CidErr EPathShape
      else match r with
           | [] => CidOk []
           | [id0] =>
               match unescape id0 with
               | None => CidErr EPathShape
               | Some id =>
                   match validate_hostname_label id with
                   | Some e => CidErr (EPathLabel e)
                   | None => CidOk (go_to_lower id)
                   end
               end
           | _ :: _ :: _ => CidErr EPathExtra
           end
  end.

Definition b_my_phone : bytes := [109;121;45;112;104;111;110;101].                      (* my-phone *)
Definition b_my_2D_phone : bytes := [109;121;37;50;68;112;104;111;110;101].             (* my%2Dphone *)
Definition b_my_252D_phone : bytes := [109;121;37;50;53;50;68;112;104;111;110;101].     (* my%252Dphone *)

(** GET /dns-query/my%252Dphone: net/http hands over /dns-query/my%2Dphone;
    the code fails the request; a second decoding would attribute it to
    "my-phone". *)
Theorem decoding_twice_refuted :
  parse_target (dq_path b_my_252D_phone) = TPath (dq_path b_my_2D_phone) /\
  path_id (dq_path b_my_2D_phone) b_my_2D_phone /\ ~ valid_label b_my_2D_phone /\
  from_doh_path (dq_path b_my_2D_phone) = CidErr (EPathLabel LBadRune) /\
  from_doh_path_again (dq_path b_my_2D_phone) = CidOk b_my_phone.
Proof.
  split; [vm_compute; reflexivity|]. split.
  { apply path_id_dq. repeat split; discriminate || reflexivity. }
  split.
  { rewrite <- validate_hostname_label_spec. vm_compute. discriminate. }
  split; vm_compute; reflexivity.
Qed.

(** Where the element of the cleaned path has no percent sign the two agree
    (why a test with plain paths cannot tell them apart). *)
Theorem decoding_twice_invisible D :
  (forall x, path_id D x -> mem percent x = false) ->
  from_doh_path_again D = from_doh_path D.
Proof.
  intros Hx. unfold from_doh_path_again, from_doh_path, path_id in *.
  pose proof (join_split slash (clean D)) as Hj.
  pose proof (split_no_sep slash (clean D)) as Hn.
  destruct (split slash (clean D)) as [|s0 r0] eqn:Es; [reflexivity|].
  assert (Hgen : forall pre parts,
    clean D = pre ++ join slash parts -> pre = [slash] \/ pre = [] ->
    Forall (fun x => mem slash x = false) parts ->
    match parts with
    | [] => CidErr EPathShape
    | p0 :: r =>
        if negb (eqb_bytes p0 dns_query) then CidErr EPathShape
        else match r with
             | [] => CidOk []
             | [id0] => match unescape id0 with
                        | None => CidErr EPathShape
                        | Some id => match validate_hostname_label id with
                                     | Some e => CidErr (EPathLabel e)
                                     | None => CidOk (go_to_lower id)
                                     end
                        end
             | _ :: _ :: _ => CidErr EPathExtra
             end
    end =
    match parts with
    | [] => CidErr EPathShape
    | p0 :: r =>
        if negb (eqb_bytes p0 dns_query) then CidErr EPathShape
        else match r with
             | [] => CidOk []
             | [id] => match validate_hostname_label id with
                       | Some e => CidErr (EPathLabel e)
                       | None => CidOk (go_to_lower id)
                       end
             | _ :: _ :: _ => CidErr EPathExtra
             end
    end).
  { intros pre parts Hc Hpre Hf. destruct parts as [|p0 r]; [reflexivity|].
    destruct (eqb_bytes p0 dns_query) eqn:E0; cbn [negb]; [|reflexivity].
    apply eqb_bytes_eq in E0. subst p0.
    destruct r as [|x [|y r]]; [reflexivity| |reflexivity].
    inversion Hf as [|? ? _ Hf']; subst. inversion Hf' as [|? ? Hm _]; subst.
    rewrite join_cons in Hc by discriminate. cbn [join] in Hc.
    assert (Hp : mem percent x = false).
    { apply Hx. split; [|exact Hm]. destruct Hpre as [->| ->]; [left|right]; exact Hc. }
    rewrite (unescape_no_percent x Hp). reflexivity. }
  destruct s0 as [|c s0].
  - inversion Hn as [|? ? _ Hn']; subst. destruct r0 as [|p0 r]; [reflexivity|].
    apply (Hgen [slash] (p0 :: r)); [|left; reflexivity|exact Hn'].
    rewrite <- Hj. rewrite join_cons by discriminate. reflexivity.
  - apply (Hgen [] ((c :: s0) :: r0)); [|right; reflexivity|exact Hn].
    rewrite <- Hj. reflexivity.
Qed.

(** * Witnesses: the premises are satisfiable *)

Example ex_encoded_once :
  (* /dns-query/my%2Dphone: the ClientID is my-phone *)
  doh_of_target ex_host true (dq_path b_my_2D_phone) (Some ex_host) ex_host =
    Some (dq_path b_my_phone, CidOk b_my_phone) /\
  (* /dns-query/%4Dy-Phone (mixed case): my-phone *)
  doh_of_target ex_host true (dq_path [37;52;68;121;45;80;104;111;110;101]) (Some ex_host) ex_host =
    Some (dq_path [77;121;45;80;104;111;110;101], CidOk b_my_phone) /\
  (* /dns-query/my%252Dphone: an error *)
  doh_of_target ex_host true (dq_path b_my_252D_phone) (Some ex_host) ex_host =
    Some (dq_path b_my_2D_phone, CidErr (EPathLabel LBadRune)) /\
  (* /dns-query/a%2Fb: two elements after the decoding *)
  doh_of_target ex_host true (dq_path [97;37;50;70;98]) (Some ex_host) ex_host =
    Some (dq_path [97;47;98], CidErr EPathExtra) /\
  (* /dns-query/alice%00, /dns-query/%C0%AD (an overlong hyphen): bad label *)
  doh_of_target ex_host true (dq_path [97;37;48;48]) (Some ex_host) ex_host =
    Some (dq_path [97;0], CidErr (EPathLabel LBadRune)) /\
  doh_of_target ex_host true (dq_path [97;37;67;48;37;65;68;98]) (Some ex_host) ex_host =
    Some (dq_path [97;192;173;98], CidErr (EPathLabel LBadRune)) /\
  (* /dns-query/a%2, /dns-query/a%zz: rejected by net/http *)
  parse_target (dq_path [97;37;50]) = TRejected /\
  parse_target (dq_path [97;37;122;122]) = TRejected /\
  (* the query is cut off before the decoding *)
  parse_target (dq_path [97;63;37]) = TPath (dq_path [97]).
Proof. vm_compute. repeat split; reflexivity. Qed.

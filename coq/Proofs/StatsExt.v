(** More proofs about Model/Stats.v (C09): the cut to the top 100 and the
    time average leave totals and series alone; integer arithmetic of the
    average processing time; the reset handler's non-atomic clear() against
    the hourly flush. *)
From Coq Require Import ZArith List Bool Lia.
From AGH Require Import Model.Stats Proofs.Stats.
Import ListNotations.
Local Open Scope Z_scope.
Ltac Zify.zify_post_hook ::= Z.to_euclidean_division_equations.

(** * The cut to the top 100 and the time average do not touch totals or series *)

(** The units as they are before serialisation of the current one. *)
Definition load_units_raw (s : state) : list unit := map (stored s) (window_ids s) ++ [cur s].

Lemma map_ser_free {B} (f : unit -> B) s :
  (forall u, f (ser u) = f u) -> map f (load_units s) = map f (load_units_raw s).
Proof.
  intros H. unfold load_units, load_units_raw. rewrite !map_app. cbn [map]. rewrite H. reflexivity.
Qed.

Lemma counters_ser_free s k : map (proj k) (load_units s) = map (proj k) (load_units_raw s).
Proof. apply map_ser_free. intros u. apply proj_ser. Qed.

(** Every total and every series of the answer is a function of the counters
    of the un-cut units alone. *)
Theorem cut_leaves_totals_and_series s :
  let d := get_data s in
  let us := load_units_raw s in
  let ser_of f := series (d_days d) (cur_id s) (Z.of_nat (length us) / 24) (map f us) in
  d_num d = zsum (map u_total us) /\ d_num_f d = zsum (map u_f us) /\
  d_num_sb d = zsum (map u_sb us) /\ d_num_ss d = zsum (map u_ss us) /\
  d_num_p d = zsum (map u_p us) /\ num_nf s = zsum (map u_nf us) /\
  d_dns d = ser_of u_total /\ d_blocked d = ser_of u_f /\ d_sb d = ser_of u_sb /\ d_par d = ser_of u_p.
Proof.
  cbv zeta.
  assert (L : length (load_units s) = length (load_units_raw s)).
  { unfold load_units, load_units_raw. rewrite !app_length. reflexivity. }
  pose proof (map_ser_free u_total s (fun _ => eq_refl)) as T. pose proof (map_ser_free u_f s (fun _ => eq_refl)) as Ef.
  pose proof (map_ser_free u_sb s (fun _ => eq_refl)) as Esb. pose proof (map_ser_free u_ss s (fun _ => eq_refl)) as Ess.
  pose proof (map_ser_free u_p s (fun _ => eq_refl)) as Ep. pose proof (map_ser_free u_nf s (fun _ => eq_refl)) as Enf.
  unfold get_data, num_nf. cbn [d_num d_num_f d_num_sb d_num_ss d_num_p d_dns d_blocked d_sb d_par d_days].
  rewrite T, Ef, Esb, Ess, Ep, Enf, L. repeat split; reflexivity.
Qed.

(** * Average processing time: whole microseconds *)

Lemma time_avg_bounds u :
  0 < u_total u -> 0 <= u_tsum u -> u_tsum u / u_total u < 4294967296 ->
  time_avg u * u_total u <= u_tsum u < (time_avg u + 1) * u_total u.
Proof.
  intros Ht Hs Hq. unfold time_avg. destruct (Z.eqb_spec (u_total u) 0); [lia|].
  rewrite u32_small by (split; [apply Z.div_pos; lia|assumption]).
  pose proof (Z.mul_div_le (u_tsum u) (u_total u) Ht).
  pose proof (Z.mul_succ_div_gt (u_tsum u) (u_total u) Ht). lia.
Qed.

(** An hour whose average is below one microsecond has [time_avg = 0] and
    still counts in every total. *)
Lemma sub_microsecond_unit u :
  0 < u_total u -> 0 <= u_tsum u < u_total u -> time_avg u = 0.
Proof.
  intros Ht Hs. unfold time_avg. destruct (Z.eqb_spec (u_total u) 0); [lia|].
  rewrite Z.div_small by lia. reflexivity.
Qed.

Lemma zsum_filter_nonzero {A} (f : A -> Z) l :
  zsum (map f (filter (fun u => negb (f u =? 0)) l)) = zsum (map f l).
Proof.
  induction l as [|a l IH]; [reflexivity|]. cbn [filter map].
  destruct (Z.eqb_spec (f a) 0) as [E|N]; cbn [negb map]; unfold zsum in *; cbn [fold_right]; lia.
Qed.

Lemma zsum_bounds lo hi l :
  (forall x, In x l -> lo <= x <= hi) ->
  lo * Z.of_nat (length l) <= zsum l <= hi * Z.of_nat (length l).
Proof.
  induction l as [|a l IH]; intros H; [cbn; lia|].
  assert (lo <= a <= hi) by (apply H; left; reflexivity).
  assert (IH' := IH (fun x Hx => H x (or_intror Hx))).
  cbn [length]. unfold zsum in *. cbn [fold_right]. lia.
Qed.

(** The reported average is the mean (rounded down) of the non-zero hourly
    averages: it lies between the smallest and the largest of them. *)
Theorem avg_time_between us lo hi :
  (forall u, In u us -> time_avg u <> 0 -> lo <= time_avg u <= hi) ->
  zsum (map time_avg us) < 4294967296 -> 0 <= lo ->
  (exists u, In u us /\ time_avg u <> 0) ->
  lo <= avg_time us <= hi.
Proof.
  intros Hb Hw Hlo [u0 [Hin Hnz]]. unfold avg_time.
  set (nz := filter (fun u => negb (time_avg u =? 0)) us).
  assert (Hn : 0 < Z.of_nat (length nz)).
  { assert (In u0 nz) by (apply filter_In; split; [assumption|apply negb_true_iff, Z.eqb_neq; assumption]).
    destruct nz; [contradiction|cbn [length]; lia]. }
  destruct (Z.eqb_spec (Z.of_nat (length nz)) 0); [lia|].
  pose proof (zsum_filter_nonzero time_avg us) as E. fold nz in E.
  assert (B : lo * Z.of_nat (length (map time_avg nz)) <= zsum (map time_avg nz) <= hi * Z.of_nat (length (map time_avg nz))).
  { apply zsum_bounds. intros x Hx. apply in_map_iff in Hx. destruct Hx as [u [<- Hu]].
    apply filter_In in Hu. destruct Hu as [Hu Hz]. apply negb_true_iff, Z.eqb_neq in Hz. apply Hb; assumption. }
  rewrite map_length, E in B.
  rewrite u32_small by lia.
  split; [apply Z.div_le_lower_bound; lia|apply Z.div_le_upper_bound; lia].
Qed.

(** * The reset (clear without confMu) against the hourly flush *)

(** Run without anything in between, the three steps are the atomic clear. *)
Lemma reset_steps_atomic s id :
  clear_finish (clear_reopen (clear_close s)) id = clear s id.
Proof. reflexivity. Qed.

(** While the file is closed the flush changes nothing and does not stop the
    periodic flusher. *)
Lemma flush_while_closed s id :
  dbnil s = true -> flush s id = s /\ flush_cont s id = true.
Proof.
  intros E. split; [|reflexivity]. unfold flush. rewrite E.
  destruct ((lim s =? 0) || (cur_id s =? id)); reflexivity.
Qed.

(** Operations that may land between the steps without disturbing the reset:
    updates, and flushes that do not change the hour. *)
Definition harmless (s : state) (o : op) : bool :=
  match o with
  | OUpdate _ => true
  | OFlush id => (lim s =? 0) || (cur_id s =? id) || dbnil s
  | _ => false
  end.

Fixpoint all_harmless (s : state) (h : list op) : bool :=
  match h with
  | [] => true
  | o :: h' => harmless s o && all_harmless (step s o) h'
  end.

Lemma harmless_step s o :
  harmless s o = true ->
  cur_id (step s o) = cur_id s /\ db (step s o) = db s /\ dbnil (step s o) = dbnil s /\
  lim_ms (step s o) = lim_ms s.
Proof.
  destruct o; cbn [harmless step]; try discriminate.
  - intros _. unfold update. destruct (accepts s e); [|auto]. destruct (cat_of (e_res e)); auto.
  - intros H. unfold flush. rewrite !orb_true_iff in H. destruct H as [[H|H]|H].
    + rewrite H. auto.
    + rewrite H, orb_true_r. auto.
    + rewrite H. destruct (_ || _); auto.
Qed.

Lemma harmless_ev s o ev i k :
  harmless s o = true -> i <> cur_id s -> ev_step s o ev i k = ev i k.
Proof.
  destruct o; cbn [harmless ev_step]; try discriminate; [|reflexivity].
  intros _ Hi. destruct (counted s e); [|reflexivity].
  destruct (Z.eqb_spec i (cur_id s)); [contradiction|reflexivity].
Qed.

Lemma harmless_run g h :
  all_harmless (g_st g) h = true ->
  cur_id (g_st (grun g h)) = cur_id (g_st g) /\ db (g_st (grun g h)) = db (g_st g) /\
  dbnil (g_st (grun g h)) = dbnil (g_st g) /\
  (forall i k, i <> cur_id (g_st g) -> g_ev (grun g h) i k = g_ev g i k).
Proof.
  revert g; induction h as [|o h IH]; intros g H; [auto|].
  cbn [all_harmless] in H. apply andb_true_iff in H. destruct H as [Ho Hh].
  change (grun g (o :: h)) with (grun (gstep g o) h).
  destruct (harmless_step _ _ Ho) as [C [D [N _]]].
  specialize (IH (gstep g o) Hh). cbn [gstep g_st] in IH. rewrite C, D, N in IH.
  destruct IH as [C' [D' [N' E']]]. repeat split; try assumption.
  intros i k Hi. rewrite E' by assumption. cbn [gstep g_ev]. apply harmless_ev; assumption.
Qed.

(** [reset clears everything] when only updates and hour-preserving flushes
    land between the re-opening and the last step (before the re-opening,
    while the file is closed, any updates and flushes [h1]): nothing counted
    before or during the reset is left, in memory or in the file. *)
Theorem reset_clears_all g h1 h2 id :
  let g1 := grun (gstep g OClearClose) h1 in
  let g2 := grun (gstep g1 OClearReopen) h2 in
  let g3 := gstep g2 (OClearFinish id) in
  all_harmless (g_st (gstep g1 OClearReopen)) h2 = true ->
  (forall i k, g_ev g3 i k = 0) /\ db (g_st g3) = [] /\ cur (g_st g3) = empty_unit /\
  cur_id (g_st g3) = id /\ dbnil (g_st g3) = false.
Proof.
  cbv zeta. intros H2.
  set (g1 := grun (gstep g OClearClose) h1) in *.
  set (gr := gstep g1 OClearReopen) in *.
  destruct (harmless_run gr h2 H2) as [C [D [N E]]].
  cbn [gstep g_st g_ev step ev_step clear_finish with_cur cur_id cur db dbnil].
  repeat split.
  - intros i k. destruct (Z.eqb_spec i (cur_id (g_st (grun gr h2)))) as [->|Ne]; [reflexivity|].
    rewrite C in Ne. rewrite E by assumption.
    unfold gr in *. cbn [gstep g_ev ev_step g_st step clear_reopen with_nil with_cur cur_id] in *.
    destruct (Z.eqb_spec i (cur_id (g_st g1))); [contradiction|reflexivity].
  - rewrite D. reflexivity.
  - rewrite N. reflexivity.
Qed.

(** With a flush into a new hour between the re-opening and the last step
    (possible: the handler does not hold confMu) the statement fails: the
    unit being cleared is written into the new database.  Five updates, reset
    with the hour turning inside it: five queries are still reported. *)
Definition reset_race_hist : list op :=
  ex_all5 ++ [OClearClose; OFlush 490001; OClearReopen; OFlush 490001; OClearFinish 490001].

Theorem reset_race_refuted :
  wf_hist 490000 reset_race_hist /\
  let g := grun (ginit 490000 (24 * ms_hour) true) reset_race_hist in
  g_phase g = PNormal /\ rep CTotal (g_st g) = 5 /\ g_ev g 490000 CTotal = 5 /\
  api_stats (g_st g) <> None.
Proof.
  split; [unfold wf_hist; cbn [wf_from op_id phase_ok phase_step reset_race_hist ex_all5 app]; unfold max_id; repeat split; lia|].
  vm_compute. repeat split. discriminate.
Qed.

(** The same history with the flush only while the file is closed: clean,
    and the hourly roll-over goes on afterwards. *)
Example reset_clears_all_premises :
  let h := ex_all5 ++ [OClearClose; OFlush 490001; OUpdate (ex_e 1); OClearReopen; OUpdate (ex_e 2); OClearFinish 490001] in
  wf_hist 490000 h /\
  let g := grun (ginit 490000 (24 * ms_hour) true) h in
  rep CTotal (g_st g) = 0 /\ cur_id (g_st g) = 490001 /\ db (g_st g) = [] /\
  flush_cont (g_st g) 490002 = true /\ cur_id (flush (g_st g) 490002) = 490002.
Proof.
  split; [unfold wf_hist; cbn [wf_from op_id phase_ok phase_step ex_all5 app]; unfold max_id; repeat split; lia|].
  vm_compute. repeat split.
Qed.

(** * More than 100 names: the cut is visible in the top lists only *)

Definition many_domains (n : nat) : list op :=
  map (fun d => OUpdate {| e_res := 1; e_dom := d; e_cli := 1; e_ups := []; e_time := 0 |}) (zseq 1 n).

(** 120 domains once each and domain 7 a second time, all with a processing
    time below a microsecond, then the next hour: the stored unit keeps 100
    names, the total is 121, the hour's [TimeAvg] is 0 and the reported
    average is 0. *)
Example top100_premises :
  let h := many_domains 120 ++ [OUpdate {| e_res := 1; e_dom := 7; e_cli := 1; e_ups := []; e_time := 0 |}; OFlush 490001] in
  let d := get_data (run (init 490000 (24 * ms_hour) true) h) in
  d_num d = 121 /\ length (d_top_dom d) = 100%nat /\ existsb (fun p => (fst p =? 7) && (snd p =? 2)) (d_top_dom d) = true /\
  zsum (d_dns d) = 121 /\ d_avg d = 0 /\ zsum (map snd (d_top_dom d)) = 101.
Proof. vm_compute. repeat split. Qed.

(** Mixed hours: 1500 us average in one hour, a sub-microsecond hour, an
    empty hour: the zero-average hours count in the totals and are left out
    of the mean. *)
Example avg_time_premises :
  let fast := OUpdate {| e_res := 2; e_dom := 3; e_cli := 1; e_ups := []; e_time := 0 |} in
  let h := ex_all5 ++ [OFlush 490001; fast; fast; OFlush 490003; OUpdate (ex_e 1)] in
  let d := get_data (run (init 490000 (24 * ms_hour) true) h) in
  d_num d = 8 /\ d_avg d = 1500 /\ d_num_f d = 3.
Proof. vm_compute. repeat split. Qed.

(** * Why the theorems ask for hour ids of at least 8762 *)

(** With an hour id below the limit, [id - limit - 1] wraps in uint32 and New
    deletes every bucket, the one Close has just written included: a restart
    in the same hour loses the hour (Config.UnitID is a test hook; real hour
    ids are about 5e5). *)
Example small_hour_id_wraps :
  let s := run (init 5 (24 * ms_hour) true) ex_all5 in
  rep CTotal s = 5 /\ rep CTotal (restart s 5) = 0 /\
  let s' := run (init 26 (24 * ms_hour) true) ex_all5 in
  rep CTotal (restart s' 26) = 5.
Proof. vm_compute. repeat split. Qed.

(** The HTTP status of a list download (Model/SaveLoop.v, round 6 (L)).

    The "new version" of a list save exists only when the server delivered the
    complete body with status 200 (after redirects).  As the code is
    ([only_200]): whatever the list server answers with any other final
    status - other 2xx codes with a partial, an empty or even a complete body,
    3xx that are not followed, 304, 4xx, 5xx - and when it does not answer at
    all, the download fails at the source and the stored list is left as it
    was at every instant and after a crash at every prefix.  A replaced file is
    the normal form of the WHOLE body of the final response, which had status
    200.  A redirect is followed: the save is the save from the target.  The
    variant that accepts every 2xx status is refuted (206 with half a body). *)
From Coq Require Import List NArith Bool Lia.
From AGH Require Import Base.FS Proofs.FS Model.SaveLoop Proofs.SaveLoop.
Import ListNotations.
Local Open Scope N_scope.

Section StatusProofs.
  Variable St : Type.
  Variable st0 : St.
  Variable feed : St -> data -> option (St * list data).
  Variable finish : St -> option (list data).
  Variable sum : data -> N.

  Notation pump := (pump St feed finish).
  Notation norm := (norm St feed finish).
  Notation update_list := (update_list St st0 feed finish sum).
  Notation update_from_url := (update_from_url St st0 feed finish sum).

  (** A source that is refused: the pending file is created and cleaned up,
      nothing else (or nothing at all when it cannot be created). *)
  Lemma update_list_refused fd tmp dst r old_sum p :
    update_list fd tmp dst false r old_sum p =
    if p_open p then ([], Failed AtOpen) else ([Open fd tmp fl_tmp; Close fd; Unlink tmp], Failed AtSource).
  Proof. unfold SaveLoop.update_list, save_ops. cbn [negb]. destruct (p_open p); reflexivity. Qed.

  (** The final status of the chain, if the server answered at all. *)
  Definition final_status (fuel : nat) (web : N -> answer) (u : N) : option N :=
    option_map fst (fetch fuel web u).

  (** MAIN (L): every final status other than 200 (and no answer at all), for
      every list server, redirect chain, body served with that status, previous
      checksum and fault plan: the download FAILS and the file is the previous
      version at every instant and after a crash at every prefix. *)
  Theorem non_200_keeps_file s dst tmp fd fuel web u old_sum p :
    quiescent s dst -> fresh_tmp s dst tmp ->
    final_status fuel web u <> Some 200 ->
    let x := update_from_url only_200 fuel web u fd tmp dst old_sum p in
    (exists stg, snd x = Failed stg) /\
    (forall v, In v (visible_states s (fst x) dst) -> v = live_view s dst) /\
    live_view (run s (fst x)) dst = live_view s dst.
  Proof.
    intros Hq Hf Hst. cbn zeta. unfold SaveLoop.update_from_url, final_status in *.
    assert (Hgen : forall r,
      let y := update_list fd tmp dst false r old_sum p in
      (exists stg, snd y = Failed stg) /\
      (forall v, In v (visible_states s (fst y) dst) -> v = live_view s dst) /\
      live_view (run s (fst y)) dst = live_view s dst).
    { intros r. cbn zeta.
      destruct (update_list_identity St st0 feed finish sum s dst tmp fd false r old_sum p Hq Hf) as (Hv & Hl & Hr).
      cbn zeta in Hv, Hl, Hr.
      assert (Hres : exists stg, snd (update_list fd tmp dst false r old_sum p) = Failed stg).
      { rewrite update_list_refused. destruct (p_open p); eexists; reflexivity. }
      destruct Hres as [stg Hres]. rewrite Hres in Hv, Hl. cbn [replaced] in Hl.
      split; [eexists; exact Hres|]. split; [|exact Hl].
      intros v Hin. destruct (Hv v Hin) as [H|[H _]]; [exact H|discriminate]. }
    destruct (fetch fuel web u) as [[st r]|]; [|apply Hgen].
    cbn [option_map fst] in Hst. unfold only_200.
    destruct (N.eqb_spec st 200) as [->|_]; [now elim Hst|apply Hgen].
  Qed.

  (** ... and, read the other way round: a REPLACED file needs a final status
      of 200, a body read to its end without error, a changed checksum and no
      failing call; the file is then what the parser wrote for that body. *)
  Theorem replaced_needs_200 s dst tmp fd fuel web u old_sum p :
    quiescent s dst -> fresh_tmp s dst tmp ->
    let x := update_from_url only_200 fuel web u fd tmp dst old_sum p in
    snd x = Replaced ->
    exists r, fetch fuel web u = Some (200, r) /\ ends_ok r = true /\ snd (pump st0 r) = true /\
              live_view (run s (fst x)) dst = Some (concat (fst (pump st0 r))).
  Proof.
    intros Hq Hf. cbn zeta. unfold SaveLoop.update_from_url.
    destruct (fetch fuel web u) as [[st r]|].
    - intros H.
      destruct (update_list_identity St st0 feed finish sum s dst tmp fd (only_200 st) r old_sum p Hq Hf) as (_ & Hl & Hr).
      cbn zeta in Hl, Hr. destruct (Hr H) as (Hok & Hp & He & _).
      unfold only_200 in Hok. apply N.eqb_eq in Hok. subst st.
      exists r. rewrite Hl, H. cbn [replaced]. auto.
    - rewrite update_list_refused. destruct (p_open p); discriminate.
  Qed.

  (** The whole statement for a list server whose final answer is a body in
      chunks: the file is the previous version, or the normal form of the
      COMPLETE body delivered with status 200. *)
  Theorem served_status_identity s dst tmp fd fuel web u st chunks cut old_sum p :
    chunking_independent St feed ->
    quiescent s dst -> fresh_tmp s dst tmp ->
    fetch fuel web u = Some (st, serve chunks cut) ->
    let x := update_from_url only_200 fuel web u fd tmp dst old_sum p in
    (forall v, In v (visible_states s (fst x) dst) ->
               v = live_view s dst \/
               (snd x = Replaced /\ st = 200 /\ cut = false /\ Some v = option_map Some (norm st0 (concat chunks)))) /\
    (snd x <> Replaced -> live_view (run s (fst x)) dst = live_view s dst).
  Proof.
    intros Hci Hq Hf Hfetch. cbn zeta. unfold SaveLoop.update_from_url. rewrite Hfetch.
    unfold only_200. destruct (N.eqb_spec st 200) as [->|Hne].
    - destruct (update_list_served_identity St st0 feed finish sum s dst tmp fd chunks cut old_sum p (concat chunks)
                  Hci Hq Hf eq_refl) as (Hv & Hr & Hn).
      cbn zeta in Hv, Hr, Hn. split; [|exact Hn].
      intros v Hin. destruct (Hv v Hin) as [H|[H1 H2]]; [auto|].
      right. destruct (Hr H1) as [Hc _]. auto.
    - destruct (update_list_identity St st0 feed finish sum s dst tmp fd false (serve chunks cut) old_sum p Hq Hf)
        as (Hv & Hl & _).
      cbn zeta in Hv, Hl. rewrite update_list_refused in *.
      destruct (p_open p); cbn [fst snd replaced] in *.
      + split; [|auto]. intros v Hin. destruct (Hv v Hin) as [H|[H _]]; [auto|discriminate].
      + split; [|auto]. intros v Hin. destruct (Hv v Hin) as [H|[H _]]; [auto|discriminate].
  Qed.

  (** A redirect is followed: the save from [u] IS the save from the target
      (one hop less to spend); a chain longer than the client follows is no
      answer. *)
  Theorem redirect_is_targets_save accept fuel web u to fd tmp dst old_sum p :
    web u = ARedirect to ->
    update_from_url accept (S fuel) web u fd tmp dst old_sum p =
    update_from_url accept fuel web to fd tmp dst old_sum p.
  Proof. intros H. unfold SaveLoop.update_from_url. cbn [fetch]. rewrite H. reflexivity. Qed.

  Theorem redirect_chain_too_long accept web u to fd tmp dst old_sum p :
    web u = ARedirect to ->
    exists stg, snd (update_from_url accept 0 web u fd tmp dst old_sum p) = Failed stg.
  Proof.
    intros H. unfold SaveLoop.update_from_url. cbn [fetch]. rewrite H.
    rewrite update_list_refused. destruct (p_open p); eexists; reflexivity.
  Qed.
End StatusProofs.

(** *** Instances (identity stage, length as the checksum) *)

Definition st_update := update_from_url unit tt id_feed id_finish len_sum.

(** REFUTED variant (every 2xx status opens a reader): for EVERY 2xx status
    other than 200 and every non-empty part of a body served with it (the
    range a 206 carries), the refresh reports [Replaced] and the file is that
    part: not the previous version (which the code as it is keeps), and for a
    proper part not the complete list either. *)
Theorem any_2xx_refuted s dst tmp fd web u st part old_sum :
  quiescent s dst -> fresh_tmp s dst tmp ->
  any_2xx st = true -> st <> 200 ->
  web u = AServe st [part] false -> len_sum part <> old_sum ->
  let bad := st_update any_2xx max_redirects web u fd tmp dst old_sum no_faults in
  let good := st_update only_200 max_redirects web u fd tmp dst old_sum no_faults in
  snd bad = Replaced /\ live_view (run s (fst bad)) dst = Some part /\
  snd good = Failed AtSource /\ live_view (run s (fst good)) dst = live_view s dst.
Proof.
  intros Hq Hf H2 Hne Hw Hsum. cbn zeta. unfold st_update, update_from_url, max_redirects. cbn [fetch]. rewrite Hw.
  rewrite H2. unfold only_200. replace (st =? 200) with false by (symmetry; apply N.eqb_neq; exact Hne).
  assert (Hp : pump unit id_feed id_finish tt (serve [part] false) = ([part], true)) by reflexivity.
  destruct (update_list_identity unit tt id_feed id_finish len_sum s dst tmp fd true (serve [part] false) old_sum
              no_faults Hq Hf) as (_ & Hl & _).
  cbn zeta in Hl. rewrite Hp in Hl. cbn [fst concat] in Hl. rewrite app_nil_r in Hl.
  assert (Hres : snd (update_list unit tt id_feed id_finish len_sum fd tmp dst true (serve [part] false) old_sum no_faults)
                 = Replaced).
  { unfold update_list. cbn [negb]. rewrite Hp. cbn [no_faults p_write]. rewrite do_writes_none. cbn [negb concat].
    rewrite app_nil_r. apply N.eqb_neq in Hsum. rewrite Hsum. reflexivity. }
  rewrite Hres in Hl |- *. cbn [replaced] in Hl.
  split; [reflexivity|]. split; [exact Hl|].
  destruct (update_list_identity unit tt id_feed id_finish len_sum s dst tmp fd false (serve [part] false) old_sum
              no_faults Hq Hf) as (_ & Hl' & _).
  cbn zeta in Hl'. rewrite update_list_refused in *. cbn [no_faults p_open fst snd replaced] in *. auto.
Qed.

(** The witness: the stored list is [10; 11; 12]; the server answers 206 with the
    first half [1; 2] of the new list [1; 2; 3; 4].  Accepting 2xx: replaced,
    the file is [1; 2].  As the code is: failed, [10; 11; 12] stays.  With 200 and
    the whole body: [1; 2; 3; 4].  Through a redirect to the whole list: the
    same; through a redirect to the 206: refused. *)
Example status_witness :
  let s := boot [(1, [10; 11; 12])] in
  let web (u : N) := if u =? 1 then AServe 206 [[1; 2]] false
                     else if u =? 2 then AServe 200 [[1; 2]; [3; 4]] false
                     else if u =? 3 then ARedirect 2
                     else if u =? 4 then ARedirect 1
                     else if u =? 5 then AServe 204 [] false
                     else if u =? 6 then AServe 304 [] false
                     else if u =? 7 then ARedirect 7
                     else ADown in
  let fin x := live_view (run s (fst x)) 1 in
  quiescent s 1 /\ fresh_tmp s 1 2 /\
  (let x := st_update any_2xx max_redirects web 1 3 2 1 3 no_faults in snd x = Replaced /\ fin x = Some [1; 2]) /\
  (let x := st_update only_200 max_redirects web 1 3 2 1 3 no_faults in
   snd x = Failed AtSource /\ fin x = Some [10; 11; 12] /\ fst x = [Open 3 2 fl_tmp; Close 3; Unlink 2]) /\
  (let x := st_update only_200 max_redirects web 2 3 2 1 3 no_faults in snd x = Replaced /\ fin x = Some [1; 2; 3; 4]) /\
  (let x := st_update only_200 max_redirects web 3 3 2 1 3 no_faults in snd x = Replaced /\ fin x = Some [1; 2; 3; 4]) /\
  (let x := st_update only_200 max_redirects web 4 3 2 1 3 no_faults in snd x = Failed AtSource /\ fin x = Some [10; 11; 12]) /\
  (let x := st_update any_2xx max_redirects web 5 3 2 1 3 no_faults in snd x = Replaced /\ fin x = Some []) /\
  (let x := st_update only_200 max_redirects web 5 3 2 1 3 no_faults in snd x = Failed AtSource /\ fin x = Some [10; 11; 12]) /\
  (let x := st_update only_200 max_redirects web 6 3 2 1 3 no_faults in snd x = Failed AtSource /\ fin x = Some [10; 11; 12]) /\
  (let x := st_update only_200 max_redirects web 7 3 2 1 3 no_faults in snd x = Failed AtSource /\ fin x = Some [10; 11; 12]) /\
  (let x := st_update only_200 max_redirects web 8 3 2 1 3 no_faults in snd x = Failed AtSource /\ fin x = Some [10; 11; 12]).
Proof.
  cbn zeta. split; [apply boot_quiescent|].
  split. { unfold fresh_tmp. repeat split; try (vm_compute; reflexivity). discriminate. }
  vm_compute. repeat split; reflexivity.
Qed.

(** C13, part 6g: per-step preservation of [loadable], steps 26, 27, 29
    (see Proofs/MigrateLoadable.v; lemmas and tactics of Proofs/MigrateLoadTools.v). *)
From Coq Require Import List ZArith String Ascii Bool Lia Arith.
From AGH Require Import Model.Migrate Model.MigrateLoad Proofs.Migrate Proofs.MigrateLoadable Proofs.MigrateLoadTools.
Import ListNotations.
Local Open Scope string_scope.
Local Open Scope list_scope.

Section WithOracles.
Variable O : oracles.

Lemma keep26 : step_keeps L 25 step26.
Proof.
  intros m m' Hm E. open_schema Hm. open_goal. unfold step26 in E. stamp_in Hm E m0.
  destruct (field_val TObj m0 "dns") as [|dnsv|] eqn:F; try discriminate E; [injection E as <-; fin Hm|].
  destruct (fv_obj_ok _ _ _ F) as [dns [-> G]]. cbn [zobj] in E.
  destruct (moves moves26 dns []) as [[dns' flt]|] eqn:Mv; [|discriminate E].
  pose proof (obj_field _ _ _ _ _ _ Hm G eq_refl) as Hdns.
  let ff := goal_obj_fields "filtering" in pose proof (fok_nil ff) as Hf0.
  do_moves Mv Hdns Hf0 Hs Hd.
  pose proof (fok_set_obj _ _ "dns" false _ _ Hm Hs) as H1.
  destruct flt as [|p flt]; injection E as <-; [fin H1|].
  refine (fin_set_obj _ _ "filtering" false _ _ _ H1 Hd _). vmr.
Qed.

Lemma keep27 : step_keeps L 26 step27.
Proof.
  intros m m' Hm E. open_schema Hm. open_goal. unfold step27 in E. stamp_in Hm E m0.
  destruct (replace_dot "querylog" m0) as [m1| |] eqn:R1; cbn [bind] in E; try discriminate E.
  let fs := hyp_table Hm in
  assert (H1 : fields_ok m1 fs = true) by (refine (replace_dot_fok _ _ _ _ _ _ _ R1 Hm eq_refl eq_refl _); vmr).
  refine (replace_dot_fok _ _ _ _ _ _ _ E H1 eq_refl eq_refl _). vmr.
Qed.

Lemma keep29 : step_keeps L 28 (step29 O).
Proof.
  intros m m' Hm E. open_schema Hm. open_goal. unfold step29 in E. stamp_in Hm E m0.
  destruct (field_val TArr m0 "filters") as [|v|] eqn:F; try discriminate E; [injection E as <-; fin Hm|].
  destruct (map_res filter29 (zarr v)) as [ps| |]; cbn [bind] in E; try discriminate E.
  let fo := goal_obj_fields "filtering" in
  refine (with_obj_fok _ _ _ _ _ _ _ fo _ E Hm eq_refl _ _); [|vmr].
  clear. intros o o' Ho Ef. injection Ef as <-.
  refine (fin_set _ _ "safe_fs_patterns" (SArr SStr) (VStrs _) _ Ho eq_refl _). vmr.
Qed.

End WithOracles.

(** Proofs about Model/RuleListParser.v (C15). *)
From Coq Require Import NArith List Bool Lia.
From AGH Require Import Base.Run Base.Bytes Model.RuleListParser.
Import ListNotations.

Lemma output_nil : output p_init = [].
Proof. reflexivity. Qed.

(** Proofs about Model/RuleListParser.v (C15): the stored form of a list is a
    fixed point of the parser, and its shape. *)
From Coq Require Import NArith List Bool Lia.
From AGH Require Import Base.Run Base.Bytes Model.RuleListParser.
Import ListNotations.
Local Open Scope N_scope.

Lemma rv_rev {A} (l : list A) : rv l = rev l.
Proof. unfold rv. symmetry. apply rev_alt. Qed.

(** * Pattern stripping *)

Lemma starts_with_spec p : forall s r, starts_with p s = Some r <-> s = p ++ r.
Proof.
  induction p as [|a p IH]; intros s r; cbn.
  - split; congruence.
  - destruct s as [|b s]; [split; discriminate|].
    destruct (N.eqb_spec a b) as [->|Nab].
    + rewrite IH. split; congruence.
    + split; [discriminate|]. intros [= ? ?]. congruence.
Qed.

Lemma starts_with_app p u v r : starts_with p u = Some r -> starts_with p (u ++ v) = Some (r ++ v).
Proof. rewrite !starts_with_spec. intros ->. now rewrite app_assoc. Qed.

Lemma starts_with_app_None p u v : starts_with p (u ++ v) = None -> starts_with p u = None.
Proof.
  intros H. destruct (starts_with p u) as [r|] eqn:E; auto.
  apply starts_with_app with (v := v) in E. congruence.
Qed.

Lemma strip_with_Some pats : forall s r, strip_with pats s = Some r -> exists p, In p pats /\ s = p ++ r.
Proof.
  induction pats as [|p ps IH]; intros s r; cbn; [discriminate|].
  destruct (starts_with p s) as [r'|] eqn:E.
  - intros [= <-]. exists p. split; auto. now apply starts_with_spec.
  - intros H. destruct (IH _ _ H) as (q & Hq & ->). eauto.
Qed.

Lemma strip_with_None pats s :
  strip_with pats s = None <-> forall p, In p pats -> starts_with p s = None.
Proof.
  induction pats as [|p ps IH]; cbn.
  - split; auto. intros _ ? [].
  - destruct (starts_with p s) as [r|] eqn:E.
    + split; [discriminate|]. intros H. rewrite <- E. apply H. now left.
    + rewrite IH. split.
      * intros H q [<-|Hq]; auto.
      * intros H q Hq. apply H. now right.
Qed.

Lemma strip_with_app_None pats u v : strip_with pats (u ++ v) = None -> strip_with pats u = None.
Proof.
  rewrite !strip_with_None. intros H p Hp. eapply starts_with_app_None. apply H, Hp.
Qed.

Lemma trim_with_f_fix pats fuel s : strip_with pats s = None -> trim_with_f pats fuel s = s.
Proof. destruct fuel; cbn; auto. now intros ->. Qed.

Lemma trim_with_f_suffix pats : forall fuel s, exists pre, s = pre ++ trim_with_f pats fuel s.
Proof.
  induction fuel as [|f IH]; intros s; cbn; [now exists []|].
  destruct (strip_with pats s) as [r|] eqn:E; [|now exists []].
  apply strip_with_Some in E. destruct E as (p & _ & ->).
  destruct (IH r) as (pre & Hr). exists (p ++ pre). now rewrite <- app_assoc, <- Hr.
Qed.

Lemma trim_with_f_none pats : (forall p, In p pats -> p <> []) ->
  forall fuel s, (length s <= fuel)%nat -> strip_with pats (trim_with_f pats fuel s) = None.
Proof.
  intros Hne. induction fuel as [|f IH]; intros s Hl; cbn.
  - destruct s; [|cbn in Hl; lia]. apply strip_with_None. intros p Hp.
    destruct p as [|a p]; [now apply Hne in Hp|reflexivity].
  - destruct (strip_with pats s) as [r|] eqn:E; auto.
    apply IH. apply strip_with_Some in E. destruct E as (p & Hp & ->).
    apply Hne in Hp. rewrite app_length in Hl. destruct p; [congruence|cbn in Hl; lia].
Qed.

Lemma space_runes_nonempty p : In p space_runes -> p <> [].
Proof. cbn. intuition (subst; discriminate). Qed.

Lemma rev_space_runes_nonempty p : In p (map (@rev N) space_runes) -> p <> [].
Proof. cbn. intuition (subst; discriminate). Qed.

(** * bytes.TrimSpace *)

(** No leading / trailing white-space rune. *)
Definition no_outer_space (t : bytes) : Prop :=
  strip_with space_runes t = None /\ strip_with (map (@rev N) space_runes) (rev t) = None.

Lemma trim_right_spec u :
  strip_with (map (@rev N) space_runes) (rev (trim_right u)) = None /\
  exists suf, u = trim_right u ++ suf.
Proof.
  unfold trim_right, trim_with. rewrite !rv_rev, rev_involutive. split.
  - apply trim_with_f_none; [apply rev_space_runes_nonempty|lia].
  - destruct (trim_with_f_suffix (map (@rev N) space_runes) (length (rev u)) (rev u)) as (pre & H).
    exists (rev pre). apply (f_equal (@rev N)) in H. rewrite rev_involutive, rev_app_distr in H. exact H.
Qed.

Lemma trim_left_spec s :
  strip_with space_runes (trim_left s) = None /\ exists pre, s = pre ++ trim_left s.
Proof.
  unfold trim_left, trim_with. split.
  - apply trim_with_f_none; [apply space_runes_nonempty|lia].
  - apply trim_with_f_suffix.
Qed.

Lemma trim_space_infix s : exists pre suf, s = pre ++ trim_space s ++ suf.
Proof.
  unfold trim_space. destruct (trim_left_spec s) as (_ & pre & Hs).
  destruct (trim_right_spec (trim_left s)) as (_ & suf & Hu).
  exists pre, suf. now rewrite <- Hu.
Qed.

Lemma trim_space_no_outer s : no_outer_space (trim_space s).
Proof.
  unfold trim_space. destruct (trim_left_spec s) as (Hl & _).
  destruct (trim_right_spec (trim_left s)) as (Hr & suf & Hu). split; auto.
  rewrite Hu in Hl. eapply strip_with_app_None; eauto.
Qed.

Lemma trim_space_fixed t : no_outer_space t -> trim_space t = t.
Proof.
  intros [Hl Hr]. unfold trim_space, trim_left, trim_right, trim_with.
  rewrite (trim_with_f_fix _ _ _ Hl), !rv_rev, (trim_with_f_fix _ _ _ Hr). apply rev_involutive.
Qed.

Lemma trim_space_idem s : trim_space (trim_space s) = trim_space s.
Proof. apply trim_space_fixed, trim_space_no_outer. Qed.

Lemma trim_space_length s : (length (trim_space s) <= length s)%nat.
Proof.
  destruct (trim_space_infix s) as (pre & suf & H). rewrite H at 2. rewrite !app_length. lia.
Qed.

Lemma trim_space_no_nl s : ~ In 10 s -> ~ In 10 (trim_space s).
Proof.
  destruct (trim_space_infix s) as (pre & suf & H). intros N I. apply N. rewrite H.
  rewrite !in_app_iff. tauto.
Qed.

Lemma no_outer_drop_cr t : no_outer_space t -> drop_cr t = t.
Proof.
  intros [_ Hr]. unfold drop_cr. rewrite rv_rev.
  destruct (rev t) as [|c r] eqn:E; auto.
  destruct (N.eqb_spec c 13) as [->|Nc].
  - exfalso. rewrite strip_with_None in Hr.
    specialize (Hr [13]). cbn in Hr. discriminate Hr. tauto.
  - destruct c as [|p]; auto.
    repeat (destruct p as [p|p|]; auto; try congruence).
Qed.

(** * The scanner *)

Lemma drop_cr_prefix t : exists suf, t = drop_cr t ++ suf.
Proof.
  unfold drop_cr. rewrite rv_rev. destruct (rev t) as [|c r] eqn:E; [exists []; now rewrite app_nil_r|].
  assert (Ht : t = rev r ++ [c]).
  { rewrite <- (rev_involutive t), E. reflexivity. }
  destruct (N.eqb_spec c 13) as [->|Nc].
  - rewrite rv_rev. now exists [13].
  - exists []. rewrite app_nil_r. destruct c as [|p]; auto.
    repeat (destruct p as [p|p|]; auto; try congruence).
Qed.

Lemma lenN_app a b : lenN (a ++ b) = lenN a + lenN b.
Proof. unfold lenN. rewrite app_length. lia. Qed.

Lemma lenN_cons a l : lenN (a :: l) = lenN l + 1.
Proof. unfold lenN. cbn [length]. lia. Qed.

(** Every token is free of newlines and shorter than the buffer. *)
Definition token_ok (t : bytes) : Prop := ~ In 10 t /\ lenN t < max_token.

Lemma drop_cr_token_ok t : token_ok t -> token_ok (drop_cr t).
Proof.
  intros [H1 H2]. destruct (drop_cr_prefix t) as (suf & E). split.
  - intros I. apply H1. rewrite E. apply in_app_iff. now left.
  - rewrite E, lenN_app in H2. lia.
Qed.

Lemma scan_tokens_ok : forall x cur n ts e,
  scan x cur n = (ts, e) -> n = lenN cur -> token_ok (rev cur) ->
  Forall token_ok ts.
Proof.
  induction x as [|b x IH]; intros cur n ts e; cbn [scan].
  - destruct (n =? 0); intros [= <- <-] _ Hc; auto.
    constructor; auto. rewrite rv_rev. now apply drop_cr_token_ok.
  - destruct (N.eqb_spec b 10) as [->|Nb].
    + destruct (scan x [] 0) as [ts' e'] eqn:S. intros [= <- <-] Hn Hc.
      constructor.
      * rewrite rv_rev. now apply drop_cr_token_ok.
      * eapply IH; eauto. split; [intros []|reflexivity].
    + destruct (N.leb_spec max_token (n + 1)).
      * intros [= <- <-] _ _. constructor.
      * intros S Hn [Hc1 Hc2]. eapply IH; eauto.
        -- rewrite lenN_cons. lia.
        -- cbn [rev]. split.
           ++ rewrite in_app_iff. cbn. intros [I|[I|[]]]; [tauto|congruence].
           ++ rewrite lenN_app. unfold lenN at 2. cbn.
              unfold lenN in *. rewrite rev_length in *. lia.
Qed.

(** Scanning the stored form gives back its lines. *)
Definition line_ok (r : bytes) : Prop := token_ok r /\ drop_cr r = r.

Lemma scan_line : forall r2 r1 rest,
  ~ In 10 r2 -> lenN (r1 ++ r2) < max_token ->
  scan (r2 ++ 10 :: rest) (rev r1) (lenN r1)
  = let '(ts, e) := scan rest [] 0 in (drop_cr (r1 ++ r2) :: ts, e).
Proof.
  induction r2 as [|b r2 IH]; intros r1 rest Hn Hl; cbn [app scan].
  - rewrite N.eqb_refl, rv_rev, rev_involutive, app_nil_r. reflexivity.
  - destruct (N.eqb_spec b 10) as [->|Nb]; [exfalso; apply Hn; now left|].
    rewrite lenN_app, lenN_cons in Hl.
    destruct (N.leb_spec max_token (lenN r1 + 1)); [lia|].
    replace (b :: rev r1) with (rev (r1 ++ [b])) by (rewrite rev_app_distr; reflexivity).
    replace (lenN r1 + 1) with (lenN (r1 ++ [b])) by (rewrite lenN_app; reflexivity).
    rewrite IH.
    + now rewrite <- app_assoc.
    + intros I. apply Hn. now right.
    + rewrite <- app_assoc. cbn [app]. rewrite lenN_app, lenN_cons. lia.
Qed.

Lemma scan_stored rs : Forall line_ok rs ->
  scan (flat_map (fun r => r ++ [10]) rs) [] 0 = (rs, false).
Proof.
  induction 1 as [|r rs [[H1 H2] H3] _ IH]; [reflexivity|].
  cbn [flat_map]. rewrite <- app_assoc. cbn [app].
  pose proof (scan_line r [] (flat_map (fun r => r ++ [10]) rs) H1) as SL.
  change (lenN []) with 0 in SL. cbn [rev app] in SL. rewrite SL by exact H2.
  rewrite IH, H3. reflexivity.
Qed.

(** * The parser *)

(** A line the parser writes. *)
Definition rule_ok (w : bytes) : Prop := no_outer_space w /\ classify w = LRule.

Lemma classify_rule_no_title w : classify w = LRule -> title_of w = None.
Proof.
  unfold classify, title_of. destruct w as [|c w]; [discriminate|].
  cbn [title_pattern starts_with].
  destruct (N.eqb_spec 33 c) as [<-|Nc]; [cbn; discriminate|reflexivity].
Qed.

Definition cntN (ws : list bytes) : N := N.of_nat (length ws).
Lemma cntN_cons w ws : cntN (w :: ws) = cntN ws + 1.
Proof. unfold cntN. cbn [length]. lia. Qed.

Section Parser.
  Variable crc : N -> bytes -> N.
  Notation process := (process crc).
  Notation parse := (parse crc).

  Definition written_of (ws : list bytes) : N := fold_left (fun a w => a + lenN w + 1) ws 0.

  (** What a successful [process] wrote: [ws], oldest first. *)
  Lemma process_ok_inv : forall toks st0 st,
    process toks st0 = (st, None) ->
    exists ws,
      p_lines st = rev ws ++ p_lines st0 /\
      Forall (fun w => rule_ok w /\ exists l, In l toks /\ w = trim_space l) ws /\
      p_count st = p_count st0 + cntN ws /\
      p_sum st = fold_left crc ws (p_sum st0) /\
      p_written st = fold_left (fun a w => a + lenN w + 1) ws (p_written st0) /\
      (p_written st0 = 0 -> match ws with w :: _ => is_html_line w = false | [] => True end).
  Proof.
    induction toks as [|l toks IH]; intros st0 st; cbn [RuleListParser.process].
    - intros [= <-]. exists []. cbn. unfold cntN. cbn. repeat split; auto. lia.
    - set (t := trim_space l).
      destruct ((p_written st0 =? 0) && is_html_line t) eqn:Hh; [discriminate|].
      set (st1 := if p_title_found st0 then st0 else match title_of t with Some ti => _ | None => st0 end).
      assert (E1 : p_lines st1 = p_lines st0 /\ p_count st1 = p_count st0 /\
                   p_sum st1 = p_sum st0 /\ p_written st1 = p_written st0).
      { unfold st1. destruct (p_title_found st0); auto. destruct (title_of t); auto. }
      destruct E1 as (El & Ec & Es & Ew).
      destruct (classify t) eqn:Cl; [| |discriminate].
      + intros H. destruct (IH _ _ H) as (ws & A & B & C & D & E & F).
        exists ws. rewrite A, C, D, E, El, Ec, Es, Ew. repeat split; auto.
        * eapply Forall_impl; [|exact B]. intros w (Hw & l0 & Hl0 & ->). split; auto.
          exists l0. split; auto. now right.
        * intros Z. apply F. congruence.
      + intros H. destruct (IH _ _ H) as (ws & A & B & C & D & E & F).
        cbn [p_lines p_count p_sum p_written] in *.
        exists (t :: ws). cbn [rev fold_left]. rewrite A, C, D, E, El, Ec, Es, Ew.
        rewrite <- app_assoc. cbn [app]. repeat split; auto.
        * constructor.
          -- split; [split; [apply trim_space_no_outer|exact Cl]|]. exists l. split; auto. now left.
          -- eapply Forall_impl; [|exact B]. intros w (Hw & l0 & Hl0 & ->). split; auto.
             exists l0. split; auto. now right.
        * rewrite cntN_cons. lia.
        * intros Z. rewrite Z in Hh. cbn in Hh. exact Hh.
  Qed.

  (** Feeding the written lines back: each is written again, unchanged. *)
  Lemma process_replay : forall ws st0,
    Forall rule_ok ws ->
    (p_written st0 = 0 -> match ws with w :: _ => is_html_line w = false | [] => True end) ->
    process ws st0 =
      ({| p_title := p_title st0; p_title_found := p_title_found st0;
          p_count := p_count st0 + cntN ws;
          p_written := fold_left (fun a w => a + lenN w + 1) ws (p_written st0);
          p_sum := fold_left crc ws (p_sum st0);
          p_lines := rev ws ++ p_lines st0 |}, None).
  Proof.
    induction ws as [|w ws IH]; intros st0 Hok Hhtml; cbn [RuleListParser.process].
    - destruct st0. cbn. unfold cntN. cbn. rewrite N.add_0_r. reflexivity.
    - inversion Hok as [|? ? [Hno Hcl] Hok']; subst.
      rewrite (trim_space_fixed w Hno).
      assert (Hh : (p_written st0 =? 0) && is_html_line w = false).
      { destruct (N.eqb_spec (p_written st0) 0) as [Z|Z]; [cbn; now apply Hhtml|reflexivity]. }
      rewrite Hh, (classify_rule_no_title w Hcl), Hcl.
      assert (Est : (if p_title_found st0 then st0 else st0) = st0) by (destruct (p_title_found st0); auto).
      rewrite Est. rewrite IH; auto.
      + cbn [p_title p_title_found p_count p_written p_sum p_lines rev fold_left].
        rewrite <- app_assoc. cbn [app]. f_equal. f_equal. rewrite cntN_cons. lia.
      + cbn [p_written]. intros Z. lia.
  Qed.

  (** ** The fixed point *)

  Theorem parse_fixed_point x re st :
    parse x re = (st, None) ->
    exists st',
      parse (output st) false = (st', None) /\
      output st' = output st /\
      p_count st' = p_count st /\ p_sum st' = p_sum st /\ p_written st' = p_written st.
  Proof.
    unfold RuleListParser.parse at 1. destruct (scan x [] 0) as [toks tl] eqn:S.
    destruct (process toks p_init) as [st1 [e|]] eqn:P; [discriminate|].
    intros H. assert (st1 = st) by congruence. subst st1. clear H.
    destruct (process_ok_inv _ _ _ P) as (ws & A & B & C & D & E & F).
    cbn [p_init p_lines p_count p_sum p_written] in *. rewrite app_nil_r in A.
    assert (Htok : Forall token_ok toks).
    { eapply scan_tokens_ok; eauto. split; [intros []|reflexivity]. }
    assert (Hout : output st = flat_map (fun r => r ++ [10]) ws).
    { unfold output. now rewrite rv_rev, A, rev_involutive. }
    assert (Hlines : Forall line_ok ws).
    { eapply Forall_impl; [|exact B]. intros w ((Hno & _) & l & Hl & ->).
      eapply Forall_forall in Htok; [|exact Hl]. destruct Htok as [T1 T2].
      split; [split|].
      - now apply trim_space_no_nl.
      - pose proof (trim_space_length l). unfold lenN in *. lia.
      - now apply no_outer_drop_cr. }
    assert (Hrules : Forall rule_ok ws) by (eapply Forall_impl; [|exact B]; intros ? [? _]; assumption).
    eexists. unfold RuleListParser.parse. rewrite Hout, (scan_stored ws Hlines).
    rewrite (process_replay ws p_init Hrules (fun _ => F eq_refl)).
    cbn [p_init p_title p_title_found p_count p_written p_sum p_lines].
    split; [reflexivity|].
    unfold output. cbn [p_lines]. rewrite rv_rev, app_nil_r, rev_involutive.
    cbn [p_count p_sum p_written]. repeat split; congruence.
  Qed.

  (** ... and the re-parse of a stored form finds no title: title lines are
      comments and are not written. *)
  Theorem parse_stored_no_title x re st :
    parse x re = (st, None) ->
    exists st', parse (output st) false = (st', None) /\ p_title st' = [].
  Proof.
    unfold RuleListParser.parse at 1. destruct (scan x [] 0) as [toks tl] eqn:S.
    destruct (process toks p_init) as [st1 [e|]] eqn:P; [discriminate|].
    intros H. assert (st1 = st) by congruence. subst st1. clear H.
    destruct (process_ok_inv _ _ _ P) as (ws & A & B & C & D & E & F).
    cbn [p_init p_lines p_count p_sum p_written] in *. rewrite app_nil_r in A.
    assert (Htok : Forall token_ok toks).
    { eapply scan_tokens_ok; eauto. split; [intros []|reflexivity]. }
    assert (Hout : output st = flat_map (fun r => r ++ [10]) ws).
    { unfold output. now rewrite rv_rev, A, rev_involutive. }
    assert (Hlines : Forall line_ok ws).
    { eapply Forall_impl; [|exact B]. intros w ((Hno & _) & l & Hl & ->).
      eapply Forall_forall in Htok; [|exact Hl]. destruct Htok as [T1 T2].
      split; [split|].
      - now apply trim_space_no_nl.
      - pose proof (trim_space_length l). unfold lenN in *. lia.
      - now apply no_outer_drop_cr. }
    assert (Hrules : Forall rule_ok ws) by (eapply Forall_impl; [|exact B]; intros ? [? _]; assumption).
    eexists. unfold RuleListParser.parse. rewrite Hout, (scan_stored ws Hlines).
    rewrite (process_replay ws p_init Hrules (fun _ => F eq_refl)).
    split; reflexivity.
  Qed.

  (** ** Shape of the stored form *)

  Definition line_shape (w : bytes) : Prop :=
    w <> [] /\ hd 0 w <> 35 /\ hd 0 w <> 33 /\ no_outer_space w /\
    ~ In 10 w /\ existsb likely_binary w = false.

  Lemma rule_ok_shape w : rule_ok w -> w <> [] /\ hd 0 w <> 35 /\ hd 0 w <> 33 /\
                                        existsb likely_binary w = false.
  Proof.
    intros [_ Cl]. unfold classify in Cl. destruct w as [|c w]; [discriminate|]. cbn [hd].
    destruct (N.eqb_spec c 35); [discriminate|]. destruct (N.eqb_spec c 33); [discriminate|].
    cbn [orb] in Cl. destruct (existsb likely_binary (c :: w)); [discriminate|].
    repeat split; auto. discriminate.
  Qed.

  Theorem parse_output_shape x re st :
    parse x re = (st, None) ->
    exists ws, output st = flat_map (fun w => w ++ [10]) ws /\ Forall line_shape ws /\
               p_count st = cntN ws /\ p_sum st = fold_left crc ws 0 /\ p_written st = lenN (output st).
  Proof.
    unfold RuleListParser.parse. destruct (scan x [] 0) as [toks tl] eqn:S.
    destruct (process toks p_init) as [st1 [e|]] eqn:P; [discriminate|].
    intros H. assert (st1 = st) by congruence. subst st1. clear H.
    destruct (process_ok_inv _ _ _ P) as (ws & A & B & C & D & E & F).
    cbn [p_init p_lines p_count p_sum p_written] in *. rewrite app_nil_r in A.
    assert (Htok : Forall token_ok toks).
    { eapply scan_tokens_ok; eauto. split; [intros []|reflexivity]. }
    assert (Hout : output st = flat_map (fun r => r ++ [10]) ws).
    { unfold output. now rewrite rv_rev, A, rev_involutive. }
    exists ws. split; auto. split; [|split; [lia|split; auto]].
    - eapply Forall_impl; [|exact B]. intros w (Hr & l & Hl & ->).
      destruct (rule_ok_shape _ Hr) as (S1 & S2 & S3 & S4).
      eapply Forall_forall in Htok; [|exact Hl]. destruct Htok as [T1 _].
      repeat split; auto; try apply Hr. now apply trim_space_no_nl.
    - rewrite E, Hout.
      assert (G : forall a, fold_left (fun a w => a + lenN w + 1) ws a
                            = a + lenN (flat_map (fun r => r ++ [10]) ws)).
      { clear. induction ws as [|w ws IH]; intros a; cbn [fold_left flat_map].
        - unfold lenN. cbn. lia.
        - rewrite IH, !lenN_app. change (lenN [10]) with 1. lia. }
      rewrite G. lia.
  Qed.
End Parser.

Lemma parse_read_error crc x st e : parse crc x true = (st, e) -> e <> None.
Proof.
  unfold parse. destruct (scan x [] 0) as [toks tl].
  destruct (process crc toks p_init) as [st1 [e1|]]; intros [= <- <-]; [discriminate|].
  destruct tl; discriminate.
Qed.

(** * HTML is looked for before the first written byte, not on line 1 *)

(** A line that writes nothing: blank, white space only, a comment, a title. *)
Definition unwritten (l : bytes) : Prop := classify (trim_space l) = LSkip.

Lemma skip_not_html t : classify t = LSkip -> is_html_line t = false.
Proof.
  destruct t as [|c r]; [reflexivity|]. unfold classify.
  destruct ((c =? 35) || (c =? 33)) eqn:E.
  - intros _. apply orb_true_iff in E. destruct E as [E|E]; apply N.eqb_eq in E; subst c; reflexivity.
  - destruct (existsb likely_binary (c :: r)); discriminate.
Qed.

Lemma process_html_after_unwritten crc t rest : forall pre st,
  Forall unwritten pre -> is_html_line (trim_space t) = true -> p_written st = 0 ->
  exists st', process crc (pre ++ t :: rest) st = (st', Some EHtml) /\
              p_written st' = 0 /\ p_lines st' = p_lines st /\ p_count st' = p_count st.
Proof.
  induction pre as [|l pre IH]; intros st Hp Ht W; cbn [app process].
  - rewrite W, Ht. cbn. eauto.
  - inversion Hp as [|? ? Hl Hp']; subst. unfold unwritten in Hl.
    rewrite W, (skip_not_html _ Hl). cbn [N.eqb andb].
    set (st1 := if p_title_found st then st else _).
    assert (E : p_written st1 = 0 /\ p_lines st1 = p_lines st /\ p_count st1 = p_count st).
    { unfold st1. destruct (p_title_found st); auto. destruct (title_of (trim_space l)); auto. }
    rewrite Hl. destruct E as (E1 & E2 & E3). destruct (IH st1 Hp' Ht E1) as (st' & P & A & B & C).
    exists st'. repeat split; auto; congruence.
Qed.

Lemma scan_lines_then rest h : forall pre,
  Forall (fun l => ~ In 10 l /\ lenN l < max_token) (pre ++ [h]) ->
  scan (flat_map (fun l => l ++ [10]) pre ++ h ++ 10 :: rest) [] 0
  = let '(ts, e) := scan rest [] 0 in (map drop_cr pre ++ drop_cr h :: ts, e).
Proof.
  induction pre as [|l pre IH]; intros H; cbn [flat_map app map].
  - inversion H as [|? ? [H1 H2] _]; subst.
    pose proof (scan_line h [] rest H1) as SL. change (lenN []) with 0 in SL. cbn [rev app] in SL.
    now rewrite SL.
  - inversion H as [|? ? [H1 H2] H']; subst. rewrite <- !app_assoc. cbn [app].
    pose proof (scan_line l [] (flat_map (fun l => l ++ [10]) pre ++ h ++ 10 :: rest) H1) as SL.
    change (lenN []) with 0 in SL. cbn [rev app] in SL. rewrite SL by exact H2.
    rewrite IH by exact H'. destruct (scan rest [] 0). reflexivity.
Qed.

(** Whatever lines that write nothing precede it (blank, white space only,
    comments, a title, with \n or \r\n endings) and whatever follows: a line
    starting, after white space, with <html or <!doctype in any case makes the
    parse fail with the HTML error, and nothing has been written. *)
Theorem parse_html_after_unwritten crc pre h rest re :
  Forall (fun l => ~ In 10 l /\ lenN l < max_token) (pre ++ [h]) ->
  Forall (fun l => unwritten (drop_cr l)) pre ->
  is_html_line (trim_space (drop_cr h)) = true ->
  exists st, parse crc (flat_map (fun l => l ++ [10]) pre ++ h ++ 10 :: rest) re = (st, Some EHtml) /\
             p_written st = 0 /\ output st = [].
Proof.
  intros Hs Hp Hh. unfold parse. rewrite scan_lines_then by exact Hs.
  destruct (scan rest [] 0) as [ts e].
  destruct (process_html_after_unwritten crc (drop_cr h) ts (map drop_cr pre) p_init) as (st & P & W & L & _); auto.
  { apply Forall_map. exact Hp. }
  rewrite P. exists st. repeat split; auto. unfold output. rewrite L. reflexivity.
Qed.

(** Example: CRLF blank line, comment, white-space-only line, title, then an
    indented upper-case doctype. *)
Example html_after_unwritten_example :
  let pre := [[13]; [35; 32; 120]; [32; 9; 32]; [33; 32; 84; 105; 116; 108; 101; 58; 32; 80; 13]] in
  let h := [32; 60; 33; 68; 79; 67; 84; 89; 80; 69; 32; 104; 116; 109; 108; 62; 13] in
  Forall (fun l => ~ In 10 l /\ lenN l < max_token) (pre ++ [h]) /\
  Forall (fun l => unwritten (drop_cr l)) pre /\
  is_html_line (trim_space (drop_cr h)) = true /\
  snd (parse crc32_update (flat_map (fun l => l ++ [10]) pre ++ h ++ 10 :: [124; 124; 120; 94; 10]) false) = Some EHtml.
Proof.
  cbv zeta. split; [|split; [|split]].
  - repeat constructor; try (vm_compute; reflexivity); cbn; intuition discriminate.
  - repeat constructor; vm_compute; reflexivity.
  - vm_compute. reflexivity.
  - vm_compute. reflexivity.
Qed.

(** * Non-vacuity *)
Module Examples.
  (* " ! Title: T \r\n# c\n\n  ||x^ \t\r\n\xc2\xa0a\rb\xe3\x80\x80\nlast" *)
  Definition text : bytes :=
    [32;33;32;84;105;116;108;101;58;32;84;32;13;10; 35;32;99;10; 10;
     32;32;124;124;120;94;32;9;13;10; 194;160;97;13;98;227;128;128;10; 108;97;115;116].
  Definition stored : bytes := [124;124;120;94;10; 97;13;98;10; 108;97;115;116;10].
End Examples.

Example parse_example :
  let '(st, e) := parse crc32_update Examples.text false in
  e = None /\ output st = Examples.stored /\ p_count st = 3 /\ p_title st = [84] /\
  output st <> Examples.text.
Proof. vm_compute. repeat split; congruence. Qed.

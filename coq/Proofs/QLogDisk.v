(** C20, round 6: the reader on a file on disk is a function of the bytes;
    the alignment of line breaks and read windows. *)
From Coq Require Import ZArith NArith List Bool Lia String.
From AGH Require Import Base.Run Model.QLogFile Model.QLog Model.QLogCodec Model.QLogBytes Model.QLogDisk
  Proofs.QLogFile Proofs.QLogCodec Proofs.QLogCodecLoc Proofs.QLogBytes Proofs.QLogStamp.
Import ListNotations.
Local Open Scope Z_scope.

(** * Metadata

    True by construction of the model (the functions take the content only);
    what makes it a claim about the code is the correspondence: the harness
    runs the real qLogFile / qLogReader on files whose modification time lies
    before, inside and after the stored stamps, whose access time and
    permission bits vary, and on files that grow through a second handle, and
    the evaluator compares every result with these functions. *)
Theorem seek_depends_on_bytes_only o me buf d1 d2 ts s :
  d_content d1 = d_content d2 ->
  d_seek_ts o me d1 ts s = d_seek_ts o me d2 ts s /\
  d_seek_start d1 s = d_seek_start d2 s /\
  d_read_next me buf d1 s = d_read_next me buf d2 s.
Proof.
  intros H. unfold d_seek_ts, d_seek_start, d_read_next, stat; cbn [fi_size]. now rewrite H.
Qed.

(** The seek clause of the property, stated on a file on disk: whatever the
    metadata, seeking the stamp of a stored line finds that line and the next
    ReadNext returns its bytes. *)
Theorem seek_present_whatever_metadata o me buf ls (m : fmeta) k ln s :
  0 < me <= buf -> blines_ok me ls ->
  stamps_nonzero (absf o ls) -> sorted_ts (absf o ls) -> size_ok (absf o ls) ->
  nth_error ls k = Some ln -> 0 <= buf_start s ->
  let d := {| d_content := flat ls; d_meta := m |} in
  exists dep s',
    d_seek_ts o me d (read_qlog_ts o ln) s = (Found (St (absf o ls) k + blen ln) dep, s') /\
    fst (d_read_next me buf d s') = Some (ln, St (absf o ls) k).
Proof.
  intros Hme Hl Hnz Hso Hsz Hk Hs d.
  exact (b_seek_present_then_read o me buf ls k ln s Hme Hl Hnz Hso Hsz Hk Hs).
Qed.

(** ... and the absent classes. *)
Theorem seek_absent_whatever_metadata o me ls (m : fmeta) ts r s :
  0 < me -> blines_ok me ls ->
  stamps_nonzero (absf o ls) -> sorted_ts (absf o ls) -> size_ok (absf o ls) -> ls <> [] ->
  (r <= length ls)%nat ->
  (forall k ln, nth_error ls k = Some ln -> (k < r)%nat -> read_qlog_ts o ln < ts) ->
  (forall k ln, nth_error ls k = Some ln -> (r <= k)%nat -> ts < read_qlog_ts o ln) ->
  let d := {| d_content := flat ls; d_meta := m |} in
  fst (d_seek_ts o me d ts s) =
    (if Nat.eqb r 0 then TooEarly else if Nat.eqb r (length ls) then TooLate else NotFound) /\
  pos (snd (d_seek_ts o me d ts s)) = pos s.
Proof.
  intros Hme Hl Hnz Hso Hsz Hne Hr Hlo Hhi d.
  pose proof (b_seek_absent o me ls ts r Hme Hl Hnz Hso Hsz Hne Hr Hlo Hhi) as E.
  unfold d_seek_ts, b_seek_ts_state, d; cbn [d_content fst snd pos]. rewrite E.
  split; [reflexivity|]. destruct (Nat.eqb r 0); [reflexivity|]. destruct (Nat.eqb r (length ls)); reflexivity.
Qed.

(** A reader that consults the modification time is NOT such a function, and
    breaks the seek clause: a stored stamp is reported too late on a file
    whose modification time is earlier than that stamp (restored file, clock
    set back, coarse file-system clock). *)
Definition ex_disk (mtime : Z) : disk_file :=
  {| d_content := flat [ex_T 1; ex_T 3; ex_T 5]; d_meta := {| m_mtime := mtime; m_atime := 9; m_mode := 420 |} |}.

Theorem mtime_shortcut_refuted :
  exists (d : disk_file) (ts : Z) p dep,
    fst (d_seek_ts ex_oracle 64 d ts rstate0) = Found p dep /\
    fst (d_seek_ts_mtime ex_oracle 64 d ts rstate0) = TooLate /\
    (* with a later modification time the variant agrees with the code *)
    fst (d_seek_ts_mtime ex_oracle 64 {| d_content := d_content d; d_meta := {| m_mtime := 9; m_atime := 9; m_mode := 420 |} |} ts rstate0)
      = Found p dep.
Proof. exists (ex_disk 2), 3, 55, 0. vm_compute. repeat split. Qed.

Example disk_example :
  d_content (ex_disk 2) = d_content (ex_disk 9) /\ ex_disk 2 <> ex_disk 9 /\
  d_seek_ts ex_oracle 64 (ex_disk 2) 5 rstate0 = d_seek_ts ex_oracle 64 (ex_disk 9) 5 rstate0 /\
  fst (d_seek_ts ex_oracle 64 (ex_disk 2) 5 rstate0) = Found 83 1.
Proof. split; [reflexivity|]. split; [intros H; discriminate H|]. vm_compute. split; reflexivity. Qed.

(** * Alignment

    [b_read_next_refines] holds for every state inside the file, hence for
    every placement of the windows.  The placement that the wave-6 change K
    needs, as a concrete instance with a small entry limit (4) and window (8):
    the file "ab\nxyz\npqr\n" is larger than the window; the window of the
    first read is [2, 10) and its FIRST byte is the line break in front of the
    record "xyz", whose length is the greatest allowed (3 = 4 - 1) and which
    ends exactly at the re-initialisation threshold (window byte 4).  The code
    returns the three records; the variant that does not examine window byte 0
    returns "\nxyz" for the second and "a" for the third: the same NUMBER of
    strings. *)
Definition al_ls : list bytes := [[97; 98]; [120; 121; 122]; [112; 113; 114]]%N.

Example alignment_example :
  blines_ok 4 al_ls /\ 8 < blen (flat al_ls) /\
  buf_start (snd (b_read_next 4 8 (flat al_ls) (b_seek_start (flat al_ls) rstate0))) = 2 /\
  nth 2 (flat al_ls) 0%N = nl /\
  b_read_all 4 8 (flat al_ls) 4 (b_seek_start (flat al_ls) rstate0) = (rev al_ls, true).
Proof.
  split; [|vm_compute; repeat split; reflexivity].
  unfold blines_ok, al_ls. repeat constructor; vm_compute; try reflexivity; intuition discriminate.
Qed.

Theorem scan_skipping_window_byte_0_refuted :
  exists me buf ls, 0 < me <= buf /\ blines_ok me ls /\
    b_read_all me buf (flat ls) (S (length ls)) (b_seek_start (flat ls) rstate0) = (rev ls, true) /\
    exists got, b_read_all_from1 me buf (flat ls) (S (length ls)) (b_seek_start (flat ls) rstate0) = (got, true) /\
      length got = length ls /\ got <> rev ls.
Proof.
  exists 4, 8, al_ls. split; [lia|]. split; [exact (proj1 alignment_example)|].
  split; [vm_compute; reflexivity|].
  eexists. split; [vm_compute; reflexivity|]. split; [reflexivity|]. intros H; discriminate H.
Qed.

(** * Round 7: the T field at any offset of the line

    [read_qlog_ts] looks for the FIRST occurrence of the marker in the whole
    line: there is no bound on where it may stand.  Lines covered: a one-line
    JSON object whose members before T are string members under other keys
    (keys free of quotes), with ANY values of ANY length, written with JSON's
    escaping of quotes; T holds a time text. *)
Definition line_T_behind (kvs : list (bytes * bytes)) (t : bytes) (post : list bytes) : bytes :=
  obj (map (fun kv => 34%N :: fst kv ++ 34%N :: 58%N :: quote (snd kv)) kvs ++ fld "T"%string (quote t) :: post).

Theorem stamp_field_at_any_offset (o : bytes -> Z) kvs t post :
  Forall (fun kv => forallb no34 (fst kv) = true /\ fst kv <> kT) kvs ->
  time_text t = true -> t <> [] ->
  read_qlog_ts o (line_T_behind kvs t post) = o t.
Proof.
  intros Hk Ht Hne. unfold read_qlog_ts, line_T_behind.
  destruct (located_T_behind_strings kvs post t Hk) as [rest H].
  rewrite (enc_str_time _ Ht), (until_quote_no34 _ _ (time_text_no34 _ Ht)) in H.
  injection H as H. rewrite <- H. destruct t; [congruence|reflexivity].
Qed.

(** ... in particular behind a value of [n] bytes, for every [n]: the marker
    then stands at byte n + 9 of the line. *)
Definition pad_line (n : nat) (t : bytes) : bytes :=
  line_T_behind [([81; 72]%N, repeat 120%N n)] t [].

Corollary stamp_field_behind_n_bytes (o : bytes -> Z) n t :
  time_text t = true -> t <> [] -> read_qlog_ts o (pad_line n t) = o t.
Proof.
  intros Ht Hne. apply stamp_field_at_any_offset; auto.
  constructor; [|constructor]. split; [reflexivity|discriminate].
Qed.

(** A reader that looks only at the first 512 bytes of the line (wave-7
    change M) is refuted: T behind a host of 590 bytes stands at byte 599; the
    line is one the theorem above covers and far shorter than the entry limit;
    the code reads the stamp, the variant reads 0, which makes seekTS abort
    with "record has empty timestamp" ([EmptyStamp]: none of found / not found
    / too early / too late). *)
Definition ex_t : bytes := B "2024-03-01T12:00:00.5Z".

Theorem bounded_prefix_refuted :
  let line := pad_line 590 ex_t in
  blen line = 628 /\ nlfree line /\
  takeZ (dropZ line 599) 5 = pT /\
  read_qlog_ts ex_o line = 1709294400500000000 /\
  read_qlog_ts_prefix 512 ex_o line = 0 /\
  (* short lines are not affected *)
  read_qlog_ts_prefix 512 ex_o (pad_line 100 ex_t) = 1709294400500000000 /\
  (* the seek over a file holding that line *)
  b_seek_ts ex_o 16384 (flat [line]) 1709294400500000000 = Found 628 0 /\
  b_seek_ts (fun v => 0) 16384 (flat [line]) 1709294400500000000 = EmptyStamp.
Proof. vm_compute. repeat split; reflexivity. Qed.

(** * Round 8: seekRecord and the wall clock

    [seek_record_st] is [seek_record] of Model/QLog.v (the function C07's
    paging theorems are about) with the reader kept on failure. *)
Lemma seek_record_st_eq me bf older r :
  seek_record me bf older r =
    (if (fst (seek_record_st me bf older r) =? 0)%Z then Some (snd (seek_record_st me bf older r)) else None).
Proof.
  unfold seek_record, seek_record_st. destruct older as [ts|]; [|reflexivity].
  destruct (reader_seek_ts me ts r) as [res r']. destruct res; try reflexivity.
  destruct (reader_read_next me bf r') as [[x|] r'']; reflexivity.
Qed.

(** seekRecord to the stamp of a stored record (files as in
    C20_two_files_seek_present; NO premise relates the stamps to any clock):
    it succeeds, and reading on returns the records just older than the
    requested one, then the older files. *)
Theorem seek_record_present me buf (fs : list qfile) i f t l ts :
  (0 < me <= buf)%Z -> Forall (file_ok me) fs ->
  nth_error fs i = Some f -> sorted_ts f -> nth_error f t = Some (l, ts) ->
  (forall j f', (i < j)%nat -> nth_error fs j = Some f' -> all_newer ts f') ->
  exists r'', seek_record_st me buf (Some ts) (new_reader fs) = (0%Z, r'') /\
    forall fuel, (length (tagged i (firstn t f) ++ all_rev_upto i fs) < fuel)%nat ->
      reader_read_all me buf fuel r'' = tagged i (firstn t f) ++ all_rev_upto i fs.
Proof.
  intros Hme Hfs Hi Hs Ht Hn.
  destruct (reader_seek_present me buf fs i f t l ts Hme Hfs Hi Hs Ht Hn) as (r' & r'' & x & E1 & E2 & E3).
  exists r''. split; [|exact E3]. unfold seek_record_st. rewrite E1, E2. reflexivity.
Qed.

(** The clock is no input: whatever two clock readings, the same result.  True
    by construction of the model ([seek_record_at] ignores its first
    argument); that the CODE agrees is checked by the histories over files
    whose stamps lie after the wall clock. *)
Definition seek_record_at (now : Z) := seek_record_st.

Theorem seek_record_ignores_clock now1 now2 me bf older r :
  seek_record_at now1 me bf older r = seek_record_at now2 me bf older r.
Proof. reflexivity. Qed.

(** The variant that skips the look-up for a cursor later than the clock is
    refuted: three records stamped one, two and three hours after [now]; the
    cursor is the second; the code goes on with the first (the one just older),
    the variant with the third (the newest): the requested record and a newer
    one are served again. *)
Definition ex_now : Z := 1700000000000000000.
Definition hour : Z := 3600000000000.
Definition ex_future : list qfile := [[(60, ex_now + hour); (70, ex_now + 2 * hour); (80, ex_now + 3 * hour)]]%Z.

Theorem seek_record_clock_refuted :
  Forall (file_ok 16384) ex_future /\
  (let (c, r) := seek_record_st 16384 1638400 (Some (ex_now + 2 * hour)%Z) (new_reader ex_future) in
   (c, fst (reader_read_next 16384 1638400 r))) = (0, Some (0, 0, 60))%Z /\
  (let (c, r) := seek_record_clock ex_now 16384 1638400 (Some (ex_now + 2 * hour)%Z) (new_reader ex_future) in
   (c, fst (reader_read_next 16384 1638400 r))) = (0, Some (0, 132, 80))%Z /\
  (* with a clock later than the stamps the variant agrees with the code *)
  seek_record_clock (ex_now + 4 * hour) 16384 1638400 (Some (ex_now + 2 * hour)%Z) (new_reader ex_future)
    = seek_record_st 16384 1638400 (Some (ex_now + 2 * hour)%Z) (new_reader ex_future).
Proof.
  split; [|vm_compute; repeat split; reflexivity].
  repeat constructor; vm_compute; intuition congruence.
Qed.

(** The engines are rebuilt regardless of the global filtering switch
    (Model/FilterSwitch.v): for the queue of rebuilds the switch is
    transparent, so the round-4 theorems hold over histories that toggle it,
    and a client whose own filtering is on is answered by the rules of the
    latest configuration while the global switch is off.  The seeded early
    return is refuted (running server and start-up). *)
From Coq Require Import List NArith Bool.
From AGH Require Import Base.Run Base.NetAddr Base.RuleEngine Model.Pipeline Proofs.Pipeline.
From AGH Require Import Model.PipelineLists Model.FilterQueue Proofs.FilterQueue Model.FilterSwitch.
From AGH Require Model.Rewrites.
Import ListNotations.

Lemma handle_g_as_written on s ch : handle_g gate_as_written on s ch = handle s ch.
Proof. unfold handle_g, handle, handler_ops, gate_as_written. now rewrite andb_true_r. Qed.

Lemma gstep_as_written g o :
  g_q (gstep gate_as_written config_always g o) = hstep (g_q g) (erase o).
Proof.
  destruct o as [en | o]; cbn [gstep erase g_q config_always].
  - cbn [g_q]. now rewrite handle_g_as_written.
  - destruct o; cbn [g_q gate_as_written]; try reflexivity. now rewrite handle_g_as_written.
Qed.

(** The flag the requests read is the configured one: after every step of
    the code as it is, from a state where they agree. *)
Lemma gstep_flag_in_step g o : g_on g = g_conf g ->
  g_on (gstep gate_as_written config_always g o) = g_conf (gstep gate_as_written config_always g o).
Proof.
  intros E. destruct o as [en | o]; cbn; [reflexivity|].
  destruct o; cbn; auto. unfold publish. destruct (restarts _ _ && _); auto.
Qed.

Theorem flag_in_step_after_history hs : forall g, g_on g = g_conf g ->
  g_on (grun gate_as_written config_always g hs) = g_conf (grun gate_as_written config_always g hs).
Proof.
  induction hs as [|o hs IH]; intros g E; [exact E|]. cbn [grun fold_left].
  apply IH. now apply gstep_flag_in_step.
Qed.

(** Once a filtering/config call has returned, the flag the requests read is
    the flag it set, and stays so until the next config call. *)
Theorem switch_in_force_after_config g en rest :
  Forall (fun o => match o with GConfig _ => False | GOp _ => True end) rest ->
  g_on (grun gate_as_written config_always g (GConfig en :: rest)) = en.
Proof.
  intros F. cbn [grun fold_left].
  set (g1 := gstep gate_as_written config_always g (GConfig en)).
  assert (E1 : g_on g1 = en /\ g_conf g1 = en) by (split; reflexivity).
  clearbody g1. revert g1 E1. induction F as [|o l Ho F IH]; intros g1 [A B]; [exact A|].
  cbn [fold_left]. apply IH. destruct o as [e | o]; [contradiction|].
  split.
  - rewrite gstep_flag_in_step by congruence. destruct o; cbn; auto.
  - destruct o; cbn; auto.
Qed.

(** The seeded handler (EnableFilters only when enabling): switched off, the
    requests still read "on". *)
Theorem publish_only_when_enabling_refuted :
  exists g, g_on g = g_conf g /\
    g_on (grun gate_as_written config_only_when_enabling g [GConfig false]) = true /\
    g_conf (grun gate_as_written config_only_when_enabling g [GConfig false]) = false /\
    g_on (grun gate_as_written config_always g [GConfig false]) = false.
Proof. exists (ginit gate_as_written true (mkLState [] [] [])). repeat split. Qed.

(** For the queue the switch does not exist. *)
Theorem switch_transparent_to_queue hs : forall g,
  g_q (grun gate_as_written config_always g hs) = hrun (g_q g) (map erase hs).
Proof.
  induction hs as [|o hs IH]; intros g; [reflexivity|].
  cbn [grun fold_left map hrun]. fold (grun gate_as_written config_always (gstep gate_as_written config_always g o) hs).
  rewrite IH, gstep_as_written. reflexivity.
Qed.

Section Compose.
  Variable sb par : bytes -> bool.
  Variable ss : bytes -> N -> option ssverdict.
  Variable srt : list Rewrites.entry -> list Rewrites.entry.

  (** Every history of handler calls (set_rules, set_url, add_url,
      remove_url), filtering/config calls switching the global flag either
      way, loop steps and synchronous rebuilds, from a server started with the
      flag on or off: when the loop has served the queue, a query is answered
      by the rules of the LATEST configuration, with the flag as last set as
      the global default. *)
  Theorem engine_rebuilt_regardless_of_global_switch on st hs c up q :
    let g := grun gate_as_written config_always (ginit gate_as_written on st) hs in
    ask_q sb par ss srt (pquiesce (g_q g)) (cfg_filt c (g_on g)) up q
    = ask sb par ss srt (q_conf (g_q g)) (cfg_filt c (g_on g)) up q.
  Proof.
    cbv zeta. rewrite switch_transparent_to_queue. cbn [ginit gate_as_written g_q].
    apply served_queue_answers_with_last_change.
  Qed.

  (** ... so a client whose OWN filtering is on (request_settings says so
      although the global flag is off) gets C01's main clause for the latest
      rules. *)
  Theorem own_filtering_client_blocked_by_latest_rules on st hs c up q :
    let g := grun gate_as_written config_always (ginit gate_as_written on st) hs in
    let c' := cfg_filt c (g_on g) in
    blocked_by_spec (match_request (allow_rules (q_conf (g_q g)))) (match_request (block_rules (q_conf (g_q g)))) srt c' q ->
    let o := ask_q sb par ss srt (pquiesce (g_q g)) c' up q in
    o_calls o = [] /\
    r_filtered (o_result o) = true /\ rule_reason (r_reason (o_result o)) /\
    o_resp o = Some (synthetic c' (q_name q) (q_qtype q) (ips_from_rules (o_result o))) /\
    o_qname o = q_name q.
  Proof.
    cbv zeta. intros B. rewrite engine_rebuilt_regardless_of_global_switch. unfold ask. now apply blocked_is_local.
  Qed.
End Compose.

(** The seeded early return: the flag switched off, then set_rules, then the
    loop: the engines do not hold the new rule; started with the flag off:
    the engines hold nothing. *)
Definition sw_state : lstate := mkLState [] [mkFList 0 true ex_block_rules] [].

Theorem rebuild_only_when_on_refuted :
  (exists hs, let g := grun gate_only_when_on config_always (ginit gate_only_when_on true sw_state) hs in
     q_engine (pquiesce (g_q g)) <> ptake (q_conf (g_q g)) /\
     let g' := grun gate_as_written config_always (ginit gate_as_written true sw_state) hs in
     q_engine (pquiesce (g_q g')) = ptake (q_conf (g_q g'))) /\
  q_engine (pquiesce (g_q (ginit gate_only_when_on false sw_state))) <> ptake sw_state.
Proof.
  split.
  - exists [GConfig false; GOp HLoop; GOp (HHandle (QRules ex_block_rules)); GOp HLoop].
    vm_compute. split; [discriminate | reflexivity].
  - vm_compute. discriminate.
Qed.

(** Non-vacuity: the global flag switched off, then set_rules ||a.test^, the
    loop; a client with own settings and filtering ON asks b.a.test. *)
Definition sw_client : pclient := mkPClient [111;119;110]%N true true false false false [] false false [].
Definition sw_query : request := mkRequest [66;46;97;46;84;69;83;84;46]%N 1%N ex_client_ip (Some sw_client) false None.

Example switch_premises_satisfiable :
  forall m,
  let g := grun gate_as_written config_always (ginit gate_as_written true (mkLState [] [] []))
             [GConfig false; GOp (HHandle (QRules ex_block_rules)); GOp HLoop] in
  g_on g = false /\ c_filtering (cfg_filt (ex_cfg m) (g_on g)) = false /\
  blocked_by_spec (match_request (allow_rules (q_conf (g_q g)))) (match_request (block_rules (q_conf (g_q g))))
    Rewrites.isort (cfg_filt (ex_cfg m) (g_on g)) sw_query.
Proof.
  intros m. cbv zeta. split; [reflexivity|]. split; [reflexivity|].
  unfold blocked_by_spec. cbv zeta. split; [destruct m; reflexivity|]. split; [exists false; destruct m; vm_compute; reflexivity|].
  split; [vm_compute; discriminate|]. split; [destruct m; vm_compute; reflexivity|]. split; [destruct m; vm_compute; reflexivity|]. left.
  unfold list_blocked, no_dnsrewrite. destruct m; repeat split; vm_compute; reflexivity.
Qed.

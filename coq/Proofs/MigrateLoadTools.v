(** C13, part 6 (tools): structural lemmas for the per-step preservation of
    [loadable] (see Proofs/MigrateLoadable.v).

    [fields_ok m fs] is a [forallb] over the table [fs]; every lemma here is
    proved once, by [forallb_forall], for an arbitrary table.  A step proof
    then walks FORWARD through the step: every [upd]/[del] turns a fact
    [fields_ok m fs] into a fact about the new map and a new (closed) table
    ([fok_set], [fok_unset], [fok_refine]); the last fact is carried to the
    table of the next version by [fok_weaken], whose side condition is the
    boolean shape inclusion [subfs], decided by computation. *)
From Coq Require Import List ZArith String Ascii Bool Lia Arith.
From AGH Require Import Model.Migrate Model.MigrateLoad Proofs.Migrate Proofs.MigrateLoadable.
Import ListNotations.
Local Open Scope string_scope.
Local Open Scope list_scope.

(** ** [fields_ok] as a [forallb] *)

Definition fld (m : obj) (ks : string * sh) : bool :=
  match get (fst ks) m with None => true | Some x => conforms (snd ks) x end.

Lemma fok_forallb m fs : fields_ok m fs = forallb (fld m) fs.
Proof. induction fs as [|[k s] fs IH]; cbn; [reflexivity|]. now rewrite IH. Qed.

Lemma fok_all m fs : fields_ok m fs = true <-> forall ks, In ks fs -> fld m ks = true.
Proof. rewrite fok_forallb. apply forallb_forall. Qed.

Lemma fok_nil fs : fields_ok [] fs = true.
Proof. apply fok_all. reflexivity. Qed.

(** The table without key [k]. *)
Definition rm (k : string) (fs : list (string * sh)) : list (string * sh) :=
  filter (fun ks => negb (String.eqb (fst ks) k)) fs.

Lemma in_rm k fs ks : In ks (rm k fs) <-> In ks fs /\ fst ks <> k.
Proof.
  unfold rm. rewrite filter_In. split; intros [H1 H2]; split; auto.
  - intros E. rewrite E, String.eqb_refl in H2. discriminate H2.
  - destruct (String.eqb_spec (fst ks) k); [contradiction | reflexivity].
Qed.

(** The first shape the table gives for a key. *)
Fixpoint look (k : string) (fs : list (string * sh)) : option sh :=
  match fs with
  | [] => None
  | (k', s) :: fs' => if String.eqb k k' then Some s else look k fs'
  end.

Lemma look_in k fs s : look k fs = Some s -> In (k, s) fs.
Proof.
  induction fs as [|[k' s'] fs IH]; cbn; [discriminate|].
  destruct (String.eqb_spec k k') as [<-|N].
  - intros [= ->]. now left.
  - intros H. right. now apply IH.
Qed.

Lemma look_none k fs s : look k fs = None -> ~ In (k, s) fs.
Proof.
  induction fs as [|[k' s'] fs IH]; cbn; [tauto|].
  destruct (String.eqb_spec k k') as [<-|N]; [discriminate|].
  intros H [[= E _]|H']; [congruence | now apply IH].
Qed.

(** *** Reading *)

Lemma fok_get m fs k s x : fields_ok m fs = true -> In (k, s) fs -> get k m = Some x -> conforms s x = true.
Proof.
  intros H I G. apply (proj1 (fok_all m fs) H) in I. unfold fld in I. cbn [fst snd] in I. now rewrite G in I.
Qed.

Lemma fok_look m fs k s x : fields_ok m fs = true -> get k m = Some x -> look k fs = Some s -> conforms s x = true.
Proof. intros H G Lk. exact (fok_get m fs k s x H (look_in _ _ _ Lk) G). Qed.

Lemma obj_field m fs k o n fo :
  fields_ok m fs = true -> get k m = Some (VObj o) -> look k fs = Some (SObj n fo) -> fields_ok o fo = true.
Proof. intros H G Lk. rewrite <- (conforms_obj n). exact (fok_look _ _ _ _ _ H G Lk). Qed.

Lemma arr_field m fs k l e :
  fields_ok m fs = true -> get k m = Some (VArr l) -> look k fs = Some (SArr e) -> forallb (conforms e) l = true.
Proof. intros H G Lk. exact (fok_look _ _ _ _ _ H G Lk). Qed.

(** What a value of an object shape is. *)
Lemma conforms_obj_inv n fs c : conforms (SObj n fs) c = true ->
  (c = VNull /\ n = true) \/ exists o, c = VObj o /\ fields_ok o fs = true.
Proof.
  destruct c; try (cbn; discriminate).
  - cbn. auto.
  - rewrite conforms_obj. eauto.
Qed.

(** *** Writing, forward: the table follows the map *)

Lemma fok_rm m fs k : fields_ok m fs = true -> fields_ok m (rm k fs) = true.
Proof. rewrite !fok_all. intros H ks I. apply in_rm in I. now apply H. Qed.

Lemma fok_set m fs k s x :
  fields_ok m fs = true -> conforms s x = true -> fields_ok (upd k x m) ((k, s) :: rm k fs) = true.
Proof.
  rewrite !fok_all. intros H C ks [<-|I].
  - unfold fld. cbn [fst snd]. now rewrite get_upd_eq.
  - apply in_rm in I. destruct I as [I N]. unfold fld. rewrite get_upd_ne by exact N. now apply H.
Qed.

Lemma fok_unset m fs k : fields_ok m fs = true -> fields_ok (del k m) ((k, SNone) :: rm k fs) = true.
Proof.
  rewrite !fok_all. intros H ks [<-|I].
  - unfold fld. cbn [fst snd]. now rewrite get_del_eq.
  - apply in_rm in I. destruct I as [I N]. unfold fld. rewrite get_del_ne by exact N. now apply H.
Qed.

(** Something learnt about the value under [k]. *)
Lemma fok_refine m fs k s :
  fields_ok m fs = true -> fld m (k, s) = true -> fields_ok m ((k, s) :: rm k fs) = true.
Proof.
  rewrite !fok_all. intros H C ks [<-|I]; [exact C|]. apply in_rm in I. now apply H.
Qed.

(** A key that is absent or null: any shape [s'] that takes a null will do,
    and so will any shape at all if the table did not allow a null. *)
Definition nullok (k : string) (fs : list (string * sh)) (s' : sh) : bool :=
  conforms s' VNull || existsb (fun ks => String.eqb (fst ks) k && negb (conforms (snd ks) VNull)) fs.

Lemma fok_absent m fs k s' :
  fields_ok m fs = true -> get k m = None \/ get k m = Some VNull -> nullok k fs s' = true ->
  fields_ok m ((k, s') :: rm k fs) = true.
Proof.
  intros H [G|G] N; apply fok_refine; try exact H; unfold fld; cbn [fst snd]; rewrite G; [reflexivity|].
  unfold nullok in N. apply orb_true_iff in N. destruct N as [N|N]; [exact N|].
  apply existsb_exists in N. destruct N as [[k' s] [I N]]. cbn [fst snd] in N.
  apply andb_true_iff in N. destruct N as [N1 N2]. apply String.eqb_eq in N1. subst k'.
  rewrite (fok_get _ _ _ _ _ H I G) in N2. discriminate N2.
Qed.

(** *** Writing, backward: peel an update off *)

Lemma fok_upd m fs k x :
  fields_ok m (rm k fs) = true ->
  forallb (fun ks => negb (String.eqb (fst ks) k) || conforms (snd ks) x) fs = true ->
  fields_ok (upd k x m) fs = true.
Proof.
  rewrite !fok_all, forallb_forall. intros H C ks I. unfold fld.
  destruct (String.eqb_spec (fst ks) k) as [E|N].
  - rewrite E, get_upd_eq. specialize (C ks I). rewrite E, String.eqb_refl in C. exact C.
  - rewrite get_upd_ne by exact N. apply H. apply in_rm. now split.
Qed.

Lemma fok_del m fs k : fields_ok m (rm k fs) = true -> fields_ok (del k m) fs = true.
Proof.
  rewrite !fok_all. intros H ks I. unfold fld.
  destruct (String.eqb_spec (fst ks) k) as [E|N].
  - now rewrite E, get_del_eq.
  - rewrite get_del_ne by exact N. apply H. apply in_rm. now split.
Qed.

(** The same table before and after. *)
Lemma fok_upd_same m fs k x :
  fields_ok m fs = true ->
  forallb (fun ks => negb (String.eqb (fst ks) k) || conforms (snd ks) x) fs = true ->
  fields_ok (upd k x m) fs = true.
Proof. intros H. apply fok_upd. now apply fok_rm. Qed.

Lemma fok_del_same m fs k : fields_ok m fs = true -> fields_ok (del k m) fs = true.
Proof. intros H. apply fok_del. now apply fok_rm. Qed.

(** ** Shape inclusion *)

(** [sub s s' = true]: every value of shape [s] has shape [s']. *)
Fixpoint sub (s s' : sh) {struct s} : bool :=
  match s' with
  | SAny => true
  | _ =>
    match s with
    | SNone => true
    | SAny => false
    | SBool => match s' with SBool | SStr => true | _ => false end
    | SInt => match s' with SInt | SStr => true | _ => false end
    | SStr => match s' with SStr => true | _ => false end
    | SDur => match s' with SDur | SStr => true | _ => false end
    | SArr e => match s' with SArr e' => sub e e' | _ => false end
    | SObj n fs =>
        match s' with
        | SObj n' fs' =>
            implb n n' &&
            forallb (fun ks' => existsb (fun ks => String.eqb (fst ks) (fst ks') && sub (snd ks) (snd ks')) fs) fs'
        | _ => false
        end
    end
  end.

Definition subfs (fs fs' : list (string * sh)) : bool :=
  forallb (fun ks' => existsb (fun ks => String.eqb (fst ks) (fst ks') && sub (snd ks) (snd ks')) fs) fs'.

Section ShInd.
  Variable P : sh -> Prop.
  Variable HAny : P SAny.
  Variable HNone : P SNone.
  Variable HBool : P SBool.
  Variable HInt : P SInt.
  Variable HStr : P SStr.
  Variable HDur : P SDur.
  Variable HArr : forall e, P e -> P (SArr e).
  Variable HObj : forall n fs, Forall (fun ks => P (snd ks)) fs -> P (SObj n fs).

  Fixpoint sh_ind2 (s : sh) : P s :=
    match s with
    | SAny => HAny | SNone => HNone | SBool => HBool | SInt => HInt | SStr => HStr | SDur => HDur
    | SArr e => HArr e (sh_ind2 e)
    | SObj n fs =>
        HObj n fs
          ((fix go (l : list (string * sh)) : Forall (fun ks => P (snd ks)) l :=
              match l with
              | [] => Forall_nil _
              | ks :: l' =>
                  Forall_cons ks (match ks as p return P (snd p) with (k, s0) => sh_ind2 s0 end) (go l')
              end) fs)
    end.
End ShInd.

Lemma forallb_impl {A} (f g : A -> bool) l :
  (forall a, In a l -> f a = true -> g a = true) -> forallb f l = true -> forallb g l = true.
Proof. rewrite !forallb_forall. intros H F a I. apply H; auto. Qed.

Lemma subfs_sound_gen fs fs' m :
  Forall (fun ks => forall s' x, sub (snd ks) s' = true -> conforms (snd ks) x = true -> conforms s' x = true) fs ->
  subfs fs fs' = true -> fields_ok m fs = true -> fields_ok m fs' = true.
Proof.
  intros IH S. rewrite !fok_all. intros H ks' I'.
  unfold subfs in S. rewrite forallb_forall in S. specialize (S ks' I').
  apply existsb_exists in S. destruct S as [ks [I S]]. apply andb_true_iff in S. destruct S as [E S].
  apply String.eqb_eq in E. specialize (H ks I). unfold fld in *. rewrite <- E.
  destruct (get (fst ks) m) as [x|]; [|reflexivity].
  rewrite Forall_forall in IH. exact (IH ks I _ _ S H).
Qed.

Lemma sub_sound s : forall s' x, sub s s' = true -> conforms s x = true -> conforms s' x = true.
Proof.
  induction s as [| | | | | |e IH|n fs IH] using sh_ind2; intros s' x S C;
    destruct s'; try reflexivity; try (cbn in S; discriminate S).
  all: try (cbn in C; discriminate C).
  all: try (destruct x; try (cbn in C; discriminate C); reflexivity).
  - (* SInt <= SInt, whole floats *) destruct x; try (cbn in C; discriminate C); try reflexivity. exact C.
  - (* arrays *)
    cbn [sub] in S. destruct x; try (cbn in C; discriminate C); try reflexivity.
    + cbn [conforms] in *. revert C. apply forallb_impl. intros a _. now apply IH.
    + cbn [conforms] in *. destruct e; try discriminate C; destruct s'; try reflexivity; cbn in S; discriminate S.
  - (* objects *)
    cbn [sub] in S. apply andb_true_iff in S. destruct S as [Sn S].
    destruct x; try (cbn in C; discriminate C).
    + cbn in C. cbn. subst n. exact Sn.
    + rewrite conforms_obj in *. exact (subfs_sound_gen fs fs0 m IH S C).
Qed.

Lemma fok_weaken m fs fs' : fields_ok m fs = true -> subfs fs fs' = true -> fields_ok m fs' = true.
Proof.
  intros H S. refine (subfs_sound_gen fs fs' m _ S H).
  apply Forall_forall. intros ks _. apply sub_sound.
Qed.

(** The form of [fok_weaken] with propositions instead of [sub]. *)
Lemma fok_weaken_prop m fs fs' :
  fields_ok m fs = true ->
  Forall (fun ks' => exists s, In (fst ks', s) fs /\ (forall x, conforms s x = true -> conforms (snd ks') x = true)) fs' ->
  fields_ok m fs' = true.
Proof.
  rewrite !fok_all, Forall_forall. intros H F ks' I'. destruct (F ks' I') as [s [I W]].
  specialize (H _ I). unfold fld in *. cbn [fst snd] in H.
  destruct (get (fst ks') m); [now apply W | reflexivity].
Qed.

(** ** Typed reads *)

Lemma fv_str_ok m k v : field_val TStr m k = FOk v -> exists s, v = VStr s.
Proof.
  unfold field_val. destruct (get k m) as [[]|]; cbn; try discriminate; intros [= <-]; eauto.
Qed.

Lemma fv_int_ok m k v : field_val TInt m k = FOk v -> exists z, v = VInt z.
Proof.
  unfold field_val. destruct (get k m) as [[]|]; cbn; try discriminate; try (intros [= <-]; eauto).
  destruct as_int; cbn; [intros [= <-]; eauto | discriminate].
Qed.

Lemma fv_bool_ok m k v : field_val TBool m k = FOk v -> exists b, v = VBool b.
Proof.
  unfold field_val. destruct (get k m) as [[]|]; cbn; try discriminate; intros [= <-]; eauto.
Qed.

Lemma fv_arr_ok m k v : field_val TArr m k = FOk v -> exists l, v = VArr l /\ get k m = Some (VArr l).
Proof.
  unfold field_val. destruct (get k m) as [[]|]; cbn; try discriminate; intros [= <-]; eauto.
Qed.

Lemma fv_obj_ok m k v : field_val TObj m k = FOk v -> exists o, v = VObj o /\ get k m = Some (VObj o).
Proof.
  unfold field_val. destruct (get k m) as [[]|]; cbn; try discriminate; intros [= <-]; eauto.
Qed.

Lemma fv_any_ok m k v : field_val TAny m k = FOk v -> get k m = Some v.
Proof.
  unfold field_val. destruct (get k m) as [[]|]; cbn; try discriminate; intros [= <-]; reflexivity.
Qed.

Lemma fv_absent t m k : field_val t m k = FAbsent -> get k m = None \/ get k m = Some VNull.
Proof.
  unfold field_val. destruct (get k m) as [v|]; [|auto].
  destruct v; try (destruct (has_ty t _); discriminate). destruct t; try discriminate; auto.
Qed.

Lemma fv_any_absent m k : field_val TAny m k = FAbsent -> get k m = None.
Proof.
  unfold field_val. destruct (get k m) as [[]|]; cbn; try discriminate; reflexivity.
Qed.

Lemma fv_any_noerr m k : field_val TAny m k <> FErr.
Proof. unfold field_val. destruct (get k m) as [[]|]; cbn; discriminate. Qed.

Lemma fv_err t m k : field_val t m k = FErr -> exists v, get k m = Some v /\ v <> VNull /\ has_ty t v = false.
Proof.
  unfold field_val. destruct (get k m) as [v|]; [|discriminate].
  destruct v; try (destruct (has_ty t _) eqn:E; [discriminate|]; intros _; eexists; repeat split; [discriminate|exact E]).
  destruct t; discriminate.
Qed.

(** The value a caller sees after a read that did not fail. *)
Lemma fv_val_str m k : exists s, fv_val TStr (field_val TStr m k) = VStr s.
Proof. destruct (field_val TStr m k) eqn:F; cbn; eauto. exact (fv_str_ok _ _ _ F). Qed.

Lemma fv_val_int m k : exists z, fv_val TInt (field_val TInt m k) = VInt z.
Proof. destruct (field_val TInt m k) eqn:F; cbn; eauto. exact (fv_int_ok _ _ _ F). Qed.

Lemma fv_val_bool m k : exists b, fv_val TBool (field_val TBool m k) = VBool b.
Proof. destruct (field_val TBool m k) eqn:F; cbn; eauto. exact (fv_bool_ok _ _ _ F). Qed.

(** ** [move_val], [moves], [move_in] *)

(** Does a destination shape [sd] take what a move of type [t] stores, the
    source key having shape [ss] (if the table has one)? *)
Definition acc (t : ty) (ss : option sh) (sd : sh) : bool :=
  match t with
  | TStr => match sd with SStr | SDur | SAny => true | _ => false end
  | TInt => match sd with SInt | SStr | SAny => true | _ => false end
  | TBool => match sd with SBool | SStr | SAny => true | _ => false end
  | _ => match ss with Some s => sub s sd | None => sub SAny sd end
  end.

Lemma acc_sound t src sk v fs sd :
  field_val t src sk = FOk v -> fields_ok src fs = true -> acc t (look sk fs) sd = true -> conforms sd v = true.
Proof.
  intros F H A.
  assert (G : get sk src = Some v ->
                (match look sk fs with Some s => sub s sd | None => sub SAny sd end) = true -> conforms sd v = true).
  { intros G A'. destruct (look sk fs) as [s|] eqn:Lk.
    - exact (sub_sound s sd v A' (fok_look _ _ _ _ _ H G Lk)).
    - exact (sub_sound SAny sd v A' eq_refl). }
  destruct t; cbn [acc] in A.
  - apply G; [exact (fv_any_ok _ _ _ F) | exact A].
  - destruct (fv_int_ok _ _ _ F) as [z ->]. destruct sd; try discriminate A; reflexivity.
  - destruct (fv_str_ok _ _ _ F) as [z ->]. destruct sd; try discriminate A; reflexivity.
  - destruct (fv_bool_ok _ _ _ F) as [z ->]. destruct sd; try discriminate A; reflexivity.
  - destruct (fv_arr_ok _ _ _ F) as [l [-> Gl]]. apply G; assumption.
  - destruct (fv_obj_ok _ _ _ F) as [l [-> Gl]]. apply G; assumption.
Qed.

Definition move_ok (fs fd : list (string * sh)) (mv : ty * string * string) : bool :=
  let '(t, sk, dk) := mv in
  forallb (fun kd => negb (String.eqb (fst kd) dk) || acc t (look sk fs) (snd kd)) fd.

Lemma move_val_fok t src dst sk dk src' dst' fs fd :
  move_val t src dst sk dk = Some (src', dst') -> move_ok fs fd (t, sk, dk) = true ->
  fields_ok src fs = true -> fields_ok dst fd = true ->
  fields_ok src' fs = true /\ fields_ok dst' fd = true.
Proof.
  unfold move_val, move_ok. intros E M Hs Hd.
  destruct (field_val t src sk) as [|v|] eqn:F; try discriminate E; injection E as <- <-; [auto|].
  split; [now apply fok_del_same|]. apply fok_upd_same; [exact Hd|].
  revert M. apply forallb_impl. intros kd _ M. apply orb_true_iff in M. apply orb_true_iff.
  destruct M as [M|M]; [now left | right]. exact (acc_sound _ _ _ _ _ _ F Hs M).
Qed.

Lemma moves_fok fs fd l : forall src dst src' dst',
  moves l src dst = Some (src', dst') -> forallb (move_ok fs fd) l = true ->
  fields_ok src fs = true -> fields_ok dst fd = true ->
  fields_ok src' fs = true /\ fields_ok dst' fd = true.
Proof.
  induction l as [|[[t sk] dk] l IH]; intros src dst src' dst' E M Hs Hd.
  - injection E as <- <-. auto.
  - cbn [moves] in E. cbn [forallb] in M. apply andb_true_iff in M. destruct M as [M1 M2].
    destruct (move_val t src dst sk dk) as [[s1 d1]|] eqn:E1; [|discriminate E].
    destruct (move_val_fok _ _ _ _ _ _ _ _ _ E1 M1 Hs Hd) as [Hs1 Hd1].
    exact (IH _ _ _ _ E M2 Hs1 Hd1).
Qed.

(** [move_in]: source and destination are the same map. *)
Lemma move_in_fok t m sk dk m' fs :
  move_in t m sk dk = Some m' -> fields_ok m fs = true ->
  forallb (fun kd => negb (String.eqb (fst kd) dk) || acc t (look sk fs) (snd kd)) fs = true ->
  fields_ok m' fs = true.
Proof.
  unfold move_in. intros E H M.
  destruct (field_val t m sk) as [|v|] eqn:F; try discriminate E; injection E as <-; [exact H|].
  apply fok_del_same. apply fok_upd_same; [exact H|].
  revert M. apply forallb_impl. intros kd _ M. apply orb_true_iff in M. apply orb_true_iff.
  destruct M as [M|M]; [now left | right]. exact (acc_sound _ _ _ _ _ _ F H M).
Qed.

(** ** [with_obj] *)

Lemma with_obj_inv m k f m' : with_obj m k f = Ok m' ->
  (m' = m /\ (get k m = None \/ get k m = Some VNull)) \/
  (exists o o', get k m = Some (VObj o) /\ f o = Ok o' /\ m' = upd k (VObj o') m).
Proof.
  unfold with_obj. intros E. destruct (field_val TObj m k) as [|v|] eqn:F; try discriminate E.
  - injection E as <-. left. split; [reflexivity | exact (fv_absent _ _ _ F)].
  - destruct (fv_obj_ok _ _ _ F) as [o [-> G]]. cbn [zobj] in E.
    destruct (f o) as [o'| |] eqn:Ef; cbn [bind] in E; try discriminate E. injection E as <-.
    right. eauto.
Qed.

(** A step on a section: if [f] takes the fields [fo] of section [k] to
    [fo'], the document goes from [fs] to any table [fs'] that [fs] with
    the new section shape is included in. *)
Lemma with_obj_fok m k f m' fs n fo fo' fs' :
  with_obj m k f = Ok m' -> fields_ok m fs = true -> look k fs = Some (SObj n fo) ->
  (forall o o', fields_ok o fo = true -> f o = Ok o' -> fields_ok o' fo' = true) ->
  subfs ((k, SObj n fo') :: rm k fs) fs' = true ->
  fields_ok m' fs' = true.
Proof.
  intros E H Lk Hf S. refine (fok_weaken _ _ _ _ S).
  destruct (with_obj_inv _ _ _ _ E) as [[-> G]|[o [o' [G [Ef ->]]]]].
  - apply fok_refine; [exact H|]. unfold fld. cbn [fst snd]. destruct G as [G|G]; rewrite G; [reflexivity|].
    exact (fok_look _ _ _ _ _ H G Lk).
  - apply fok_set; [exact H|]. rewrite conforms_obj. exact (Hf o o' (obj_field _ _ _ _ _ _ H G Lk) Ef).
Qed.

(** ** Lists *)

Lemma forallb_map_conforms s s' (f : val -> val) l :
  forallb (conforms s) l = true -> (forall c, conforms s c = true -> conforms s' (f c) = true) ->
  forallb (conforms s') (map f l) = true.
Proof.
  intros H F. induction l as [|c l IH]; [reflexivity|].
  cbn [forallb map] in *. apply andb_true_iff in H. destruct H as [H1 H2].
  apply andb_true_iff. split; [now apply F | now apply IH].
Qed.

Lemma forallb_map_res_conforms s s' (f : val -> res val) l l' :
  map_res f l = Ok l' -> forallb (conforms s) l = true ->
  (forall c c', conforms s c = true -> f c = Ok c' -> conforms s' c' = true) ->
  forallb (conforms s') l' = true.
Proof.
  intros E H F. revert l' E. induction l as [|c l IH]; intros l' E.
  - injection E as <-. reflexivity.
  - cbn [map_res] in E. cbn [forallb] in H. apply andb_true_iff in H. destruct H as [H1 H2].
    destruct (f c) as [c'| |] eqn:Ec; cbn [bind] in E; try discriminate E.
    destruct (map_res f l) as [r| |] eqn:El; cbn [bind] in E; try discriminate E.
    injection E as <-. cbn [forallb]. apply andb_true_iff. split; [exact (F _ _ H1 Ec) | exact (IH H2 _ eq_refl)].
Qed.

(** Without any hypothesis on the input list. *)
Lemma forallb_map_res_any s' (f : val -> res val) l l' :
  map_res f l = Ok l' -> (forall c c', f c = Ok c' -> conforms s' c' = true) -> forallb (conforms s') l' = true.
Proof.
  intros E F. revert l' E. induction l as [|c l IH]; intros l' E.
  - injection E as <-. reflexivity.
  - cbn [map_res] in E.
    destruct (f c) as [c'| |] eqn:Ec; cbn [bind] in E; try discriminate E.
    destruct (map_res f l) as [r| |] eqn:El; cbn [bind] in E; try discriminate E.
    injection E as <-. cbn [forallb]. apply andb_true_iff. split; [exact (F _ _ Ec) | exact (IH _ eq_refl)].
Qed.

(** Inclusion of shapes on values, for one closed check. *)
Lemma conforms_sub s s' x : conforms s x = true -> sub s s' = true -> conforms s' x = true.
Proof. intros C S. exact (sub_sound s s' x S C). Qed.

Lemma conforms_arr e l : conforms (SArr e) (VArr l) = forallb (conforms e) l.
Proof. reflexivity. Qed.

(** ** Forward steps that end in the table wanted *)

Lemma fok_set_obj m fs k n fo o :
  fields_ok m fs = true -> fields_ok o fo = true -> fields_ok (upd k (VObj o) m) ((k, SObj n fo) :: rm k fs) = true.
Proof. intros H Ho. apply fok_set; [exact H|]. now rewrite conforms_obj. Qed.

Lemma fin_set m fs k s x fs' :
  fields_ok m fs = true -> conforms s x = true -> subfs ((k, s) :: rm k fs) fs' = true ->
  fields_ok (upd k x m) fs' = true.
Proof. intros H C S. exact (fok_weaken _ _ _ (fok_set _ _ k s x H C) S). Qed.

Lemma fin_set_obj m fs k n fo o fs' :
  fields_ok m fs = true -> fields_ok o fo = true -> subfs ((k, SObj n fo) :: rm k fs) fs' = true ->
  fields_ok (upd k (VObj o) m) fs' = true.
Proof. intros H Ho S. exact (fok_weaken _ _ _ (fok_set_obj _ _ k n fo o H Ho) S). Qed.

Lemma fin_none m fs k fs' :
  fields_ok m fs = true -> get k m = None -> subfs ((k, SNone) :: rm k fs) fs' = true -> fields_ok m fs' = true.
Proof.
  intros H G S. refine (fok_weaken _ _ _ (fok_refine _ _ k SNone H _) S). unfold fld. cbn [fst]. now rewrite G.
Qed.

Lemma fin_absent m fs k s' fs' :
  fields_ok m fs = true -> get k m = None \/ get k m = Some VNull -> nullok k fs s' = true ->
  subfs ((k, s') :: rm k fs) fs' = true -> fields_ok m fs' = true.
Proof. intros H G N S. exact (fok_weaken _ _ _ (fok_absent _ _ k s' H G N) S). Qed.

(** Backward, for a value that is closed up to a few variables. *)
Lemma fin_upd m fs k x fs' :
  fields_ok m fs = true -> subfs (rm k fs) (rm k fs') = true ->
  forallb (fun ks => negb (String.eqb (fst ks) k) || conforms (snd ks) x) fs' = true ->
  fields_ok (upd k x m) fs' = true.
Proof. intros H S C. apply fok_upd; [|exact C]. exact (fok_weaken _ _ _ (fok_rm _ _ k H) S). Qed.

(** ** Helpers of single steps *)

Lemma nonempty_id_str s : forallb (conforms SStr) (nonempty_id (VStr s)) = true.
Proof. unfold nonempty_id. cbn [zstr]. destruct (String.eqb s ""); reflexivity. Qed.

Lemma dot27_str c : conforms SStr c = true -> conforms SStr (dot27 c) = true.
Proof. destruct c; cbn [dot27]; auto. destruct (String.eqb s "."); reflexivity. Qed.

Lemma quic_field_fok O k dns dns' fs :
  quic_field O k dns = Ok dns' -> fields_ok dns fs = true -> fields_ok dns' ((k, SArr SStr) :: rm k fs) = true.
Proof.
  unfold quic_field. intros E H. destruct (field_val TArr dns k) as [|v|] eqn:F; try discriminate E.
  - injection E as <-. exact (fok_absent _ _ k (SArr SStr) H (fv_absent _ _ _ F) eq_refl).
  - destruct (fv_arr_ok _ _ _ F) as [l [-> G]]. cbn [zarr] in E.
    destruct (map_res (quic_elem O) l) as [l'| |] eqn:El; cbn [bind] in E; try discriminate E. injection E as <-.
    apply fok_set; [exact H|]. rewrite conforms_arr. refine (forallb_map_res_any _ _ _ _ El _).
    intros c c'. destruct c; cbn [quic_elem]; try discriminate. intros [= <-]. reflexivity.
Qed.

Lemma replace_dot_fok k m m' fs n fo fs' :
  replace_dot k m = Ok m' -> fields_ok m fs = true -> look k fs = Some (SObj n fo) ->
  look "ignored" fo = Some (SArr SStr) ->
  subfs ((k, SObj n (("ignored", SArr SStr) :: rm "ignored" fo)) :: rm k fs) fs' = true ->
  fields_ok m' fs' = true.
Proof.
  unfold replace_dot. intros E H Lk Li S. refine (with_obj_fok _ _ _ _ _ _ _ _ _ E H Lk _ S).
  intros o o' Ho Ef. destruct (field_val TArr o "ignored") as [|v|] eqn:F; try discriminate Ef; injection Ef as <-.
  - exact (fok_absent _ _ "ignored" (SArr SStr) Ho (fv_absent _ _ _ F) eq_refl).
  - destruct (fv_arr_ok _ _ _ F) as [l [-> G]]. cbn [zarr]. apply fok_set; [exact Ho|].
    rewrite conforms_arr. refine (forallb_map_conforms SStr SStr _ _ (arr_field _ _ _ _ _ Ho G Li) dot27_str).
Qed.

(** ** Tactics *)

(** Close [fields_ok m fs'] from a fact [H : fields_ok m fs], both tables closed. *)
Ltac fin H := refine (fok_weaken _ _ _ H _); vm_compute; reflexivity.

Ltac vmr := vm_compute; reflexivity.

(** The fields / the element shape a closed table gives key [k]. *)
Ltac obj_fields_in k fs :=
  let r := eval vm_compute in (look k fs) in
  lazymatch r with Some (SObj _ ?fo) => fo end.

Ltac arr_elem_in k fs :=
  let r := eval vm_compute in (look k fs) in
  lazymatch r with Some (SArr ?e) => e end.

Ltac shape_in k fs :=
  let r := eval vm_compute in (look k fs) in
  lazymatch r with Some ?s => s end.

Ltac goal_table := lazymatch goal with |- fields_ok _ ?fsn = true => fsn end.
Ltac hyp_table H := lazymatch type of H with fields_ok _ ?fs = true => fs end.

Ltac goal_obj_fields k := let fsn := goal_table in obj_fields_in k fsn.
Ltac goal_arr_elem k := let fsn := goal_table in arr_elem_in k fsn.
Ltac goal_shape k := let fsn := goal_table in shape_in k fsn.

(** The first statement of a step: the stamp, on a table that has an
    integer [schema_version]. *)
Ltac stamp_in Hm E m0 :=
  cbn [stamp bind] in E;
  match type of E with
  | context [upd "schema_version" (VInt ?n) ?m] =>
      apply (fok_upd_same m _ "schema_version" (VInt n)) in Hm; [| vm_compute; reflexivity];
      set (m0 := upd "schema_version" (VInt n) m) in *; clearbody m0
  end.

(** From [Mv : moves l src dst = Some (src', dst')] (or one [move_val]),
    [Hs : fields_ok src fs], [Hd : fields_ok dst fd]: the same of [src'], [dst']. *)
Ltac do_moves Mv Hs Hd Hs' Hd' :=
  let fs := hyp_table Hs in
  let fd := hyp_table Hd in
  lazymatch type of Mv with
  | moves ?l _ _ = Some _ =>
      let M := fresh "M" in
      assert (M : forallb (move_ok fs fd) l = true) by (vm_compute; reflexivity);
      destruct (moves_fok fs fd l _ _ _ _ Mv M Hs Hd) as [Hs' Hd']; clear M
  | move_val ?t _ _ ?sk ?dk = Some _ =>
      let M := fresh "M" in
      assert (M : move_ok fs fd (t, sk, dk) = true) by (vm_compute; reflexivity);
      destruct (move_val_fok t _ _ sk dk _ _ fs fd Mv M Hs Hd) as [Hs' Hd']; clear M
  end.

(** C05, round 5: stall-freedom (Proofs/ConcLive.v) instantiated on the
    gate-lock criterion and on the acquisition sites regenerated from the
    current source. *)
From Coq Require Import List String Bool Arith.
From AGH Require Import Base.Conc Model.Guards Proofs.Conc Proofs.ConcGate Proofs.LockTable Proofs.LockTablePairs
  Proofs.LockTableWhole Proofs.LockTableGate Gen.LockTable Gen.LockTableAcq Proofs.LockTableGateInst Proofs.ConcLive.
Import ListNotations.

(** Generic in the table: threads whose acquisitions are sites of a table
    that passes the gate-lock check never stall. *)
Theorem gated_stall_free : forall rank0 rkd sites,
  gated_with rank0 rkd sites = true ->
  forall progs, Forall (fun p => conforms_sites sites [] p = true) progs ->
  stall_free (init progs).
Proof.
  intros rank0 rkd sites Hg progs Hp; apply no_deadlock_stall_free.
  exact (gated_no_deadlock rank0 rkd sites Hg progs Hp).
Qed.

(** Instance on the checked sites of the current source (bbolt write
    transactions included). *)
Theorem no_stall_gated : forall progs,
  Forall (fun p => conforms_sites checked_acquisitions [] p = true) progs ->
  stall_free (init progs).
Proof.
  intros progs Hp; apply no_deadlock_stall_free; exact (no_deadlock_gated progs Hp).
Qed.

(** Whole table, in force when nothing is listed (today). *)
Theorem current_source_stall_free_now :
  if nothing_listed known_keys then
    forall progs, Forall (fun p => conforms_sites acquisitions [] p = true) progs ->
    stall_free (init progs)
  else True.
Proof.
  generalize current_source_gated_now.
  destruct (nothing_listed known_keys); [|trivial].
  intros [H _] progs Hp; apply no_deadlock_stall_free; exact (H progs Hp).
Qed.

(** Non-vacuity on the real table: the statistics flush and the reader of
    GET /control/stats conform, so the statement speaks about them: whatever
    the scheduler does, both get through. *)
Example stats_threads_never_stall :
  stall_free (init [p_stats_flush; p_stats_read; p_stats_read]).
Proof.
  apply no_stall_gated.
  repeat constructor; vm_compute; reflexivity.
Qed.

(** List ids and the identity of the destination path (Model/SaveLoop.v,
    round 7 (N)), and what a start does to a disabled list's checksum (M). *)
From Coq Require Import List NArith Bool Lia.
From AGH Require Import Base.FS Proofs.FS Model.SaveLoop Proofs.SaveLoop Proofs.SaveSetUrl.
Import ListNotations.
Local Open Scope N_scope.

Lemma lmax_ge l x : In x l -> x <= lmax l.
Proof.
  induction l as [|y l IH]; cbn [In lmax fold_right]; [tauto|].
  intros [->|H]; [lia|]. specialize (IH H). unfold lmax in IH. lia.
Qed.

Lemma lmax_le l b : (forall x, In x l -> x <= b) -> lmax l <= b.
Proof.
  induction l as [|y l IH]; intros H; cbn [lmax fold_right]; [lia|].
  assert (y <= b) by (apply H; left; reflexivity).
  assert (lmax l <= b) by (apply IH; intros x Hx; apply H; right; exact Hx).
  unfold lmax in *. lia.
Qed.

(** the invariant: ids pairwise distinct over BOTH arrays, none above the counter *)
Definition ids_ok (st : idstate) : Prop :=
  NoDup (ids_all st) /\ forall x, In x (ids_all st) -> x <= id_cur st.

Lemma nodup_insert (a b : list N) i :
  NoDup (a ++ b) -> ~ In i (a ++ b) -> NoDup ((a ++ [i]) ++ b) /\ NoDup (a ++ b ++ [i]).
Proof.
  intros Hn Hi. split.
  - rewrite <- app_assoc. cbn [app]. apply NoDup_Add with (a := i) (l := a ++ b); [|constructor; assumption].
    apply Add_app.
  - rewrite app_assoc. apply NoDup_Add with (a := i) (l := a ++ b); [|constructor; assumption].
    rewrite <- (app_nil_r ((a ++ b) ++ [i])), <- app_assoc. cbn [app].
    rewrite <- (app_nil_r (a ++ b)) at 1. apply Add_app.
Qed.

Lemma idstep_ok st o :
  ids_ok st -> match o with IRestart now => lmax (ids_all st) <= now | IAdd _ => True end ->
  ids_ok (idstep seed_clock st o).
Proof.
  intros [Hn Hb] Hp. destruct o as [now|allow]; cbn [idstep seed_clock].
  - split; [exact Hn|]. unfold ids_all in *. cbn [ids_block ids_allow id_cur].
    intros x Hx. cbn [ids_block ids_allow id_cur] in *. pose proof (lmax_ge _ _ Hx). unfold seed_clock. lia.
  - assert (Hfresh : ~ In (id_cur st + 1) (ids_all st)).
    { intros H. specialize (Hb _ H). lia. }
    unfold ids_all in *.
    destruct (nodup_insert _ _ _ Hn Hfresh) as [H1 H2].
    destruct allow; cbn [ids_block ids_allow id_cur]; (split; [assumption|]);
      intros x Hx; cbn [ids_block ids_allow id_cur] in *;
      repeat (apply in_app_or in Hx; destruct Hx as [Hx|Hx]);
      try (destruct Hx as [<-|[]]; lia);
      try (specialize (Hb x (in_or_app _ _ _ (or_introl Hx))); lia);
      try (specialize (Hb x (in_or_app _ _ _ (or_intror Hx))); lia).
Qed.

(** MAIN (N): as the code is and under its assumption (the clock is ahead of
    every id in use at every start): after ANY history of starts and add_url
    calls no two lists of the two arrays share an id, that is a file. *)
Theorem add_never_reuses_a_path ops : forall st,
  ids_ok st -> clock_ahead st ops -> ids_ok (idrun seed_clock st ops).
Proof.
  induction ops as [|o r IH]; intros st H Hc; [exact H|].
  cbn [idrun fold_left]. destruct Hc as [Hp Hc]. apply IH; [apply idstep_ok; assumption|exact Hc].
Qed.

(** the id an add_url hands out is not the id of any list there is *)
Corollary added_id_is_fresh ops st allow :
  ids_ok st -> clock_ahead st ops ->
  let st' := idrun seed_clock st ops in
  ~ In (id_cur st' + 1) (ids_all st') /\ id_cur (idstep seed_clock st' (IAdd allow)) = id_cur st' + 1.
Proof.
  intros H Hc. cbn zeta. destruct (add_never_reuses_a_path ops st H Hc) as [_ Hb].
  split; [|destruct allow; reflexivity]. intros Hin. specialize (Hb _ Hin). lia.
Qed.

(** REFUTED variant (the generator seeded with the largest BLOCK-list id):
    whenever an allow list has the id just above the largest block-list id,
    a start followed by the add_url of a block list hands out that id again:
    two lists, one file. *)
Theorem seed_max_block_reuses_a_path st now :
  In (lmax (ids_block st) + 1) (ids_allow st) ->
  let st' := idrun seed_max_block st [IRestart now; IAdd false] in
  ~ NoDup (ids_all st') /\ In (lmax (ids_block st) + 1) (ids_block st') /\ In (lmax (ids_block st) + 1) (ids_allow st').
Proof.
  intros Hin. cbn [idrun fold_left idstep seed_max_block ids_block ids_allow id_cur].
  set (i := lmax (ids_block st) + 1) in *. unfold ids_all. cbn [ids_block ids_allow].
  split; [|split; [apply in_or_app; right; left; reflexivity|exact Hin]].
  intros Hn. rewrite <- app_assoc in Hn. apply NoDup_remove_2 in Hn. apply Hn.
  apply in_or_app. right. exact Hin.
Qed.

(** The witness of the seeded change: block lists 1, 2, allow list 3; start;
    add_url of a block list: it gets id 3.  With the clock (any reading from 3
    on) it gets a new one. *)
Example ids_witness :
  let st := {| ids_block := [1; 2]; ids_allow := [3]; id_cur := 3 |} in
  ids_ok st /\
  ids_all (idrun seed_max_block st [IRestart 1790000000; IAdd false]) = [1; 2; 3; 3] /\
  ids_all (idrun seed_clock st [IRestart 1790000000; IAdd false; IAdd true]) = [1; 2; 1790000001; 3; 1790000002] /\
  clock_ahead st [IRestart 1790000000; IAdd false; IAdd true] /\
  (* the assumption is needed: a clock that reads 2 at the start *)
  ids_all (idrun seed_clock st [IRestart 2; IAdd false]) = [1; 2; 3; 3] /\ ~ clock_ahead st [IRestart 2; IAdd false].
Proof.
  cbn zeta. split.
  { split; [repeat constructor; cbn; intuition discriminate|]. cbn. intros x [<-|[<-|[<-|[]]]]; lia. }
  repeat split; try reflexivity; cbn; try lia.
Qed.

(** ** (M) a start and the checksum of a disabled list *)

(** As the code is, a disabled list has no checksum after a start, so
    re-enabling it from a source that serves the stored contents (complete,
    with rules) REPLACES the file by the same contents; the variant that loads
    disabled lists too finds "no change" and set_url removes the file. *)
Example reenable_after_restart :
  let file := [10; 11] in
  let s := boot [(1, file)] in
  let entry ld := {| e_url := 7; e_enabled := false; e_sum := start_sum ld len_sum false (Some file) |} in
  let call ld := su_set true s (entry ld) false {| q_url := 7; q_enabled := true |} 3 2 1 true (serve [[10]; [11]] false) no_faults false in
  let fin x := live_view (run s (fst (fst x))) 1 in
  (snd (fst (call false)) = SetOk true /\ fin (call false) = Some file) /\
  (snd (fst (call true)) = SetOk true /\ fin (call true) = None).
Proof. vm_compute. repeat split; reflexivity. Qed.

(** For all inputs: with no checksum in memory (what a start leaves for a
    disabled list) a successful set_url that downloads leaves NO FILE only if
    the complete body has the checksum of the empty list. *)
Theorem set_url_unloaded_keeps_rules St st0 feed finish sum s e taken q fd tmp dst src_ok r p rmf restart :
  quiescent s dst -> fresh_tmp s dst tmp ->
  downloads e taken q = true -> sum_for e q = 0 ->
  let x := set_props St st0 feed finish sum true s e taken q fd tmp dst src_ok r p rmf in
  snd (fst x) = SetOk restart ->
  live_view (run s (fst (fst x))) dst = Some (concat (fst (pump St feed finish st0 r))) \/
  (live_view (run s (fst (fst x))) dst = None /\ snd (pump St feed finish st0 r) = true /\
   sum (concat (fst (pump St feed finish st0 r))) = 0).
Proof.
  intros Hq Hf Hd Hs. cbn zeta. intros Hok.
  pose proof (set_props_ok_file St st0 feed finish sum s e taken q fd tmp dst src_ok r p rmf restart Hq Hf Hok) as H.
  cbn zeta in H. rewrite Hd in H.
  destruct (snd (update_list St st0 feed finish sum fd tmp dst src_ok r (sum_for e q) p)).
  - left. tauto.
  - right. rewrite Hs in H. tauto.
  - contradiction.
Qed.

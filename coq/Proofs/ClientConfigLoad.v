(** C04, round 3: the registry-level configuration round trip.  A registry
    that [load] produced is written by [save] and read back by [reload]
    without error, with the same record and extra fields under every uid, and
    writes the same objects again. *)
From Coq Require Import ZArith Lia Sorting.Sorted.
From AGH Require Import Base.Run Base.Bytes.
From AGH Require Import Model.ClientIndex Proofs.ClientIndex Proofs.ClientSettings.
From AGH Require Import Model.ClientConfig Proofs.ClientConfig.
Local Open Scope N_scope.

(** * Small list facts *)
Lemma NoDup_map_in {A B} (f : A -> B) l :
  NoDup l -> (forall x y, In x l -> In y l -> f x = f y -> x = y) -> NoDup (map f l).
Proof.
  induction 1 as [|a l Ha Hl IH]; intros Hinj; cbn; constructor.
  - intros Hin. apply in_map_iff in Hin. destruct Hin as (y & E & Hy).
    assert (y = a) by (apply Hinj; cbn; auto). subst y. contradiction.
  - apply IH. intros x y Hx Hy. apply Hinj; cbn; auto.
Qed.

Lemma al_get_nodup {V} (m : list (uid * V)) k v :
  NoDup (map fst m) -> In (k, v) m -> al_get N.eqb k m = Some v.
Proof.
  induction m as [|[k' v'] m IH]; cbn; intros Hn Hin; [tauto|].
  inversion Hn as [|? ? Hk Hm]; subst.
  destruct Hin as [E|Hin].
  - inversion E; subst. rewrite N.eqb_refl. reflexivity.
  - destruct (k =? k') eqn:E.
    + apply N.eqb_eq in E. subst k'. exfalso. apply Hk. apply in_map_iff. exists (k, v). auto.
    + apply IH; assumption.
Qed.

Lemma option_ext {A} (a b : option A) : (forall x, a = Some x <-> b = Some x) -> a = b.
Proof.
  intros H. destruct a as [x|].
  - symmetry. apply H. reflexivity.
  - destruct b as [y|]; [|reflexivity]. apply H. reflexivity.
Qed.

(** * Stored clients in name order *)
Definition lt_name (a b : client) : Prop := cmp_bytes (c_name a) (c_name b) = Lt.

Lemma ins_client_in c l x : In x (ins_client c l) <-> x = c \/ In x l.
Proof.
  induction l as [|y l IH]; cbn; [intuition|].
  destruct (cmp_bytes (c_name c) (c_name y)); cbn; rewrite ?IH; intuition.
Qed.

Lemma clients_by_name_in ix x : In x (clients_by_name ix) <-> In x (map snd (by_uid ix)).
Proof.
  unfold clients_by_name. induction (map snd (by_uid ix)) as [|c l IH]; cbn; [tauto|].
  rewrite ins_client_in, IH. intuition.
Qed.

Lemma lt_name_trans a b c : lt_name a b -> lt_name b c -> lt_name a c.
Proof. unfold lt_name. apply cmp_bytes_trans. Qed.

Lemma ins_client_sorted c l :
  StronglySorted lt_name l -> (forall x, In x l -> c_name x <> c_name c) ->
  StronglySorted lt_name (ins_client c l).
Proof.
  induction 1 as [|y l Hl IH Hy]; intros Hne; cbn; [repeat constructor|].
  destruct (cmp_bytes (c_name c) (c_name y)) eqn:E.
  - apply cmp_bytes_eq in E. exfalso. apply (Hne y); cbn; auto.
  - constructor; [constructor; assumption|]. constructor; [exact E|].
    rewrite Forall_forall in *. intros z Hz. eapply lt_name_trans; [exact E|apply Hy; exact Hz].
  - constructor; [apply IH; intros x Hx; apply Hne; cbn; auto|].
    rewrite Forall_forall in *. intros z Hz. apply ins_client_in in Hz. destruct Hz as [->|Hz]; [|auto].
    unfold lt_name. rewrite (cmp_bytes_antisym (c_name c) (c_name y)), E. reflexivity.
Qed.

Lemma sort_clients_sorted l :
  NoDup (map c_name l) -> StronglySorted lt_name (fold_right ins_client [] l).
Proof.
  induction l as [|c l IH]; cbn; intros Hn; [constructor|].
  inversion Hn as [|? ? Hc Hl]; subst. apply ins_client_sorted; [apply IH; assumption|].
  intros x Hx E. apply Hc. apply in_map_iff. exists x. split; [assumption|].
  clear - Hx. induction l as [|y l IH]; cbn in *; [tauto|].
  apply ins_client_in in Hx. destruct Hx as [->|Hx]; auto.
Qed.

Lemma sorted_unique (l1 : list client) : forall l2,
  StronglySorted lt_name l1 -> StronglySorted lt_name l2 ->
  (forall x, In x l1 <-> In x l2) -> l1 = l2.
Proof.
  assert (Irr : forall a, ~ lt_name a a).
  { intros a H. unfold lt_name in H. rewrite cmp_bytes_refl in H. discriminate. }
  assert (Asym : forall a b, lt_name a b -> lt_name b a -> False).
  { intros a b H1 H2. apply (Irr a). eapply lt_name_trans; eassumption. }
  induction l1 as [|a l1 IH]; intros l2 S1 S2 E.
  - destruct l2 as [|b l2]; [reflexivity|]. exfalso. apply (E b). cbn; auto.
  - destruct l2 as [|b l2]; [exfalso; apply (E a); cbn; auto|].
    inversion S1 as [|? ? S1' F1]; subst. inversion S2 as [|? ? S2' F2]; subst.
    rewrite Forall_forall in F1, F2.
    assert (a = b).
    { destruct (proj1 (E a) (or_introl eq_refl)) as [->|Ha]; [reflexivity|].
      destruct (proj2 (E b) (or_introl eq_refl)) as [->|Hb]; [reflexivity|].
      exfalso. apply (Asym a b); [apply F1; assumption|apply F2; assumption]. }
    subst b. f_equal. apply IH; try assumption.
    intros x. split; intros Hx.
    + destruct (proj1 (E x) (or_intror Hx)) as [->|H]; [|exact H]. exfalso. apply (Irr x). apply F1. exact Hx.
    + destruct (proj2 (E x) (or_intror Hx)) as [->|H]; [|exact H]. exfalso. apply (Irr x). apply F2. exact Hx.
Qed.

(** * Registries produced by the loader *)
Definition came (known : list bytes) (c : client) (x : extra) : Prop :=
  exists g o, to_persistent known g o = COk c x.

Record Good (cfg : config) (known : list bytes) (r : registry) : Prop := {
  g_inv : Inv (fst r);
  g_nodup : NoDup (map fst (by_uid (fst r)));
  g_stored : forall u c, deref (fst r) u = Some c ->
    validate cfg c = EOk /\ normalize c = c /\ came known c (extra_of r u)
}.

Lemma Good_empty cfg known : Good cfg known empty_registry.
Proof. constructor; [apply Inv_empty|constructor|cbn; discriminate]. Qed.

(** Sorting the tags of the file object gives the normalized record. *)
Definition set_otags (ts : list bytes) (o : cobj) : cobj :=
  {| o_name := o_name o; o_ids := o_ids o; o_tags := ts; o_upstreams := o_upstreams o; o_uid := o_uid o;
     o_ss := o_ss o; o_blocked := o_blocked o; o_cache_size := o_cache_size o;
     o_cache_enabled := o_cache_enabled o; o_use_global_settings := o_use_global_settings o;
     o_filtering := o_filtering o; o_parental := o_parental o; o_safebrowsing := o_safebrowsing o;
     o_use_global_blocked := o_use_global_blocked o; o_ignore_qlog := o_ignore_qlog o;
     o_ignore_stats := o_ignore_stats o |}.

Lemma came_normalize known c x : came known c x -> came known (normalize c) x.
Proof.
  intros (g & o & H). exists g, (set_otags (sort_names (o_tags o)) o).
  unfold to_persistent in *. cbn [set_otags o_ids o_blocked o_uid o_name o_use_global_settings o_filtering o_ss
    o_safebrowsing o_parental o_use_global_blocked o_ignore_qlog o_ignore_stats o_tags o_upstreams
    o_cache_enabled o_cache_size].
  destruct (existsb is_bad (o_ids o)); [discriminate|].
  destruct (forallb (fun i => existsb (eqb_bytes i) known) _); cbn [negb] in *; [|discriminate].
  inversion H; subst c x. reflexivity.
Qed.

Lemma sort_names_fixed l : sort_names (sort_names l) = sort_names l.
Proof.
  assert (E : forall l, sort_names l = sort_by cmp_bytes l).
  { assert (I : forall n l, ins_name n l = ins_by cmp_bytes n l).
    { intros n l0. induction l0 as [|y l0 IH]; cbn; [reflexivity|]. rewrite IH. reflexivity. }
    intros l0. unfold sort_names, sort_by. induction l0 as [|y l0 IH]; cbn; [reflexivity|].
    rewrite IH. apply I. }
  rewrite !E. apply (sort_idem cmp_bytes cmp_bytes_eq' cmp_bytes_antisym').
Qed.

Lemma validate_normalize cfg c :
  validate cfg c = EOk -> validate cfg (normalize c) = EOk /\ normalize (normalize c) = normalize c.
Proof.
  intros H. split.
  - unfold validate in *.
    change (c_name (normalize c)) with (c_name c). change (ids_len (normalize c)) with (ids_len c).
    change (c_uid (normalize c)) with (c_uid c). change (c_upstreams (normalize c)) with (c_upstreams c).
    change (c_tags (normalize c)) with (sort_names (c_tags c)).
    destruct (Nat.eqb (length (c_name c)) 0); [discriminate|].
    destruct (Nat.eqb (ids_len c) 0); [discriminate|].
    destruct (c_uid c =? 0); [discriminate|].
    destruct (parse_upstreams (cfg_addr_ok cfg) (c_upstreams c)); try discriminate.
    destruct (forallb (tag_ok (cfg_tags cfg)) (c_tags c)) eqn:F; [|discriminate].
    assert (F' : forallb (tag_ok (cfg_tags cfg)) (sort_names (c_tags c)) = true).
    { apply forallb_forall. intros t Ht. apply (proj1 (sort_names_in _ _)) in Ht.
      exact (proj1 (forallb_forall _ _) F t Ht). }
    rewrite F'. reflexivity.
  - unfold normalize. cbn [set_tags c_tags]. rewrite sort_names_fixed. reflexivity.
Qed.

Lemma validate_uid cfg c : validate cfg c = EOk -> c_uid c <> 0.
Proof.
  unfold validate. destruct (Nat.eqb (length (c_name c)) 0); [discriminate|].
  destruct (Nat.eqb (ids_len c) 0); [discriminate|].
  destruct (c_uid c =? 0) eqn:E; [discriminate|]. intros _. apply N.eqb_neq. exact E.
Qed.

(** What an accepted add is. *)
Lemma add_ok cfg c ix ix' :
  add cfg c ix = (ix', EOk) ->
  validate cfg c = EOk /\ deref ix (c_uid c) = None /\ clashes (normalize c) ix = EOk /\
  ix' = index_add (normalize c) ix.
Proof.
  unfold add. destruct (validate cfg c) eqn:V; try (intros H; inversion H; fail).
  cbv zeta. change (c_uid (normalize c)) with (c_uid c).
  destruct (deref ix (c_uid c)) eqn:D; [intros H; inversion H|].
  destruct (clashes (normalize c) ix) eqn:C; intros H; inversion H; subst. auto.
Qed.

Lemma extra_of_cons_eq (r : registry) ix' u x : extra_of (ix', (u, x) :: snd r) u = x.
Proof. unfold extra_of, ext_get. cbn. rewrite N.eqb_refl. reflexivity. Qed.
Lemma extra_of_cons_ne (r : registry) ix' u u' x : u' <> u -> extra_of (ix', (u, x) :: snd r) u' = extra_of r u'.
Proof.
  intros H. unfold extra_of, ext_get. cbn. destruct (u' =? u) eqn:E; [apply N.eqb_eq in E; contradiction|reflexivity].
Qed.

Lemma add_good cfg known r c x ix' :
  Good cfg known r -> came known c x -> add cfg c (fst r) = (ix', EOk) ->
  Good cfg known (ix', (c_uid c, x) :: snd r).
Proof.
  intros [HI Hn Hs] Hc Ha. apply add_ok in Ha. destruct Ha as (V & D & C & ->).
  constructor; cbn [fst].
  - apply Inv_index_add; assumption.
  - cbn [index_add by_uid]. unfold al_set. cbn [map fst]. change (c_uid (normalize c)) with (c_uid c).
    constructor.
    + intros Hin. apply in_map_iff in Hin. destruct Hin as ([k v] & E & Hin). cbn in E. subst k.
      unfold al_del in Hin. apply filter_In in Hin. destruct Hin as (_ & Hf). cbn in Hf.
      rewrite N.eqb_refl in Hf. discriminate.
    + unfold al_del. clear - Hn. induction (by_uid (fst r)) as [|[k v] m IH]; cbn; [constructor|].
      inversion Hn as [|? ? Hk Hm]; subst.
      destruct (negb (c_uid c =? k)); cbn; [|apply IH; assumption].
      constructor; [|apply IH; assumption].
      intros Hin. apply Hk. apply in_map_iff in Hin. destruct Hin as (p & E & Hp).
      apply filter_In in Hp. apply in_map_iff. exists p. tauto.
  - intros u c0 Hd. destruct (N.eq_dec u (c_uid c)) as [->|Hne].
    + pose proof (deref_add_eq (normalize c) (fst r)) as De. change (c_uid (normalize c)) with (c_uid c) in De.
      rewrite De in Hd. inversion Hd; subst c0.
      rewrite extra_of_cons_eq. destruct (validate_normalize cfg c V). auto using came_normalize.
    + rewrite deref_add_ne in Hd by (cbn; assumption). rewrite extra_of_cons_ne by assumption. apply Hs. exact Hd.
Qed.

Lemma add_all_good cfg known : forall pcs i r r',
  Good cfg known r -> Forall (fun p => came known (fst p) (snd p)) pcs ->
  add_all cfg i pcs r = LOk r' -> Good cfg known r'.
Proof.
  induction pcs as [|[c x] pcs IH]; intros i r r' HG HF H; cbn [add_all] in H.
  - inversion H; subst. exact HG.
  - inversion HF as [|? ? Hc HF']; subst. cbn [fst snd] in Hc.
    destruct (add cfg c (fst r)) as [ix' e] eqn:A. destruct e; try discriminate.
    eapply IH; [|exact HF'|exact H]. eapply add_good; eassumption.
Qed.

Lemma load_good cfg known objs r : load cfg known objs = LOk r -> Good cfg known r.
Proof.
  unfold load. destruct (conv_all known 0 objs) as [[i e]|pcs] eqn:C; [discriminate|].
  intros H. eapply add_all_good; [apply Good_empty| |exact H].
  eapply conv_all_came. exact C.
Qed.

(** * Stored clients pairwise share nothing; a record sharing nothing is accepted *)
Lemma stored_no_share ix u1 u2 c1 c2 :
  Inv ix -> deref ix u1 = Some c1 -> deref ix u2 = Some c2 -> u1 <> u2 -> ~ shares c1 c2.
Proof.
  intros HI D1 D2 Hne. destruct (owners_unique ix HI) as (Un & Uc & Ui & Um & Us).
  intros [E|[(k & H1 & H2)|[(k & H1 & H2)|[(k & H1 & H2)|(k & H1 & H2)]]]]; apply Hne.
  - apply (Un (c_name c1)); [exists c1|exists c2]; split; try assumption; cbn; auto.
  - apply (Uc k); [exists c1|exists c2]; auto.
  - apply (Ui k); [exists c1|exists c2]; auto.
  - apply (Us k); [exists c1|exists c2]; auto.
  - apply (Um k); [exists c1|exists c2]; auto.
Qed.

Lemma no_share_no_clash ix c :
  Inv ix -> (forall u c', deref ix u = Some c' -> ~ shares c c') -> clashes c ix = EOk.
Proof.
  intros [Hu Hn Hc Hi Hm Hs Hso] Hns. apply clashes_ok.
  repeat split; apply clash_key_none; intros k u' Hk Hg.
  - apply Hn in Hg. destruct Hg as (c' & Hd & Hin). exfalso. apply (Hns u' c' Hd).
    left. cbn in Hk, Hin. destruct Hk as [<-|[]]. destruct Hin as [<-|[]]. reflexivity.
  - apply Hc in Hg. destruct Hg as (c' & Hd & Hin). exfalso. apply (Hns u' c' Hd). right; left; eauto.
  - apply Hi in Hg. destruct Hg as (c' & Hd & Hin). exfalso. apply (Hns u' c' Hd). right; right; left; eauto.
  - apply Hs in Hg. destruct Hg as (c' & Hd & Hin). exfalso. apply (Hns u' c' Hd). right; right; right; left; eauto.
  - apply Hm in Hg. destruct Hg as (c' & Hd & Hin). exfalso. apply (Hns u' c' Hd). right; right; right; right; eauto.
Qed.

(** Loading a list of valid, normalized records with distinct uids that share
    nothing with each other nor with the registry never fails, and stores
    exactly them. *)
Lemma add_all_accepts cfg : forall pcs i r0,
  Inv (fst r0) ->
  (forall p, In p pcs -> validate cfg (fst p) = EOk /\ normalize (fst p) = fst p) ->
  NoDup (map (fun p => c_uid (fst p)) pcs) ->
  (forall p, In p pcs -> deref (fst r0) (c_uid (fst p)) = None) ->
  (forall p q, In p pcs -> In q pcs -> c_uid (fst p) <> c_uid (fst q) -> ~ shares (fst p) (fst q)) ->
  (forall p u c', In p pcs -> deref (fst r0) u = Some c' -> ~ shares (fst p) c') ->
  exists r', add_all cfg i pcs r0 = LOk r' /\
    (forall u c, deref (fst r') u = Some c <->
                 (exists x, In (c, x) pcs /\ c_uid c = u) \/ deref (fst r0) u = Some c) /\
    (forall p, In p pcs -> extra_of r' (c_uid (fst p)) = snd p) /\
    (forall u, (forall p, In p pcs -> c_uid (fst p) <> u) -> extra_of r' u = extra_of r0 u).
Proof.
  induction pcs as [|[c x] pcs IH]; intros i r0 HI HV HN HF HP HS.
  - exists r0. cbn. split; [reflexivity|]. split; [|split]; try tauto.
    intros u c. split; [auto|]. intros [(x & [] & _)|H]; exact H.
  - cbn [add_all].
    destruct (HV (c, x) (or_introl eq_refl)) as (V & Nm). cbn [fst] in V, Nm.
    assert (D : deref (fst r0) (c_uid c) = None) by (apply (HF (c, x)); cbn; auto).
    assert (C : clashes c (fst r0) = EOk).
    { apply no_share_no_clash; [exact HI|]. intros u c' Hd. apply (HS (c, x) u c'); cbn; auto. }
    assert (A : add cfg c (fst r0) = (index_add c (fst r0), EOk)).
    { unfold add. rewrite V. cbv zeta. rewrite Nm, D, C. reflexivity. }
    rewrite A. inversion HN as [|? ? Hc HN']; subst. cbn [fst] in Hc.
    set (r1 := (index_add c (fst r0), (c_uid c, x) :: snd r0) : registry).
    destruct (IH (i + 1) r1) as (r' & Hr & Hd & He & Ho); cbn [fst r1].
    + apply Inv_index_add; assumption.
    + intros p Hp. apply HV. cbn; auto.
    + exact HN'.
    + intros p Hp. rewrite deref_add_ne; [apply HF; cbn; auto|].
      intros E. apply Hc. apply in_map_iff. exists p. auto.
    + intros p q Hp Hq. apply HP; cbn; auto.
    + intros p u c' Hp Hd'. destruct (N.eq_dec u (c_uid c)) as [->|Hne].
      * rewrite deref_add_eq in Hd'. inversion Hd'; subst c'.
        apply (HP p (c, x)); cbn; auto. cbn. intros E. apply Hc. apply in_map_iff. exists p. auto.
      * rewrite deref_add_ne in Hd' by assumption. apply (HS p u c'); cbn; auto.
    + exists r'. split; [exact Hr|]. split; [|split].
      * intros u c0. rewrite Hd. cbn [r1 fst]. split.
        -- intros [(x0 & Hin & Eu)|H1]; [left; exists x0; cbn; auto|].
           destruct (N.eq_dec u (c_uid c)) as [->|Hne].
           ++ rewrite deref_add_eq in H1. inversion H1; subst c0. left. exists x. cbn; auto.
           ++ rewrite deref_add_ne in H1 by assumption. auto.
        -- intros [(x0 & [E|Hin] & Eu)|H1].
           ++ inversion E; subst c0 x0. subst u. right. apply deref_add_eq.
           ++ left. eauto.
           ++ right. rewrite deref_add_ne; [exact H1|]. intros ->. congruence.
      * intros p [<-|Hp]; [|apply He; exact Hp]. cbn [fst snd].
        rewrite Ho; [apply (extra_of_cons_eq r0)|].
        intros p Hp E. apply Hc. apply in_map_iff. exists p. auto.
      * intros u Hu. rewrite Ho by (intros p Hp; apply Hu; cbn; auto).
        apply (extra_of_cons_ne r0). intros ->. apply (Hu (c, x)); cbn; auto.
Qed.

(** * Membership in the name-ordered listing = being stored *)
Lemma listed_stored cfg known r c :
  Good cfg known r -> (In c (clients_by_name (fst r)) <-> deref (fst r) (c_uid c) = Some c).
Proof.
  intros [HI Hn Hs]. rewrite clients_by_name_in. split.
  - intros H. apply in_map_iff in H. destruct H as ([u c'] & E & Hin). cbn in E. subst c'.
    pose proof (al_get_nodup _ _ _ Hn Hin) as Hd. change (deref (fst r) u = Some c) in Hd.
    rewrite (inv_uid _ HI _ _ Hd). exact Hd.
  - intros H. apply al_get_in in H; [|apply N.eqb_eq]. apply in_map_iff. exists (c_uid c, c). auto.
Qed.

Lemma listing_sorted cfg known r : Good cfg known r -> StronglySorted lt_name (clients_by_name (fst r)).
Proof.
  intros HG. pose proof HG as [HI Hn Hs]. unfold clients_by_name. apply sort_clients_sorted.
  rewrite map_map. apply NoDup_map_in; [eapply NoDup_map_inv; exact Hn|].
  intros [u1 c1] [u2 c2] H1 H2 E. cbn in E.
  pose proof (al_get_nodup _ _ _ Hn H1) as D1. pose proof (al_get_nodup _ _ _ Hn H2) as D2.
  change (deref (fst r) u1 = Some c1) in D1. change (deref (fst r) u2 = Some c2) in D2.
  destruct (N.eq_dec u1 u2) as [->|Hne]; [congruence|].
  exfalso. apply (stored_no_share _ _ _ _ _ HI D1 D2 Hne). left. exact E.
Qed.

(** * The round trip *)
Definition same_records (r1 r2 : registry) : Prop :=
  forall u, deref (fst r1) u = deref (fst r2) u /\
            (deref (fst r1) u <> None -> extra_of r1 u = extra_of r2 u).

Lemma good_roundtrip cfg known g r :
  Good cfg known r ->
  exists r', reload cfg known g r = LOk r' /\ Good cfg known r' /\ same_records r r' /\ save r' = save r.
Proof.
  intros HG. pose proof HG as [HI Hn Hs].
  set (L := clients_by_name (fst r)).
  set (pcs := map (fun c => (c, extra_of r (c_uid c))) L).
  assert (HL : forall c, In c L <-> deref (fst r) (c_uid c) = Some c) by (intros; apply (listed_stored cfg known); exact HG).
  assert (Hp : forall p, In p pcs <-> deref (fst r) (c_uid (fst p)) = Some (fst p) /\ snd p = extra_of r (c_uid (fst p))).
  { intros [c x]. unfold pcs. rewrite in_map_iff. cbn [fst snd]. split.
    - intros (c' & E & Hin). inversion E; subst. split; [apply HL; exact Hin|reflexivity].
    - intros (Hd & ->). exists c. split; [reflexivity|apply HL; exact Hd]. }
  assert (Hsave : save r = written pcs).
  { unfold save, written, pcs. fold L. rewrite map_map. reflexivity. }
  assert (Hback : loadable_back known pcs).
  { apply Forall_forall. intros p Hin. apply Hp in Hin. destruct Hin as (Hd & Ex).
    destruct (Hs _ _ Hd) as (V & _ & Cm). rewrite Ex. split; [exact Cm|]. eapply validate_uid; exact V. }
  assert (Hconv : conv_all known 0 (map (fun o => (g, o)) (save r)) = inr pcs).
  { rewrite Hsave. apply conv_all_written. exact Hback. }
  destruct (add_all_accepts cfg pcs 0 empty_registry) as (r' & Hr & Hd & He & _).
  - apply Inv_empty.
  - intros p Hin. apply Hp in Hin. destruct Hin as (Hd & _). destruct (Hs _ _ Hd) as (V & Nm & _). auto.
  - unfold pcs. rewrite map_map. cbn [fst]. apply NoDup_map_in.
    + pose proof (listing_sorted cfg known r HG) as S. fold L in S. clear - S.
      induction S as [|a l S IH F]; constructor; [|exact IH].
      intros Hin. rewrite Forall_forall in F. specialize (F a Hin). unfold lt_name in F.
      rewrite cmp_bytes_refl in F. discriminate.
    + intros c1 c2 H1 H2 E. apply HL in H1, H2. rewrite E in H1. congruence.
  - reflexivity.
  - intros p q Hin1 Hin2 Hne. apply Hp in Hin1, Hin2. destruct Hin1 as (D1 & _), Hin2 as (D2 & _).
    eapply stored_no_share; eassumption.
  - cbn. discriminate.
  - assert (Hrel : reload cfg known g r = LOk r').
    { unfold reload, load. rewrite Hconv. exact Hr. }
    assert (HG' : Good cfg known r').
    { eapply add_all_good; [apply Good_empty| |exact Hr].
      apply Forall_forall. intros p Hin. unfold loadable_back in Hback. rewrite Forall_forall in Hback. apply (Hback p Hin). }
    assert (Hsame : same_records r r').
    { intros u. split.
      - apply option_ext. intros c. rewrite Hd. cbn [empty_registry fst]. split.
        + intros H. left. exists (extra_of r (c_uid c)).
          pose proof (inv_uid _ HI _ _ H) as Eu. split; [|exact Eu].
          apply Hp. cbn [fst snd]. rewrite Eu. split; [exact H|reflexivity].
        + intros [(x & Hin & Eu)|H]; [|discriminate]. apply Hp in Hin. cbn in Hin. subst u. tauto.
      - intros Hne. destruct (deref (fst r) u) as [c|] eqn:D; [|congruence].
        pose proof (inv_uid _ HI _ _ D) as Eu. subst u.
        symmetry. apply (He (c, extra_of r (c_uid c))). apply Hp. cbn. auto. }
    exists r'. split; [exact Hrel|]. split; [exact HG'|]. split; [exact Hsame|].
    assert (HL' : clients_by_name (fst r') = L).
    { apply sorted_unique; [eapply listing_sorted; exact HG'|eapply listing_sorted; exact HG|].
      intros c. rewrite (listed_stored cfg known r' c HG'). unfold L. rewrite (listed_stored cfg known r c HG).
      destruct (Hsame (c_uid c)) as (E & _). rewrite E. tauto. }
    unfold save. rewrite HL'. fold L. apply map_ext_in. intros c Hin. f_equal.
    apply HL in Hin. destruct (Hsame (c_uid c)) as (_ & E). symmetry. apply E. congruence.
Qed.

Theorem config_roundtrip cfg known objs r g :
  load cfg known objs = LOk r ->
  exists r', reload cfg known g r = LOk r' /\ same_records r r' /\ save r' = save r /\
             Inv (fst r) /\ Inv (fst r') /\
             (forall dhcp id a s, apply_client_filtering (fst r) dhcp id a s =
                                  apply_client_filtering (fst r') dhcp id a s).
Proof.
  intros H. apply load_good in H.
  destruct (good_roundtrip cfg known g r H) as (r' & Hr & HG' & Hs & Hsv).
  exists r'. repeat split; try assumption; try (apply Hs); try (apply (g_inv _ _ _ H)); try (apply (g_inv _ _ _ HG')).
  intros dhcp id a s. apply same_records_same_settings; [apply (g_inv _ _ _ H)|apply (g_inv _ _ _ HG')|].
  intros u. apply Hs.
Qed.

(** ... and the registry read back is again one the loader produced, so the
    cycle repeats: saving, restarting and saving again changes nothing. *)
Theorem config_save_stable cfg known objs r g g' :
  load cfg known objs = LOk r ->
  exists r' r'', reload cfg known g r = LOk r' /\ reload cfg known g' r' = LOk r'' /\
                 save r'' = save r /\ save r' = save r.
Proof.
  intros H. apply load_good in H.
  destruct (good_roundtrip cfg known g r H) as (r' & Hr & HG' & _ & Hsv).
  destruct (good_roundtrip cfg known g' r' HG') as (r'' & Hr' & _ & _ & Hsv').
  exists r', r''. repeat split; try assumption. congruence.
Qed.

(** The statement kept visible in Proofs/ClientConfig.v holds. *)
Lemma config_roundtrip_statement_holds : config_roundtrip_statement.
Proof.
  intros cfg known objs r g H.
  destruct (config_roundtrip cfg known objs r g H) as (r' & Hr & Hs & Hsv & _).
  exists r'. split; [exact Hr|]. split; [exact Hs|exact Hsv].
Qed.

(** Loading what forConfig wrote never fails and stores exactly the saved
    records, for every registry the loader can produce. *)
Lemma load_saved_accepts cfg known g r :
  Good cfg known r ->
  exists r', reload cfg known g r = LOk r' /\
    forall u c, deref (fst r') u = Some c <-> In c (clients_by_name (fst r)) /\ c_uid c = u.
Proof.
  intros HG. destruct (good_roundtrip cfg known g r HG) as (r' & Hr & _ & Hs & _).
  exists r'. split; [exact Hr|]. intros u c. destruct (Hs u) as (E & _). rewrite <- E.
  rewrite (listed_stored cfg known r c HG). split.
  - intros H. pose proof (inv_uid _ (g_inv _ _ _ HG) _ _ H) as Eu. subst u. auto.
  - intros (H & <-). exact H.
Qed.

Definition ex_obj_b : cobj :=
  {| o_name := [102]; o_ids := [PMac ex_mac8; PNet ([10;1;0;0], 16)]; o_tags := []; o_upstreams := []; o_uid := 7;
     o_ss := zero_ss; o_blocked := Some {| fb_ids := []; fb_sched := None |};
     o_cache_size := 0; o_cache_enabled := false;
     o_use_global_settings := false; o_filtering := true; o_parental := false; o_safebrowsing := false;
     o_use_global_blocked := true; o_ignore_qlog := true; o_ignore_stats := false |}.

Lemma example_two_loaded :
  exists r, load ex_conf_cfg [] [(5, ex_obj6); (0, ex_obj_b)] = LOk r /\
            length (clients_by_name (fst r)) = 2%nat /\ Good ex_conf_cfg [] r.
Proof.
  destruct (load ex_conf_cfg [] [(5, ex_obj6); (0, ex_obj_b)]) as [i e|i e|r] eqn:E;
    try (vm_compute in E; discriminate).
  exists r. split; [reflexivity|]. split; [|eapply load_good; exact E].
  vm_compute in E. inversion E. reflexivity.
Qed.

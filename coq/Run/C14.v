(** Evaluator glue for C14: judges the system-call traces recorded with strace
    while the real save paths ran. *)
From AGH Require Import Base.Run Base.FS.
Local Open Scope N_scope.

(** Short constructors for the trace printer.  Flags: creat excl trunc wr app. *)
Definition O (fd p : N) (c e t w a : bool) : op :=
  Open fd p {| o_creat := c; o_excl := e; o_trunc := t; o_wr := w; o_app := a |}.
Definition W := Write.
Definition PW := PWriteAt.
Definition S := Fsync.
Definition C := Close.
Definition R := Rename.
Definition U := Unlink.
Definition FT := Ftruncate.
Definition TP := TruncatePath.

(** chunk id = sequence number * 2^40 + length in bytes *)
Definition chunk_len (x : N) : N := x mod 1099511627776.
Definition byte_len (bytes_mode : bool) (c : data) : N :=
  if bytes_mode then nlen c else fold_left (fun a x => a + chunk_len x) c 0.

(** A run of writes in chunk mode: ids are consecutive from [seq]. *)
Fixpoint WS (fd seq : N) (lens : list N) : list op :=
  match lens with
  | [] => []
  | l :: r => W fd (if l =? 0 then [] else [seq * 1099511627776 + l]) :: WS fd (seq + 1) r
  end.

Inductive case :=
  (* dst; further names that may remain; files present at the start; the
     recorded operations; byte mode (every element is a byte) or chunk mode;
     observed by the harness: length at dst before the first save and after
     every successful save (intended contents where the harness knows them);
     in byte mode also the contents.  With [ordered = false] (saves started
     concurrently) the lists are compared as sets of equal size with the same
     first element. *)
  | CTrace (dst : path) (keep : list path) (ents : list (path * data)) (t : list op)
           (bytes_mode : bool)
           (ordered : bool)        (* false: concurrent saves, publication order unknown to the harness *)
           (obs_lens : list (option N))
           (obs_versions : list (option data)).

Definition eqb_odata := eqb_option eqb_bytes.
Definition mem_odata (v : option data) (l : list (option data)) := existsb (eqb_odata v) l.

(** 1 trace_safe; 2 no leftovers; 3 the published versions have the observed
    lengths; 4 (byte mode) they are the observed contents; 5 (byte mode) every
    state visible at any instant or after a crash at any prefix, enumerated by
    the model, is one of them; 6 once dst names a file it names one after
    every later operation (never renamed away, unlinked or otherwise absent). *)
Definition checks (c : case) : list bool :=
  match c with
  | CTrace dst keep ents t bm ord lens vers =>
      let s := boot ents in
      let av := all_versions s t dst in
      [ trace_safe dst s t;
        no_leftovers (dst :: keep) s t;
        (let al := map (option_map (byte_len bm)) av in
         if ord then eqb_list (eqb_option N.eqb) al lens
         else Nat.eqb (length al) (length lens) &&
              forallb (fun x => existsb (eqb_option N.eqb x) lens) al &&
              eqb_option N.eqb (hd None al) (hd None lens));
        (if bm then
           if ord then eqb_list eqb_odata av vers
           else forallb (fun v => mem_odata v vers) av && eqb_odata (hd None av) (hd None vers)
         else true);
        (if bm then forallb (fun v => mem_odata v av) (visible_states s t dst) else true);
        dst_stays dst s t ]
  end.

Definition case_ok (c : case) : bool := forallb (fun b => b) (checks c).

Definition mismatches := Base.Run.mismatches case_ok.

(** For replay files: the six verdicts, the index of the first unsafe
    operation, the index of the first operation after which dst is gone, the
    names left over, and (byte mode) the visible states that are not a
    published version. *)
Definition explain (c : case) :=
  match c with
  | CTrace dst keep ents t bm ord lens vers =>
      let s := boot ents in
      let av := all_versions s t dst in
      (checks c, first_unsafe dst s t 0, first_absent dst s t 0,
       filter (fun p => match aget (dir_cur (run s t)) p with Some _ => negb (existsb (N.eqb p) (dst :: keep)) | None => false end)
              (created s t),
       map (option_map (byte_len bm)) av,
       if bm then filter (fun v => negb (mem_odata v av)) (visible_states s t dst) else [])
  end.

(** Evaluator glue for C14: judges the system-call traces recorded with strace
    while the real save paths ran. *)
From Coq Require Export Uint63.
From AGH Require Import Base.Run Base.FS Model.SaveLoop.
Local Open Scope N_scope.

(** Short constructors for the trace printer.  Flags: creat excl trunc wr app. *)
Definition O (fd p : N) (c e t w a : bool) : op :=
  Open fd p {| o_creat := c; o_excl := e; o_trunc := t; o_wr := w; o_app := a |}.
Definition W := Write.
Definition PW := PWriteAt.
Definition S := Fsync.
Definition C := Close.
Definition R := Rename.
Definition U := Unlink.
Definition FT := Ftruncate.
Definition TP := TruncatePath.

(** Chunk mode: one element per write call = CRC-32 of the bytes strace showed
    of the call * 2^30 + length in bytes.  The case files carry these elements
    as primitive 63-bit integer literals (tens of thousands of them per large
    save: a binary N literal each makes coqc spend minutes on elaboration);
    [DU] turns them into the model's [data]. *)
Definition chunk_len (x : N) : N := x mod 1073741824.
Definition DU (xs : list int) : data := map (fun x => Z.to_N (Uint63.to_Z x)) xs.
Definition byte_len (bytes_mode : bool) (c : data) : N :=
  if bytes_mode then nlen c else fold_left (fun a x => a + chunk_len x) c 0.

(** A run of writes in chunk mode, one element per call. *)
Definition WH (fd : N) (xs : list int) : list op :=
  map (fun x => W fd (if chunk_len x =? 0 then [] else [x])) (DU xs).

(** What the harness says about one save of the case, for the save model
    (Model/SaveLoop.v) to reproduce. *)
Inductive sobs :=
  | SAny (n : N)                                   (* n operations not judged by the save model *)
  | SProbe (fd1 p1 fd2 p2 : N) (rename_fails : bool) (* renameio.TempDir probing $TMPDIR *)
  | SSave (update : bool)      (* false: renameio.WriteFile; true: DNSFilter.update *)
          (fd tmp : N)         (* descriptor and temporary name, as recorded *)
          (ending : N)         (* 0 replace, 1 unchanged (skip), 2 abort (write / download / parser failure) *)
          (fault : N)          (* 0 none, 1 creation of the temporary file, 2 fsync, 3 rename *)
          (res : N)            (* reported by the save: 0 replaced, 1 not replaced without error, 2 error *)
  (* Round 6 (K): dhcpd.migrateDB.  [state] of the legacy file when the call starts: 0 present and
     decodable, 1 absent, 2 decodes to no table ("null"), 3 not decodable, 4 cannot be opened;
     [oldp] its path; descriptor and temporary name as recorded; [ending]: 0 the write ran to its
     end, 2 a write was cut (file-size limit); [fault] as for SSave; [res]: 0 migrated, 1 nothing
     to migrate, 2 error. *)
  | SMigrate (state : N) (oldp : N) (fd tmp : N) (ending : N) (fault : N) (res : N).

Definition outcome_class (r : outcome) : N :=
  match r with Replaced => 0 | Skipped => 1 | Failed _ => 2 end.

Definition mig_class (r : mig_res) : N :=
  match r with MigDone => 0 | MigNothing => 1 | MigErr => 2 end.

(** The migration model on the harness's description of one call.  The data
    of the write calls come from the trace ([done]); a cut write is the model's
    own fault plan: every recorded call is served, the next one gets nothing
    onto the disk. *)
Definition migrate_model (dst : path) (state oldp fd tmp ending fault : N) (done : list data) : list op * mig_res :=
  let s0 := boot (if state =? 1 then [] else [(oldp, [])]) in
  let cut := ending =? 2 in
  let chunks := if cut then done ++ [[0]] else done in
  let conv (_ : data) := if state =? 0 then ConvNew chunks else if state =? 2 then ConvNothing else ConvErr in
  let p := {| p_open := fault =? 1; p_write := if cut then Some (length done, 0) else None;
              p_sync := fault =? 2; p_close := false; p_rename := fault =? 3 |} in
  migrate true s0 oldp dst fd tmp (negb (state =? 4)) conv p false.

(** The migration's description is tight at its end: what follows the
    model's operations is not a removal of the legacy file (else an
    unpredicted removal would be blamed on the next save). *)
Definition no_stray_unlink (oldp : N) (rest : list op) : bool :=
  match rest with Unlink p :: _ => negb (p =? oldp) | _ => true end.

Fixpoint leading_writes (fd : N) (t : list op) : list data :=
  match t with
  | Write f d :: t' => if f =? fd then d :: leading_writes fd t' else []
  | _ => []
  end.

Fixpoint skipn_N {A} (l : list A) (m : list op) : list A :=
  match m, l with
  | _ :: m', _ :: l' => skipn_N l' m'
  | _, _ => l
  end.

Fixpoint prefix_eqb (m t : list op) : bool :=
  match m, t with
  | [] , _ => true
  | x :: m', y :: t' => op_eqb x y && prefix_eqb m' t'
  | _ :: _, [] => false
  end.

(** The recorded trace is, save by save, EXACTLY the operations the save
    model computes from the harness's description of the save (the data of
    the write calls is taken from the trace; the model decides which calls
    there are, in which order, and what the save reports). *)
Fixpoint replay (dst : path) (ss : list sobs) (t : list op) : bool :=
  match ss with
  | [] => match t with [] => true | _ => false end
  | SAny n :: r => replay dst r (skipn (N.to_nat n) t)
  | SProbe fd1 p1 fd2 p2 rf :: r =>
      let m := probe_ops fd1 p1 fd2 p2 rf in
      prefix_eqb m t && replay dst r (skipn_N t m)
  | SSave upd fd tmp ending fault res :: r =>
      let done := match t with Open _ _ _ :: t' => leading_writes fd t' | _ => [] end in
      let e := if ending =? 0 then EReplace else if ending =? 1 then ESkip else EAbort AtRead in
      let p := {| p_open := fault =? 1; p_write := None; p_sync := fault =? 2; p_close := false;
                  p_rename := fault =? 3 |} in
      let mr := save_ops (negb upd) fd tmp dst done e p in
      prefix_eqb (fst mr) t && (outcome_class (snd mr) =? res) && replay dst r (skipn_N t (fst mr))
  | SMigrate state oldp fd tmp ending fault res :: r =>
      let done := match t with Open _ _ _ :: t' => leading_writes fd t' | _ => [] end in
      let mr := migrate_model dst state oldp fd tmp ending fault done in
      prefix_eqb (fst mr) t && (mig_class (snd mr) =? res) && no_stray_unlink oldp (skipn_N t (fst mr)) && replay dst r (skipn_N t (fst mr))
  end.

(** Index of the first save description the trace does not follow (for
    replay files); [Some (length ss)]: operations left over at the end. *)
Fixpoint first_bad_save (dst : path) (ss : list sobs) (t : list op) (k : N) : option N :=
  match ss with
  | [] => match t with [] => None | _ => Some k end
  | SAny n :: r => first_bad_save dst r (skipn (N.to_nat n) t) (k + 1)
  | SProbe fd1 p1 fd2 p2 rf :: r =>
      let m := probe_ops fd1 p1 fd2 p2 rf in
      if prefix_eqb m t then first_bad_save dst r (skipn_N t m) (k + 1) else Some k
  | SSave upd fd tmp ending fault res :: r =>
      let done := match t with Open _ _ _ :: t' => leading_writes fd t' | _ => [] end in
      let e := if ending =? 0 then EReplace else if ending =? 1 then ESkip else EAbort AtRead in
      let p := {| p_open := fault =? 1; p_write := None; p_sync := fault =? 2; p_close := false;
                  p_rename := fault =? 3 |} in
      let mr := save_ops (negb upd) fd tmp dst done e p in
      if prefix_eqb (fst mr) t && (outcome_class (snd mr) =? res)
      then first_bad_save dst r (skipn_N t (fst mr)) (k + 1) else Some k
  | SMigrate state oldp fd tmp ending fault res :: r =>
      let done := match t with Open _ _ _ :: t' => leading_writes fd t' | _ => [] end in
      let mr := migrate_model dst state oldp fd tmp ending fault done in
      if prefix_eqb (fst mr) t && (mig_class (snd mr) =? res) && no_stray_unlink oldp (skipn_N t (fst mr))
      then first_bad_save dst r (skipn_N t (fst mr)) (k + 1) else Some k
  end.

(** For replay files: what the model computes for the first save it does not
    reproduce (operations and reported class), and what is left of the trace
    at that point. *)
Fixpoint bad_save_detail (dst : path) (ss : list sobs) (t : list op) : option (list op * N * list op) :=
  match ss with
  | [] => match t with [] => None | _ => Some ([], 9, t) end
  | SAny n :: r => bad_save_detail dst r (skipn (N.to_nat n) t)
  | SProbe fd1 p1 fd2 p2 rf :: r =>
      let m := probe_ops fd1 p1 fd2 p2 rf in
      if prefix_eqb m t then bad_save_detail dst r (skipn_N t m) else Some (m, 9, firstn 12 t)
  | SSave upd fd tmp ending fault res :: r =>
      let done := match t with Open _ _ _ :: t' => leading_writes fd t' | _ => [] end in
      let e := if ending =? 0 then EReplace else if ending =? 1 then ESkip else EAbort AtRead in
      let p := {| p_open := fault =? 1; p_write := None; p_sync := fault =? 2; p_close := false;
                  p_rename := fault =? 3 |} in
      let mr := save_ops (negb upd) fd tmp dst done e p in
      if prefix_eqb (fst mr) t && (outcome_class (snd mr) =? res)
      then bad_save_detail dst r (skipn_N t (fst mr))
      else Some (fst mr, outcome_class (snd mr), firstn (length (fst mr) + 3) t)
  | SMigrate state oldp fd tmp ending fault res :: r =>
      let done := match t with Open _ _ _ :: t' => leading_writes fd t' | _ => [] end in
      let mr := migrate_model dst state oldp fd tmp ending fault done in
      if prefix_eqb (fst mr) t && (mig_class (snd mr) =? res) && no_stray_unlink oldp (skipn_N t (fst mr))
      then bad_save_detail dst r (skipn_N t (fst mr))
      else Some (fst mr, mig_class (snd mr), firstn (length (fst mr) + 3) t)
  end.

Inductive case :=
  (* dst; further names that may remain; files present at the start; the
     recorded operations; byte mode (every element is a byte) or chunk mode;
     observed by the harness: length at dst before the first save and after
     every successful save (intended contents where the harness knows them);
     in byte mode also the contents.  With [ordered = false] (saves started
     concurrently) the lists are compared as sets of equal size with the same
     first element. *)
  | CTrace (dst : path) (keep : list path) (ents : list (path * data)) (t : list op)
           (bytes_mode : bool)
           (ordered : bool)        (* false: concurrent saves, publication order unknown to the harness *)
           (obs_lens : list (option N))
           (obs_versions : list (option data))
           (saves : list sobs)
  (* Round 5 (I): list downloads overlapping in time on one DNSFilter, their
     bodies delivered chunk by chunk in an order the harness controls.  Per
     list: id; chunks; cut (the body ends in an error instead of EOF); entry
     point (0 periodic refresh of a loaded list: the checksum in memory is
     that of the stored file; 1 add_url: new id, no file, checksum 0; 2
     set_url with a new URL: unloaded, checksum 0, a list without rules loses
     its file); the file before.  [sched]: the list that moves, step by step
     (first step of a list = its download starts and takes a buffer; then one
     Read result per step, the last being EOF / the error).  [obs]: the file
     of each list when all calls have returned.  Bytes. *)
  | COverlap (lists : list (N * list data * bool * N * option data)) (sched : list N)
             (obs : list (N * option data))
  (* Round 5 (J): one filterSetProperties call.  File before; the entry's
     enabled flag and whether its checksum describes the file (else 0); the
     request (URL changes / is taken / enabled afterwards); the source (can be
     opened, chunks, cut); fault (0 none, 1 the temporary file cannot be
     created); observed: error reported, restart flag, file afterwards. *)
  | CSetUrl (old : option data) (enabled loaded : bool) (url_changes taken new_enabled : bool)
            (status : N)            (* round 6: final status of the source; 0 = no answer *)
            (chunks : list data) (cut : bool) (fault : N)
            (obs_err obs_restart : bool) (obs_file : option data)
  (* Round 6 (K): a traced scenario with migrateDB calls: the fields of CTrace
     plus the path of the legacy leases.db.  Judged as CTrace and, in
     addition: at every instant and after a crash at every prefix the new file
     is a complete published version or the legacy file is as it was. *)
  | CMigTrace (oldp : path) (dst : path) (keep : list path) (ents : list (path * data)) (t : list op)
              (bytes_mode : bool) (ordered : bool) (obs_lens : list (option N)) (obs_versions : list (option data))
              (saves : list sobs)
  (* Round 6 (L): one refresh of a list that was downloaded before, from a
     list server that answers with any status.  [web]: URL number -> answer
     (redirect / status, body in chunks, cut / nothing: no answer); [url]: the
     list's URL; fault as for CSetUrl; observed: error reported, file
     afterwards.  Bytes. *)
  | CStatus (old : option data) (web : list (N * answer)) (url : N) (fault : N)
            (obs_err : bool) (obs_file : option data)
  (* Round 7 (M): CSetUrl after a restart of the filtering module between the
     preparation and the judged call: the checksum in memory is what a start
     leaves (Model.SaveLoop.start_sum: enabled lists only). *)
  | CSetUrlR (old : option data) (enabled : bool) (url_changes taken new_enabled : bool)
             (status : N) (chunks : list data) (cut : bool) (fault : N)
             (obs_err obs_restart : bool) (obs_file : option data)
  (* Round 7 (N): the ids of the lists of both arrays over a history of starts
     (with the seed the generator got: the clock) and successful add_url
     calls; observed: the ids of both arrays at the end. *)
  | CIds (block allow : list N) (cur : N) (ops : list idop) (obs_block obs_allow : list N)
  (* Round 8 (O): one remove_url call: the arrays before, the array and index
     of the removed list; observed: the arrays afterwards and the ids (of the
     lists there were) whose file <id>.txt is no longer there. *)
  | CRemove (block allow : list N) (in_allow : bool) (k : N) (obs_block obs_allow obs_gone : list N)
  (* Round 8 (P): one entry of an update package given to the real
     copySupportingFiles beside a live file of that name: name code (see
     Model.SaveLoop.supporting_skipped); observed: the live file was
     overwritten. *)
  | CSupport (name_code : N) (obs_copied : bool).


(** *** Round 5: the list scenarios (bytes; the line processor [simple_pl]
    for the fragment of list syntax these scenarios generate) *)

Definition l_feed := buf_feed bool simple_pl.
Definition l_finish := buf_finish bool simple_pl.
Definition l_st0 : bst bool := (false, []).
Definition l_update := update_list (bst bool) l_st0 l_feed l_finish big_sum.
Definition l_set := set_props (bst bool) l_st0 l_feed l_finish big_sum.
Definition osum (o : option data) : N := match o with Some c => big_sum c | None => 0 end.
Definition oboot (o : option data) : fs := boot (match o with Some c => [(1, c)] | None => [] end).
Definition plan_of (fault : N) : plan :=
  {| p_open := fault =? 1; p_write := None; p_sync := false; p_close := false; p_rename := false |}.

(** The file a list has when its call has returned, by the LONE download of
    the model (entry points 0, 1: DNSFilter.update; 2: filterSetProperties
    with a new URL on an enabled list). *)
Definition lone_file (r : reader) (kind : N) (old : option data) : option data :=
  let s := oboot old in
  if kind =? 2 then
    let x := l_set true s {| e_url := 7; e_enabled := true; e_sum := osum old |} false
                   {| q_url := 8; q_enabled := true |} 3 2 1 true r no_faults false in
    live_view (run s (fst (fst x))) 1
  else
    live_view (run s (fst (l_update 3 2 1 true r (osum old) no_faults))) 1.

Definition eqb_ldata : list data -> list data -> bool := eqb_list eqb_bytes.

Definition overlap_inputs (lists : list (N * list data * bool * N * option data)) : amap reader :=
  map (fun l => match l with (id, ch, cut, _, _) => (id, serve ch cut) end) lists.

Definition overlap_world (lists : list (N * list data * bool * N * option data)) (sched : list N) :=
  prun bool simple_pl false (pinit bool false (overlap_inputs lists)) sched.

(** 1 every download of the schedule has ended, with the writes and the end
    of the lone download ([C14_overlapping_saves_independent] says so for the
    model; evaluated all the same); 2 every list's file is what the lone
    download leaves: its own complete normal form, or the previous version;
    3 one observation per list. *)
Definition overlap_checks (lists : list (N * list data * bool * N * option data)) (sched : list N)
           (obs : list (N * option data)) : list bool :=
  let w := overlap_world lists sched in
  [ forallb (fun l => match l with (id, ch, cut, _, _) =>
               match saver_result bool w id with
               | Some (ws, ok) => let (ws', ok') := pump (bst bool) l_feed l_finish l_st0 (serve ch cut) in
                                  eqb_ldata ws ws' && Bool.eqb ok ok'
               | None => false
               end end) lists;
    forallb (fun l => match l with (id, ch, cut, kind, old) =>
               match aget obs id with
               | Some f => eqb_option eqb_bytes f (lone_file (serve ch cut) kind old)
               | None => false
               end end) lists;
    Nat.eqb (length obs) (length lists) ].

Definition IRestart : N -> idop := SaveLoop.IRestart.
Definition IAdd : bool -> idop := SaveLoop.IAdd.

Fixpoint nodupb (l : list N) : bool :=
  match l with [] => true | x :: r => negb (existsb (N.eqb x) r) && nodupb r end.

(** 1, 2 the arrays are what the model's generator gives; 3 no two lists of
    the two arrays share an id (a file). *)
Definition ids_checks (block allow : list N) (cur : N) (ops : list idop) (ob oa : list N) : list bool :=
  let st := idrun seed_clock {| ids_block := block; ids_allow := allow; id_cur := cur |} ops in
  [ eqb_list N.eqb (ids_block st) ob; eqb_list N.eqb (ids_allow st) oa; nodupb (ob ++ oa) ].

Definition seturl_model (old : option data) (enabled loaded url_changes taken new_enabled : bool) (status : N)
           (chunks : list data) (cut : bool) (fault : N) :=
  let src_ok := only_200 status in
  l_set true (oboot old) {| e_url := 7; e_enabled := enabled; e_sum := if loaded then osum old else 0 |} taken
        {| q_url := if url_changes then 8 else 7; q_enabled := new_enabled |} 3 2 1 src_ok (serve chunks cut)
        (plan_of fault) false.

(** 1 error reported as the model says; 2 restart flag (successful calls); 3
    the file afterwards; 4 a call reporting an error made only operations the
    checker accepts and dst never stopped naming a file
    ([C14_failed_set_url_keeps_file]). *)
Definition seturl_checks (old : option data) (enabled loaded url_changes taken new_enabled : bool) (src_ok : N)
           (chunks : list data) (cut : bool) (fault : N) (obs_err obs_restart : bool) (obs_file : option data)
  : list bool :=
  let s := oboot old in
  let x := seturl_model old enabled loaded url_changes taken new_enabled src_ok chunks cut fault in
  let ops := fst (fst x) in
  [ match snd (fst x) with SetErr => obs_err | SetOk _ => negb obs_err end;
    match snd (fst x) with SetErr => true | SetOk r => obs_err || Bool.eqb r obs_restart end;
    eqb_option eqb_bytes obs_file (live_view (run s ops) 1);
    match snd (fst x) with SetErr => trace_safe 1 s ops && dst_stays 1 s ops | SetOk _ => true end ].

Definition eqb_odata := eqb_option eqb_bytes.
Definition mem_odata (v : option data) (l : list (option data)) := existsb (eqb_odata v) l.

(** 1 trace_safe; 2 no leftovers; 3 the published versions have the observed
    lengths (the write calls of the trace sum to the length of the intended
    content); 4 they ARE the intended contents (byte mode: byte for byte;
    chunk mode: the intended content cut at the boundaries of the recorded
    write calls, every element with the CRC of the bytes strace showed); 5
    (byte mode) every state visible at any instant or after a crash at any
    prefix, enumerated by the model, is one of them; 6 once dst names a file
    it names one after every later operation (never renamed away, unlinked or
    otherwise absent); 7 the save model reproduces the trace save by save and
    predicts what each save reported. *)
(** *** Round 6 (L): the status scenarios *)

(** the case files see only this module: the answers of the list server *)
Definition answer := SaveLoop.answer.
Definition ARedirect : N -> answer := SaveLoop.ARedirect.
Definition AServe : N -> list data -> bool -> answer := SaveLoop.AServe.

Definition web_of (web : list (N * answer)) (u : N) : answer :=
  match aget web u with Some a => a | None => ADown end.

Definition status_model (old : option data) (web : list (N * answer)) (url fault : N) :=
  update_from_url (bst bool) l_st0 l_feed l_finish big_sum only_200 max_redirects (web_of web) url 3 2 1
                  (osum old) (plan_of fault).

Definition final_status_of (web : list (N * answer)) (url : N) : option N :=
  option_map fst (fetch max_redirects (web_of web) url).

(** 1 error reported iff the model's download fails; 2 the file afterwards is
    the model's; 3 ([C14_non_200_keeps_file], evaluated) a final status other
    than 200, or no answer, means: error and the file as it was; 4 the
    model's operations are accepted by the checker. *)
Definition status_checks (old : option data) (web : list (N * answer)) (url fault : N)
           (obs_err : bool) (obs_file : option data) : list bool :=
  let s := oboot old in
  let x := status_model old web url fault in
  [ Bool.eqb obs_err (match snd x with Failed _ => true | _ => false end);
    eqb_option eqb_bytes obs_file (live_view (run s (fst x)) 1);
    match final_status_of web url with
    | Some 200 => true
    | _ => obs_err && eqb_option eqb_bytes obs_file old
    end;
    trace_safe 1 s (fst x) && dst_stays 1 s (fst x) ].

(** *** Round 6 (K): the lease data in two paths *)

Definition pair_ok (pub : list (option data)) (oc : option data) (vw : option data * option data) : bool :=
  existsb (eqb_option eqb_bytes (fst vw)) pub || eqb_option eqb_bytes (snd vw) oc.

(** Every pair readable at (dst, legacy path) at any instant or after a crash
    at any prefix: dst is a version published in this trace, or the legacy
    file is what it was at the start. *)
Definition mig_pairs_ok (dst oldp : path) (s : fs) (t : list op) : bool :=
  match live_view s oldp with
  | None => true
  | oc => forallb (pair_ok (versions s t dst) oc) (visible_pairs s t dst oldp)
  end.

Definition trace_checks (dst : path) (keep : list path) (ents : list (path * data)) (t : list op)
           (bm ord : bool) (lens : list (option N)) (vers : list (option data)) (saves : list sobs) : list bool :=
      let s := boot ents in
      let av := all_versions s t dst in
      [ trace_safe dst s t;
        no_leftovers (dst :: keep) s t;
        (let al := map (option_map (byte_len bm)) av in
         if ord then eqb_list (eqb_option N.eqb) al lens
         else Nat.eqb (length al) (length lens) &&
              forallb (fun x => existsb (eqb_option N.eqb x) lens) al &&
              eqb_option N.eqb (hd None al) (hd None lens));
        (if ord then eqb_list eqb_odata av vers
         else forallb (fun v => mem_odata v vers) av && eqb_odata (hd None av) (hd None vers));
        (if bm then forallb (fun v => mem_odata v av) (visible_states s t dst) else true);
        dst_stays dst s t;
        replay dst saves t ].

Definition checks (c : case) : list bool :=
  match c with
  | CTrace dst keep ents t bm ord lens vers saves => trace_checks dst keep ents t bm ord lens vers saves
  | COverlap lists sched obs => overlap_checks lists sched obs
  | CSetUrl old en ld uc tk ne so ch cut fl oe orr ofile => seturl_checks old en ld uc tk ne so ch cut fl oe orr ofile
  | CMigTrace oldp dst keep ents t bm ord lens vers saves =>
      trace_checks dst keep ents t bm ord lens vers saves ++ [mig_pairs_ok dst oldp (boot ents) t]
  | CStatus old web url fl oe ofile => status_checks old web url fl oe ofile
  | CSetUrlR old en uc tk ne so ch cut fl oe orr ofile =>
      seturl_checks old en (negb (start_sum false big_sum en old =? 0)) uc tk ne so ch cut fl oe orr ofile
  | CIds b a cur ops ob oa => ids_checks b a cur ops ob oa
  | CRemove b a ia k ob oa og =>
      let r := remove_list false (if ia then a else b) (N.to_nat k) in
      [ eqb_list N.eqb (if ia then b else fst r) ob; eqb_list N.eqb (if ia then fst r else a) oa;
        eqb_list N.eqb (match snd r with Some i => [i] | None => [] end) og;
        (* [C14_remove_touches_only_its_own_file], evaluated: no list still configured lost its file *)
        forallb (fun i => negb (existsb (N.eqb i) (ob ++ oa))) og ]
  | CSupport code oc => [ Bool.eqb oc (negb (supporting_skipped code)) ]
  end.

Definition case_ok (c : case) : bool := forallb (fun b => b) (checks c).

Definition mismatches := Base.Run.mismatches case_ok.

(** For replay files.  Traces: the seven verdicts, the index of the first
    unsafe operation, the index of the first operation after which dst is
    gone, the index of the first save the save model does not reproduce, the
    names left over, and (byte mode) the visible states that are not a
    published version.  Overlap: verdicts, per list the model's writes and
    end, per list the file the lone download leaves.  set_url: verdicts, the
    model's operations, error, restart, file. *)
Inductive expl :=
  | XTrace (x : list bool * option N * option N * option N * list path * list (option N) * list (option data))
  (* the first save the model does not reproduce: the model's operations and reported class, the
     recorded operations at that point; the pairs (dst, legacy) that are neither a published
     version nor the legacy file as it was (first three) *)
  | XMigTrace (x : list bool * option N * option N * option N * list path * list (option N) * list (option data))
              (bad_save : option (list op * N * list op)) (bad_pairs : list (option data * option data))
  | XStatus (verdicts : list bool) (final_status : option N) (ops : list op) (outcome : N) (file : option data)
  | XIds (verdicts : list bool) (block allow : list N)
  | XRemove (verdicts : list bool) (arr : list N) (renamed : option N)
  | XSupport (verdicts : list bool) (skipped : bool)
  | XOverlap (verdicts : list bool) (results : list (N * option (list data * bool))) (files : list (N * option data))
  | XSetUrl (verdicts : list bool) (ops : list op) (err : bool) (restart : option bool) (file : option data).

Definition xtrace (vd : list bool) (dst : path) (keep : list path) (ents : list (path * data)) (t : list op)
           (bm : bool) (saves : list sobs) :=
      let s := boot ents in
      let av := all_versions s t dst in
      (vd, first_unsafe dst s t 0, first_absent dst s t 0, first_bad_save dst saves t 0,
       filter (fun p => match aget (dir_cur (run s t)) p with Some _ => negb (existsb (N.eqb p) (dst :: keep)) | None => false end)
              (created s t),
       map (option_map (byte_len bm)) av,
       if bm then filter (fun v => negb (mem_odata v av)) (visible_states s t dst) else []).

Definition explain (c : case) : expl :=
  match c with
  | CTrace dst keep ents t bm ord lens vers saves => XTrace (xtrace (checks c) dst keep ents t bm saves)
  | CMigTrace oldp dst keep ents t bm ord lens vers saves =>
      let s := boot ents in
      XMigTrace (xtrace (checks c) dst keep ents t bm saves) (bad_save_detail dst saves t)
                (firstn 3 (filter (fun vw => negb (pair_ok (versions s t dst) (live_view s oldp) vw))
                                  (match live_view s oldp with None => [] | _ => visible_pairs s t dst oldp end)))
  | CStatus old web url fl oe ofile =>
      let x := status_model old web url fl in
      XStatus (checks c) (final_status_of web url) (fst x) (outcome_class (snd x))
              (live_view (run (oboot old) (fst x)) 1)
  | CSetUrlR old en uc tk ne so ch cut fl oe orr ofile =>
      let x := seturl_model old en (negb (start_sum false big_sum en old =? 0)) uc tk ne so ch cut fl in
      XSetUrl (checks c) (fst (fst x))
              (match snd (fst x) with SetErr => true | SetOk _ => false end)
              (match snd (fst x) with SetErr => None | SetOk r => Some r end)
              (live_view (run (oboot old) (fst (fst x))) 1)
  | CIds b a cur ops ob oa =>
      let st := idrun seed_clock {| ids_block := b; ids_allow := a; id_cur := cur |} ops in
      XIds (checks c) (ids_block st) (ids_allow st)
  | CRemove b a ia k ob oa og =>
      let r := remove_list false (if ia then a else b) (N.to_nat k) in XRemove (checks c) (fst r) (snd r)
  | CSupport code oc => XSupport (checks c) (supporting_skipped code)
  | COverlap lists sched obs =>
      let w := overlap_world lists sched in
      XOverlap (checks c)
               (map (fun l => match l with (id, _, _, _, _) => (id, saver_result bool w id) end) lists)
               (map (fun l => match l with (id, ch, cut, kind, old) => (id, lone_file (serve ch cut) kind old) end) lists)
  | CSetUrl old en ld uc tk ne so ch cut fl oe orr ofile =>
      let x := seturl_model old en ld uc tk ne so ch cut fl in
      XSetUrl (checks c) (fst (fst x))
              (match snd (fst x) with SetErr => true | SetOk _ => false end)
              (match snd (fst x) with SetErr => None | SetOk r => Some r end)
              (live_view (run (oboot old) (fst (fst x))) 1)
  end.

(** Evaluator glue for C14: judges the system-call traces recorded with strace
    while the real save paths ran. *)
From Coq Require Export Uint63.
From AGH Require Import Base.Run Base.FS Model.SaveLoop.
Local Open Scope N_scope.

(** Short constructors for the trace printer.  Flags: creat excl trunc wr app. *)
Definition O (fd p : N) (c e t w a : bool) : op :=
  Open fd p {| o_creat := c; o_excl := e; o_trunc := t; o_wr := w; o_app := a |}.
Definition W := Write.
Definition PW := PWriteAt.
Definition S := Fsync.
Definition C := Close.
Definition R := Rename.
Definition U := Unlink.
Definition FT := Ftruncate.
Definition TP := TruncatePath.

(** Chunk mode: one element per write call = CRC-32 of the bytes strace showed
    of the call * 2^30 + length in bytes.  The case files carry these elements
    as primitive 63-bit integer literals (tens of thousands of them per large
    save: a binary N literal each makes coqc spend minutes on elaboration);
    [DU] turns them into the model's [data]. *)
Definition chunk_len (x : N) : N := x mod 1073741824.
Definition DU (xs : list int) : data := map (fun x => Z.to_N (Uint63.to_Z x)) xs.
Definition byte_len (bytes_mode : bool) (c : data) : N :=
  if bytes_mode then nlen c else fold_left (fun a x => a + chunk_len x) c 0.

(** A run of writes in chunk mode, one element per call. *)
Definition WH (fd : N) (xs : list int) : list op :=
  map (fun x => W fd (if chunk_len x =? 0 then [] else [x])) (DU xs).

(** What the harness says about one save of the case, for the save model
    (Model/SaveLoop.v) to reproduce. *)
Inductive sobs :=
  | SAny (n : N)                                   (* n operations not judged by the save model *)
  | SProbe (fd1 p1 fd2 p2 : N) (rename_fails : bool) (* renameio.TempDir probing $TMPDIR *)
  | SSave (update : bool)      (* false: renameio.WriteFile; true: DNSFilter.update *)
          (fd tmp : N)         (* descriptor and temporary name, as recorded *)
          (ending : N)         (* 0 replace, 1 unchanged (skip), 2 abort (write / download / parser failure) *)
          (fault : N)          (* 0 none, 1 creation of the temporary file, 2 fsync, 3 rename *)
          (res : N).           (* reported by the save: 0 replaced, 1 not replaced without error, 2 error *)

Definition outcome_class (r : outcome) : N :=
  match r with Replaced => 0 | Skipped => 1 | Failed _ => 2 end.

Fixpoint leading_writes (fd : N) (t : list op) : list data :=
  match t with
  | Write f d :: t' => if f =? fd then d :: leading_writes fd t' else []
  | _ => []
  end.

Fixpoint skipn_N {A} (l : list A) (m : list op) : list A :=
  match m, l with
  | _ :: m', _ :: l' => skipn_N l' m'
  | _, _ => l
  end.

Fixpoint prefix_eqb (m t : list op) : bool :=
  match m, t with
  | [] , _ => true
  | x :: m', y :: t' => op_eqb x y && prefix_eqb m' t'
  | _ :: _, [] => false
  end.

(** The recorded trace is, save by save, EXACTLY the operations the save
    model computes from the harness's description of the save (the data of
    the write calls is taken from the trace; the model decides which calls
    there are, in which order, and what the save reports). *)
Fixpoint replay (dst : path) (ss : list sobs) (t : list op) : bool :=
  match ss with
  | [] => match t with [] => true | _ => false end
  | SAny n :: r => replay dst r (skipn (N.to_nat n) t)
  | SProbe fd1 p1 fd2 p2 rf :: r =>
      let m := probe_ops fd1 p1 fd2 p2 rf in
      prefix_eqb m t && replay dst r (skipn_N t m)
  | SSave upd fd tmp ending fault res :: r =>
      let done := match t with Open _ _ _ :: t' => leading_writes fd t' | _ => [] end in
      let e := if ending =? 0 then EReplace else if ending =? 1 then ESkip else EAbort AtRead in
      let p := {| p_open := fault =? 1; p_write := None; p_sync := fault =? 2; p_close := false;
                  p_rename := fault =? 3 |} in
      let mr := save_ops (negb upd) fd tmp dst done e p in
      prefix_eqb (fst mr) t && (outcome_class (snd mr) =? res) && replay dst r (skipn_N t (fst mr))
  end.

(** Index of the first save description the trace does not follow (for
    replay files); [Some (length ss)]: operations left over at the end. *)
Fixpoint first_bad_save (dst : path) (ss : list sobs) (t : list op) (k : N) : option N :=
  match ss with
  | [] => match t with [] => None | _ => Some k end
  | SAny n :: r => first_bad_save dst r (skipn (N.to_nat n) t) (k + 1)
  | SProbe fd1 p1 fd2 p2 rf :: r =>
      let m := probe_ops fd1 p1 fd2 p2 rf in
      if prefix_eqb m t then first_bad_save dst r (skipn_N t m) (k + 1) else Some k
  | SSave upd fd tmp ending fault res :: r =>
      let done := match t with Open _ _ _ :: t' => leading_writes fd t' | _ => [] end in
      let e := if ending =? 0 then EReplace else if ending =? 1 then ESkip else EAbort AtRead in
      let p := {| p_open := fault =? 1; p_write := None; p_sync := fault =? 2; p_close := false;
                  p_rename := fault =? 3 |} in
      let mr := save_ops (negb upd) fd tmp dst done e p in
      if prefix_eqb (fst mr) t && (outcome_class (snd mr) =? res)
      then first_bad_save dst r (skipn_N t (fst mr)) (k + 1) else Some k
  end.

Inductive case :=
  (* dst; further names that may remain; files present at the start; the
     recorded operations; byte mode (every element is a byte) or chunk mode;
     observed by the harness: length at dst before the first save and after
     every successful save (intended contents where the harness knows them);
     in byte mode also the contents.  With [ordered = false] (saves started
     concurrently) the lists are compared as sets of equal size with the same
     first element. *)
  | CTrace (dst : path) (keep : list path) (ents : list (path * data)) (t : list op)
           (bytes_mode : bool)
           (ordered : bool)        (* false: concurrent saves, publication order unknown to the harness *)
           (obs_lens : list (option N))
           (obs_versions : list (option data))
           (saves : list sobs).

Definition eqb_odata := eqb_option eqb_bytes.
Definition mem_odata (v : option data) (l : list (option data)) := existsb (eqb_odata v) l.

(** 1 trace_safe; 2 no leftovers; 3 the published versions have the observed
    lengths (the write calls of the trace sum to the length of the intended
    content); 4 they ARE the intended contents (byte mode: byte for byte;
    chunk mode: the intended content cut at the boundaries of the recorded
    write calls, every element with the CRC of the bytes strace showed); 5
    (byte mode) every state visible at any instant or after a crash at any
    prefix, enumerated by the model, is one of them; 6 once dst names a file
    it names one after every later operation (never renamed away, unlinked or
    otherwise absent); 7 the save model reproduces the trace save by save and
    predicts what each save reported. *)
Definition checks (c : case) : list bool :=
  match c with
  | CTrace dst keep ents t bm ord lens vers saves =>
      let s := boot ents in
      let av := all_versions s t dst in
      [ trace_safe dst s t;
        no_leftovers (dst :: keep) s t;
        (let al := map (option_map (byte_len bm)) av in
         if ord then eqb_list (eqb_option N.eqb) al lens
         else Nat.eqb (length al) (length lens) &&
              forallb (fun x => existsb (eqb_option N.eqb x) lens) al &&
              eqb_option N.eqb (hd None al) (hd None lens));
        (if ord then eqb_list eqb_odata av vers
         else forallb (fun v => mem_odata v vers) av && eqb_odata (hd None av) (hd None vers));
        (if bm then forallb (fun v => mem_odata v av) (visible_states s t dst) else true);
        dst_stays dst s t;
        replay dst saves t ]
  end.

Definition case_ok (c : case) : bool := forallb (fun b => b) (checks c).

Definition mismatches := Base.Run.mismatches case_ok.

(** For replay files: the seven verdicts, the index of the first unsafe
    operation, the index of the first operation after which dst is gone, the
    index of the first save the save model does not reproduce, the
    names left over, and (byte mode) the visible states that are not a
    published version. *)
Definition explain (c : case) :=
  match c with
  | CTrace dst keep ents t bm ord lens vers saves =>
      let s := boot ents in
      let av := all_versions s t dst in
      (checks c, first_unsafe dst s t 0, first_absent dst s t 0, first_bad_save dst saves t 0,
       filter (fun p => match aget (dir_cur (run s t)) p with Some _ => negb (existsb (N.eqb p) (dst :: keep)) | None => false end)
              (created s t),
       map (option_map (byte_len bm)) av,
       if bm then filter (fun v => negb (mem_odata v av)) (visible_states s t dst) else [])
  end.

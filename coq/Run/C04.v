(** Evaluator glue for C04: replays an operation history on the model and
    compares every per-step observation with what client.Storage did. *)
From Coq Require Export ZArith.
From AGH Require Import Base.Run.
From AGH Require Export Model.ClientIndex Model.ClientIDCache.
From AGH Require Export Run.C04Conf Run.C04SMap Run.C04HTTP Run.C04Lease.
From AGH Require Model.Dhcp4.
From AGH Require Model.Schedule.
Local Open Scope N_scope.

Definition mkc := Build_client.
Definition mks := Build_settings.
Definition mkb := Build_blocked.
(** day ranges are printed in minutes from local midnight *)
Definition mkr (s e : Z) : Schedule.day_range :=
  {| Schedule.dr_start := (s * Schedule.ns_min)%Z; Schedule.dr_end := (e * Schedule.ns_min)%Z |}.
(** an observed BlockedServices value: only its ids are compared *)
Definition ob (ids : list bytes) : blocked := mkb ids [] 0.

Inductive hstep :=
  | HOp (o : op)
  | HDhcp (tbl : list (addr * bytes))        (* the DHCP stub's table from now on *)
  | HGlobal (gb : blocked).                  (* the filter's global BlockedServices from now on *)

(** error class, Find per spelling (uid), FindByName per name (uid, IDsLen),
    RangeByName names, ApplyClientFiltering per (ClientID, address) pair
    (None: the call panicked). *)
Definition obs := (N * list (option N) * list (option (N * N)) * list bytes * list (option settings))%type.

(** ApplyAdditionalFiltering per (ClientID, address) pair: the instant (ns)
    both schedule tests saw, the offset (s) of every zone of the history's zone
    table at that instant, and the resulting settings per pair (None: panic). *)
Definition aobs := (Z * list Z * list (option settings))%type.

(** What the storage / filter is configured with: allowed tags, the answers
    of upstream.AddressToUpstream for every token of the history, the service
    ids with rules, the settings ApplyAdditionalFiltering starts from. *)
Record henv := {
  he_tags : list bytes;
  he_addr : list (bytes * bool);
  he_known : list bytes;
  he_g2 : settings
}.
Definition mkenv := Build_henv.

Inductive case :=
  | CHist (finds : list (bytes * option addr * option bytes)) (names : list bytes)
          (acfs : list (bytes * addr)) (g : settings) (env : henv) (gb0 : blocked)
          (steps : list (hstep * obs * aobs))
  (* interleaved HandleBefore / processInitial events on the real Server with
     what processInitial put into dctx.clientID *)
  | CHand (evs : list (ev * option bytes))
  (* round 3, configuration round trip (Run/C04Conf.v): file objects (with the
     uid NewUID gave when the object has none) -> Init -> forConfig -> Init *)
  | CConf (env : henv) (srcs : sources) (leases : list (addr * bytes))
          (probes : list (bytes * addr)) (g : settings)
          (objs : list (uid * cobj)) (res1 : cres) (res2 : option cres)
  (* round 4, aghalg.SortedMap on its own (Run/C04SMap.v): Set / Del / Clear
     calls on the real structure with what Range / Get showed after each *)
  | CSMap (univ : list prefix) (addrs : list bytes) (steps : list (pmop * smobs))
  (* round 5, the clients HTTP API (Run/C04HTTP.v): what Init loaded, then
     add / update / delete requests through the real handlers with, after each,
     the probes' settings, engine and safe-search verdicts, GET /control/clients
     and /control/clients/find; at the end the probes after save + restart *)
  | CHttp (env : henv) (global : ssconf) (g : settings) (leases : list (addr * bytes))
          (probes : list (bytes * addr)) (finds : list (bytes * option addr * option bytes))
          (objs : list (uid * cobj)) (start : hobs) (steps : list (hop * hobs))
          (after : option (list (option eobs)))
  (* round 9, the real DHCP server behind the real storage (Run/C04Lease.v):
     static-lease API calls, accepted and rejected, with MACByIP and the
     attribution of every probe address after each *)
  | CLease (c : Dhcp4.conf) (clients : list client) (probes : list addr)
           (steps : list (Dhcp4.op * lobs)).

Definition err_code (e : err) : N :=
  match e with
  | EOk => 0 | EValidate => 1 | EUid => 2 | EName => 3 | ECid => 4 | EIP => 5
  | ESubnet => 6 | EMac => 7 | ENotFound => 8 | EUpstream => 9 | ETag => 10 | EPanic => 11
  end.

Definition eqb_on (o1 o2 : option N) := eqb_option N.eqb o1 o2.
Definition eqb_nn (a b : N * N) := (fst a =? fst b) && (snd a =? snd b).
Definition eqb_settings (a b : settings) : bool :=
  eqb_bytes (s_client_name a) (s_client_name b) && Bool.eqb (s_filtering a) (s_filtering b) &&
  Bool.eqb (s_safesearch a) (s_safesearch b) && Bool.eqb (s_safebrowsing a) (s_safebrowsing b) &&
  Bool.eqb (s_parental a) (s_parental b) &&
  eqb_option (fun x y => eqb_list eqb_bytes (b_ids x) (b_ids y)) (s_blocked a) (s_blocked b) &&
  eqb_list eqb_bytes (s_tags a) (s_tags b) && eqb_list eqb_bytes (s_services a) (s_services b).

Definition dhcp_of (tbl : list (addr * bytes)) : addr -> option bytes := fun a => zget a tbl.

Definition model_obs finds names acfs g (ix : index) (tbl : list (addr * bytes)) (e : err) : obs :=
  (err_code e,
   map (fun f => match f with (id, ip, mac) => storage_find ix (dhcp_of tbl) id ip mac end) finds,
   map (fun n => match find_by_name ix n with
                 | Some u => match deref ix u with
                             | Some c => Some (u, N.of_nat (ids_len c))
                             | None => Some (u, 999999)
                             end
                 | None => None end) names,
   range_by_name ix,
   map (fun q => apply_client_filtering ix (dhcp_of tbl) (fst q) (snd q) g) acfs).

Definition eqb_obs (a b : obs) : bool :=
  match a, b with
  | (e1, f1, n1, r1, s1), (e2, f2, n2, r2, s2) =>
      (e1 =? e2) && eqb_list eqb_on f1 f2 && eqb_list (eqb_option eqb_nn) n1 n2 &&
      eqb_list eqb_bytes r1 r2 && eqb_list (eqb_option eqb_settings) s1 s2
  end.

Definition cfg_of (env : henv) : config :=
  {| cfg_tags := he_tags env;
     cfg_addr_ok := fun u => match bget u (he_addr env) with Some b => b | None => false end |}.

Definition model_aobs acfs (env : henv) (ix : index) tbl (gb : blocked) (t : Z) (offs : list Z) :=
  map (fun q => apply_additional_filtering (fun z _ => nth (N.to_nat z) offs 0%Z) (he_known env)
                  ix (dhcp_of tbl) gb t (fst q) (snd q) (he_g2 env)) acfs.

Definition hstep_run (cfg : config) (ix : index) (tbl : list (addr * bytes)) (gb : blocked) (h : hstep) :=
  match h with
  | HOp o => let r := step cfg ix o in (fst r, tbl, gb, snd r)
  | HDhcp t => (ix, t, gb, EOk)
  | HGlobal b => (ix, tbl, b, EOk)
  end.

Fixpoint replay finds names acfs g env (ix : index) tbl gb (steps : list (hstep * obs * aobs)) : bool :=
  match steps with
  | [] => true
  | (h, o, (t, offs, ao)) :: rest =>
      match hstep_run (cfg_of env) ix tbl gb h with
      | (ix', tbl', gb', e) =>
          eqb_obs (model_obs finds names acfs g ix' tbl' e) o &&
          eqb_list (eqb_option eqb_settings) (model_aobs acfs env ix' tbl' gb' t offs) ao &&
          replay finds names acfs g env ix' tbl' gb' rest
      end
  end.

(** The hand-over events on the server's cache configuration. *)
Fixpoint replay_ev (c : cache) (evs : list (ev * option bytes)) : bool :=
  match evs with
  | [] => true
  | (e, o) :: rest =>
      let r := ev_step server_cache_conf c e in
      eqb_option eqb_bytes (snd r) o && replay_ev (fst r) rest
  end.

Definition case_ok (c : case) : bool :=
  match c with
  | CHist finds names acfs g env gb0 steps => replay finds names acfs g env empty_index [] gb0 steps
  | CHand evs => replay_ev [] evs
  | CConf env srcs leases probes g objs res1 res2 =>
      conf_ok err_code eqb_settings srcs leases (cfg_of env) (he_known env) probes g objs res1 res2
  | CSMap univ addrs steps => sm_replay univ addrs pm_new steps
  | CHttp env global g leases probes finds objs start steps after =>
      http_ok err_code eqb_settings (cfg_of env) (he_known env) global g leases probes finds objs start steps after
  | CLease c clients probes steps => lease_replay c (lease_ix clients) probes Dhcp4.empty_state steps
  end.

Definition mismatches := Base.Run.mismatches case_ok.

(** What the model computes after every step. *)
Fixpoint explain_steps finds names acfs g env (ix : index) tbl gb (steps : list (hstep * obs * aobs))
    : list (obs * list (option settings)) :=
  match steps with
  | [] => []
  | (h, _, (t, offs, _)) :: rest =>
      match hstep_run (cfg_of env) ix tbl gb h with
      | (ix', tbl', gb', e) =>
          (model_obs finds names acfs g ix' tbl' e, model_aobs acfs env ix' tbl' gb' t offs)
            :: explain_steps finds names acfs g env ix' tbl' gb' rest
      end
  end.

Fixpoint explain_ev (c : cache) (evs : list (ev * option bytes)) : list (option bytes) :=
  match evs with
  | [] => []
  | (e, _) :: rest => let r := ev_step server_cache_conf c e in snd r :: explain_ev (fst r) rest
  end.

Definition explain (c : case) :=
  match c with
  | CHist finds names acfs g env gb0 steps =>
      (explain_steps finds names acfs g env empty_index [] gb0 steps, @nil (option bytes),
       @None (cres * option cres), @nil sm_explained, @None (hobs * list hobs * option (list (option eobs))),
       @nil lobs)
  | CHand evs => ([], explain_ev [] evs, None, [], None, [])
  | CConf env srcs leases probes g objs _ _ =>
      ([], [], Some (conf_model err_code srcs leases (cfg_of env) (he_known env) probes g objs), [], None, [])
  | CSMap univ addrs steps => ([], [], None, sm_explain univ addrs pm_new steps, None, [])
  | CHttp env global g leases probes finds objs _ steps _ =>
      ([], [], None, [],
       http_model err_code (cfg_of env) (he_known env) global g leases probes finds objs steps, [])
  | CLease c clients probes steps =>
      ([], [], None, [], None, lease_explain c (lease_ix clients) probes Dhcp4.empty_state steps)
  end.

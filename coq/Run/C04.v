(** Evaluator glue for C04: replays an operation history on the model and
    compares every per-step observation with what client.Storage did. *)
From AGH Require Import Base.Run.
From AGH Require Export Model.ClientIndex.
Local Open Scope N_scope.

Definition mkc := Build_client.
Definition mks := Build_settings.

Inductive hstep :=
  | HOp (o : op)
  | HDhcp (tbl : list (addr * bytes)).       (* the DHCP stub's table from now on *)

(** error class, Find per spelling (uid), FindByName per name (uid, IDsLen),
    RangeByName names, ApplyClientFiltering per (ClientID, address) pair
    (None: the call panicked). *)
Definition obs := (N * list (option N) * list (option (N * N)) * list bytes * list (option settings))%type.

Inductive case :=
  | CHist (finds : list (bytes * option addr * option bytes)) (names : list bytes)
          (acfs : list (bytes * addr)) (g : settings) (steps : list (hstep * obs)).

Definition err_code (e : err) : N :=
  match e with
  | EOk => 0 | EValidate => 1 | EUid => 2 | EName => 3 | ECid => 4 | EIP => 5
  | ESubnet => 6 | EMac => 7 | ENotFound => 8
  end.

Definition eqb_on (o1 o2 : option N) := eqb_option N.eqb o1 o2.
Definition eqb_nn (a b : N * N) := (fst a =? fst b) && (snd a =? snd b).
Definition eqb_settings (a b : settings) : bool :=
  eqb_bytes (s_client_name a) (s_client_name b) && Bool.eqb (s_filtering a) (s_filtering b) &&
  Bool.eqb (s_safesearch a) (s_safesearch b) && Bool.eqb (s_safebrowsing a) (s_safebrowsing b) &&
  Bool.eqb (s_parental a) (s_parental b) &&
  eqb_option (eqb_list eqb_bytes) (s_blocked a) (s_blocked b).

Definition dhcp_of (tbl : list (addr * bytes)) : addr -> option bytes := fun a => zget a tbl.

Definition model_obs finds names acfs g (ix : index) (tbl : list (addr * bytes)) (e : err) : obs :=
  (err_code e,
   map (fun f => match f with (id, ip, mac) => storage_find ix (dhcp_of tbl) id ip mac end) finds,
   map (fun n => match find_by_name ix n with
                 | Some u => match deref ix u with
                             | Some c => Some (u, N.of_nat (ids_len c))
                             | None => Some (u, 999999)
                             end
                 | None => None end) names,
   range_by_name ix,
   map (fun q => apply_client_filtering ix (dhcp_of tbl) (fst q) (snd q) g) acfs).

Definition eqb_obs (a b : obs) : bool :=
  match a, b with
  | (e1, f1, n1, r1, s1), (e2, f2, n2, r2, s2) =>
      (e1 =? e2) && eqb_list eqb_on f1 f2 && eqb_list (eqb_option eqb_nn) n1 n2 &&
      eqb_list eqb_bytes r1 r2 && eqb_list (eqb_option eqb_settings) s1 s2
  end.

Definition hstep_run (ix : index) (tbl : list (addr * bytes)) (h : hstep) :=
  match h with
  | HOp o => let r := step ix o in (fst r, tbl, snd r)
  | HDhcp t => (ix, t, EOk)
  end.

Fixpoint replay finds names acfs g (ix : index) tbl (steps : list (hstep * obs)) : bool :=
  match steps with
  | [] => true
  | (h, o) :: rest =>
      match hstep_run ix tbl h with
      | (ix', tbl', e) =>
          eqb_obs (model_obs finds names acfs g ix' tbl' e) o &&
          replay finds names acfs g ix' tbl' rest
      end
  end.

Definition case_ok (c : case) : bool :=
  match c with
  | CHist finds names acfs g steps => replay finds names acfs g empty_index [] steps
  end.

Definition mismatches := Base.Run.mismatches case_ok.

(** What the model computes after every step. *)
Fixpoint explain_steps finds names acfs g (ix : index) tbl (steps : list (hstep * obs)) : list obs :=
  match steps with
  | [] => []
  | (h, _) :: rest =>
      match hstep_run ix tbl h with
      | (ix', tbl', e) =>
          model_obs finds names acfs g ix' tbl' e :: explain_steps finds names acfs g ix' tbl' rest
      end
  end.

Definition explain (c : case) :=
  match c with
  | CHist finds names acfs g steps => explain_steps finds names acfs g empty_index [] steps
  end.

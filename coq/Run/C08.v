(** Evaluator glue for C08: replays a scenario (queries, registry operations,
    configuration changes, flush, searches) on the model and compares with what
    the real logging stage, query log and statistics recorded / reported. *)
From AGH Require Import Base.Run.
From AGH Require Export Model.ClientIndex Model.IgnoreEngine Model.LogPolicy.
Local Open Scope N_scope.

(** The harness prints persistent clients with the fields the logging stage can
    depend on; blocked services, tags and upstream lines are always absent. *)
Definition mkc u n cids ips nets macs (own fl ss sb pa ob : bool) (bl : option (list bytes)) (iq is_ : bool) : client :=
  Build_client u n cids ips nets macs own fl ss sb pa ob None iq is_ [] [].
(** client.StorageConfig of the harness: no allowed tags; no upstream line is ever validated. *)
Definition c08_cfg : config := {| cfg_tags := []; cfg_addr_ok := fun _ => true |}.
Definition mkq := Build_query.

Inductive sev :=
  | SQuery (q : query)
  | SOp (o : op)
  | SDhcp (tbl : list (addr * bytes))
  (* PUT /control/querylog/config/update; observed afterwards: enabled and
     anonymize_client_ip of GET /control/querylog/config, whether the IPMut handed
     to querylog.New masks a probe address, and whether the function the DNS
     server loads (Server.anonymizer, as dnsforward.NewServer set it) does *)
  | SConf (enabled anon : bool) (qrules : list bytes) (qign : list bool) (obs : bool * bool * bool * bool)
  (* POST /control/querylog_config (deprecated), each field present or absent *)
  | SLegacy (enabled anon : option bool) (obs : bool * bool * bool * bool)
  (* PUT /control/stats/config/update: a new statistics ignore list *)
  | SStatsConf (enabled : bool) (srules : list bytes) (sign : list bool)
  (* Storage.UpdateAddress: a runtime record (host name from rDNS) for the address *)
  | SRuntime (a : addr)
  | SFlush
  (* queryLog.rotate (what the hourly rotation check does when the oldest record
     is older than the interval): querylog.json -> querylog.json.1 *)
  | SRotate
  (* the hour of the scripted unit clock advanced, then StatsCtx.flush *)
  | SRoll
  | SSearch (obs : list lentry)                         (* GET /control/querylog: name, client, client_id *)
  (* GET /control/stats in the middle of a scenario *)
  | SStats (obs_domains : list (bytes * N)) (obs_clients : list (bytes * bytes * N)) (obs_total : N).

Inductive case :=
  (* [qrules] / [srules]: the configured ignore lists as given to
     aghnet.NewIgnoreEngine (any letter case); [qign] / [sign]: Has(name) of the
     real engines on the names of the universe (cross-check of the modelled
     engine; the oracle when a list has an entry outside the modelled forms)
     ([names] is the universe, the tables are aligned with it) *)
  | CScen (anon refuse : bool) (names : list bytes) (qrules : list bytes) (qign : list bool)
          (srules : list bytes) (sign : list bool) (macs : list (bytes * bytes))
          (evs : list sev)
          (obs_old : list lentry)                       (* querylog.json.1 at the end, in order *)
          (obs_file : list lentry)                      (* querylog.json after the final flush, in order *)
          (obs_domains : list (bytes * N))              (* /control/stats top_queried_domains *)
          (obs_clients : list (bytes * bytes * N))      (* /control/stats top_clients: ClientID or address *)
          (obs_total : N)                               (* num_dns_queries *)
          (* stats.db read after Close, bucket by bucket in the order of the unit ids,
             empty units left out: client keys, domains, NTotal of each stored unit
             (None: not observed, the unit clock was the wall clock) *)
          (obs_db : option (list (list (bytes * bytes * N) * list (bytes * N) * N)))
  (* the REAL finder wrappers of internal/home/clients.go on a registry built by
     [ops]: findMultiple(ids).IgnoreQueryLog and shouldCountClient(ids) *)
  | CFinder (ops : list op) (dhcp : list (addr * bytes)) (ids : list id) (obs_ignore_qlog obs_count : bool)
  (* the same with runtime records (Storage.UpdateAddress) for the addresses [rt] *)
  | CFinderRt (ops : list op) (dhcp : list (addr * bytes)) (rt : list addr) (ids : list id) (obs_ignore_qlog obs_count : bool).

Definition oracle (tbl : list (bytes * bool)) : bytes -> bool :=
  fun n => match bget n tbl with Some b => b | None => false end.

Record rstate := {
  r_ix : index; r_dhcp : list (addr * bytes); r_sys : sys; r_qrules : list bytes;
  r_qign : list (bytes * bool); r_srules : list bytes; r_sign : list (bytes * bool); r_st : store;
  r_son : bool;                     (* StatsCtx.enabled *)
  r_rt : list addr                  (* addresses with a runtime record *)
}.

Definition world_of (refuse : bool) (r : rstate) : world :=
  {| w_ix := r_ix r; w_dhcp := fun a => zget a (r_dhcp r); w_refuse_any := refuse;
     w_qign := ignore_fn (r_qrules r) (oracle (r_qign r)); w_sign := ignore_fn (r_srules r) (oracle (r_sign r)) |}.
(** The logging stage loads the SERVER's mutator, the report the QUERY LOG's. *)
Definition env_of (refuse : bool) (r : rstate) : env := env_at (r_sys r) (world_of refuse r).
Definition env_rep (refuse : bool) (r : rstate) : env := env_report (r_sys r) (world_of refuse r).

Definition set_ix ix (r : rstate) : rstate :=
  {| r_ix := ix; r_dhcp := r_dhcp r; r_sys := r_sys r; r_qrules := r_qrules r; r_qign := r_qign r;
     r_srules := r_srules r; r_sign := r_sign r; r_st := r_st r; r_son := r_son r; r_rt := r_rt r |}.
Definition set_dhcp t (r : rstate) : rstate :=
  {| r_ix := r_ix r; r_dhcp := t; r_sys := r_sys r; r_qrules := r_qrules r; r_qign := r_qign r;
     r_srules := r_srules r; r_sign := r_sign r; r_st := r_st r; r_son := r_son r; r_rt := r_rt r |}.
Definition set_sys c (r : rstate) : rstate :=
  {| r_ix := r_ix r; r_dhcp := r_dhcp r; r_sys := c; r_qrules := r_qrules r; r_qign := r_qign r;
     r_srules := r_srules r; r_sign := r_sign r; r_st := r_st r; r_son := r_son r; r_rt := r_rt r |}.
Definition set_qrules rules q (r : rstate) : rstate :=
  {| r_ix := r_ix r; r_dhcp := r_dhcp r; r_sys := r_sys r; r_qrules := rules; r_qign := q;
     r_srules := r_srules r; r_sign := r_sign r; r_st := r_st r; r_son := r_son r; r_rt := r_rt r |}.
Definition set_srules rules q (r : rstate) : rstate :=
  {| r_ix := r_ix r; r_dhcp := r_dhcp r; r_sys := r_sys r; r_qrules := r_qrules r; r_qign := r_qign r;
     r_srules := rules; r_sign := q; r_st := r_st r; r_son := r_son r; r_rt := r_rt r |}.
Definition set_st st (r : rstate) : rstate :=
  {| r_ix := r_ix r; r_dhcp := r_dhcp r; r_sys := r_sys r; r_qrules := r_qrules r; r_qign := r_qign r;
     r_srules := r_srules r; r_sign := r_sign r; r_st := st; r_son := r_son r; r_rt := r_rt r |}.

Definition set_son b rt (r : rstate) : rstate :=
  {| r_ix := r_ix r; r_dhcp := r_dhcp r; r_sys := r_sys r; r_qrules := r_qrules r; r_qign := r_qign r;
     r_srules := r_srules r; r_sign := r_sign r; r_st := r_st r; r_son := b; r_rt := rt |}.
Definition rt_of (r : rstate) : addr -> bool := fun a => existsb (addr_eqb a) (r_rt r).

Definition eqb_lentry (a b : lentry) : bool :=
  match a, b with
  | (n1, i1, c1), (n2, i2, c2) => eqb_bytes n1 n2 && eqb_bytes i1 i2 && eqb_bytes c1 c2
  end.

Definition canon_entry (e : lentry) : lentry :=
  match e with (n, i, c) => (n, canon_ip i, c) end.

Fixpoint count_of {K} (eqb : K -> K -> bool) (k : K) (l : list K) : N :=
  match l with
  | [] => 0
  | x :: l' => (if eqb k x then 1 else 0) + count_of eqb k l'
  end.

(** Multiset equality of two lists. *)
Definition same_multiset {K} (eqb : K -> K -> bool) (a b : list K) : bool :=
  Nat.eqb (length a) (length b) && forallb (fun k => count_of eqb k a =? count_of eqb k b) a.

(** A table of distinct keys with counts describes the multiset [l]. *)
Definition counts_match {K} (eqb : K -> K -> bool) (l : list K) (tbl : list (K * N)) : bool :=
  forallb (fun kn => (count_of eqb (fst kn) l =? snd kn) && negb (snd kn =? 0)) tbl &&
  (N.of_nat (length l) =? fold_right (fun kn acc => snd kn + acc) 0 tbl).

Definition conf_obs_ok (s : sys) (obs : bool * bool * bool * bool) : bool :=
  match obs with
  | (e, a, m, ms) =>
      Bool.eqb (s_enabled s) e && Bool.eqb (s_anon s) a && Bool.eqb (qlog_anon s) m && Bool.eqb (srv_anon s) ms
  end.

(** One operation of the histories the theorems are about ([hstep] of Model/LogPolicy). *)
Definition do_hop (refuse : bool) (r : rstate) (o : hop) : rstate :=
  let st := hstep_gated (r_son r) (r_sys r, r_st r) o in
  set_st (snd st) (set_sys (fst st) r).

Definition stat_key (s : sentry) : bytes * bytes :=
  match s with (_, c, i) => (c, canon_ip i) end.
Definition eqb_bb (a b : bytes * bytes) : bool := eqb_bytes (fst a) (fst b) && eqb_bytes (snd a) (snd b).

(** GET /control/stats: the units of the window merged with the current one. *)
Definition stats_ok (ev : env) mac_of (st : store) obs_domains (obs_clients : list (bytes * bytes * N)) obs_total : bool :=
  counts_match eqb_bytes (stats_domains ev st) obs_domains &&
  counts_match eqb_bb (map stat_key (stats_clients ev mac_of st)) obs_clients &&
  (N.of_nat (length (all_stats st)) =? obs_total).

Definition step_ok (names : list bytes) refuse macs (r : rstate) (e : sev) : rstate * bool :=
  let mac_of := fun c => bget c macs in
  match e with
  | SQuery q =>
      (do_hop refuse r (HQuery (world_of refuse r) q),
       Bool.eqb (find_multiple (r_ix r) (fun a => zget a (r_dhcp r)) (rt_of r) (ids_of q))
                (qlog_client_ignored (r_ix r) (fun a => zget a (r_dhcp r)) (ids_of q)))
  | SOp o => (set_ix (fst (step c08_cfg (r_ix r) o)) r, true)
  | SDhcp t => (set_dhcp t r, true)
  | SConf e a rules q0 obs =>
      let q := combine names q0 in
      let r' := do_hop refuse r (HConf (CPut e a)) in
      (set_qrules rules q r', conf_obs_ok (r_sys r') obs && table_agrees rules q)
  | SLegacy e a obs =>
      let r' := do_hop refuse r (HConf (CLegacy e a)) in
      (r', conf_obs_ok (r_sys r') obs)
  | SStatsConf e rules q0 =>
      let q := combine names q0 in
      let c := sconf_put e rules {| sc_enabled := r_son r; sc_ignored := r_srules r |} in
      (set_son (sc_enabled c) (r_rt r) (set_srules (sc_ignored c) q r), table_agrees rules q)
  | SRuntime a => (set_son (r_son r) (a :: r_rt r) r, true)
  | SFlush => (do_hop refuse r HFlush, true)
  | SRotate => (do_hop refuse r HRotate, true)
  | SRoll => (do_hop refuse r HRoll, true)
  | SSearch obs =>
      (r, same_multiset eqb_lentry
            (map canon_entry (search_report (env_rep refuse r) mac_of (r_st r))) obs)
  | SStats od oc ot => (r, stats_ok (env_of refuse r) mac_of (r_st r) od oc ot)
  end.

Fixpoint replay (names : list bytes) refuse macs (r : rstate) (evs : list sev) : rstate * bool :=
  match evs with
  | [] => (r, true)
  | e :: rest =>
      let '(r', ok) := step_ok names refuse macs r e in
      let '(r'', ok') := replay names refuse macs r' rest in
      (r'', ok && ok')
  end.

(** stats.db after Close: the stored units, then the unit that was current,
    each holding exactly its counted records (no report-side filter). *)
Definition unit_ok (u : list sentry) (o : list (bytes * bytes * N) * list (bytes * N) * N) : bool :=
  match o with
  | (oc, od, ot) =>
      counts_match eqb_bb (map stat_key u) oc &&
      counts_match eqb_bytes (map (fun s => fst (fst s)) u) od &&
      (N.of_nat (length u) =? ot)
  end.
Definition db_ok (st : store) (obs : option (list (list (bytes * bytes * N) * list (bytes * N) * N))) : bool :=
  match obs with
  | None => true
  | Some units =>
      let model := filter (fun u => negb (Nat.eqb (length u) 0)) (st_units st ++ [st_stats st]) in
      Nat.eqb (length model) (length units) &&
      forallb (fun p => unit_ok (fst p) (snd p)) (combine model units)
  end.

Definition final_ok (ev : env) mac_of (st : store) obs_old obs_file obs_domains (obs_clients : list (bytes * bytes * N)) obs_total obs_db : bool :=
  eqb_list eqb_lentry (map canon_entry (st_old st)) obs_old &&
  eqb_list eqb_lentry (map canon_entry (st_file st ++ st_mem st)) obs_file &&
  stats_ok ev mac_of st obs_domains obs_clients obs_total &&
  db_ok st obs_db.

(** The harness starts the query log on an existing, empty querylog.json. *)
Definition init_store : store :=
  {| st_mem := []; st_file := []; st_has_file := true; st_old := []; st_stats := []; st_units := [] |}.

Definition init_state anon qrules qign srules sign : rstate :=
  {| r_ix := empty_index; r_dhcp := []; r_sys := init_dns true anon; r_qrules := qrules; r_qign := qign;
     r_srules := srules; r_sign := sign; r_st := init_store; r_son := true; r_rt := [] |}.

Definition case_ok (c : case) : bool :=
  match c with
  | CScen anon refuse names qrules qign0 srules sign0 macs evs oo of od oc ot odb =>
      let qign := combine names qign0 in
      let sign := combine names sign0 in
      let '(r, ok) := replay names refuse macs (init_state anon qrules qign srules sign) evs in
      ok && table_agrees qrules qign && table_agrees srules sign &&
      final_ok (env_of refuse r) (fun c => bget c macs) (r_st r) oo of od oc ot odb
  | CFinder ops dhcp ids oq oc =>
      let ix := run c08_cfg ops empty_index in
      Bool.eqb (qlog_client_ignored ix (fun a => zget a dhcp) ids) oq &&
      Bool.eqb (stats_client_counted ix (fun a => zget a dhcp) ids) oc
  | CFinderRt ops dhcp rt ids oq oc =>
      let ix := run c08_cfg ops empty_index in
      Bool.eqb (find_multiple ix (fun a => zget a dhcp) (fun a => existsb (addr_eqb a) rt) ids) oq &&
      Bool.eqb (stats_client_counted ix (fun a => zget a dhcp) ids) oc
  end.

Definition mismatches := Base.Run.mismatches case_ok.

Definition explain (c : case) :=
  match c with
  | CScen anon refuse names qrules qign0 srules sign0 macs evs _ _ _ _ _ _ =>
      let qign := combine names qign0 in
      let sign := combine names sign0 in
      let '(r, ok) := replay names refuse macs (init_state anon qrules qign srules sign) evs in
      (ok, (map canon_entry (st_old (r_st r)), map canon_entry (st_file (r_st r) ++ st_mem (r_st r))), all_stats (r_st r))
  | CFinder ops dhcp ids _ _ =>
      let ix := run c08_cfg ops empty_index in
      (qlog_client_ignored ix (fun a => zget a dhcp) ids, ([], []), [([], [], if stats_client_counted ix (fun a => zget a dhcp) ids then [1] else [0])])
  | CFinderRt ops dhcp rt ids _ _ =>
      let ix := run c08_cfg ops empty_index in
      (find_multiple ix (fun a => zget a dhcp) (fun a => existsb (addr_eqb a) rt) ids, ([], []), [([], [], if stats_client_counted ix (fun a => zget a dhcp) ids then [1] else [0])])
  end.

(** Evaluator glue for C10: replays a whole operation history on the model and
    compares, step by step, with what the real server was observed to do.

    To keep the case terms small the harness encodes addresses as 0 for
    0.0.0.0 and otherwise 1 + offset from the subnet base, hostnames as 0 for
    the empty name and otherwise 1 + index into the name table of the case,
    instants relative to the start of the case, and tables as flat lists.
    This file decodes the inputs, runs [Model.Dhcp4Admin.wstep] (which lifts
    [Model.Dhcp4.step] to the service object), and encodes the
    model's observations the same way. *)
From AGH Require Import Base.Run.
From AGH Require Export Model.Dhcp4 Model.Dhcp4Admin.
From AGH Require Model.Dhcp4Bitset Model.Dhcp4Expiry.
Local Open Scope N_scope.

(** Encoded operations (all addresses and names encoded as above). *)
Inductive eop :=
  | EDiscover (mac : N)
  | ERequest (mac : N) (sid reqip : option N) (ciaddr : N) (host : N)
  | EDecline (mac : N) (reqip : option N) (ciaddr : N)
  | ERelease (mac : N) (reqip : option N) (ciaddr : N)
  | EStaticAdd (mac ip : N) (host : N)
  | EStaticUpdate (mac ip : N) (host : N)
  | EStaticRemove (mac ip : N) (host : N)
  | ETick
  | ERestart
  | ESetConfig (start end_ : N)    (* set_config with this pool, same network *)
  | EReset                         (* POST /control/dhcp/reset *)
  | EResetLeases                   (* POST /control/dhcp/reset_leases *)
  | EStatus.                       (* GET /control/dhcp/status *)

(** table: flat (address, hardware address, name, kind) with kind 0 static,
    1 dynamic not expired, 2 dynamic expired or never acknowledged, sorted by
    the harness; host_by_ip: flat (address, name) over the subnet, non-empty
    answers; ip_by_host: flat (name, address) over the first [nprobe] names;
    status: what GET /control/dhcp/status reports of the configuration:
    enabled (0 / 1), first and last address of the pool (0 0: unconfigured).
    disk_is_memory: the lease file of the data directory the process was
    started with lists exactly the table. *)
Inductive obs :=
  | Ob (r : reply) (table host_by_ip ip_by_host active_ips mac_by_ip status : list N) (disk_is_memory : bool)
  | ObS (r : reply) (disk_is_memory : bool).  (* tables as in the previous step *)

(** [busy]: the (encoded) addresses that answer the ICMP probe during the step. *)
Inductive stepobs := St (dt : Z) (busy : list N) (o : eop) (ob : obs).

(** [Case]: a history on a service created in an empty data directory, with
    the DHCPv4 settings [c] in the configuration file, or ([fresh]) with no
    DHCPv4 settings and DHCP disabled ([c] is then only the network the
    set_config requests of the history configure).
    [ConfCase]: the four addresses of a configuration, whether the real
    Validate accepted them, and the subnet it derived (first and last address). *)
(** One operation on a bit set (bitset.go): a write, or a read with the
    answer of the real isSet. *)
Inductive bitop := BSet (n : N) (v : bool) | BGet (n : N) (seen : bool).

(** [ExpCase zone e wall label back]: in a process whose time zone is [zone]
    seconds east of UTC the real fromLease wrote the expiry [e] (ns) as the
    wall-clock reading [wall] (seconds, read as if UTC) labelled with the
    offset [label]; the real toLease read [back] (ns). *)
Inductive case :=
  | ExpCase (zone e wall label back : Z)
  | BitCase (is_nil : bool) (ops : list bitop)  (* a nil *bitSet / newBitSet() *)
  | Case (c : conf) (fresh : bool) (names : list bytes) (nprobe : nat) (t0 : Z) (steps : list stepobs)
  | ConfCase (start end_ gw mask : N) (accepted : bool) (sub_lo sub_hi : N).

Section Codec.
  Variable c : conf.
  Variable names : list bytes.

  Definition dec_ip (k : N) : N := if k =? 0 then 0 else c_sub_lo c + (k - 1).
  Definition enc_ip (ip : N) : N := if ip =? 0 then 0 else ip - c_sub_lo c + 1.
  Definition dec_host (k : N) : bytes :=
    if k =? 0 then [] else nth (N.to_nat (k - 1)) names [].

  Fixpoint index_of (h : bytes) (l : list bytes) (i : N) : N :=
    match l with
    | [] => 1000000 (* not in the table: never equal to what the harness printed *)
    | x :: l' => if eqb_bytes x h then i else index_of h l' (i + 1)
    end.
  Definition enc_host (h : bytes) : N := if is_nil h then 0 else index_of h names 1.

  Definition dec_op (o : eop) : op :=
    match o with
    | EDiscover m => ODiscover m
    | ERequest m sid req ci h =>
        ORequest m (option_map dec_ip sid) (option_map dec_ip req) (dec_ip ci) (dec_host h)
    | EDecline m req ci => ODecline m (option_map dec_ip req) (dec_ip ci)
    | ERelease m req ci => ORelease m (option_map dec_ip req) (dec_ip ci)
    | EStaticAdd m ip h => OStaticAdd m (dec_ip ip) (dec_host h)
    | EStaticUpdate m ip h => OStaticUpdate m (dec_ip ip) (dec_host h)
    | EStaticRemove m ip h => OStaticRemove m (dec_ip ip) (dec_host h)
    | ETick => OTick
    | ERestart | ESetConfig _ _ | EReset | EResetLeases | EStatus => ORestart
    end.

  (** The operation on the service; set_config keeps the network of [c]. *)
  Definition dec_wop (o : eop) : wop :=
    match o with
    | ERestart => WRestart
    | ESetConfig a b => WSetConfig (with_pool c (dec_ip a) (dec_ip b))
    | EReset => WReset
    | EResetLeases => WResetLeases
    | EStatus => WStatus
    | _ => WOp (dec_op o)
    end.

  Definition enc_reply (r : reply) : reply :=
    match r with ROk mt yi => ROk mt (enc_ip yi) | _ => r end.

  Definition okind (now : Z) (l : lease) : N :=
    if l_static l then 0 else if (l_exp l <? now)%Z then 2 else 1.
  Definition project (now : Z) (l : lease) : list N :=
    [enc_ip (l_ip l); l_mac l; enc_host (l_host l); okind now l].
End Codec.

Fixpoint chunk4 (l : list N) : list (list N) :=
  match l with
  | a :: b :: c :: d :: r => [a; b; c; d] :: chunk4 r
  | [] => []
  | _ => [l]
  end.

Definition count {A} (eqb : A -> A -> bool) (x : A) (l : list A) : nat := length (filter (eqb x) l).
Definition same_multiset {A} (eqb : A -> A -> bool) (a b : list A) : bool :=
  Nat.eqb (length a) (length b) && forallb (fun x => Nat.eqb (count eqb x a) (count eqb x b)) a.

Definition eqb_reply (a b : reply) : bool :=
  match a, b with
  | RDrop, RDrop | RNak, RNak | RNone, RNone => true
  | RFuel, _ | _, RFuel => false
  | ROk m1 y1, ROk m2 y2 => (m1 =? m2) && (y1 =? y2)
  | RApi x, RApi y => Bool.eqb x y
  | _, _ => false
  end.

(** (address, hardware address, hostname, static) as the harness compares the
    file with the table. *)
Definition file_entry (l : lease) : N * N * bytes * bool := (l_ip l, l_mac l, l_host l, l_static l).
Definition eqb_entry (a b : N * N * bytes * bool) : bool :=
  let '(i1, m1, h1, k1) := a in let '(i2, m2, h2, k2) := b in
  (i1 =? i2) && (m1 =? m2) && eqb_bytes h1 h2 && Bool.eqb k1 k2.

Definition subnet_ips (c : conf) : list N :=
  map (fun k => c_sub_lo c + N.of_nat k) (seq 0 (N.to_nat (c_sub_hi c - c_sub_lo c + 1))).

(** The model's tables, encoded: (table rows, host_by_ip, ip_by_host,
    active addresses, mac_by_ip, status). *)
Definition tables : Type := list (list N) * list N * list N * list N * list N * list N.
Definition seen_tables : Type := list N * list N * list N * list N * list N * list N.

Definition model_tables (c : conf) (names : list bytes) (nprobe : nat) (now : Z) (w : world) : tables :=
  let s := st_of w in
  (map (project c names now) (leases s),
   flat_map (fun ip => let h := host_by_ip s ip in
                       if is_nil h then [] else [enc_ip c ip; enc_host names h]) (subnet_ips c),
   flat_map (fun h => let ip := ip_by_host s h in
                      if ip =? 0 then [] else [enc_host names h; enc_ip c ip]) (firstn nprobe names),
   map (fun l => enc_ip c (l_ip l)) (active now s),
   flat_map (fun ip => let m := mac_by_ip now s ip in
                       if m =? 0 then [] else [enc_ip c ip; m]) (subnet_ips c),
   let '(en, a, b) := status w in [if en then 1 else 0; enc_ip c a; enc_ip c b]).

(** The data directory of the model's process (any name will do: the
    theorems hold for every directory). *)
Definition model_dir : bytes := [100].

(** The lease file of the data directory lists exactly the table. *)
Definition disk_is_memory (w : world) : bool :=
  same_multiset eqb_entry (map file_entry (data_file model_dir w)) (map file_entry (w_leases w)).

Definition eqb_tables (seen : seen_tables) (m : tables) : bool :=
  let '(t1, a1, b1, g1, f1, u1) := seen in let '(t2, a2, b2, g2, f2, u2) := m in
  same_multiset (eqb_list N.eqb) (chunk4 t1) t2 && eqb_list N.eqb a1 a2 && eqb_list N.eqb b1 b2
  && same_multiset N.eqb g1 g2 && eqb_list N.eqb f1 f2 && eqb_list N.eqb u1 u2.

(** First step where model and implementation differ, with what the model
    computes there: (step index, reply, tables, disk_is_memory). *)
Fixpoint first_bad (c : conf) (names : list bytes) (nprobe : nat) (t0 : Z) (i : N) (w : world)
    (prev : seen_tables) (steps : list stepobs)
  : option (N * reply * tables * bool) :=
  match steps with
  | [] => None
  | St dt busy o ob :: rest =>
      let now := (t0 + dt)%Z in
      let '(w', r) := wstep model_dir w now (map (dec_ip c) busy) (dec_wop c names o) in
      let m := model_tables c names nprobe now w' in
      let '(r1, seen, d1) :=
        match ob with Ob r t a b g f u d => (r, (t, a, b, g, f, u), d) | ObS r d => (r, prev, d) end in
      if eqb_reply r1 (enc_reply c r) && eqb_tables seen m && Bool.eqb d1 (disk_is_memory w')
      then first_bad c names nprobe t0 (i + 1) w' seen rest
      else Some (i, enc_reply c r, m, disk_is_memory w')
  end.

(** The service at the start of a case: created in an empty data directory. *)
Definition start_world (c : conf) (fresh : bool) : world :=
  create model_dir (if fresh then (None, false) else (Some c, true)) (fun _ => []).

(** Replays the operations on the word / bit model and on the abstract
    leased-offset set ([upd] on a function, what Model/Dhcp4.v uses; a nil
    set ignores writes): every read must agree with both.  Index of the first
    read that does not. *)
Fixpoint bits_first_bad (i : N) (s : Dhcp4Bitset.bitset) (a : N -> bool) (is_nil : bool) (ops : list bitop)
  : option N :=
  match ops with
  | [] => None
  | BSet n v :: rest =>
      bits_first_bad (i + 1) (Dhcp4Bitset.set s n v) (if is_nil then a else upd a n v) is_nil rest
  | BGet n seen :: rest =>
      if Bool.eqb seen (Dhcp4Bitset.is_set s n) && Bool.eqb seen (a n)
      then bits_first_bad (i + 1) s a is_nil rest else Some i
  end.

Definition explain (k : case) :=
  match k with
  | ExpCase zone e wall label back =>
      let '(w, l) := Dhcp4Expiry.write_expiry zone e in
      if (w =? wall)%Z && (l =? label)%Z && (Dhcp4Expiry.read_expiry (wall, label) =? back)%Z
         && (back =? trunc_s e)%Z
      then None
      else Some (0, RNone, ([], [], [], [], [], []), false)
  | BitCase nl ops =>
      match bits_first_bad 0 (if nl then None else Dhcp4Bitset.new_bitset) (fun _ => false) nl ops with
      | None => None
      | Some i => Some (i, RNone, ([], [], [], [], [], []), false)
      end
  | Case c fresh names nprobe t0 steps =>
      first_bad c names nprobe t0 0 (start_world c fresh) ([], [], [], [], [], []) steps
  | ConfCase a b gw mask acc lo hi =>
      let c := conf_of a b gw mask 0 0 in
      if Bool.eqb acc (valid_conf_b c) && (negb acc || ((c_sub_lo c =? lo) && (c_sub_hi c =? hi)))
      then None
      else Some (0, RApi (valid_conf_b c), ([], [c_sub_lo c; c_sub_hi c], [], [], [], []), false)
  end.

Definition case_ok (k : case) : bool :=
  match explain k with None => true | Some _ => false end.

Definition mismatches := Base.Run.mismatches case_ok.

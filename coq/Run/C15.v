(** Evaluator glue for C15. *)
From AGH Require Import Base.Run Model.RuleListParser.
Local Open Scope N_scope.

(** Input texts are given in pieces so that 64 KiB lines stay small on paper. *)
Inductive piece := L (s : bytes) | R (b n : N).

Definition expand (ps : list piece) : bytes :=
  flat_map (fun p => match p with L s => s | R b n => N.iter n (cons b) [] end) ps.

Definition err_code (e : option perr) : Z :=
  match e with
  | None => 0 | Some EHtml => 1 | Some EBinary => 2 | Some ETooLong => 3 | Some ERead => 4
  end%Z.

Inductive case :=
  (* text, reader ends in an error; observed: error class, title, rule count,
     bytes written, checksum, bytes written to dst *)
  | CParse (x : list piece) (read_err : bool) (obs_err : Z) (obs_title : bytes)
           (obs_count obs_written obs_sum : N) (obs_out : list piece).

Definition case_ok (c : case) : bool :=
  match c with
  | CParse x re e ti cnt wr sum out =>
      let '(st, err) := parse crc32_update (expand x) re in
      (err_code err =? e)%Z && eqb_bytes (p_title st) ti && (p_count st =? cnt) &&
      (p_written st =? wr) && (p_sum st =? sum) && eqb_bytes (output st) (expand out)
  end.

Definition mismatches := Base.Run.mismatches case_ok.

Definition explain (c : case) :=
  match c with
  | CParse x re _ _ _ _ _ _ =>
      let '(st, err) := parse crc32_update (expand x) re in
      (err_code err, p_title st, p_count st, p_written st, p_sum st, lenN (output st))
  end.

(** Evaluator glue for C15. *)
From AGH Require Import Base.Run Model.RuleListParser.
From AGH Require Export Model.Refresh.
Local Open Scope N_scope.

(** Input texts are given in pieces so that 64 KiB lines stay small on paper. *)
Inductive piece := L (s : bytes) | R (b n : N).

Definition expand (ps : list piece) : bytes :=
  flat_map (fun p => match p with L s => s | R b n => N.iter n (cons b) [] end) ps.

Definition err_code (e : option perr) : Z :=
  match e with
  | None => 0 | Some EHtml => 1 | Some EBinary => 2 | Some ETooLong => 3 | Some ERead => 4
  end%Z.

(** One refresh: which arrays, forced?, the lists that are due, what each
    list's source delivers; observed afterwards: per list the stored file,
    rule count and checksum, and the verdicts of the probe names. *)
Inductive rstep :=
  | RStep (block allow force : bool) (due : list N) (ocs : list (N * outcome))
          (obs_lists : list (N * option bytes * N * N)) (obs_verdicts : list N).

Inductive case :=
  (* text, reader ends in an error; observed: error class, title, rule count,
     bytes written, checksum, bytes written to dst *)
  | CParse (x : list piece) (read_err : bool) (obs_err : Z) (obs_title : bytes)
           (obs_count obs_written obs_sum : N) (obs_out : list piece)
  (* block lists and allow lists (id, enabled), probe names, refresh history *)
  | CRefresh (bl al : list (N * bool)) (probes : list bytes) (steps : list rstep).

Definition mk_list (p : N * bool) : flist :=
  {| f_id := fst p; f_enabled := snd p; f_count := 0; f_sum := 0 |}.

Definition oc_of (ocs : list (N * outcome)) (i : N) : outcome :=
  match find (fun e => fst e =? i) ocs with Some e => snd e | None => OOpenErr end.

Definition run_step (s : rstep) (st : rstate) : rstate :=
  match s with
  | RStep b a f due ocs _ _ =>
      refresh crc32_update b a f (fun i => existsb (N.eqb i) due) (oc_of ocs) st
  end.

Definition list_agrees (st : rstate) (o : N * option bytes * N * N) : bool :=
  let '(i, file, cnt, sum) := o in
  match find (fun l => f_id l =? i) (r_block st ++ r_allow st) with
  | Some l => (f_count l =? cnt) && (f_sum l =? sum) && eqb_option eqb_bytes (fget i (r_files st)) file
  | None => false
  end.

Definition step_agrees (probes : list bytes) (s : rstep) (st : rstate) : bool :=
  match s with
  | RStep _ _ _ _ _ ol ov =>
      forallb (list_agrees st) ol && eqb_list N.eqb (map (verdict (r_engine st)) probes) ov
  end.

Fixpoint run_steps (probes : list bytes) (ss : list rstep) (st : rstate) : bool :=
  match ss with
  | [] => true
  | s :: r => let st' := run_step s st in step_agrees probes s st' && run_steps probes r st'
  end.

Definition init_state (bl al : list (N * bool)) : rstate :=
  {| r_block := map mk_list bl; r_allow := map mk_list al; r_files := [];
     r_engine := {| e_block := []; e_allow := [] |} |}.

Definition case_ok (c : case) : bool :=
  match c with
  | CRefresh bl al probes steps => run_steps probes steps (init_state bl al)
  | CParse x re e ti cnt wr sum out =>
      let '(st, err) := parse crc32_update (expand x) re in
      (err_code err =? e)%Z && eqb_bytes (p_title st) ti && (p_count st =? cnt) &&
      (p_written st =? wr) && (p_sum st =? sum) && eqb_bytes (output st) (expand out)
  end.

Definition mismatches := Base.Run.mismatches case_ok.

Fixpoint explain_steps (probes : list bytes) (ss : list rstep) (st : rstate) :=
  match ss with
  | [] => []
  | s :: r =>
      let st' := run_step s st in
      (map (fun l => (f_id l, f_count l, f_sum l, fget (f_id l) (r_files st'))) (r_block st' ++ r_allow st'),
       map (verdict (r_engine st')) probes) :: explain_steps probes r st'
  end.

Definition explain (c : case) :=
  match c with
  | CRefresh bl al probes steps => inr (explain_steps probes steps (init_state bl al))
  | CParse x re _ _ _ _ _ _ =>
      let '(st, err) := parse crc32_update (expand x) re in
      inl (err_code err, p_title st, p_count st, p_written st, p_sum st, lenN (output st))
  end.

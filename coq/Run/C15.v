(** Evaluator glue for C15. *)
From AGH Require Import Base.Run Model.RuleListParser.
From AGH Require Export Model.Refresh.
From AGH Require Import Model.FilterQueue Model.RefreshQueue.
Local Open Scope N_scope.

(** Input texts are given in pieces so that 64 KiB lines stay small on paper. *)
Inductive piece := L (s : bytes) | R (b n : N).

Definition expand (ps : list piece) : bytes :=
  flat_map (fun p => match p with L s => s | R b n => N.iter n (cons b) [] end) ps.

Definition err_code (e : option perr) : Z :=
  match e with
  | None => 0 | Some EHtml => 1 | Some EBinary => 2 | Some ETooLong => 3 | Some ERead => 4 | Some EWrite => 5
  end%Z.

(** What is observed of one list after a step: its URL (the number of the
    source it names), the stored file, rule count, checksum, name, enabled
    flag, and whether the file on disk is another one than before the step
    (inode or existence changed). *)
Inductive lobs :=
  | LO (id url : N) (file : option bytes) (count sum : N) (name : bytes) (enabled rewritten : bool).

(** One refresh: which arrays, forced?, the lists that are due, what each
    list's source delivers; observed: the reported number of updated lists
    and the network error flag.  One call of set_url: array, URL of the request,
    new name, new URL, new enabled flag, what the (new) source delivers if it
    is asked; observed: restart flag and error.  One engine rebuild (any other
    settings change).  One restart of the process (the lists written to the
    configuration file, a new filter created from it on the same data
    directory, the engine built).  Observed after each step: the lists and the
    verdicts of the probe names. *)
Inductive rstep :=
  | RStep (block allow force : bool) (due : list N) (ocs : list (N * outcome))
          (obs_updated : N) (obs_net_err : bool) (obs_lists : list lobs) (obs_verdicts : list N)
  | RSet (allow : bool) (url : N) (name : bytes) (nurl : N) (enabled : bool) (o : outcome)
         (obs_restart obs_err : bool) (obs_lists : list lobs) (obs_verdicts : list N)
  | RRebuild (obs_lists : list lobs) (obs_verdicts : list N)
  | RRestart (obs_lists : list lobs) (obs_verdicts : list N)
  (* a pass over one array ([allow]: which) whose working copies are taken
     before, and whose downloads finish after, a set_url call on a list of
     that array (the list server holds the first download back until the call
     has returned); observed when the pass has returned *)
  | ROver (allow force : bool) (due : list N) (ocs : list (N * outcome))
          (url : N) (name : bytes) (nurl : N) (enabled : bool) (o : outcome)
          (obs_updated : N) (obs_net_err : bool) (obs_lists : list lobs) (obs_verdicts : list N)
  (* queue histories only ([CQueue]): a request that ends in EnableFilters(true)
     without changing the lists; the updates loop run until the channel is empty *)
  | RTouch (obs_lists : list lobs) (obs_verdicts : list N)
  | RLoop (obs_lists : list lobs) (obs_verdicts : list N).

Inductive case :=
  (* text, reader ends in an error; observed: error class, title, rule count,
     bytes written, checksum, bytes written to dst *)
  | CParse (x : list piece) (read_err : bool) (obs_err : Z) (obs_title : bytes)
           (obs_count obs_written obs_sum : N) (obs_out : list piece)
  (* the same against a destination that takes [cap] bytes in all; [obs_out] is
     everything that reached it, the part of the failing line included *)
  | CParseW (x : list piece) (cap : N) (read_err : bool) (obs_err : Z) (obs_title : bytes)
            (obs_count obs_written obs_sum : N) (obs_out : list piece)
  (* a body of [lines] numbered rule lines after one padding line, [size] bytes
     in all, already in normal form, delivered completely to a forced refresh;
     observed: updated?, rule count, size of the stored file, its last line.
     The bytes are not replayed (up to 64 MiB and more): the model side is the
     closed form of count, size and last line of the normal form of the whole
     body. *)
  | CBig (lines size : N) (obs_updated : bool) (obs_count obs_size : N) (obs_last : bytes)
  (* block lists and allow lists (id, enabled, name), probe names, history *)
  | CRefresh (bl al : list (N * bool * bytes)) (probes : list bytes) (steps : list rstep)
  (* the same state behind the queue of rebuild requests (Model/RefreshQueue.v):
     RSet is the handler's asynchronous form (filterSetProperties, then
     EnableFilters(true)), RStep / RRebuild rebuild synchronously, RTouch asks
     for a rebuild, RLoop lets the real updatesLoop serve the channel *)
  | CQueue (bl al : list (N * bool * bytes)) (probes : list bytes) (steps : list rstep).

Definition mk_list (p : N * bool * bytes) : flist :=
  let '(i, en, name) := p in
  {| f_id := i; f_url := i; f_enabled := en; f_name := name; f_count := 0; f_sum := 0 |}.

Definition oc_of (ocs : list (N * outcome)) (i : N) : outcome :=
  match find (fun e => fst e =? i) ocs with Some e => snd e | None => OOpenErr end.

(** The model's step and whether the reported flags agree. *)
Definition run_step (s : rstep) (st : rstate) : bool * rstate :=
  match s with
  | RStep b a f due ocs n ne _ _ =>
      let due' := fun i => existsb (N.eqb i) due in
      (* the reported number of updates (0 with a network error) and the network error flag *)
      (Bool.eqb ne (pass_net_error crc32_update b a f due' (oc_of ocs) st) &&
       (n =? if ne then 0 else pass_updated crc32_update b a f due' (oc_of ocs) st),
       refresh crc32_update b a f due' (oc_of ocs) st)
  | RSet a u name nu en o rs er _ _ =>
      let '(rs', er', st') := set_props crc32_update a u name nu en o st in
      (* the restart flag is only looked at when there is no error *)
      (Bool.eqb er er' && (er || Bool.eqb rs rs'), st')
  | RRebuild _ _ => (true, rebuild_now st)
  | RRestart _ _ => (true, restart crc32_update st)
  | ROver a f due ocs u name nu en o n ne _ _ =>
      let due' := fun i => existsb (N.eqb i) due in
      let mid := fun s => snd (set_props crc32_update a u name nu en o s) in
      let '(n', ne') := over_report crc32_update a f due' (oc_of ocs) mid st in
      (Bool.eqb ne ne' && (n =? if ne then 0 else n'),
       refresh_over crc32_update a f due' (oc_of ocs) mid st)
  | RTouch _ _ | RLoop _ _ => (false, st)   (* queue histories only *)
  end.

(** Queue histories: the state behind the channel of rebuild requests. *)
Definition qrun_step (s : rstep) (q : qr) : bool * qr :=
  match s with
  | RStep b a f due ocs n ne _ _ =>
      let due' := fun i => existsb (N.eqb i) due in
      (Bool.eqb ne (pass_net_error crc32_update b a f due' (oc_of ocs) (qr_st q)) &&
       (n =? if ne then 0 else pass_updated crc32_update b a f due' (oc_of ocs) (qr_st q)),
       qstep crc32_update enq_drain_send q (QRefresh b a f due' (oc_of ocs)))
  | RSet a u name nu en o rs er _ _ =>
      let '(rs', er', q') := set_async crc32_update enq_drain_send a u name nu en o q in
      (Bool.eqb er er' && (er || Bool.eqb rs rs'), q')
  | RRebuild _ _ => (true, qstep crc32_update enq_drain_send q QSync)
  | RTouch _ _ => (true, qstep crc32_update enq_drain_send q QTouch)
  | RLoop _ _ => (true, qstep crc32_update enq_drain_send q QLoop)
  | RRestart _ _ | ROver _ _ _ _ _ _ _ _ _ _ _ _ _ => (false, q)
  end.

Definition file_gen (i : N) (fs : files) : option N :=
  match fentry i fs with Some e => Some (fst e) | None => None end.

Definition list_agrees (st0 st : rstate) (o : lobs) : bool :=
  match o with
  | LO i url file cnt sum name en rw =>
      match find (fun l => f_id l =? i) (r_block st ++ r_allow st) with
      | Some l => (f_url l =? url) && (f_count l =? cnt) && (f_sum l =? sum) && eqb_bytes (f_name l) name &&
                  Bool.eqb (f_enabled l) en &&
                  eqb_option eqb_bytes (fget i (r_files st)) file &&
                  Bool.eqb (negb (eqb_option N.eqb (file_gen i (r_files st)) (file_gen i (r_files st0)))) rw
      | None => false
      end
  end.

Definition step_obs (s : rstep) : list lobs * list N :=
  match s with
  | RStep _ _ _ _ _ _ _ ol ov => (ol, ov) | RSet _ _ _ _ _ _ _ _ ol ov => (ol, ov) | RRebuild ol ov => (ol, ov)
  | RRestart ol ov => (ol, ov)
  | ROver _ _ _ _ _ _ _ _ _ _ _ ol ov => (ol, ov)
  | RTouch ol ov => (ol, ov)
  | RLoop ol ov => (ol, ov)
  end.

Definition step_agrees (probes : list bytes) (s : rstep) (st0 st : rstate) : bool :=
  let '(ol, ov) := step_obs s in
  forallb (list_agrees st0 st) ol && eqb_list N.eqb (map (verdict (r_engine st)) probes) ov.

Fixpoint run_steps (probes : list bytes) (ss : list rstep) (st : rstate) : bool :=
  match ss with
  | [] => true
  | s :: r => let '(ok, st') := run_step s st in
              ok && step_agrees probes s st st' && run_steps probes r st'
  end.

Fixpoint qrun_steps (probes : list bytes) (ss : list rstep) (q : qr) : bool :=
  match ss with
  | [] => true
  | s :: r => let '(ok, q') := qrun_step s q in
              ok && step_agrees probes s (qr_st q) (qr_st q') && qrun_steps probes r q'
  end.

Definition init_state (bl al : list (N * bool * bytes)) : rstate :=
  {| r_block := map mk_list bl; r_allow := map mk_list al; r_files := [];
     r_engine := {| e_block := []; e_allow := [] |} |}.

(** The i-th numbered rule line of a big body: [||h<7 digits>.example.org^]. *)
Definition digit (i k : N) : N := 48 + (i / k) mod 10.
Definition numbered (i : N) : bytes :=
  [124; 124; 104; digit i 1000000; digit i 100000; digit i 10000; digit i 1000; digit i 100; digit i 10; digit i 1;
   46; 101; 120; 97; 109; 112; 108; 101; 46; 111; 114; 103; 94].

Definition case_ok (c : case) : bool :=
  match c with
  | CBig lines size upd cnt sz last =>
      upd && (cnt =? lines + 1) && (sz =? size) && eqb_bytes last (numbered (lines - 1))
  | CRefresh bl al probes steps => run_steps probes steps (init_state bl al)
  | CQueue bl al probes steps => qrun_steps probes steps (qidle (init_state bl al))
  | CParse x re e ti cnt wr sum out =>
      let '(st, err) := parse crc32_update (expand x) re in
      (err_code err =? e)%Z && eqb_bytes (p_title st) ti && (p_count st =? cnt) &&
      (p_written st =? wr) && (p_sum st =? sum) && eqb_bytes (output st) (expand out)
  | CParseW x cap re e ti cnt wr sum out =>
      let '(st, err, part) := parse_w crc32_update cap (expand x) re in
      (err_code err =? e)%Z && eqb_bytes (p_title st) ti && (p_count st =? cnt) &&
      (p_written st =? wr) && (p_sum st =? sum) && eqb_bytes (output st ++ part) (expand out)
  end.

Definition mismatches := Base.Run.mismatches case_ok.

Fixpoint explain_steps (probes : list bytes) (ss : list rstep) (st : rstate) :=
  match ss with
  | [] => []
  | s :: r =>
      let '(ok, st') := run_step s st in
      (ok,
       map (fun l => (f_id l, f_url l, f_enabled l, f_name l, f_count l, f_sum l, fgen (f_id l) (r_files st'),
                      fget (f_id l) (r_files st'))) (r_block st' ++ r_allow st'),
       map (verdict (r_engine st')) probes) :: explain_steps probes r st'
  end.

Fixpoint qexplain_steps (probes : list bytes) (ss : list rstep) (q : qr) :=
  match ss with
  | [] => []
  | s :: r =>
      let '(ok, q') := qrun_step s q in
      let st' := qr_st q' in
      (ok,
       map (fun l => (f_id l, f_url l, f_enabled l, f_name l, f_count l, f_sum l, fgen (f_id l) (r_files st'),
                      fget (f_id l) (r_files st'))) (r_block st' ++ r_allow st'),
       map (verdict (r_engine st')) probes) :: qexplain_steps probes r q'
  end.

Definition explain (c : case) :=
  match c with
  | CBig lines size _ _ _ _ => inl (0%Z, numbered (lines - 1), lines + 1, size, 0, 0)
  | CRefresh bl al probes steps => inr (explain_steps probes steps (init_state bl al))
  | CQueue bl al probes steps => inr (qexplain_steps probes steps (qidle (init_state bl al)))
  | CParse x re _ _ _ _ _ _ =>
      let '(st, err) := parse crc32_update (expand x) re in
      inl (err_code err, p_title st, p_count st, p_written st, p_sum st, lenN (output st))
  | CParseW x cap re _ _ _ _ _ _ =>
      let '(st, err, part) := parse_w crc32_update cap (expand x) re in
      inl (err_code err, p_title st, p_count st, p_written st, p_sum st, lenN (output st ++ part))
  end.

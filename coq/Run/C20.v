(** Evaluator glue for C20: replays on the model what the harness did with the
    real qLogFile / qLogReader and compares the projected observables. *)
From Coq Require Export Uint63.
From AGH Require Import Base.Run Model.QLogFile Model.QLog Model.QLogCodec Model.QLogBytes Model.QLogDisk.
Local Open Scope Z_scope.

(** Byte strings of the byte-level cases arrive packed, seven bytes to a
    primitive integer (first byte lowest, the count in the three lowest
    bits). *)
Definition ibit (x i : Uint63.int) (v : N) : N :=
  if Uint63.eqb (Uint63.land (Uint63.lsr x i) 1) 0 then 0%N else v.
Definition byte_N (x : Uint63.int) : N :=
  (ibit x 0 1 + ibit x 1 2 + ibit x 2 4 + ibit x 3 8
   + ibit x 4 16 + ibit x 5 32 + ibit x 6 64 + ibit x 7 128)%N.
Fixpoint bytes_of (len : nat) (x : Uint63.int) : bytes :=
  match len with
  | O => []
  | S l => byte_N x :: bytes_of l (Uint63.lsr x 8)
  end.
Definition len_of (x : Uint63.int) : nat :=
  let l := Uint63.land x 7 in
  if Uint63.eqb l 0 then 0 else if Uint63.eqb l 1 then 1 else if Uint63.eqb l 2 then 2
  else if Uint63.eqb l 3 then 3 else if Uint63.eqb l 4 then 4 else if Uint63.eqb l 5 then 5
  else if Uint63.eqb l 6 then 6 else 7.
Inductive il := I0 | IC (x : Uint63.int) (l : il).
Arguments IC x%uint63_scope l.
Fixpoint pk (l : il) : bytes :=
  match l with I0 => [] | IC x l' => bytes_of (len_of x) (Uint63.lsr x 3) ++ pk l' end.
(** A run of [n] bytes [b] (padding of long lines). *)
Definition rp (b : N) (n : Z) : bytes := repeat b (Z.to_nat n).

(** Operations on one qLogFile, with what the implementation did. *)
Inductive fop :=
  | FSeekStart (obs_pos : Z)
  (* ReadNext: None = io.EOF, else (len of the returned string, position after) *)
  | FRead (obs : option (Z * Z))
  (* ReadNext until EOF: the (len, position after) of every line returned *)
  | FReadAll (obs : list (Z * Z))
  (* seekTS: target, result class, returned pos, depth, q.position afterwards *)
  | FSeek (ts : Z) (code pos depth pos_after : Z)
  (* round 6: the same reads observed with q.bufferStart after the call as
     well: (len, position after, bufferStart after): where the 1.6 MB windows
     fall is part of what is compared *)
  | FReadB (obs : option (Z * Z * Z))
  | FReadAllB (obs : list (Z * Z * Z)).

(** Operations on a qLogReader. *)
Inductive rop :=
  | RSeekStart (cur pos : Z)
  (* ReadNext: None = EOF, else (file index, len, position in that file after) *)
  | RRead (obs : option (Z * Z * Z))
  | RReadAll (obs : list (Z * Z * Z))
  (* seekTS: target, class, currentFile after, its position after, seekFellBack *)
  | RSeek (ts : Z) (code cur pos : Z) (fellback : bool)
  (* round 8, seekRecord (search.go): target, class (0 nil, 1 not found, 4
     other), currentFile after, its position after, seekFellBack *)
  | RSeekRec (ts : Z) (code cur pos : Z) (fellback : bool).

(** Operations on one qLogFile, observed with the strings it returned. *)
Inductive bop :=
  | BSeekStart (obs_pos : Z)
  (* ReadNext: None = io.EOF; else (index of the line the returned string is
     equal to, or -1 and the string itself; position after) *)
  | BRead (obs : option (Z * bytes * Z))
  (* seekTS: target, result class, returned pos, depth, q.position afterwards *)
  | BSeek (ts : Z) (code pos depth pos_after : Z)
  (* readQLogTimestamp of line k as the real function returned it *)
  | BStamp (k : Z) (obs : Z).

Inductive case :=
  (* Go constants maxEntrySize, bufferSize; the file; the operations *)
  | CFile (me buf : Z) (f : list (Z * Z)) (ops : list fop)
  | CReader (me buf : Z) (fs : list (list (Z * Z))) (ops : list rop)
  (* the lines of the file as bytes; time.Parse of every quote-delimited piece
     of them that parses (text, Unix nanoseconds); the operations *)
  | CBytes (me buf : Z) (lines : list bytes) (otbl : list (bytes * Z)) (ops : list bop)
  (* round 6, a window of a LARGE file at the byte level: the lines of the file
     from its beginning up to the line that ends at the reader's position
     (ReadNext never looks at a byte at or beyond the position it starts from),
     the state of the real reader before the first operation (q.position,
     q.bufferStart, q.buffer != nil), and the reads that follow: two records on
     either side of a window boundary *)
  | CBytesAt (me buf : Z) (lines : list bytes) (pos0 bs0 : Z) (valid0 : bool) (ops : list bop)
  (* round 6: the metadata the file had while the operations ran (mtime and
     atime in Unix nanoseconds, permission bits).  The model has no metadata:
     the reader is a function of the bytes (Proofs/QLogDisk.v); the evaluator
     runs the inner case as it is *)
  | CMeta (mtime atime mode : Z) (c : case).

Definition seek_code (r : seek_res) : Z :=
  match r with
  | Found _ _ => 0 | NotFound => 1 | TooEarly => 2 | TooLate => 3
  | EmptyStamp => 4 | DepthExceeded => 5 | IOEof => 6
  end.

Definition rseek_code (r : rseek_res) : Z :=
  match r with RFound => 0 | RNotFound => 1 | RFellBack => 0 | ROther => 4 end.

Definition eqb_zz (a b : Z * Z) := (fst a =? fst b) && (snd a =? snd b).
Definition eqb_zzz (a b : Z * Z * Z) := eqb_zz (fst a) (fst b) && (snd a =? snd b).

Definition proj_read (x : option (Z * Z) * rstate) : option (Z * Z) :=
  match x with (Some (_, len), s') => Some (len, pos s') | (None, _) => None end.

Fixpoint f_reads (me buf : Z) (f : qfile) (obs : list (Z * Z)) (s : rstate) : bool * rstate :=
  match obs with
  | [] => (true, s)
  | o :: obs =>
      let x := read_next me buf f s in
      if eqb_option eqb_zz (proj_read x) (Some o) then f_reads me buf f obs (snd x) else (false, s)
  end.

Definition proj_read_b (x : option (Z * Z) * rstate) : option (Z * Z * Z) :=
  match x with (Some (_, len), s') => Some (len, pos s', buf_start s') | (None, _) => None end.

Fixpoint f_reads_b (me buf : Z) (f : qfile) (obs : list (Z * Z * Z)) (s : rstate) : bool * rstate :=
  match obs with
  | [] => (true, s)
  | o :: obs =>
      let x := read_next me buf f s in
      if eqb_option eqb_zzz (proj_read_b x) (Some o) then f_reads_b me buf f obs (snd x) else (false, s)
  end.

Fixpoint f_replay (me buf : Z) (f : qfile) (ops : list fop) (s : rstate) : bool :=
  match ops with
  | [] => true
  | FSeekStart p :: ops =>
      let s' := seek_start f s in (pos s' =? p) && f_replay me buf f ops s'
  | FRead o :: ops =>
      let x := read_next me buf f s in
      eqb_option eqb_zz (proj_read x) o && f_replay me buf f ops (snd x)
  | FReadAll obs :: ops =>
      (* the definition the theorem C20_reverse_complete is about *)
      let (l, e) := read_all me buf f (S (length obs)) s in
      e && eqb_list eqb_zz
             (map (fun x : Z * Z => (snd x, if fst x =? 0 then 0 else fst x - 1)) l) obs &&
      let (ok, s') := f_reads me buf f obs s in
      ok && match read_next me buf f s' with (None, s'') => f_replay me buf f ops s'' | _ => false end
  | FSeek ts code p d pa :: ops =>
      let (r, s') := seek_ts_state me f ts s in
      (seek_code r =? code) &&
      match r with Found p' d' => (p' =? p) && (d' =? d) | _ => true end &&
      (pos s' =? pa) && f_replay me buf f ops s'
  | FReadB o :: ops =>
      let x := read_next me buf f s in
      eqb_option eqb_zzz (proj_read_b x) o && f_replay me buf f ops (snd x)
  | FReadAllB obs :: ops =>
      let (l, e) := read_all me buf f (S (length obs)) s in
      e && eqb_list eqb_zz
             (map (fun x : Z * Z => (snd x, if fst x =? 0 then 0 else fst x - 1)) l)
             (map (fun x : Z * Z * Z => fst x) obs) &&
      let (ok, s') := f_reads_b me buf f obs s in
      ok && match read_next me buf f s' with (None, s'') => f_replay me buf f ops s'' | _ => false end
  end.

Definition proj_rread (x : option (Z * Z * Z) * reader) : option (Z * Z * Z) :=
  match x with
  | (Some (i, _, len), r') => Some (i, len, pos (snd (nth_file r' i)))
  | (None, _) => None
  end.

Fixpoint r_reads (me buf : Z) (obs : list (Z * Z * Z)) (r : reader) : bool * reader :=
  match obs with
  | [] => (true, r)
  | o :: obs =>
      let x := reader_read_next me buf r in
      if eqb_option eqb_zzz (proj_rread x) (Some o) then r_reads me buf obs (snd x) else (false, r)
  end.

Fixpoint r_replay (me buf : Z) (ops : list rop) (r : reader) : bool :=
  match ops with
  | [] => true
  | RSeekStart c p :: ops =>
      let r' := reader_seek_start r in
      (r_cur r' =? c) && (pos (snd (nth_file r' c)) =? p) && r_replay me buf ops r'
  | RRead o :: ops =>
      let x := reader_read_next me buf r in
      eqb_option eqb_zzz (proj_rread x) o && r_replay me buf ops (snd x)
  | RReadAll obs :: ops =>
      let (ok, r') := r_reads me buf obs r in
      ok && match reader_read_next me buf r' with (None, r'') => r_replay me buf ops r'' | _ => false end
  | RSeek ts code c p fb :: ops =>
      let (res, r') := reader_seek_ts me ts r in
      (rseek_code res =? code) && (r_cur r' =? c) && (pos (snd (nth_file r' c)) =? p) &&
      Bool.eqb (r_fellback r') fb && r_replay me buf ops r'
  | RSeekRec ts code c p fb :: ops =>
      let (code', r') := seek_record_st me buf (Some ts) r in
      (code' =? code) && (r_cur r' =? c) && (pos (snd (nth_file r' c)) =? p) &&
      Bool.eqb (r_fellback r') fb &&
      (* Model/QLog.v's seek_record (the one C07's paging is stated on) says the same *)
      match seek_record me buf (Some ts) r with Some _ => code =? 0 | None => negb (code =? 0) end &&
      r_replay me buf ops r'
  end.

(** time.Parse as the table of the case gives it. *)
Definition oracle_of (tbl : list (bytes * Z)) (v : bytes) : Z :=
  match find (fun e => eqb_bytes (fst e) v) tbl with Some e => snd e | None => 0 end.

Definition line_no (ls : list bytes) (k : Z) : bytes := nth (Z.to_nat k) ls [].

(** Byte-level replay: the functions of Model/QLogBytes.v on the content. *)
Fixpoint b_replay (o : bytes -> Z) (me buf : Z) (ls : list bytes) (c : bytes) (ops : list bop) (s : rstate) : bool :=
  match ops with
  | [] => true
  | BSeekStart p :: ops =>
      let s' := b_seek_start c s in (pos s' =? p) && b_replay o me buf ls c ops s'
  | BRead obs :: ops =>
      let x := b_read_next me buf c s in
      match fst x, obs with
      | None, None => true
      | Some (str, _), Some (k, given, pa) =>
          eqb_bytes str (if k <? 0 then given else line_no ls k) && (pos (snd x) =? pa)
      | _, _ => false
      end && b_replay o me buf ls c ops (snd x)
  | BSeek ts code p d pa :: ops =>
      let (r, s') := b_seek_ts_state o me c ts s in
      (seek_code r =? code) &&
      match r with Found p' d' => (p' =? p) && (d' =? d) | _ => true end &&
      (pos s' =? pa) && b_replay o me buf ls c ops s'
  | BStamp k obs :: ops =>
      (read_qlog_ts o (line_no ls k) =? obs) && b_replay o me buf ls c ops s
  end.

(** The same operations for the (length, stamp) model on the abstraction of
    the lines (Proofs/QLogBytes.v proves the two agree; here both are run). *)
Definition to_fop (ls : list bytes) (o : bop) : list fop :=
  match o with
  | BSeekStart p => [FSeekStart p]
  | BRead None => [FRead None]
  | BRead (Some (k, given, pa)) =>
      [FRead (Some (blen (if k <? 0 then given else line_no ls k), pa))]
  | BSeek ts code p d pa => [FSeek ts code p d pa]
  | BStamp _ _ => []
  end.

Fixpoint case_ok (c : case) : bool :=
  match c with
  | CFile me buf f ops =>
      (me =? max_entry_size) && (buf =? buffer_size) && f_replay me buf f ops rstate0
  | CReader me buf fs ops =>
      (me =? max_entry_size) && (buf =? buffer_size) && r_replay me buf ops (new_reader fs)
  | CBytes me buf ls tbl ops =>
      let o := oracle_of tbl in
      (me =? max_entry_size) && (buf =? buffer_size) &&
      b_replay o me buf ls (flat ls) ops rstate0 &&
      f_replay me buf (absf o ls) (flat_map (to_fop ls) ops) rstate0
  | CBytesAt me buf ls p bs v ops =>
      let s := {| pos := p; buf_start := bs; buf_valid := v |} in
      let o := fun _ : bytes => 0 in
      (me =? max_entry_size) && (buf =? buffer_size) &&
      (p =? blen (flat ls) - 1) &&
      b_replay o me buf ls (flat ls) ops s &&
      f_replay me buf (absf o ls) (flat_map (to_fop ls) ops) s
  | CMeta _ _ _ c => case_ok c
  end.

Definition mismatches := Base.Run.mismatches case_ok.

(** For replay files: what the model computes from a fresh reader: the full
    reverse read as (start, len), and the result of every seek in the case. *)
Fixpoint explain (c : case) :=
  match c with
  | CFile me buf f ops =>
      (fst (read_all me buf f (S (length f)) (seek_start f rstate0)),
       flat_map (fun o => match o with
                          | FSeek ts _ _ _ _ =>
                              [(ts, seek_code (seek_ts me f ts),
                                match seek_ts me f ts with Found p _ => p | _ => -1 end)]
                          | _ => [] end) ops)
  | CReader me buf fs ops =>
      ([], flat_map (fun o => match o with
                          | RSeek ts _ _ _ _ =>
                              let x := reader_seek_ts me ts (new_reader fs) in
                              [(ts, rseek_code (fst x), r_cur (snd x))]
                          | _ => [] end) ops)
  | CBytes me buf ls tbl ops =>
      let o := oracle_of tbl in
      (map (fun ln => (blen ln, read_qlog_ts o ln)) ls,
       flat_map (fun op => match op with
                          | BSeek ts _ _ _ _ =>
                              [(ts, seek_code (b_seek_ts o me (flat ls) ts),
                                match b_seek_ts o me (flat ls) ts with Found p _ => p | _ => -1 end)]
                          | _ => [] end) ops)
  | CBytesAt me buf ls p bs v ops =>
      (* what the byte-level model returns from that state: (length, lineIdx) *)
      let s := {| pos := p; buf_start := bs; buf_valid := v |} in
      (fst (fold_left (fun (a : list (Z * Z) * rstate) (_ : bop) =>
              let x := b_read_next me buf (flat ls) (snd a) in
              (fst a ++ match fst x with Some (str, i) => [(blen str, i)] | None => [] end, snd x))
            ops ([], s)), [])
  | CMeta _ _ _ c => explain c
  end.

(** Evaluator glue for C20: replays on the model what the harness did with the
    real qLogFile / qLogReader and compares the projected observables. *)
From AGH Require Import Base.Run Model.QLogFile.
Local Open Scope Z_scope.

(** Operations on one qLogFile, with what the implementation did. *)
Inductive fop :=
  | FSeekStart (obs_pos : Z)
  (* ReadNext: None = io.EOF, else (len of the returned string, position after) *)
  | FRead (obs : option (Z * Z))
  (* ReadNext until EOF: the (len, position after) of every line returned *)
  | FReadAll (obs : list (Z * Z))
  (* seekTS: target, result class, returned pos, depth, q.position afterwards *)
  | FSeek (ts : Z) (code pos depth pos_after : Z).

(** Operations on a qLogReader. *)
Inductive rop :=
  | RSeekStart (cur pos : Z)
  (* ReadNext: None = EOF, else (file index, len, position in that file after) *)
  | RRead (obs : option (Z * Z * Z))
  | RReadAll (obs : list (Z * Z * Z))
  (* seekTS: target, class, currentFile after, its position after, seekFellBack *)
  | RSeek (ts : Z) (code cur pos : Z) (fellback : bool).

Inductive case :=
  (* Go constants maxEntrySize, bufferSize; the file; the operations *)
  | CFile (me buf : Z) (f : list (Z * Z)) (ops : list fop)
  | CReader (me buf : Z) (fs : list (list (Z * Z))) (ops : list rop).

Definition seek_code (r : seek_res) : Z :=
  match r with
  | Found _ _ => 0 | NotFound => 1 | TooEarly => 2 | TooLate => 3
  | EmptyStamp => 4 | DepthExceeded => 5 | IOEof => 6
  end.

Definition rseek_code (r : rseek_res) : Z :=
  match r with RFound => 0 | RNotFound => 1 | RFellBack => 0 | ROther => 4 end.

Definition eqb_zz (a b : Z * Z) := (fst a =? fst b) && (snd a =? snd b).
Definition eqb_zzz (a b : Z * Z * Z) := eqb_zz (fst a) (fst b) && (snd a =? snd b).

Definition proj_read (x : option (Z * Z) * rstate) : option (Z * Z) :=
  match x with (Some (_, len), s') => Some (len, pos s') | (None, _) => None end.

Fixpoint f_reads (me buf : Z) (f : qfile) (obs : list (Z * Z)) (s : rstate) : bool * rstate :=
  match obs with
  | [] => (true, s)
  | o :: obs =>
      let x := read_next me buf f s in
      if eqb_option eqb_zz (proj_read x) (Some o) then f_reads me buf f obs (snd x) else (false, s)
  end.

Fixpoint f_replay (me buf : Z) (f : qfile) (ops : list fop) (s : rstate) : bool :=
  match ops with
  | [] => true
  | FSeekStart p :: ops =>
      let s' := seek_start f s in (pos s' =? p) && f_replay me buf f ops s'
  | FRead o :: ops =>
      let x := read_next me buf f s in
      eqb_option eqb_zz (proj_read x) o && f_replay me buf f ops (snd x)
  | FReadAll obs :: ops =>
      (* the definition the theorem C20_reverse_complete is about *)
      let (l, e) := read_all me buf f (S (length obs)) s in
      e && eqb_list eqb_zz
             (map (fun x : Z * Z => (snd x, if fst x =? 0 then 0 else fst x - 1)) l) obs &&
      let (ok, s') := f_reads me buf f obs s in
      ok && match read_next me buf f s' with (None, s'') => f_replay me buf f ops s'' | _ => false end
  | FSeek ts code p d pa :: ops =>
      let (r, s') := seek_ts_state me f ts s in
      (seek_code r =? code) &&
      match r with Found p' d' => (p' =? p) && (d' =? d) | _ => true end &&
      (pos s' =? pa) && f_replay me buf f ops s'
  end.

Definition proj_rread (x : option (Z * Z * Z) * reader) : option (Z * Z * Z) :=
  match x with
  | (Some (i, _, len), r') => Some (i, len, pos (snd (nth_file r' i)))
  | (None, _) => None
  end.

Fixpoint r_reads (me buf : Z) (obs : list (Z * Z * Z)) (r : reader) : bool * reader :=
  match obs with
  | [] => (true, r)
  | o :: obs =>
      let x := reader_read_next me buf r in
      if eqb_option eqb_zzz (proj_rread x) (Some o) then r_reads me buf obs (snd x) else (false, r)
  end.

Fixpoint r_replay (me buf : Z) (ops : list rop) (r : reader) : bool :=
  match ops with
  | [] => true
  | RSeekStart c p :: ops =>
      let r' := reader_seek_start r in
      (r_cur r' =? c) && (pos (snd (nth_file r' c)) =? p) && r_replay me buf ops r'
  | RRead o :: ops =>
      let x := reader_read_next me buf r in
      eqb_option eqb_zzz (proj_rread x) o && r_replay me buf ops (snd x)
  | RReadAll obs :: ops =>
      let (ok, r') := r_reads me buf obs r in
      ok && match reader_read_next me buf r' with (None, r'') => r_replay me buf ops r'' | _ => false end
  | RSeek ts code c p fb :: ops =>
      let (res, r') := reader_seek_ts me ts r in
      (rseek_code res =? code) && (r_cur r' =? c) && (pos (snd (nth_file r' c)) =? p) &&
      Bool.eqb (r_fellback r') fb && r_replay me buf ops r'
  end.

Definition case_ok (c : case) : bool :=
  match c with
  | CFile me buf f ops =>
      (me =? max_entry_size) && (buf =? buffer_size) && f_replay me buf f ops rstate0
  | CReader me buf fs ops =>
      (me =? max_entry_size) && (buf =? buffer_size) && r_replay me buf ops (new_reader fs)
  end.

Definition mismatches := Base.Run.mismatches case_ok.

(** For replay files: what the model computes from a fresh reader: the full
    reverse read as (start, len), and the result of every seek in the case. *)
Definition explain (c : case) :=
  match c with
  | CFile me buf f ops =>
      (fst (read_all me buf f (S (length f)) (seek_start f rstate0)),
       flat_map (fun o => match o with
                          | FSeek ts _ _ _ _ =>
                              [(ts, seek_code (seek_ts me f ts),
                                match seek_ts me f ts with Found p _ => p | _ => -1 end)]
                          | _ => [] end) ops)
  | CReader me buf fs ops =>
      ([], flat_map (fun o => match o with
                          | RSeek ts _ _ _ _ =>
                              let x := reader_seek_ts me ts (new_reader fs) in
                              [(ts, rseek_code (fst x), r_cur (snd x))]
                          | _ => [] end) ops)
  end.

(** Evaluator glue for C02: the shared pipeline case. *)
From AGH Require Export Run.PipeCase.
Definition case := PipeCase.case.
Definition case_ok := PipeCase.case_ok.
Definition mismatches := PipeCase.mismatches.
Definition explain := PipeCase.explain.

(** Evaluator glue for aghalg.SortedMap (C04, round 4; constructor [CSMap] of
    Run/C04.v): a sequence of Set / Del / Clear calls on the REAL
    aghalg.SortedMap[netip.Prefix, uint64] (comparator: subnetCompare) is
    replayed on Model/SortedMap.v's key slice + map; after every call the
    harness observed whether the call panicked, everything Range showed, Get
    of every key of the universe, and for some addresses what a Range that
    stops at the first containing prefix found (index.findByIP's use). *)
From Coq Require Export ZArith.
From AGH Require Import Base.Run.
From AGH Require Export Model.ClientIndex Model.SortedMap Model.SubnetMap.
Local Open Scope N_scope.

(** panicked, Range (all), Get per universe key, first containing prefix per address *)
Definition smobs := (bool * list (prefix * N) * list (option N) * list (option N))%type.

Definition eqb_pu (a b : prefix * N) : bool := prefix_eqb (fst a) (fst b) && (snd a =? snd b).

Definition sm_model_obs (univ : list prefix) (addrs : list bytes) (m : pmap)
    : list (prefix * N) * list (option N) * list (option N) :=
  (pm_all m, map (fun k => pm_get k m) univ, map (fun a => pm_find_ip a m) addrs).

Fixpoint sm_replay (univ : list prefix) (addrs : list bytes) (m : pmap) (steps : list (pmop * smobs)) : bool :=
  match steps with
  | [] => true
  | (o, (panicked, rng, gets, firsts)) :: rest =>
      match smap_step subnet_compare prefix_eqb m o with
      | SOk m' =>
          negb panicked &&
          eqb_list eqb_pu (pm_all m') rng &&
          eqb_list (eqb_option N.eqb) (map (fun k => pm_get k m') univ) gets &&
          eqb_list (eqb_option N.eqb) (map (fun a => pm_find_ip a m') addrs) firsts &&
          sm_replay univ addrs m' rest
      | SPanic => panicked          (* the harness ends the sequence at a panic *)
      | SFuel => false
      end
  end.

Inductive sm_explained := XOk (o : list (prefix * N) * list (option N) * list (option N)) | XPanic | XFuel.

Fixpoint sm_explain (univ : list prefix) (addrs : list bytes) (m : pmap) (steps : list (pmop * smobs))
    : list sm_explained :=
  match steps with
  | [] => []
  | (o, _) :: rest =>
      match smap_step subnet_compare prefix_eqb m o with
      | SOk m' => XOk (sm_model_obs univ addrs m') :: sm_explain univ addrs m' rest
      | SPanic => [XPanic]
      | SFuel => [XFuel]
      end
  end.

(** Evaluator glue for C04, round 9 (constructor [CLease] of Run/C04.v): a
    history of static-lease API calls (accepted and rejected) on the REAL
    dhcpd server that is the [client.DHCP] of a REAL client.Storage holding the
    given persistent clients.  After every call: accepted?, MACByIP of every
    probe address (C10's coding, 0 = nil), the client name
    ApplyClientFiltering("", a) attributes each probe to ([[]]: nobody), and
    Storage.Find of each probe (uid). *)
From Coq Require Export ZArith.
From AGH Require Import Base.Run.
From AGH Require Export Model.ClientIndex Model.ClientLease.
From AGH Require Model.Dhcp4.
Local Open Scope N_scope.

Definition lobs := (bool * list N * list bytes * list (option N))%type.

Definition lease_cfg : config := {| cfg_tags := []; cfg_addr_ok := fun _ => true |}.

Definition lease_ix (clients : list client) : index := run lease_cfg (map OAdd clients) empty_index.

Definition name_of (ix : index) (o : option uid) : bytes :=
  match o with
  | Some u => match deref ix u with Some c => c_name c | None => [255] end
  | None => []
  end.

Definition lease_model_obs (ix : index) (probes : list addr) (s : Dhcp4.state) (r : Dhcp4.reply) : lobs :=
  (match r with Dhcp4.RApi ok => ok | _ => false end,
   map (fun a => match ip_of_addr a with Some ip => Dhcp4.mac_by_ip 0 s ip | None => 0 end) probes,
   map (fun a => name_of ix (lease_attr ix 0 s [] a)) probes,
   map (fun a => lease_find ix 0 s a) probes).

Definition eqb_lobs (a b : lobs) : bool :=
  match a, b with
  | (o1, m1, n1, f1), (o2, m2, n2, f2) =>
      Bool.eqb o1 o2 && eqb_list N.eqb m1 m2 && eqb_list eqb_bytes n1 n2 &&
      eqb_list (eqb_option N.eqb) f1 f2
  end.

Fixpoint lease_replay (c : Dhcp4.conf) (ix : index) (probes : list addr) (s : Dhcp4.state)
    (steps : list (Dhcp4.op * lobs)) : bool :=
  match steps with
  | [] => true
  | (o, ob) :: rest =>
      let r := Dhcp4.step c s 0 [] o in
      eqb_lobs (lease_model_obs ix probes (fst r) (snd r)) ob &&
      lease_replay c ix probes (fst r) rest
  end.

Fixpoint lease_explain (c : Dhcp4.conf) (ix : index) (probes : list addr) (s : Dhcp4.state)
    (steps : list (Dhcp4.op * lobs)) : list lobs :=
  match steps with
  | [] => []
  | (o, _) :: rest =>
      let r := Dhcp4.step c s 0 [] o in
      lease_model_obs ix probes (fst r) (snd r) :: lease_explain c ix probes (fst r) rest
  end.

(** Evaluator glue for C09: replays a whole history on the model and compares
    the projected observables after every step.

    [CHist]: a sequential history of Model/Stats.v operations.  An observation
    is either everything the harness reads in a quiescent moment ([Obs]) or
    ONE answer of GET /control/stats taken while updates were running
    ([ObsResp]: the harness puts it at the point of the linearised history
    that the answer's num_dns_queries names; every other counter, series and
    top list of the same answer must then be the model's at that point).
    [CShut]: a history in which Close and New are steps of their own
    (Model/StatsShutdown.v), with the hourly flush and updates where they ran
    relative to Close.
    [CWork]: a history on a context whose periodic worker is running (Start):
    operations, changes of the id source, and the worker's passes where the
    harness saw them take effect (Model/StatsWorker.v, untimed layer). *)
From AGH Require Export Base.Run Model.Stats Model.StatsShutdown Model.StatsWorker.
Local Open Scope Z_scope.

Definition mkE (r d c : Z) (ups : list (Z * bool * Z)) (us : Z) : entry :=
  {| e_res := r; e_dom := d; e_cli := c; e_ups := ups; e_time := us |}.

(** What the harness reads after a step. *)
Inductive obs :=
  Obs (panicked : bool)                 (* the step panicked (recovered) *)
      (err : Z)                         (* error classes of the step (bits): 1 Close failed, 2 New failed,
                                           4 reset not 200, 8 GET stats not 200, 16 error-level log record,
                                           32 file unreadable, 64 flush told the periodic flusher to stop;
                                           the model never fails: 0 *)
      (cfg_ms : Z) (cfg_en : bool)      (* WriteDiskConfig *)
      (curid : Z)                       (* s.curr.id *)
      (totals : list Z)                 (* num_dns_queries, sum nResult[1], num_blocked_filtering,
                                           num_replaced_safebrowsing, .._safesearch, .._parental *)
      (days : bool) (len : Z)           (* time_units = days, len(dns_queries) *)
      (ser : list (list (Z * Z)))       (* non-zero (index, value) of dns_queries, blocked_filtering,
                                           replaced_safebrowsing, replaced_parental *)
      (tops : list (list (Z * Z)))      (* key-sorted top_queried_domains, top_blocked_domains,
                                           top_clients, top_upstreams_responses *)
      (dbu : list (Z * Z))              (* id-sorted (id, NTotal) of every bucket in the file *)
      (avg : Z)                         (* avg_processing_time in whole microseconds *)
      (info : Z)                        (* GET /control/stats_info: interval *)
      (tcip : list Z)                   (* sorted keys of TopClientsIP(1000) *)
      (upt : list (Z * (Z * Z)))        (* per upstream with responses and a non-zero time sum, by key:
                                           (merged time sum in microseconds, merged responses), read
                                           through loadUnits; the answered float is checked in Go *)
  | ObsSkip                             (* nothing read after this step (inside a burst of updates,
                                           between the steps of a reset) *)
  | ObsResp                             (* one answer of GET /control/stats, nothing else *)
      (totals : list Z)                 (* num_dns_queries, num_blocked_filtering, num_replaced_safebrowsing,
                                           .._safesearch, .._parental *)
      (days : bool) (len : Z)
      (ser : list (list (Z * Z)))
      (tops : list (list (Z * Z)))
      (avg : Z).

Inductive case :=
  | CHist (id0 ms0 : Z) (en0 : bool) (steps : list (op * obs))
  | CShut (id0 ms0 : Z) (en0 : bool) (steps : list (xop * obs))
  | CWork (id0 ms0 : Z) (en0 : bool) (steps : list (wop * obs)).

Fixpoint sparse_from (i : Z) (l : list Z) : list (Z * Z) :=
  match l with
  | [] => []
  | v :: l' => if v =? 0 then sparse_from (i + 1) l' else (i, v) :: sparse_from (i + 1) l'
  end.
Definition sparse := sparse_from 0.

Fixpoint ins (k v : Z) (l : list (Z * Z)) : list (Z * Z) :=
  match l with
  | [] => [(k, v)]
  | (k', v') :: l' => if k <=? k' then (k, v) :: l else (k', v') :: ins k v l'
  end.

Definition panics (s : state) (o : op) : bool :=
  match o with OUpdate e => update_panics s e | _ => false end.

(** A top list of 100 names is compared above its smallest count only: which
    of several names tied at the 100th count survive Go's unstable sort over
    a map's pairs is not determined by the code. *)
Definition min_count (l : list (Z * Z)) : Z :=
  match l with [] => 0 | p :: r => fold_left (fun m q => Z.min m (snd q)) r (snd p) end.

Definition stable_part (l : list (Z * Z)) : list (Z * Z) :=
  if Z.of_nat (length l) <? max_top then l
  else let m := min_count l in filter (fun p => m <? snd p) l.

Definition observe (p : bool) (s : state) : obs :=
  let d := get_data s in
  Obs p (if flush_cont s 0 then 0 else 64) (lim_ms s) (enabled s) (cur_id s)
    [d_num d; num_nf s; d_num_f d; d_num_sb d; d_num_ss d; d_num_p d]
    (d_days d) (Z.of_nat (length (d_dns d)))
    [sparse (d_dns d); sparse (d_blocked d); sparse (d_sb d); sparse (d_par d)]
    (map stable_part [d_top_dom d; d_top_blk d; d_top_cli d; d_top_up d])
    (fold_right (fun p acc => ins (fst p) (u_total (snd p)) acc) [] (db s))
    (d_avg d) (stats_info s) (top_clients_ip s) (d_up_avg d).

Definition eqb_zz (a b : Z * Z) := (fst a =? fst b) && (snd a =? snd b).
Definition eqb_zzz (a b : Z * (Z * Z)) := (fst a =? fst b) && eqb_zz (snd a) (snd b).

Definition eqb_obs (a b : obs) : bool :=
  match a, b with
  | Obs p1 x1 m1 e1 c1 t1 d1 n1 s1 o1 u1 a1 i1 k1 w1, Obs p2 x2 m2 e2 c2 t2 d2 n2 s2 o2 u2 a2 i2 k2 w2 =>
      Bool.eqb p1 p2 && (x1 =? x2) && (m1 =? m2) && Bool.eqb e1 e2 && (c1 =? c2) &&
      eqb_list Z.eqb t1 t2 && Bool.eqb d1 d2 && (n1 =? n2) &&
      eqb_list (eqb_list eqb_zz) s1 s2 && eqb_list (eqb_list eqb_zz) o1 (map stable_part o2) &&
      eqb_list eqb_zz u1 u2 && (a1 =? a2) && (i1 =? i2) && eqb_list Z.eqb k1 k2 && eqb_list eqb_zzz w1 w2
  | Obs _ _ _ _ _ t1 d1 n1 s1 o1 _ a1 _ _ _, ObsResp t2 d2 n2 s2 o2 a2 =>
      eqb_list Z.eqb (match t1 with a :: _ :: r => a :: r | _ => t1 end) t2 &&
      Bool.eqb d1 d2 && (n1 =? n2) &&
      eqb_list (eqb_list eqb_zz) s1 s2 && eqb_list (eqb_list eqb_zz) o1 (map stable_part o2) && (a1 =? a2)
  | _, ObsSkip => true
  | _, _ => false
  end.

Fixpoint replay (s : state) (steps : list (op * obs)) : bool :=
  match steps with
  | [] => true
  | (o, ob) :: rest =>
      let s' := step s o in
      match ob with
      | ObsSkip => replay s' rest
      | _ => if eqb_obs (observe (panics s o) s') ob then replay s' rest else false
      end
  end.

Definition xpanics (s : state) (x : xop) : bool :=
  match x with XOp o => panics s o | _ => false end.

Fixpoint xreplay (s : state) (steps : list (xop * obs)) : bool :=
  match steps with
  | [] => true
  | (x, ob) :: rest =>
      let s' := xstep s x in
      match ob with
      | ObsSkip => xreplay s' rest
      | _ => if eqb_obs (observe (xpanics s x) s') ob then xreplay s' rest else false
      end
  end.

Definition wpanics (w : wstate) (o : wop) : bool :=
  match o with WOp o' => panics (w_st w) o' | _ => false end.

Fixpoint wreplay (w : wstate) (steps : list (wop * obs)) : bool :=
  match steps with
  | [] => true
  | (o, ob) :: rest =>
      let w' := wstep w o in
      match ob with
      | ObsSkip => wreplay w' rest
      | _ => if eqb_obs (observe (wpanics w o) (w_st w')) ob then wreplay w' rest else false
      end
  end.

Definition case_ok (c : case) : bool :=
  match c with
  | CHist id0 ms0 en0 steps => replay (init id0 ms0 en0) steps
  | CShut id0 ms0 en0 steps => xreplay (init id0 ms0 en0) steps
  | CWork id0 ms0 en0 steps => wreplay (winit id0 ms0 en0) steps
  end.

Definition mismatches := Base.Run.mismatches case_ok.

Fixpoint trace (s : state) (steps : list (op * obs)) : list obs :=
  match steps with
  | [] => []
  | (o, _) :: rest => let s' := step s o in observe (panics s o) s' :: trace s' rest
  end.

Fixpoint xtrace (s : state) (steps : list (xop * obs)) : list obs :=
  match steps with
  | [] => []
  | (x, _) :: rest => let s' := xstep s x in observe (xpanics s x) s' :: xtrace s' rest
  end.

Fixpoint wtrace (w : wstate) (steps : list (wop * obs)) : list obs :=
  match steps with
  | [] => []
  | (o, _) :: rest => let w' := wstep w o in observe (wpanics w o) (w_st w') :: wtrace w' rest
  end.

Definition explain (c : case) : list obs :=
  match c with
  | CHist id0 ms0 en0 steps => trace (init id0 ms0 en0) steps
  | CShut id0 ms0 en0 steps => xtrace (init id0 ms0 en0) steps
  | CWork id0 ms0 en0 steps => wtrace (winit id0 ms0 en0) steps
  end.

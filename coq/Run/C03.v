(** Evaluator glue for C03. *)
From AGH Require Export Base.Run Base.NetAddr Base.RuleEngine Model.Access.
Local Open Scope N_scope.

Definition rulekind_eqb (a b : rulekind) : bool :=
  match a, b with
  | RkNone, RkNone | RkIP, RkIP | RkCid, RkCid => true
  | RkNet i, RkNet j => Nat.eqb i j
  | _, _ => false
  end.

Definition before_eqb (a b : before) : bool :=
  match a, b with
  | BServfail, BServfail | BDrop, BDrop | BRefused, BRefused => true
  | BContinue x, BContinue y => eqb_option eqb_bytes x y
  | _, _ => false
  end.

Inductive case :=
  (* IsBlockedClient: configured lists, address (None = zero Addr), ClientID;
     observed decision and which item the returned rule text names *)
  | CDecide (allowed blocked : list entry) (ip : option addr) (id : bytes)
            (obs : bool) (obs_rule : rulekind)
  (* isBlockedHost on the normalised host *)
  | CHost (hosts : list rule) (host : bytes) (qt : N) (obs : bool)
  (* HandleBefore: protocol, extracted ClientID (None = extraction error),
     address, question (raw FQDN, qtype); observed outcome *)
  | CBefore (allowed blocked : list entry) (hosts : list rule) (p : proto)
            (cid : option bytes) (ip : option addr) (q : option (bytes * N)) (obs : before)
  (* through dnsproxy on a loopback socket: observed reply class
     (0 none, 1 REFUSED, 2 SERVFAIL, 3 answered) and number of handler runs *)
  | CWire (allowed blocked : list entry) (hosts : list rule) (p : proto)
          (cid : option bytes) (ip : option addr) (q : option (bytes * N))
          (obs_reply : N) (obs_runs : N).

Definition count_handler (st : N) (_ : unit) : N * unit := (st + 1, tt).

Definition reply_class (r : @reply unit) : N :=
  match r with NoReply => 0 | Refused => 1 | Servfail => 2 | Answer _ => 3 end.

Definition case_ok (c : case) : bool :=
  match c with
  | CDecide al bl ip id obs rk =>
      let r := is_blocked_client (new_access al bl nil) ip id in
      Bool.eqb (fst r) obs && rulekind_eqb (snd r) rk
  | CHost hosts host qt obs =>
      Bool.eqb (is_blocked_host (new_access nil nil hosts) host qt) obs
  | CBefore al bl hosts p cid ip q obs =>
      before_eqb (handle_before (new_access al bl hosts) p cid ip q) obs
  | CWire al bl hosts p cid ip q r n =>
      let '(st, _, rep) := serve count_handler (new_access al bl hosts) p cid ip q nil 0 tt in
      (reply_class rep =? r) && (st =? n)
  end.

Definition mismatches := Base.Run.mismatches case_ok.

Definition explain (c : case) :=
  match c with
  | CDecide al bl ip id _ _ =>
      let r := is_blocked_client (new_access al bl nil) ip id in
      (fst r, snd r, BDrop)
  | CHost hosts host qt _ =>
      (is_blocked_host (new_access nil nil hosts) host qt, RkNone, BDrop)
  | CBefore al bl hosts p cid ip q _ =>
      (false, RkNone, handle_before (new_access al bl hosts) p cid ip q)
  | CWire al bl hosts p cid ip q _ _ =>
      (false, RkNone, handle_before (new_access al bl hosts) p cid ip q)
  end.

(** Evaluator glue for C03. *)
From AGH Require Export Base.Run Base.NetAddr Base.RuleEngine Model.Access Model.AccessPersist Model.AccessGlue.
From AGH Require Model.TLSGlue.
Local Open Scope N_scope.

Definition rulekind_eqb (a b : rulekind) : bool :=
  match a, b with
  | RkNone, RkNone | RkIP, RkIP | RkCid, RkCid => true
  | RkNet i, RkNet j => Nat.eqb i j
  | _, _ => false
  end.

Definition before_eqb (a b : before) : bool :=
  match a, b with
  | BServfail, BServfail | BDrop, BDrop | BRefused, BRefused => true
  | BContinue x, BContinue y => eqb_option eqb_bytes x y
  | _, _ => false
  end.

Definition before_class (b : before) : N :=
  match b with BServfail => 0 | BDrop => 1 | BRefused => 2 | BContinue _ => 3 end.

(** In a history the cache is not inspected after a hook (a read would
    change the usage order): only the outcome class is compared there. *)
Definition hobs_eqb (a b : hobs) : bool :=
  match a, b with
  | OBefore x, OBefore y => before_class x =? before_class y
  | OInitial x, OInitial y => eqb_bytes x y
  | _, _ => false
  end.

Definition mk_ctx (p : proto) (sni : option bytes) (req : option (bytes * option bytes * bytes))
    (ip : option addr) (q : option (bytes * N)) (rid : N) : dnsctx :=
  mkCtx p sni (option_map (fun r => mk_doh (fst (fst r)) (snd (fst r)) (snd r)) req) ip q rid.

Definition evict_srv : bytes := (100 :: 110 :: 115 :: 46 :: 101 :: 120 :: 97 :: 109 :: 112 :: 108 :: 101 :: nil).  (* dns.example *)
Definition evict_ctx (rid : N) : dnsctx :=
  mkCtx PTLS (Some (107 :: 105 :: 100 :: 46 :: evict_srv)) None
        (Some (mkAddr V4 167772161 nil)) None rid.           (* kid.dns.example from 10.0.0.1 *)

Definition evict_read (cap n : N) : bytes :=
  let a := new_access nil nil nil in
  let t := mkTlsConf evict_srv false in
  let ops := List.map (fun i => HBefore (evict_ctx (N.of_nat i + 2))) (List.seq 0 (N.to_nat n)) in
  snd (initial_read (fst (run_hist cap a t (fst (before_step cap a t (evict_ctx 1) nil)) ops)) 1).

Inductive case :=
  (* IsBlockedClient: configured lists, address (None = zero Addr), ClientID;
     observed decision and which item the returned rule text names *)
  | CDecide (allowed blocked : list entry) (ip : option addr) (id : bytes)
            (obs : bool) (obs_rule : rulekind)
  (* isBlockedHost on the normalised host *)
  | CHost (hosts : list rule) (host : bytes) (qt : N) (obs : bool)
  (* HandleBefore: protocol, extracted ClientID (None = extraction error),
     address, question (raw FQDN, qtype); observed outcome *)
  | CBefore (allowed blocked : list entry) (hosts : list rule) (p : proto)
            (cid : option bytes) (ip : option addr) (q : option (bytes * N)) (obs : before)
  (* through dnsproxy on a loopback socket: observed reply class
     (0 none, 1 REFUSED, 2 SERVFAIL, 3 answered) and number of handler runs *)
  | CWire (allowed blocked : list entry) (hosts : list rule) (p : proto)
          (cid : option bytes) (ip : option addr) (q : option (bytes * N))
          (obs_reply : N) (obs_runs : N)
  (* HandleBefore on a full context (ClientID extraction inside): configured
     server name, strict flag, the context; observed outcome (for a request
     let through: the cache entry under its request id) *)
  | CCtx (allowed blocked : list entry) (hosts : list rule) (srv : bytes) (strict : bool)
         (x : dnsctx) (obs : before)
  (* a history of HandleBefore calls and processInitial reads on one server
     with a ClientID cache of [cap] entries; observed: per step the outcome
     class / the ClientID read, and the final number of cache entries *)
  | CHist (cap : N) (allowed blocked : list entry) (hosts : list rule) (srv : bytes) (strict : bool)
          (ops : list hop) (obs : list hobs) (obs_count : N)
  (* the server's own cache (capacity [cap]): request 1 is admitted with
     ClientID "kid", then [n] more such requests, then request 1 is read *)
  | CEvict (cap n : N) (obs : bytes)
  (* the access settings across persistence and restart: the file's lists at
     the start, the server's TLS name and strict flag, a history of
     access/set, other saves, restarts, access/list and requests; observed
     per step: the result, and the lists in the saved configuration after
     the step ([None]: the same as after the previous step, at first the
     file's) *)
  | CPersist (c0 : lists) (srv : bytes) (strict : bool) (ops : list pop)
             (obs : list (pobs * option (list bytes * list bytes * list bytes)))
  (* a TLS section through the real newDNSTLSConfig (package home) into a
     dnsforward.Server with the given client lists, then HandleBefore:
     observed: ServerName and StrictSNICheck handed over ([None]: the glue
     returned an error) and the hook's outcome *)
  | CHome (enabled : bool) (name : bytes) (strict : bool) (https dot doq : N) (pair_ok addrs : bool)
          (allowed blocked : list entry) (x : dnsctx)
          (obs_handed : option (bytes * bool)) (obs : option before).

Definition set_result_eqb (a b : set_result) : bool :=
  match a, b with
  | SetOK, SetOK | ErrDecode, ErrDecode | ErrDupAllowed, ErrDupAllowed
  | ErrDupBlocked, ErrDupBlocked | ErrDupHosts, ErrDupHosts | ErrIntersect, ErrIntersect
  | ErrBadAllowed, ErrBadAllowed | ErrBadBlocked, ErrBadBlocked => true
  | _, _ => false
  end.

Definition texts_eqb (a b : list bytes * list bytes * list bytes) : bool :=
  let '(a1, a2, a3) := a in
  let '(b1, b2, b3) := b in
  eqb_list eqb_bytes a1 b1 && eqb_list eqb_bytes a2 b2 && eqb_list eqb_bytes a3 b3.

Definition pobs_eqb (a b : pobs) : bool :=
  match a, b with
  | QSet x, QSet y => set_result_eqb x y
  | QSave, QSave => true
  | QRestart x, QRestart y => Bool.eqb x y
  | QList x, QList y => texts_eqb x y
  | QProbe x, QProbe y => before_class x =? before_class y
  | _, _ => false
  end.

(** The saved lists of every step written out. *)
Fixpoint fill_saved (prev : list bytes * list bytes * list bytes)
    (obs : list (pobs * option (list bytes * list bytes * list bytes)))
    : list (pobs * (list bytes * list bytes * list bytes)) :=
  match obs with
  | nil => nil
  | (o, None) :: r => (o, prev) :: fill_saved prev r
  | (o, Some t) :: r => (o, t) :: fill_saved t r
  end.

Definition persist_trace (c0 : lists) (srv : bytes) (strict : bool) (ops : list pop) :=
  match boot c0 with
  | Some w => Some (snd (prun (mkTlsConf srv strict) w ops))
  | None => None
  end.

Definition count_handler (st : N) (_ : unit) : N * unit := (st + 1, tt).

Definition reply_class (r : @reply unit) : N :=
  match r with NoReply => 0 | Refused => 1 | Servfail => 2 | Answer _ => 3 end.

Definition case_ok (c : case) : bool :=
  match c with
  | CDecide al bl ip id obs rk =>
      let r := is_blocked_client (new_access al bl nil) ip id in
      Bool.eqb (fst r) obs && rulekind_eqb (snd r) rk
  | CHost hosts host qt obs =>
      Bool.eqb (is_blocked_host (new_access nil nil hosts) host qt) obs
  | CBefore al bl hosts p cid ip q obs =>
      before_eqb (handle_before (new_access al bl hosts) p cid ip q) obs
  | CWire al bl hosts p cid ip q r n =>
      let '(st, _, rep) := serve count_handler (new_access al bl hosts) p cid ip q nil 0 tt in
      (reply_class rep =? r) && (st =? n)
  | CCtx al bl hosts srv strict x obs =>
      before_eqb (handle_before_ctx (new_access al bl hosts) (mkTlsConf srv strict) x) obs
  | CHist cap al bl hosts srv strict ops obs n =>
      let '(c, o) := run_hist cap (new_access al bl hosts) (mkTlsConf srv strict) nil ops in
      eqb_list hobs_eqb o obs && (N.of_nat (length c) =? n)
  | CEvict cap n obs => eqb_bytes (evict_read cap n) obs
  | CHome en name strict https dot doq pair_ok addrs al bl x oh ob =>
      match Model.TLSGlue.new_dns_tls_config false (mk_setts en name strict https dot doq) pair_ok addrs, oh, ob with
      | Some d, Some (n, st), Some b =>
          eqb_bytes (Model.TLSGlue.dt_server_name d) n && Bool.eqb (Model.TLSGlue.dt_strict d) st &&
          (before_class (handle_before_ctx (new_access al bl nil) (handed_tlsconf d) x) =? before_class b)
      | None, None, None => true
      | _, _, _ => false
      end
  | CPersist c0 srv strict ops obs =>
      match persist_trace c0 srv strict ops with
      | Some tr => eqb_list (fun a b => pobs_eqb (fst a) (fst b) && texts_eqb (snd a) (snd b)) tr
                     (fill_saved (lists_texts c0) obs)
      | None => false
      end
  end.

Definition mismatches := Base.Run.mismatches case_ok.

Definition no_trace : option (list (pobs * (list bytes * list bytes * list bytes))) := None.

Definition explain (c : case) :=
  match c with
  | CPersist c0 srv strict ops _ =>
      (false, RkNone, BDrop, @nil hobs, persist_trace c0 srv strict ops)
  | CHome en name strict https dot doq pair_ok addrs al bl x _ _ =>
      (false, RkNone,
       match before_via_home (new_access al bl nil) (mk_setts en name strict https dot doq) pair_ok addrs x with
       | Some b => b | None => BDrop end, @nil hobs, no_trace)
  | CDecide al bl ip id _ _ =>
      let r := is_blocked_client (new_access al bl nil) ip id in
      (fst r, snd r, BDrop, @nil hobs, no_trace)
  | CHost hosts host qt _ =>
      (is_blocked_host (new_access nil nil hosts) host qt, RkNone, BDrop, nil, no_trace)
  | CBefore al bl hosts p cid ip q _ =>
      (false, RkNone, handle_before (new_access al bl hosts) p cid ip q, nil, no_trace)
  | CWire al bl hosts p cid ip q _ _ =>
      (false, RkNone, handle_before (new_access al bl hosts) p cid ip q, nil, no_trace)
  | CCtx al bl hosts srv strict x _ =>
      (false, RkNone, handle_before_ctx (new_access al bl hosts) (mkTlsConf srv strict) x, nil, no_trace)
  | CHist cap al bl hosts srv strict ops _ _ =>
      (false, RkNone, BDrop, snd (run_hist cap (new_access al bl hosts) (mkTlsConf srv strict) nil ops), no_trace)
  | CEvict cap n _ => (false, RkNone, BDrop, OInitial (evict_read cap n) :: nil, no_trace)
  end.

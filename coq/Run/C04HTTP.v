(** Evaluator glue for the HTTP entry point of C04 (used by Run/C04.v,
    constructor [CHttp]): replays a history of POST /control/clients/add,
    /update, /delete requests on [http_step] of Model/ClientHTTP.v, starting
    from what Init loaded, and compares after every request: the error class,
    for every probe request the settings Storage.ApplyClientFiltering gave,
    whether a client engine was handed over and the safe-search verdict of the
    real DNSFilter for one host of each of the seven services, what
    GET /control/clients returned and whom GET /control/clients/find found;
    and, at the end, the same probes after forConfig + Init of a fresh
    container. *)
From Coq Require Export ZArith.
From AGH Require Import Base.Run.
From AGH Require Export Model.ClientIndex Model.ClientConfig Model.ClientHTTP.
From AGH Require Import Run.C04Conf.
From AGH Require Model.Schedule.
Local Open Scope N_scope.

Definition mkj := Build_cjson.

(** settings, "Settings.ClientSafeSearch is not nil", rewritten-by-safe-search
    per service in [all_services] order *)
Definition eobs := (settings * bool * list bool)%type.

(** error class, probes (None: the call panicked), GET, find (name of the
    persistent client found) *)
Definition hobs := (N * list (option eobs) * list cjson * list (option bytes))%type.

Definition herr_code (ecode : err -> N) (e : herr) : N :=
  match e with
  | HOk => 0
  | HStore e => ecode e
  | HBadBody => 20
  | HNoName => 21
  | HConv CErrIds => 22
  | HConv CErrService => 23
  end.

Definition eqb_sched (a b : option (Schedule.weekly * N)) : bool :=
  eqb_option (fun x y => eqb_list eqb_range (fst x) (fst y) && (snd x =? snd y)) a b.

Definition eqb_cjson (a b : cjson) : bool :=
  eqb_bytes (j_name a) (j_name b) && eqb_list eqb_pid (j_ids a) (j_ids b) &&
  eqb_list eqb_bytes (j_tags a) (j_tags b) && eqb_list eqb_bytes (j_upstreams a) (j_upstreams b) &&
  eqb_option eqb_ss (j_ss a) (j_ss b) && Bool.eqb (j_ss_dep a) (j_ss_dep b) &&
  eqb_sched (j_sched a) (j_sched b) && eqb_list eqb_bytes (j_blocked a) (j_blocked b) &&
  Bool.eqb (j_use_global_settings a) (j_use_global_settings b) &&
  Bool.eqb (j_filtering a) (j_filtering b) && Bool.eqb (j_parental a) (j_parental b) &&
  Bool.eqb (j_safebrowsing a) (j_safebrowsing b) &&
  Bool.eqb (j_use_global_blocked a) (j_use_global_blocked b) &&
  eqb_option Bool.eqb (j_ignore_qlog a) (j_ignore_qlog b) &&
  eqb_option Bool.eqb (j_ignore_stats a) (j_ignore_stats b) &&
  eqb_option Bool.eqb (j_cache_enabled a) (j_cache_enabled b) &&
  (j_cache_size a =? j_cache_size b).

Section Http.
  Variable ecode : err -> N.
  Variable eqb_sett : settings -> settings -> bool.
  Variable cfg : config.
  Variable known : list bytes.
  Variable global : ssconf.
  Variable g : settings.
  Variable leases : list (addr * bytes).
  Variable probes : list (bytes * addr).
  Variable finds : list (bytes * option addr * option bytes).

  Definition dhcp : addr -> option bytes := fun a => zget a leases.

  Definition probe_obs (r : hreg) (q : bytes * addr) : option eobs :=
    match h_acf r dhcp (fst q) (snd q) g with
    | Some es =>
        Some (es_settings es, match es_client_ss es with Some _ => true | None => false end,
              verdicts global es)
    | None => None
    end.

  Definition eqb_eobs (a b : eobs) : bool :=
    match a, b with
    | (s1, e1, v1), (s2, e2, v2) => eqb_sett s1 s2 && Bool.eqb e1 e2 && eqb_list Bool.eqb v1 v2
    end.

  Definition model_hobs (r : hreg) (e : herr) : hobs :=
    (herr_code ecode e,
     map (probe_obs r) probes,
     http_get r,
     map (fun f => match f with (id, ip, mac) => option_map j_name (http_find r dhcp id ip mac) end) finds).

  Definition eqb_hobs (a b : hobs) : bool :=
    match a, b with
    | (e1, p1, g1, f1), (e2, p2, g2, f2) =>
        (e1 =? e2) && eqb_list (eqb_option eqb_eobs) p1 p2 && eqb_list eqb_cjson g1 g2 &&
        eqb_list (eqb_option eqb_bytes) f1 f2
    end.

  Fixpoint http_replay (r : hreg) (steps : list (hop * hobs)) : bool * hreg :=
    match steps with
    | [] => (true, r)
    | (o, ob) :: rest =>
        let re := http_step cfg known r o in
        if eqb_hobs (model_hobs (fst re) (snd re)) ob then http_replay (fst re) rest else (false, fst re)
    end.

  (** The container the handlers work on: what Init loaded ([None]: Init
      refused the objects; the harness then emits no history). *)
  Definition http_start (objs : list (uid * cobj)) : option hreg :=
    match load cfg known objs with
    | LOk r => Some (to_hreg r)
    | _ => None
    end.

  Definition restart_obs (r : hreg) : option (list (option eobs)) :=
    match restart cfg known r with
    | Some r' => Some (map (probe_obs r') probes)
    | None => None
    end.

  Definition http_ok (objs : list (uid * cobj)) (start : hobs) (steps : list (hop * hobs))
      (after : option (list (option eobs))) : bool :=
    match http_start objs with
    | None => false
    | Some r0 =>
        eqb_hobs (model_hobs r0 HOk) start &&
        match http_replay r0 steps with
        | (true, r) => eqb_option (eqb_list (eqb_option eqb_eobs)) (restart_obs r) after
        | (false, _) => false
        end
    end.

  Fixpoint http_explain (r : hreg) (steps : list (hop * hobs)) : list hobs :=
    match steps with
    | [] => []
    | (o, _) :: rest =>
        let re := http_step cfg known r o in
        model_hobs (fst re) (snd re) :: http_explain (fst re) rest
    end.

  Definition http_model (objs : list (uid * cobj)) (steps : list (hop * hobs)) :=
    match http_start objs with
    | None => None
    | Some r0 =>
        Some (model_hobs r0 HOk, http_explain r0 steps,
              restart_obs (hrun cfg known (map fst steps) r0))
    end.
End Http.

(** Evaluator glue for C11: runs the wrapper model on the requests the harness
    sent through the real middleware and compares status class, redirect
    target class, whether the probe handler ran, and the session table. *)
From AGH Require Import Base.Run Model.Session.
From AGH Require Export Model.AuthHttp Model.AuthLife Model.AuthMux.
From AGH Require Import Proofs.AuthGlob Gen.Routes.
From stdpp Require Import gmap.
Local Open Scope Z_scope.

Definition stable := list (bytes * (bytes * N)).     (* key of Auth.sessions (cookie string), user, expiry *)

Inductive chain_sel :=
  | KRegister (m : bytes)            (* registered through the real httpRegister *)
  | KChain (ws : list wrapper).      (* one of the other chains used in the code *)

(* [o_locked]: globalContext.controlLock was held while the probe handler ran
   (round 4; false when it did not run). *)
Record obs := { o_ran : bool; o_locked : bool; o_status : Z; o_loc : Z; o_sess : stable }.

(** The accounts the harness configures (harness/home/zz_verif_C11_test.go
    [c11Accounts]: the same constants; the harness emits one [CAccounts] case
    with the name and stored hash of every user of the real Auth object, so a
    divergence is a mismatch).  Account 0 and 1 are well-formed (bcrypt, cost
    4, "correct horse"); 2..10 are what a botched edit of users[].password
    leaves behind: truncated, plain text, empty, cost 3, version 3, no '$',
    cost 32, one character short, truncated and shadowing the well-formed
    account 11 of the same name. *)
Definition std_accounts : list (bytes * bytes) := [
  (* admin : $2a$04$/hHIwu60CZqkB0tMLFfUzeuxjUv9yNRiIgS5x4t.8fw48hPyLMx5S *)
  ([97;100;109;105;110]%N,
   [36;50;97;36;48;52;36;47;104;72;73;119;117;54;48;67;90;113;107;66;48;116;77;76;70;102;85;122;101;117;120;106;85;118;57;121;78;82;105;73;103;83;53;120;52;116;46;56;102;119;52;56;104;80;121;76;77;120;53;83]%N);
  (* second : $2a$04$ZzPhPgJ98a0vaqlMZyvDseqUHqyZ4wsi1GFKCHZUnwJIVW2VBtViO *)
  ([115;101;99;111;110;100]%N,
   [36;50;97;36;48;52;36;90;122;80;104;80;103;74;57;56;97;48;118;97;113;108;77;90;121;118;68;115;101;113;85;72;113;121;90;52;119;115;105;49;71;70;75;67;72;90;85;110;119;74;73;86;87;50;86;66;116;86;105;79]%N);
  (* trunc : $2a$04$/hHIwu60CZqkB0tMLFfUzeu *)
  ([116;114;117;110;99]%N,
   [36;50;97;36;48;52;36;47;104;72;73;119;117;54;48;67;90;113;107;66;48;116;77;76;70;102;85;122;101;117]%N);
  (* plain : correct horse *)
  ([112;108;97;105;110]%N,
   [99;111;114;114;101;99;116;32;104;111;114;115;101]%N);
  (* empty :  *)
  ([101;109;112;116;121]%N,
   (@nil N));
  (* lowcost : $2a$03$/hHIwu60CZqkB0tMLFfUzeuxjUv9yNRiIgS5x4t.8fw48hPyLMx5S *)
  ([108;111;119;99;111;115;116]%N,
   [36;50;97;36;48;51;36;47;104;72;73;119;117;54;48;67;90;113;107;66;48;116;77;76;70;102;85;122;101;117;120;106;85;118;57;121;78;82;105;73;103;83;53;120;52;116;46;56;102;119;52;56;104;80;121;76;77;120;53;83]%N);
  (* badver : $3a$04$/hHIwu60CZqkB0tMLFfUzeuxjUv9yNRiIgS5x4t.8fw48hPyLMx5S *)
  ([98;97;100;118;101;114]%N,
   [36;51;97;36;48;52;36;47;104;72;73;119;117;54;48;67;90;113;107;66;48;116;77;76;70;102;85;122;101;117;120;106;85;118;57;121;78;82;105;73;103;83;53;120;52;116;46;56;102;119;52;56;104;80;121;76;77;120;53;83]%N);
  (* badprefix : x2a$04$/hHIwu60CZqkB0tMLFfUzeuxjUv9yNRiIgS5x4t.8fw48hPyLMx5S *)
  ([98;97;100;112;114;101;102;105;120]%N,
   [120;50;97;36;48;52;36;47;104;72;73;119;117;54;48;67;90;113;107;66;48;116;77;76;70;102;85;122;101;117;120;106;85;118;57;121;78;82;105;73;103;83;53;120;52;116;46;56;102;119;52;56;104;80;121;76;77;120;53;83]%N);
  (* highcost : $2a$32$/hHIwu60CZqkB0tMLFfUzeuxjUv9yNRiIgS5x4t.8fw48hPyLMx5S *)
  ([104;105;103;104;99;111;115;116]%N,
   [36;50;97;36;51;50;36;47;104;72;73;119;117;54;48;67;90;113;107;66;48;116;77;76;70;102;85;122;101;117;120;106;85;118;57;121;78;82;105;73;103;83;53;120;52;116;46;56;102;119;52;56;104;80;121;76;77;120;53;83]%N);
  (* trunc59 : $2a$04$/hHIwu60CZqkB0tMLFfUzeuxjUv9yNRiIgS5x4t.8fw48hPyLMx5 *)
  ([116;114;117;110;99;53;57]%N,
   [36;50;97;36;48;52;36;47;104;72;73;119;117;54;48;67;90;113;107;66;48;116;77;76;70;102;85;122;101;117;120;106;85;118;57;121;78;82;105;73;103;83;53;120;52;116;46;56;102;119;52;56;104;80;121;76;77;120;53]%N);
  (* dup : $2a$04$EjM0rHn.WW5fa *)
  ([100;117;112]%N,
   [36;50;97;36;48;52;36;69;106;77;48;114;72;110;46;87;87;53;102;97]%N);
  (* dup : $2a$04$EjM0rHn.WW5faHGsdIh6FOt2j0Lbs/ekX.3n8WPovgmjjGMt1GTS. *)
  ([100;117;112]%N,
   [36;50;97;36;48;52;36;69;106;77;48;114;72;110;46;87;87;53;102;97;72;71;115;100;73;104;54;70;79;116;50;106;48;76;98;115;47;101;107;88;46;51;110;56;87;80;111;118;103;109;106;106;71;77;116;49;71;84;83;46]%N)
].

(** The bcrypt oracle as observed: (index into [us], password, answer). *)
Definition orc_in (us : list (bytes * bytes)) (t : list (N * bytes * bc_res)) : bc_oracle :=
  bc_of (map (fun '(i, p, r) => (snd (nth (N.to_nat i) us ([], [])), p, r)) t).
Definition orc : list (N * bytes * bc_res) -> bc_oracle := orc_in std_accounts.

Inductive case :=
  (* a request through a probe handler behind a real chain *)
  | CProbe (e : env) (sess : stable) (k : chain_sel) (r : request) (o : obs)
  (* a request without valid credentials through a real mux (path spellings,
     real registrations): the model side of the statement is only that the
     handler did not run *)
  | CMux (public : bool) (ran : bool)
  (* isPublicResource(p) as observed; compared with the wrapper model's
     [is_public] and with the shared model of path.Match (Base/Glob.v) *)
  | CPublic (p : bytes) (obs : bool)
  (* start-up: the real initUsers on a data directory in state [b]; observed:
     auth != nil, err != nil; then, when run would go on (err == nil), a
     request through a real chain with [globalContext.auth] as initUsers left
     it.  The model side is [boot] with the facts tools/routes read off the
     source; the two start-up flags of [e] are replaced by its verdict. *)
  | CBoot (b : boot_in) (obs_auth obs_err : bool) (probe : option (env * stable * chain_sel * request * obs))
  (* the users of the real Auth object behind every [CProbe] with [std_accounts] *)
  | CAccounts (us : list (bytes * bytes))
  (* findUser with its three callers' eyes: the real findUser(login, pw) on an
     Auth whose users are [us] ([found], and the index in [us] of the first
     account equal to the one returned); POST /control/login through
     handleLogin (status; cookie issued); basic credentials through
     postInstall(optionalAuth(probe)) (probe ran).  [t]: bcrypt as observed by
     calling it directly on every account named [login]. *)
  | CFind (us : list (bytes * bytes)) (t : list (N * bytes * bc_res)) (login pw : bytes)
          (found : bool) (idx : N) (login_status : Z) (cookie_issued : bool) (basic_ran : bool)
  (* round 4: start-up with a populated sessions.db.  [recs]: the records put
     into the bucket (raw token, user, expiry) before the process "starts";
     the real InitAuth -> loadSessions at [now0]; [loaded]: Auth.sessions as
     found after it; then requests through real chains, one after the other
     on the same Auth object (each with its own clock reading in [e_now]),
     with the table observed after each.  The model side: [Session.restart]
     on the stored records (the model of C12, used as it is), then the
     wrapper model on each request, threading the session state. *)
  | CReload (recs : stable) (now0 : N) (loaded : stable) (reqs : list (env * chain_sel * request * obs))
  (* round 5 (J): the chain was BUILT (the wrapper constructors called, the
     route registered through the real httpRegister) while the world was
     [ew]; the request was served after the world had become [e]. *)
  | CProbe2 (ew e : env) (sess : stable) (k : chain_sel) (r : request) (o : obs)
  (* round 5 (I, J): the life of an installation.  [f0]: the users: list of
     the configuration file at the beginning ([None]: no file).  Every step:
     the operation (real detectFirstRun / parseConfig / config.write /
     initUsers / newWebAPI for a boot; the wizard's last call; a save; the end
     of the process) and what was found afterwards: the process
     ([None]: none; otherwise globalContext.firstRun and Auth.users, [None]
     for a nil Auth), the users: list of the file ([None]: no file), and
     requests through the mux as it was built at boot, each through the chain
     of a probe route (the three state fields of the probe's [env] are the
     model's business, see [env_with]). *)
  | CLife (f0 : option (list account))
          (steps : list (op * (option (bool * option (list account)) * option (list account) *
                               list (env * chain_sel * request * obs))))
  (* round 6: paths nobody declared, on the mux the real setupContext made
     and the real newWebAPI (and the wizard) registered on.  [regs]: the
     declared patterns (table of tools/routes + the harness's probe routes)
     found registered on that mux ([]: right after setupContext); per path:
     the pattern the real ServeMux.Handler picked ([]: none) and whether the
     mux answered with its own redirect. *)
  | CServe (regs : list bytes) (qs : list (bytes * bytes * bool)).

(** The map in memory only: the bucket is the business of C12 (Run/C12.v). *)
Definition mk_sess (t : stable) : sstate :=
  let m := list_to_map (map (fun '(k, (u, e)) => (k, {| s_user := u; s_expire := e |})) t) : gmap bytes sess in
  {| ss_mem := m; ss_disk := ∅ |}.

Definition stab_ok (m : gmap bytes sess) (o : stable) : bool :=
  (Z.of_nat (length o) =? Z.of_nat (size m)) &&
  forallb (fun '(k, (u, e)) =>
    match m !! k with
    | Some s => eqb_bytes (s_user s) u && (s_expire s =? e)%N
    | None => false
    end) o.

(** The probe handler: remembers that it ran and whether the control lock was
    held ([None]: did not run). *)
Definition probe : bool -> handler (option bool) unit :=
  fun b _ w _ => ({| w_app := Some b; w_sess := w_sess w |}, AHandler tt).

Definition chain_of_sel (k : chain_sel) : list wrapper :=
  match k with KRegister m => http_register_chain m | KChain ws => ws end.

Definition loc_class (l : bytes) : Z :=
  if eqb_bytes l str_login_rel then 1
  else if eqb_bytes l str_install_rel then 2
  else if eqb_bytes l [] then 3
  else if eqb_bytes l str_https then 4 else 5.

(** (ran, locked, status, class of Location, session state afterwards) *)
Definition run_probe_st (e : env) (s : sstate) (k : chain_sel) (r : request) : bool * bool * Z * Z * sstate :=
  let w := {| w_app := None; w_sess := s |} in
  let '(w', a) := apply_chain_l (chain_of_sel k) probe false e w r in
  let '(st, loc) := match a with
                    | AHandler _ => (200, 0)
                    | AStatus c => (c, 0)
                    | ARedirect c l => (c, loc_class l)
                    end in
  (match w_app w' with Some _ => true | None => false end,
   match w_app w' with Some b => b | None => false end, st, loc, w_sess w').

Definition run_probe (e : env) (sess : stable) (k : chain_sel) (r : request) : bool * bool * Z * Z * gmap bytes Session.sess :=
  let '(ran, lk, st, loc, s') := run_probe_st e (mk_sess sess) k r in (ran, lk, st, loc, ss_mem s').

Definition obs_ok (o : obs) (x : bool * bool * Z * Z * gmap bytes Session.sess) : bool :=
  let '(ran, lk, st, loc, m) := x in
  Bool.eqb ran (o_ran o) && Bool.eqb lk (o_locked o) && (st =? o_status o) && (loc =? o_loc o) && stab_ok m (o_sess o).

(** sessions.db before the start: the bucket only. *)
Definition mk_stored (t : stable) : sstate :=
  {| ss_mem := ∅;
     ss_disk := list_to_map (map (fun '(k, (u, e)) => (k, {| s_user := u; s_expire := e |})) t) |}.

Fixpoint reload_reqs (s : sstate) (reqs : list (env * chain_sel * request * obs)) : bool :=
  match reqs with
  | [] => true
  | (e, k, r, o) :: reqs' =>
      let '(ran, lk, st, loc, s') := run_probe_st e s k r in
      obs_ok o (ran, lk, st, loc, ss_mem s') && reload_reqs s' reqs'
  end.

(** Round 5 (J): the evaluator runs the chain through [apply_chain_l_at],
    which gets the world of the construction as well. *)
Definition run_probe_at (ew e : env) (sess : stable) (k : chain_sel) (r : request) : bool * bool * Z * Z * gmap bytes Session.sess :=
  let w := {| w_app := None; w_sess := mk_sess sess |} in
  let '(w', a) := apply_chain_l_at (chain_of_sel k) ew probe false e w r in
  let '(st, loc) := match a with
                    | AHandler _ => (200, 0)
                    | AStatus c => (c, 0)
                    | ARedirect c l => (c, loc_class l)
                    end in
  (match w_app w' with Some _ => true | None => false end,
   match w_app w' with Some b => b | None => false end, st, loc, ss_mem (w_sess w')).

(** Round 5 (I): the replay of a history.  usersList and the start-up facts
    are the code's ([users_list], [Gen.Routes.startup]). *)
Definition life_obs := (option (bool * option (list account)) * option (list account) * list (env * chain_sel * request * obs))%type.

Definition life_step_ok (st' : life) (x : life_obs) : bool :=
  let '(oproc, ofile, probes) := x in
  bool_decide (l_file st' = ofile) &&
  match l_proc st', oproc with
  | None, None => match probes with [] => true | _ => false end
  | Some p, Some (fr, au) =>
      Bool.eqb (p_first_run p) fr && bool_decide (p_auth p = au) &&
      forallb (fun '(e, k, r, o) => obs_ok o (run_probe (env_with p e) [] k r)) probes
  | _, _ => false
  end.

Fixpoint life_ok (st : life) (steps : list (op * life_obs)) : bool :=
  match steps with
  | [] => true
  | (o, x) :: rest =>
      let st' := step users_list Gen.Routes.startup st o in
      life_step_ok st' x && life_ok st' rest
  end.

(** Round 6: what the mux model picks for a path, as the harness observes it. *)
Definition serve_obs (regs : list bytes) (path : bytes) : bytes * bool :=
  match mux_find (map (fun p => (p, tt)) regs) path with
  | FServe p _ => (p, false)
  | FRedirect to => (to, true)
  | FNone => ([], false)
  end.

Definition str_verif_life : bytes := [118;101;114;105;102;95;108;105;102;101]%N.   (* verif_life *)

(** A pattern the module declares (Gen/Routes.v) or a probe route of the harness. *)
Definition declared_pat (p : bytes) : bool :=
  existsb (fun rt => eqb_bytes (rt_pattern rt) p) Gen.Routes.routes || contains_sub str_verif_life p.

Definition serve_q_ok (regs : list bytes) (q : bytes * bytes * bool) : bool :=
  let '(path, op, ord) := q in
  let '(mp, mr) := serve_obs regs path in
  eqb_bytes mp op && Bool.eqb mr ord.

Definition case_ok (c : case) : bool :=
  match c with
  | CProbe e sess k r o =>
      obs_ok o (run_probe e sess k r)
  | CMux public ran => public || negb ran
  | CPublic p o =>
      Bool.eqb (is_public p) o &&
      match glob_public p with Some b => Bool.eqb b o | None => false end
  | CBoot b oa oe pr =>
      let '(a, err) := init_users Gen.Routes.startup b in
      Bool.eqb a oa && Bool.eqb err oe &&
      match boot Gen.Routes.startup b, pr with
      | BootFatal, None => true
      | BootServe p u, Some (e, sess, k, r, o) =>
          obs_ok o (run_probe (with_boot p u e) sess k r)
      | _, _ => false
      end
  | CAccounts us => bool_decide (us = std_accounts)
  | CFind us t l p found idx st ck ran =>
      let bc := orc_in us t in
      let res := find_user bc us l p in
      let ok := match res with Some _ => true | None => false end in
      Bool.eqb ok found &&
      match res with
      | Some u => bool_decide (nth (N.to_nat idx) us ([], []) = u)
      | None => true
      end &&
      (st =? (if ok then 200 else 403)) && Bool.eqb ck ok &&
      (* basic credentials behind the chain of /control/version.json *)
      let e := {| e_first_run := false; e_auth_present := true; e_accounts := us; e_bcrypt := bc;
                  e_https := false; e_force_https := false; e_now := 0; e_ttl := 0 |} in
      let r := {| r_method := str_GET; r_path := [47;112]%N; r_ctype := []; r_clen := 0; r_cookie := CNone;
                  r_basic := BCred l p; r_tls := false; r_host_ok := true; r_hdrs := [] |} in
      let '(ran', _, _, _, _) := run_probe e [] (KChain [WPostInstall; WOptionalAuth]) r in
      Bool.eqb ran' ran
  | CReload recs now0 loaded reqs =>
      let s1 := restart now0 (mk_stored recs) in
      stab_ok (ss_mem s1) loaded && reload_reqs s1 reqs
  | CProbe2 ew e sess k r o => obs_ok o (run_probe_at ew e sess k r)
  | CLife f0 steps => life_ok {| l_file := f0; l_proc := None |} steps
  | CServe regs qs => forallb declared_pat regs && forallb (serve_q_ok regs) qs
  end.

Definition mismatches := Base.Run.mismatches case_ok.

Definition explain (c : case) : bool * Z * Z * stable :=
  match c with
  | CProbe e sess k r _ =>
      let '(ran, _, st, loc, m) := run_probe e sess k r in
      (ran, st, loc, map (fun '(k, s) => (k, (s_user s, s_expire s))) (map_to_list m))
  | CMux _ _ => (false, 0, 0, [])
  | CPublic p _ => (is_public p, match glob_public p with Some true => 1 | Some false => 0 | None => -1 end, 0, [])
  | CBoot b _ _ pr =>
      match boot Gen.Routes.startup b, pr with
      | BootServe p u, Some (e, sess, k, r, _) =>
          let '(ran, _, st, loc, m) := run_probe (with_boot p u e) sess k r in
          (ran, st, loc, map (fun '(k, s) => (k, (s_user s, s_expire s))) (map_to_list m))
      | BootServe p u, None => (p, -2, 0, [])
      | BootFatal, _ => (false, -1, 0, [])
      end
  | CAccounts us => (bool_decide (us = std_accounts), 0, 0, [])
  | CFind us t l p _ _ _ _ _ =>
      match find_user (orc_in us t) us l p with
      | Some (n, h) => (true, 200, 0, [(n, (h, 0%N))])
      | None => (false, 403, 0, [])
      end
  | CReload recs now0 _ reqs =>
      (* the table the model loads, and whether the LAST request runs *)
      let s1 := restart now0 (mk_stored recs) in
      let fin := fold_left (fun '(s, _) '(e, k, r, _) =>
                              let '(ran, _, st, _, s') := run_probe_st e s k r in (s', (ran, st)))
                           reqs (s1, (false, 0)) in
      (fst (snd fin), snd (snd fin), 0, map (fun '(k, s) => (k, (s_user s, s_expire s))) (map_to_list (ss_mem s1)))
  | CProbe2 ew e sess k r _ =>
      let '(ran, _, st, loc, m) := run_probe_at ew e sess k r in
      (ran, st, loc, map (fun '(k, s) => (k, (s_user s, s_expire s))) (map_to_list m))
  | CLife f0 steps =>
      (* the model's final state: is a process running and does it require
         authentication; the number of the first step that disagrees (0: none);
         the number of accounts in the file (-1: no file); the file's accounts *)
      let fin := fold_left (fun '(st, i, bad) '(o, x) =>
                              let st' := step users_list Gen.Routes.startup st o in
                              (st', i + 1, if (bad =? 0) && negb (life_step_ok st' x) then i + 1 else bad))
                           steps ({| l_file := f0; l_proc := None |}, 0, 0) in
      let st := fst (fst fin) in
      (match l_proc st with Some p => proc_auth_present p && non_empty (proc_users p) | None => false end,
       snd fin,
       match l_file st with Some us => Z.of_nat (length us) | None => -1 end,
       match l_file st with Some us => map (fun '(n, h) => (n, (h, 0%N))) us | None => [] end)
  | CServe regs qs =>
      (* are all registered patterns declared ones; the number of the first
         path the model answers differently (0: none); per path: the pattern
         the model picks and whether it is the mux's redirect *)
      (forallb declared_pat regs,
       snd (fold_left (fun '(i, bad) q => (i + 1, if (bad =? 0) && negb (serve_q_ok regs q) then i + 1 else bad)) qs (0, 0)),
       Z.of_nat (length regs),
       map (fun '(path, _, _) => let '(mp, mr) := serve_obs regs path in (path, (mp, if mr then 1%N else 0%N))) qs)
  end.

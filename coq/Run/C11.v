(** Evaluator glue for C11: runs the wrapper model on the requests the harness
    sent through the real middleware and compares status class, redirect
    target class, whether the probe handler ran, and the session table. *)
From AGH Require Import Base.Run Model.Session.
From AGH Require Export Model.AuthHttp.
From AGH Require Import Proofs.AuthGlob Gen.Routes.
From stdpp Require Import gmap.
Local Open Scope Z_scope.

Definition stable := list (bytes * (bytes * N)).     (* key of Auth.sessions (cookie string), user, expiry *)

Inductive chain_sel :=
  | KRegister (m : bytes)            (* registered through the real httpRegister *)
  | KChain (ws : list wrapper).      (* one of the other chains used in the code *)

Record obs := { o_ran : bool; o_status : Z; o_loc : Z; o_sess : stable }.

Inductive case :=
  (* a request through a probe handler behind a real chain *)
  | CProbe (e : env) (sess : stable) (k : chain_sel) (r : request) (o : obs)
  (* a request without valid credentials through a real mux (path spellings,
     real registrations): the model side of the statement is only that the
     handler did not run *)
  | CMux (public : bool) (ran : bool)
  (* isPublicResource(p) as observed; compared with the wrapper model's
     [is_public] and with the shared model of path.Match (Base/Glob.v) *)
  | CPublic (p : bytes) (obs : bool)
  (* start-up: the real initUsers on a data directory in state [b]; observed:
     auth != nil, err != nil; then, when run would go on (err == nil), a
     request through a real chain with [globalContext.auth] as initUsers left
     it.  The model side is [boot] with the facts tools/routes read off the
     source; the two start-up flags of [e] are replaced by its verdict. *)
  | CBoot (b : boot_in) (obs_auth obs_err : bool) (probe : option (env * stable * chain_sel * request * obs)).

(** The map in memory only: the bucket is the business of C12 (Run/C12.v). *)
Definition mk_sess (t : stable) : sstate :=
  let m := list_to_map (map (fun '(k, (u, e)) => (k, {| s_user := u; s_expire := e |})) t) : gmap bytes sess in
  {| ss_mem := m; ss_disk := ∅ |}.

Definition stab_ok (m : gmap bytes sess) (o : stable) : bool :=
  (Z.of_nat (length o) =? Z.of_nat (size m)) &&
  forallb (fun '(k, (u, e)) =>
    match m !! k with
    | Some s => eqb_bytes (s_user s) u && (s_expire s =? e)%N
    | None => false
    end) o.

Definition probe : handler bool unit :=
  fun _ w _ => ({| w_app := true; w_sess := w_sess w |}, AHandler tt).

Definition chain_of_sel (k : chain_sel) : list wrapper :=
  match k with KRegister m => http_register_chain m | KChain ws => ws end.

Definition loc_class (l : bytes) : Z :=
  if eqb_bytes l str_login_rel then 1
  else if eqb_bytes l str_install_rel then 2
  else if eqb_bytes l [] then 3
  else if eqb_bytes l str_https then 4 else 5.

Definition run_probe (e : env) (sess : stable) (k : chain_sel) (r : request) : bool * Z * Z * gmap bytes Session.sess :=
  let w := {| w_app := false; w_sess := mk_sess sess |} in
  let '(w', a) := apply_chain (chain_of_sel k) probe e w r in
  let '(st, loc) := match a with
                    | AHandler _ => (200, 0)
                    | AStatus c => (c, 0)
                    | ARedirect c l => (c, loc_class l)
                    end in
  (w_app w', st, loc, ss_mem (w_sess w')).

Definition case_ok (c : case) : bool :=
  match c with
  | CProbe e sess k r o =>
      let '(ran, st, loc, m) := run_probe e sess k r in
      Bool.eqb ran (o_ran o) && (st =? o_status o) && (loc =? o_loc o) && stab_ok m (o_sess o)
  | CMux public ran => public || negb ran
  | CPublic p o =>
      Bool.eqb (is_public p) o &&
      match glob_public p with Some b => Bool.eqb b o | None => false end
  | CBoot b oa oe pr =>
      let '(a, err) := init_users Gen.Routes.startup b in
      Bool.eqb a oa && Bool.eqb err oe &&
      match boot Gen.Routes.startup b, pr with
      | BootFatal, None => true
      | BootServe p u, Some (e, sess, k, r, o) =>
          let '(ran, st, loc, m) := run_probe (with_boot p u e) sess k r in
          Bool.eqb ran (o_ran o) && (st =? o_status o) && (loc =? o_loc o) && stab_ok m (o_sess o)
      | _, _ => false
      end
  end.

Definition mismatches := Base.Run.mismatches case_ok.

Definition explain (c : case) : bool * Z * Z * stable :=
  match c with
  | CProbe e sess k r _ =>
      let '(ran, st, loc, m) := run_probe e sess k r in
      (ran, st, loc, map (fun '(k, s) => (k, (s_user s, s_expire s))) (map_to_list m))
  | CMux _ _ => (false, 0, 0, [])
  | CPublic p _ => (is_public p, match glob_public p with Some true => 1 | Some false => 0 | None => -1 end, 0, [])
  | CBoot b _ _ pr =>
      match boot Gen.Routes.startup b, pr with
      | BootServe p u, Some (e, sess, k, r, _) =>
          let '(ran, st, loc, m) := run_probe (with_boot p u e) sess k r in
          (ran, st, loc, map (fun '(k, s) => (k, (s_user s, s_expire s))) (map_to_list m))
      | BootServe p u, None => (p, -2, 0, [])
      | BootFatal, _ => (false, -1, 0, [])
      end
  end.

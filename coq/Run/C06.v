(** Evaluator glue for C06: runs the model of the legacy rewrites on the
    tables and queries the harness ran processRewrites / CheckHost on. *)
From Coq Require Export String.
From Coq Require Import NArith List.
From AGH Require Import Base.Run Model.Rewrites Model.RewritesEdit Model.RewritesCache.
Import ListNotations.
Local Open Scope N_scope.

(** What the implementation was observed to do for one call. *)
Inductive obs :=
  | Timeout                      (* did not return before the watchdog fired *)
  | Panicked
  (* reason (0 NotFilteredNotFound, 1 Rewritten, 2 anything else), canonical
     name, addresses (family flag, value) in any order *)
  | Res (reason : N) (canon : string) (ips : list (bool * N))
  (* the same with Result.CanonNameRewritten set (fix 2e58a5d) *)
  | ResC (reason : N) (canon : string) (ips : list (bool * N)).

(** Response side: an answer record (owner, data) and what the client
    received for one query. *)
Inductive xrr :=
  | XC (owner target : string) | XA (owner : string) (v : N)
  | X6 (owner : string) (v : N) | XO (owner : string) (rrtype : N).

Inductive robs :=
  | RTimeout
  | RErr
  (* upstream questions, question name of the delivered message, rcode, answer *)
  | RObs (calls : list (string * N)) (qname : string) (rcode : N) (ans : list xrr)
  (* the handler returned an error; the message it left to be sent *)
  | RFail (calls : list (string * N)) (qname : string) (rcode : N) (ans : list xrr).

(** Edit histories (Model/RewritesEdit.v): a request as sent, and what was
    observed after it: the list GET /control/rewrite/list reports and
    CheckHost for every queried name x {A, AAAA, third type}, in that order. *)
Inductive xop :=
  | XAdd (d a : string) | XDel (d a : string) | XUpd (td ta nd na : string) | XBad.

Inductive sobs := SO (l : list (string * string)) (os : list obs).

Inductive case :=
  (* an edit history through the HTTP handlers: the texts netip.ParseAddr
     accepts (every other text is no address), the queried names, the third
     query type, the configured table, the observation before any request,
     and per request: the request, the status class (0 = 200, 1 = 400,
     2 = anything else), the observation after it *)
  | CEdit (orc : list (string * (bool * N))) (qn : list string) (q3 : N)
          (init : list (string * string)) (s0 : sobs)
          (steps : list (xop * N * sobs))
  (* the same kind of table served by a dnsforward.Server with the DNS cache
     ON: ONE history of queries (name, qtype, observed response) against one
     server, first questions and their repetitions *)
  | CCache (enabled : bool) (tbl : list (string * string * option (bool * N)))
           (qs : list (string * N * robs))
  (* the same table, served by a dnsforward.Server with the scripted
     upstream [ups]; queries: name, qtype, observed response *)
  | CResp (enabled : bool) (tbl : list (string * string * option (bool * N)))
          (qs : list (string * N * robs))
  (* FilteringEnabled; the configured table (domain, answer, what
     netip.ParseAddr returned for the answer); queries: host, qtype,
     observed processRewrites, observed CheckHost *)
  | CTab (enabled : bool) (tbl : list (string * string * option (bool * N)))
         (qs : list (string * N * obs * obs)).

(** Short constructors for the generated case files (their argument types
    put string and N literals in the right scopes). *)
Definition I4 (v : N) : bool * N := (true, v).
Definition I6 (v : N) : bool * N := (false, v).
Definition E (d a : string) (p : option (bool * N)) := (d, a, p).
Definition Q (h : string) (qt : N) (o1 o2 : obs) := (h, qt, o1, o2).
Definition QR (h : string) (qt : N) (o : robs) := (h, qt, o).

Definition P (d a : string) := (d, a).
Definition QN (s : string) : string := s.
Definition OR (s : string) (p : bool * N) := (s, p).
Definition ST (o : xop) (st : N) (so : sobs) := (o, st, so).

Definition mk_ip (p : bool * N) : ip := {| ip_is4 := fst p; ip_val := snd p |}.

Definition mk_raw (t : string * string * option (bool * N)) : raw :=
  let '(d, a, p) := t in
  {| w_dom := bs d; w_ans := bs a; w_parse := option_map mk_ip p |}.

Definition table (tbl : list (string * string * option (bool * N))) : list entry :=
  map normalize (map mk_raw tbl).

Definition count_ip (x : ip) (l : list ip) : nat := length (filter (eqb_ip x) l).

(** Equality of address multisets. *)
Definition same_ips (l1 l2 : list ip) : bool :=
  Nat.eqb (length l1) (length l2) &&
  forallb (fun x => Nat.eqb (count_ip x l1) (count_ip x l2)) l1.

Definition reason_code (r : reason) : N :=
  match r with NotFound => 0 | Rewritten => 1 end.

(** [mc]: Result.CanonNameRewritten as the model computes it. *)
Definition obs_ok (m : option rw_result) (mc : option bool) (o : obs) : bool :=
  match m, o with
  | None, Timeout => true
  | Some r, Res c canon ips =>
      (reason_code (r_reason r) =? c) && eqb_bytes (r_canon r) (bs canon) &&
      same_ips (r_ips r) (map mk_ip ips) &&
      match mc with Some false => true | _ => false end
  | Some r, ResC c canon ips =>
      (reason_code (r_reason r) =? c) && eqb_bytes (r_canon r) (bs canon) &&
      same_ips (r_ips r) (map mk_ip ips) &&
      match mc with Some true => true | _ => false end
  | _, _ => false
  end.

Definition query_ok (enabled : bool) (t : list entry) (q : string * N * obs * obs) : bool :=
  let '(h, qt, o1, o2) := q in
  obs_ok (process_rewrites isort t (bs h) qt) (process_rewrites_covered isort t (bs h) qt) o1 &&
  obs_ok (check_host isort enabled t (bs h) qt) (check_host_covered isort enabled t (bs h) qt) o2.

(** The scripted upstream of the response harness (c06rUpstream in Go), by
    the suffix of the lower-cased name asked: ".down" the exchange fails;
    ".example" NXDOMAIN, ".fail" SERVFAIL, ".nodata" NOERROR, all three with
    an empty answer section; ".multi" two address records and one TXT
    record for a TXT question; for an A / AAAA question ".cdn" / ".cdn2" /
    ".cdn3" a CNAME chain of the upstream's own (1 / 2 / 3 records) before
    the address, ".cnameonly" a CNAME and no address, ".oddorder" the address
    before a CNAME, ".otherfirst" a TXT record before the address; else one
    A 9.9.9.9 / one AAAA 2001:db8::9 for the name asked, nothing for other
    types. *)
Definition edge1 := bs "edge1.cdn.net".
Definition edge2 := bs "edge2.cdn.net".
Definition edge3 := bs "edge3.cdn.net".
Definition ups_addr (qt : N) (owner : bytes) : rr :=
  if qt =? qA then RR_A owner 151587081 else RR_AAAA owner 42540766411282592856903984951653826569.

Definition ups (name : bytes) (qt : N) : option (N * list rr) :=
  let l := to_lower name in
  if has_suffix l (bs ".down") then None
  else if has_suffix l (bs ".example") then Some (3, [])
  else if has_suffix l (bs ".fail") then Some (2, [])
  else if has_suffix l (bs ".nodata") then Some (0, [])
  else if (qt =? 16) && has_suffix l (bs ".multi") then Some (0, [RR_OTHER name 16])   (* TXT *)
  (* round 8: the shape of the answer to an A / AAAA question *)
  else if is_addr_q qt && has_suffix l (bs ".cdn") then
    Some (0, [RR_CNAME name edge1; ups_addr qt edge1])
  else if is_addr_q qt && has_suffix l (bs ".cdn2") then
    Some (0, [RR_CNAME name edge1; RR_CNAME edge1 edge2; ups_addr qt edge2])
  else if is_addr_q qt && has_suffix l (bs ".cdn3") then
    Some (0, [RR_CNAME name edge1; RR_CNAME edge1 edge2; RR_CNAME edge2 edge3; ups_addr qt edge3])
  else if is_addr_q qt && has_suffix l (bs ".cnameonly") then Some (0, [RR_CNAME name edge1])
  else if is_addr_q qt && has_suffix l (bs ".oddorder") then
    Some (0, [ups_addr qt name; RR_CNAME name edge1])
  else if is_addr_q qt && has_suffix l (bs ".otherfirst") then
    Some (0, [RR_OTHER name 16; ups_addr qt name])
  else if qt =? qA then
    Some (0, RR_A name 151587081 ::                                          (* 9.9.9.9 *)
             (if has_suffix l (bs ".multi") then [RR_A name 151587082] else []))
  else if qt =? qAAAA then
    Some (0, RR_AAAA name 42540766411282592856903984951653826569 ::          (* 2001:db8::9 *)
             (if has_suffix l (bs ".multi") then [RR_AAAA name 42540766411282592856903984951653826570] else []))
  else Some (0, []).

Definition mk_rr (x : xrr) : rr :=
  match x with
  | XC o t => RR_CNAME (bs o) (bs t) | XA o v => RR_A (bs o) v
  | X6 o v => RR_AAAA (bs o) v | XO o t => RR_OTHER (bs o) t
  end.

Definition eqb_rr (a b : rr) : bool :=
  match a, b with
  | RR_CNAME o t, RR_CNAME o' t' => eqb_bytes o o' && eqb_bytes t t'
  | RR_A o v, RR_A o' v' => eqb_bytes o o' && (v =? v')
  | RR_AAAA o v, RR_AAAA o' v' => eqb_bytes o o' && (v =? v')
  | RR_OTHER o t, RR_OTHER o' t' => eqb_bytes o o' && (t =? t')
  | _, _ => false
  end.

(** Same records; the first in the same place (the CNAME), the rest in any order. *)
Definition same_rrs (l1 l2 : list rr) : bool :=
  Nat.eqb (List.length l1) (List.length l2) &&
  forallb (fun x => Nat.eqb (List.length (filter (eqb_rr x) l1)) (List.length (filter (eqb_rr x) l2))) l1 &&
  match l1, l2 with a :: _, b :: _ => eqb_rr a b | _, _ => true end.

Definition eqb_call (a b : bytes * N) : bool := eqb_bytes (fst a) (fst b) && (snd a =? snd b).

Definition resp_matches (p : response) (calls : list (string * N)) (qn : string) (rc : N)
    (ans : list xrr) : bool :=
  eqb_list eqb_call (rp_upstream p) (map (fun c : string * N => (bs (fst c), snd c)) calls) &&
  eqb_bytes (rp_qname p) (bs qn) && (rp_rcode p =? rc) &&
  same_rrs (rp_answer p) (map mk_rr ans).

Definition robs_ok (m : option (bool * response)) (o : robs) : bool :=
  match m, o with
  | None, RTimeout => true
  | Some (false, p), RObs calls qn rc ans => resp_matches p calls qn rc ans
  | Some (true, p), RFail calls qn rc ans => resp_matches p calls qn rc ans
  | _, _ => false
  end.

Definition rquery_ok (enabled : bool) (t : list entry) (q : string * N * robs) : bool :=
  let '(h, qt, o) := q in robs_ok (respond_e isort ups enabled t (bs h) qt) o.

(** ** The cache history: the cache state is threaded through the queries. *)
Fixpoint cache_ok (enabled : bool) (t : list entry) (c : cache) (qs : list (string * N * robs)) : bool :=
  match qs with
  | [] => true
  | (h, qt, o) :: rest =>
      match respond_c isort ups enabled t c (bs h) qt with
      | None => match o with RTimeout => true | _ => false end
      | Some (c', m) => robs_ok (Some m) o && cache_ok enabled t c' rest
      end
  end.

(** ** Edit histories *)

(** netip.ParseAddr as recorded by the harness. *)
Definition parse_of (orc : list (bytes * ip)) (a : bytes) : option ip :=
  match find (fun p => eqb_bytes (fst p) a) orc with
  | Some p => Some (snd p)
  | None => None
  end.

Definition mk_orc (orc : list (string * (bool * N))) : list (bytes * ip) :=
  map (fun p : string * (bool * N) => (bs (fst p), mk_ip (snd p))) orc.

Definition mk_pair (p : string * string) : bytes * bytes := (bs (fst p), bs (snd p)).

Definition mk_op (o : xop) : eop :=
  match o with
  | XAdd d a => EAdd (bs d) (bs a)
  | XDel d a => EDel (bs d) (bs a)
  | XUpd td ta nd na => EUpd (bs td) (bs ta) (bs nd) (bs na)
  | XBad => EBad
  end.

Definition status_code (s : status) : N := match s with StOK => 0 | StBad => 1 end.

Fixpoint all2 {A B} (f : A -> B -> bool) (l1 : list A) (l2 : list B) : bool :=
  match l1, l2 with
  | [], [] => true
  | a :: l1, b :: l2 => f a b && all2 f l1 l2
  | _, _ => false
  end.

Definition eqb_pair (a b : bytes * bytes) : bool :=
  eqb_bytes (fst a) (fst b) && eqb_bytes (snd a) (snd b).

Definition edit_queries (qn : list string) (q3 : N) : list (bytes * N) :=
  flat_map (fun h : string => let b := bs h in [(b, qA); (b, qAAAA); (b, q3)]) qn.

Definition list_ok (tbl : list entry) (so : sobs) : bool :=
  let 'SO l _ := so in eqb_list eqb_pair (reported tbl) (map mk_pair l).

Definition answers_ok (qs : list (bytes * N)) (tbl : list entry) (so : sobs) : bool :=
  let 'SO _ os := so in
  all2 (fun (q : bytes * N) o => obs_ok (check_host isort true tbl (fst q) (snd q))
                                        (check_host_covered isort true tbl (fst q) (snd q)) o) qs os.

Fixpoint steps_ok (parse : bytes -> option ip) (qs : list (bytes * N)) (tbl : list entry)
    (steps : list (xop * N * sobs)) : bool :=
  match steps with
  | [] => true
  | (o, st, so) :: rest =>
      let '(tbl', s) := apply_op parse tbl (mk_op o) in
      (status_code s =? st) && list_ok tbl' so && answers_ok qs tbl' so &&
      steps_ok parse qs tbl' rest
  end.

Definition edit_ok orc qn q3 (init : list (string * string)) s0 steps : bool :=
  let parse := parse_of (mk_orc orc) in
  let qs := edit_queries qn q3 in
  let tbl := load parse (map mk_pair init) in
  list_ok tbl s0 && answers_ok qs tbl s0 && steps_ok parse qs tbl steps.

Definition case_ok (c : case) : bool :=
  match c with
  | CEdit orc qn q3 init s0 steps => edit_ok orc qn q3 init s0 steps
  | CCache en tbl qs => cache_ok en (table tbl) [] qs
  | CResp en tbl qs => let t := table tbl in forallb (rquery_ok en t) qs
  | CTab en tbl qs => let t := table tbl in forallb (query_ok en t) qs
  end.

Definition mismatches := Base.Run.mismatches case_ok.

(** For replay files: per query, what the model computes (fuel exhaustion is
    reason 9) and whether it agrees with the observation. *)
Definition show (m : option rw_result) : N * bytes * list (bool * N) :=
  match m with
  | None => (9, [], [])
  | Some r => (reason_code (r_reason r), r_canon r,
               map (fun i => (ip_is4 i, ip_val i)) (r_ips r))
  end.

(** Replay of an edit history: per observation point one line
    (status and list agree, (model status, first stored domain, []),
    (number of stored entries, [], [])), then one line per query. *)
Definition explain_point (qs : list (bytes * N)) (tbl : list entry) (stat_ok : bool)
    (st : N) (so : sobs) :=
  (stat_ok && list_ok tbl so,
   (st, match tbl with e :: _ => e_dom e | [] => [] end, @nil (bool * N)),
   (N.of_nat (List.length tbl), @nil N, @nil (bool * N))) ::
  (let 'SO _ os := so in
   map (fun q : bytes * N =>
          (true, show (check_host isort true tbl (fst q) (snd q)), (snd q, fst q, @nil (bool * N))))
       qs ++
   [(answers_ok qs tbl so, (N.of_nat (List.length os), @nil N, @nil (bool * N)),
     (N.of_nat (List.length qs), @nil N, @nil (bool * N)))]).

Fixpoint explain_steps (parse : bytes -> option ip) (qs : list (bytes * N)) (tbl : list entry)
    (steps : list (xop * N * sobs)) :=
  match steps with
  | [] => []
  | (o, st, so) :: rest =>
      let '(tbl', s) := apply_op parse tbl (mk_op o) in
      explain_point qs tbl' (status_code s =? st) (status_code s) so ++
      explain_steps parse qs tbl' rest
  end.

(** Replay of a cache history: per query (agrees, (rcode (+100 when the
    handler failed), question name, []), (upstream calls, first name asked,
    addresses)); the cache state is threaded as in [cache_ok]. *)
Fixpoint explain_cache (enabled : bool) (t : list entry) (c : cache) (qs : list (string * N * robs)) :=
  match qs with
  | [] => []
  | (h, qt, o) :: rest =>
      match respond_c isort ups enabled t c (bs h) qt with
      | None => [(match o with RTimeout => true | _ => false end, (9, [], @nil (bool * N)), (0, @nil N, @nil (bool * N)))]
      | Some (c', (f, p)) =>
          (robs_ok (Some (f, p)) o,
           (rp_rcode p + (if f then 100 else 0), rp_qname p, @nil (bool * N)),
           (N.of_nat (List.length (rp_upstream p)),
            match rp_upstream p with x :: _ => fst x | [] => [] end,
            map (fun r => match r with RR_A _ v => (true, v) | RR_AAAA _ v => (false, v)
                                   | _ => (false, 0) end) (rp_answer p)))
          :: explain_cache enabled t c' rest
      end
  end.

Definition explain (c : case) :=
  match c with
  | CEdit orc qn q3 init s0 steps =>
      let parse := parse_of (mk_orc orc) in
      let qs := edit_queries qn q3 in
      let tbl := load parse (map mk_pair init) in
      explain_point qs tbl true 0 s0 ++ explain_steps parse qs tbl steps
  | CCache en tbl qs => explain_cache en (table tbl) [] qs
  | CResp en tbl qs =>
      let t := table tbl in
      map (fun q : string * N * robs =>
             let '(h, qt, _) := q in
             (rquery_ok en t q,
              match respond_e isort ups en t (bs h) qt with
              | None => (9, [], [])
              | Some (f, p) => (rp_rcode p + (if f then 100 else 0), rp_qname p, [])
              end,
              match respond_e isort ups en t (bs h) qt with
              | None => (9, [], [])
              | Some (_, p) => (N.of_nat (List.length (rp_upstream p)),
                           match rp_upstream p with c :: _ => fst c | [] => [] end,
                           map (fun r => match r with RR_A _ v => (true, v) | RR_AAAA _ v => (false, v)
                                          | _ => (false, 0) end) (rp_answer p))
              end)) qs
  | CTab en tbl qs =>
      let t := table tbl in
      map (fun q : string * N * obs * obs =>
             let '(h, qt, _, _) := q in
             (query_ok en t q,
              show (process_rewrites isort t (bs h) qt),
              show (check_host isort en t (bs h) qt))) qs
  end.

(** Evaluator glue for C06: runs the model of the legacy rewrites on the
    tables and queries the harness ran processRewrites / CheckHost on. *)
From Coq Require Export String.
From AGH Require Import Base.Run Model.Rewrites.
Local Open Scope N_scope.

(** What the implementation was observed to do for one call. *)
Inductive obs :=
  | Timeout                      (* did not return before the watchdog fired *)
  | Panicked
  (* reason (0 NotFilteredNotFound, 1 Rewritten, 2 anything else), canonical
     name, addresses (family flag, value) in any order *)
  | Res (reason : N) (canon : string) (ips : list (bool * N)).

Inductive case :=
  (* FilteringEnabled; the configured table (domain, answer, what
     netip.ParseAddr returned for the answer); queries: host, qtype,
     observed processRewrites, observed CheckHost *)
  | CTab (enabled : bool) (tbl : list (string * string * option (bool * N)))
         (qs : list (string * N * obs * obs)).

(** Short constructors for the generated case files (their argument types
    put string and N literals in the right scopes). *)
Definition I4 (v : N) : bool * N := (true, v).
Definition I6 (v : N) : bool * N := (false, v).
Definition E (d a : string) (p : option (bool * N)) := (d, a, p).
Definition Q (h : string) (qt : N) (o1 o2 : obs) := (h, qt, o1, o2).

Definition mk_ip (p : bool * N) : ip := {| ip_is4 := fst p; ip_val := snd p |}.

Definition mk_raw (t : string * string * option (bool * N)) : raw :=
  let '(d, a, p) := t in
  {| w_dom := bs d; w_ans := bs a; w_parse := option_map mk_ip p |}.

Definition table (tbl : list (string * string * option (bool * N))) : list entry :=
  map normalize (map mk_raw tbl).

Definition count_ip (x : ip) (l : list ip) : nat := length (filter (eqb_ip x) l).

(** Equality of address multisets. *)
Definition same_ips (l1 l2 : list ip) : bool :=
  Nat.eqb (length l1) (length l2) &&
  forallb (fun x => Nat.eqb (count_ip x l1) (count_ip x l2)) l1.

Definition reason_code (r : reason) : N :=
  match r with NotFound => 0 | Rewritten => 1 end.

Definition obs_ok (m : option rw_result) (o : obs) : bool :=
  match m, o with
  | None, Timeout => true
  | Some r, Res c canon ips =>
      (reason_code (r_reason r) =? c) && eqb_bytes (r_canon r) (bs canon) &&
      same_ips (r_ips r) (map mk_ip ips)
  | _, _ => false
  end.

Definition query_ok (enabled : bool) (t : list entry) (q : string * N * obs * obs) : bool :=
  let '(h, qt, o1, o2) := q in
  obs_ok (process_rewrites isort t (bs h) qt) o1 &&
  obs_ok (check_host isort enabled t (bs h) qt) o2.

Definition case_ok (c : case) : bool :=
  match c with
  | CTab en tbl qs => let t := table tbl in forallb (query_ok en t) qs
  end.

Definition mismatches := Base.Run.mismatches case_ok.

(** For replay files: per query, what the model computes (fuel exhaustion is
    reason 9) and whether it agrees with the observation. *)
Definition show (m : option rw_result) : N * bytes * list (bool * N) :=
  match m with
  | None => (9, [], [])
  | Some r => (reason_code (r_reason r), r_canon r,
               map (fun i => (ip_is4 i, ip_val i)) (r_ips r))
  end.

Definition explain (c : case) :=
  match c with
  | CTab en tbl qs =>
      let t := table tbl in
      map (fun q : string * N * obs * obs =>
             let '(h, qt, _, _) := q in
             (query_ok en t q,
              show (process_rewrites isort t (bs h) qt),
              show (check_host isort en t (bs h) qt))) qs
  end.

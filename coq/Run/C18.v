(** Evaluator glue for C18: runs the model on what the harness ran the real
    code on. *)
From AGH Require Import Base.Run Model.Schedule.
From AGH Require Model.ClientIndex Model.ClientConfig.
From AGH Require Export Model.ScheduleText Model.BlockedSvcHttp Model.BlockedSvcClient Model.ScheduleZone
  Model.BlockedSvcPersist.
Local Open Scope Z_scope.

Definition mk (s e : Z) := {| dr_start := s; dr_end := e |}.

Definition err_code (e : range_err) : Z :=
  match e with
  | ENegStart => 1 | ENegEnd => 2 | EStartGeEnd => 3 | EStartGeMax => 4
  | EEndGtMax => 5 | EStartNotMin => 6 | EEndNotMin => 7
  end.

(** What the harness observed after a request: status, then GET: ids and the
    schedule part (zone name, the days' number texts; [None] = textually
    identical to the schedule part of the previous observation), [Contains]
    of the stored schedule at the history's instants, each given as (offset of
    the reported zone at that instant, verdict), and, when the stored week is
    all-full or all-empty, the service names ApplyBlockedServices produced. *)
Definition sched_obs := (bytes * list text_day)%type.
Definition http_obs :=
  (Z * list bytes * option sched_obs * list (Z * bool) * option (list bytes))%type.

(** Request histories: a persistent client of the storage is (uses its own
    general settings?, its FilteringEnabled, uses its own blocked services?,
    ids, zone name, ranges in ns).  A step is a request to the global HTTP
    endpoints (with the observed status) or a DNS request: the index of the
    client the request belongs to, the instant the harness read right before
    the call, the offsets at that instant of the zones involved (by name),
    and the names in [setts.ServicesRules] and [setts.FilteringEnabled]
    afterwards. *)
Definition client_desc := (bool * bool * bool * list bytes * bytes * list (Z * Z))%type.
Inductive req_step :=
  | RHttp (o : op) (status : Z)
  | RReq (cl : option nat) (t : Z) (offs : list (bytes * Z)) (obs : list bytes) (obs_flt : bool).

(** Life-cycle histories (round 6).  Beside what [http_obs] carries, after
    every step: the blocked_services section of the configuration file as the
    ConfigModified callback left it (ids, "time_zone" text, the days'
    duration texts; [None] = textually what the previous observation had), and, clock permitting, ApplyBlockedServices at the
    instant of the run: the instant read right before the call, the offset of
    the reported zone at it, the names produced.  A restart carries whether
    the tz database of the host has the zone name found in the file; [None] =
    filtering.New refused the configuration (the history ends there). *)
Definition persisted_obs := (list bytes * bytes * list text_day)%type.
Definition now_obs := option (Z * Z * list bytes).
Definition life_obs := (http_obs * option persisted_obs * now_obs)%type.
Inductive life_step :=
  | LsReq (o : op) (ob : life_obs)
  | LsRestart (kn : bool) (ob : option life_obs).

Inductive case :=
  (* instant (ns), zone offset at that instant (s), ranges (ns), observed Contains *)
  | CContains (t o : Z) (w : list (Z * Z)) (obs : bool)
  (* JSON document with the days given in half-milliseconds; observed:
     -1 accepted, else 10*weekday + error code; and the re-marshalled days *)
  | CJson (days : list (option (Z * Z))) (obs_err : Z) (obs_back : list (option (Z * Z)))
  (* YAML document with the days in ns *)
  | CYaml (days : list (Z * Z)) (obs_err : Z) (obs_back : list (Z * Z))
  (* text handed to timeutil.Duration.UnmarshalText; observed: code 0 and the
     value, or 1 invalid / 2 missing unit / 3 unknown unit (value 0) *)
  | CDurText (s : bytes) (obs_code obs_val : Z)
  (* int64 nanoseconds; observed timeutil.Duration(d).String() ([cut]) or
     time.Duration(d).String() *)
  | CDurPrint (cut : bool) (d : Z) (obs : bytes)
  (* text handed to aghhttp.JSONDuration.UnmarshalJSON; observed: code 0 and
     the value, or 1 error *)
  | CMsText (s : bytes) (obs_code obs_val : Z)
  (* observed aghhttp.JSONDuration(d).MarshalJSON() *)
  | CMsPrint (d : Z) (obs : bytes)
  (* YAML / JSON document as the duration texts its decoder handed over, in
     document order; observed: -1 accepted, 10*weekday + range error code,
     100 + syntax error code; when accepted the seven ranges (ns) and the
     texts of the re-marshalled document *)
  | CYamlText (fs : list field) (obs_err : Z) (obs_days : list (Z * Z)) (obs_back : list text_day)
  | CJsonText (fs : list field) (obs_err : Z) (obs_days : list (Z * Z)) (obs_back : list text_day)
  (* history of blocked-services HTTP requests against a real DNSFilter:
     ids of the service table that occur, the initial stored value (ids, zone
     name, ranges in ns), what was observed before the first request and
     after every request *)
  | CHttp (known init_ids : list bytes) (init_zone : bytes) (init_days : list (Z * Z))
      (instants : list Z) (obs0 : http_obs) (steps : list (op * http_obs))
  (* history of HTTP requests and DNS requests against a real DNSFilter wired
     to a real client.Storage holding [clients]; [gf]: the global
     FilteringEnabled *)
  | CReq (known init_ids : list bytes) (init_zone : bytes) (init_days : list (Z * Z)) (gf : bool)
      (clients : list client_desc) (steps : list req_step)
  (* a whole schedule document, "time_zone" member included, handed to
     Weekly.UnmarshalYAML ([yaml]) or Weekly.UnmarshalJSON: the zone text, whether
     the tz database of the host has that name, the duration texts in
     document order; observed: -1 accepted, 10*weekday + range error code,
     100 + syntax error code, 200 the zone does not load; when accepted the
     name the location reports, the seven ranges (ns) and the re-marshalled
     document (zone text, day texts) *)
  | CZoneDoc (yaml : bool) (zone : bytes) (kn : bool) (fs : list field)
      (obs_err : Z) (obs_zone : bytes) (obs_days : list (Z * Z))
      (back_zone : bytes) (back : list text_day)
  (* history of HTTP requests and restarts: a real DNSFilter whose
     ConfigModified callback writes the configuration as home does, and
     filtering.New from what was written *)
  | CLife (known init_ids : list bytes) (init_zone : bytes) (init_days : list (Z * Z))
      (instants : list Z) (obs0 : life_obs) (steps : list life_step)
  (* round 8: the clients section of the configuration file.  Per client
     (in RangeByName order) what the REAL storage held before forConfig: uses
     the global blocked services?, own ids, zone (index into the harness's
     zone list; 0 = Local), ranges in ns; and the same read from the second
     container, initialised from the written section *)
  | CClientCfg (known : list bytes) (clients obs : list (bool * list bytes * N * list (Z * Z))).

Definition eqb_zz (a b : Z * Z) := (fst a =? fst b) && (snd a =? snd b).

Definition res_code (r : (Z * range_err) + weekly) : Z :=
  match r with inl (i, e) => 10 * i + err_code e | inr _ => -1 end.

Definition text_res_code (r : text_err + weekly) : Z :=
  match r with
  | inl (TSyntax c) => 100 + c
  | inl (TRange i e) => 10 * i + err_code e
  | inr _ => -1
  end.

Definition eqb_bb (a b : bytes * bytes) := eqb_bytes (fst a) (fst b) && eqb_bytes (snd a) (snd b).

Definition parse_res_ok (r : Z + Z) (code val : Z) : bool :=
  match r with
  | inl c => (c =? code) && (val =? 0)
  | inr v => (code =? 0) && (v =? val)
  end.

Definition doc_ok (r : text_err + weekly) (print : Z -> bytes)
    (e : Z) (days : list (Z * Z)) (back : list text_day) : bool :=
  (text_res_code r =? e) &&
  match r with
  | inr w => eqb_list eqb_zz (marshal_yaml w) days &&
             eqb_list (eqb_option eqb_bb) (marshal_text print w) back
  | inl _ => true
  end.

Definition probes_ok (w : weekly) (instants : list Z) (probes : list (Z * bool)) : bool :=
  (length instants =? length probes)%nat &&
  forallb (fun p : Z * (Z * bool) =>
             let '(t, (o, b)) := p in Bool.eqb (contains w (fun _ => o) t) b)
          (combine instants probes).

Definition http_obs_ok (known : list bytes) (instants : list Z) (st : Z) (s : bsvc)
    (prev : option sched_obs) (o : http_obs) : bool * option sched_obs :=
  let '(ost, oids, osch, probes, app) := o in
  let cur := match osch with Some x => Some x | None => prev end in
  let '(ids, zone, days) := get s in
  let w := sc_days (bs_sched s) in
  match cur with
  | None => (false, None)
  | Some (ozone, odays) =>
      ((st =? ost) && eqb_list eqb_bytes ids oids && eqb_bytes zone ozone &&
       eqb_list (eqb_option eqb_bb) days odays &&
       probes_ok w instants probes &&
       match app with
       | None => true
       | Some l => match week_const w with
                   | Some paused => eqb_list eqb_bytes (apply known s paused) l
                   | None => false
                   end
       end, cur)
  end.

Fixpoint http_run_ok (known : list bytes) (instants : list Z) (s : bsvc) (prev : option sched_obs)
    (steps : list (op * http_obs)) : bool :=
  match steps with
  | [] => true
  | (o, ob) :: steps =>
      let (st, s') := step known o s in
      let (ok, cur) := http_obs_ok known instants st s' prev ob in
      ok && http_run_ok known instants s' cur steps
  end.

(** Index of the first request whose observation differs (0 = the initial
    observation), or -1. *)
Fixpoint http_first_bad (known : list bytes) (instants : list Z) (s : bsvc) (prev : option sched_obs)
    (steps : list (op * http_obs)) (i : Z) : Z :=
  match steps with
  | [] => -1
  | (o, ob) :: steps =>
      let (st, s') := step known o s in
      let (ok, cur) := http_obs_ok known instants st s' prev ob in
      if ok then http_first_bad known instants s' cur steps (i + 1) else i
  end.

Fixpoint http_statuses (known : list bytes) (s : bsvc) (steps : list (op * http_obs)) : list (Z * Z) :=
  match steps with
  | [] => []
  | (o, _) :: steps =>
      let (st, s') := step known o s in
      (st, Z.of_nat (length (bs_ids s'))) :: http_statuses known s' steps
  end.

Definition http_init (ids : list bytes) (zone : bytes) (days : list (Z * Z)) : bsvc :=
  {| bs_ids := ids;
     bs_sched := {| sc_zone := zone; sc_days := map (fun p => mk (fst p) (snd p)) days |} |}.

Definition mk_client (d : client_desc) : client :=
  let '(os, fl, own, ids, zone, days) := d in
  {| cl_use_own_settings := os; cl_filtering := fl; cl_use_own := own;
     cl_bsvc := http_init ids zone days |}.

(** The tz database as far as a request needs it: the offsets the harness
    read for the zones involved; a zone it did not name gets an offset no
    zone has, so that a missing entry shows. *)
Fixpoint off_lookup (offs : list (bytes * Z)) (z : bytes) : Z :=
  match offs with
  | [] => 99999999
  | (k, o) :: offs => if eqb_bytes k z then o else off_lookup offs z
  end.

Definition req_client (clients : list client_desc) (cl : option nat) : option client :=
  match cl with
  | Some i => option_map mk_client (nth_error clients i)
  | None => None
  end.

Definition req_model (known : list bytes) (clients : list client_desc) (s : bsvc)
    (cl : option nat) (t : Z) (offs : list (bytes * Z)) : list bytes :=
  request_services (fun z _ => off_lookup offs z) known s (req_client clients cl) t t.

Definition req_model_flt (known : list bytes) (gf : bool) (clients : list client_desc) (s : bsvc)
    (cl : option nat) (t : Z) (offs : list (bytes * Z)) : bool :=
  request_filtering (fun z _ => off_lookup offs z) known gf s (req_client clients cl) t t.

(** Index of the first step that differs, or -1. *)
Fixpoint req_first_bad (known : list bytes) (gf : bool) (clients : list client_desc) (s : bsvc)
    (steps : list req_step) (i : Z) : Z :=
  match steps with
  | [] => -1
  | RHttp o st :: steps =>
      let (st', s') := step known o s in
      if st' =? st then req_first_bad known gf clients s' steps (i + 1) else i
  | RReq cl t offs obs oflt :: steps =>
      if eqb_list eqb_bytes (req_model known clients s cl t offs) obs &&
         Bool.eqb (req_model_flt known gf clients s cl t offs) oflt
      then req_first_bad known gf clients s steps (i + 1) else i
  end.

Fixpoint req_trace (known : list bytes) (clients : list client_desc) (s : bsvc)
    (steps : list req_step) : list (Z * Z) :=
  match steps with
  | [] => []
  | RHttp o st :: steps =>
      let (st', s') := step known o s in (st', -1) :: req_trace known clients s' steps
  | RReq cl t offs obs _ :: steps =>
      (0, Z.of_nat (length (req_model known clients s cl t offs))) :: req_trace known clients s steps
  end.

Definition zdoc_res_code (r : zdoc_err + sched) : Z :=
  match r with
  | inl (ZSyntax c) => 100 + c
  | inl ZZone => 200
  | inl (ZRange i e) => 10 * i + err_code e
  | inr _ => -1
  end.

Definition zdoc_model (yaml kn : bool) (zone : bytes) (fs : list field) : zdoc_err + sched :=
  decode_zdoc (fun _ => kn) (if yaml then parse_yaml_dur else parse_json_dur)
    {| zd_zone := zone; zd_fields := fs |}.

Definition eqb_field (a b : field) : bool :=
  let '(i, e, t) := a in let '(j, f, u) := b in
  Nat.eqb i j && Bool.eqb e f && eqb_bytes t u.

Definition pdoc_ok (d : pdoc) (p : persisted_obs) : bool :=
  let '(ids, zone, days) := p in
  eqb_list eqb_bytes (pd_ids d) ids && eqb_bytes (zd_zone (pd_sched d)) zone &&
  eqb_list eqb_field (zd_fields (pd_sched d)) (flatten_days 0 days).

Definition now_ok (known : list bytes) (s : bsvc) (n : now_obs) : bool :=
  match n with
  | None => true
  | Some (t, o, l) =>
      eqb_list eqb_bytes (apply known s (contains (sc_days (bs_sched s)) (fun _ => o) t)) l
  end.

Definition life_obs_ok (known : list bytes) (instants : list Z) (st : Z) (l : ylife)
    (prev : option sched_obs) (pp : option persisted_obs) (ob : life_obs)
  : bool * option sched_obs * option persisted_obs :=
  let '(h, p, n) := ob in
  let (ok, cur) := http_obs_ok known instants st (lf_mem l) prev h in
  let curp := match p with Some x => Some x | None => pp end in
  (ok && match curp with Some x => pdoc_ok (lf_disk l) x | None => false end &&
   now_ok known (lf_mem l) n, cur, curp).

(** Index of the first step whose observation differs, or -1. *)
Fixpoint life_first_bad (known : list bytes) (instants : list Z) (l : ylife) (prev : option sched_obs)
    (pp : option persisted_obs) (steps : list life_step) (i : Z) : Z :=
  match steps with
  | [] => -1
  | LsReq o ob :: steps =>
      let (st, l') := ystep known o l in
      let '(ok, cur, curp) := life_obs_ok known instants st l' prev pp ob in
      if ok then life_first_bad known instants l' cur curp steps (i + 1) else i
  | LsRestart kn ob :: steps =>
      match yrestart (fun _ => kn) known l, ob with
      | Some l', Some ob =>
          let '(ok, cur, curp) := life_obs_ok known instants st_ok l' prev pp ob in
          if ok then life_first_bad known instants l' cur curp steps (i + 1) else i
      | None, None => match steps with [] => -1 | _ => i end
      | _, _ => i
      end
  end.

Fixpoint life_trace (known : list bytes) (l : ylife) (steps : list life_step) : list (Z * Z) :=
  match steps with
  | [] => []
  | LsReq o _ :: steps =>
      let (st, l') := ystep known o l in
      (st, Z.of_nat (length (bs_ids (lf_mem l')))) :: life_trace known l' steps
  | LsRestart kn _ :: steps =>
      match yrestart (fun _ => kn) known l with
      | Some l' => (0, Z.of_nat (length (bs_ids (lf_mem l')))) :: life_trace known l' steps
      | None => [(-1, -1)]
      end
  end.

Definition life_case_bad (known ids : list bytes) (zone : bytes) (days : list (Z * Z))
    (instants : list Z) (o0 : life_obs) (steps : list life_step) : Z :=
  let l := ylife_init (http_init ids zone days) in
  let '(ok, cur, curp) := life_obs_ok known instants st_ok l None None o0 in
  if ok then life_first_bad known instants l cur curp steps 1 else 0.

(** C04's model of one object of the clients section ([to_persistent] after
    [for_config] after [to_persistent]); the fields the harness does not vary
    are fixed. *)
Definition ccfg_obj (i : N) (d : bool * list bytes * N * list (Z * Z)) : Model.ClientConfig.cobj :=
  let '(ug, ids, z, days) := d in
  {| Model.ClientConfig.o_name := [99%N; (48 + i)%N];
     Model.ClientConfig.o_ids := [Model.ClientConfig.PCid [99%N; (48 + i)%N]];
     Model.ClientConfig.o_tags := []; Model.ClientConfig.o_upstreams := [];
     Model.ClientConfig.o_uid := (i + 1)%N;
     Model.ClientConfig.o_ss := Model.ClientConfig.zero_ss;
     Model.ClientConfig.o_blocked :=
       Some {| Model.ClientConfig.fb_ids := ids;
               Model.ClientConfig.fb_sched := Some (map (fun p => mk (fst p) (snd p)) days, z) |};
     Model.ClientConfig.o_cache_size := 0%N; Model.ClientConfig.o_cache_enabled := false;
     Model.ClientConfig.o_use_global_settings := true; Model.ClientConfig.o_filtering := false;
     Model.ClientConfig.o_parental := false; Model.ClientConfig.o_safebrowsing := false;
     Model.ClientConfig.o_use_global_blocked := ug;
     Model.ClientConfig.o_ignore_qlog := false; Model.ClientConfig.o_ignore_stats := false |}.

Definition ccfg_model (known : list bytes) (i : N) (d : bool * list bytes * N * list (Z * Z))
  : option (bool * list bytes * N * list (Z * Z)) :=
  match Model.ClientConfig.to_persistent known 0%N (ccfg_obj i d) with
  | Model.ClientConfig.COk c x =>
      match Model.ClientConfig.to_persistent known 0%N (Model.ClientConfig.for_config c x) with
      | Model.ClientConfig.COk c' _ =>
          match Model.ClientIndex.c_blocked c' with
          | Some b => Some (negb (Model.ClientIndex.c_own_blocked c'), Model.ClientIndex.b_ids b,
                            Model.ClientIndex.b_zone b, marshal_yaml (Model.ClientIndex.b_sched b))
          | None => None
          end
      | _ => None
      end
  | _ => None
  end.

Definition eqb_ccfg (a b : bool * list bytes * N * list (Z * Z)) : bool :=
  let '(u1, i1, z1, d1) := a in let '(u2, i2, z2, d2) := b in
  Bool.eqb u1 u2 && eqb_list eqb_bytes i1 i2 && N.eqb z1 z2 && eqb_list eqb_zz d1 d2.

Fixpoint ccfg_ok (known : list bytes) (i : N) (cl obs : list (bool * list bytes * N * list (Z * Z))) : bool :=
  match cl, obs with
  | [], [] => true
  | d :: cl, o :: obs =>
      match ccfg_model known i d with Some m => eqb_ccfg m o | None => false end &&
      ccfg_ok known (i + 1)%N cl obs
  | _, _ => false
  end.

Definition case_ok (c : case) : bool :=
  match c with
  | CContains t o w obs =>
      Bool.eqb (contains (map (fun p => mk (fst p) (snd p)) w) (fun _ => o) t) obs
  | CJson days e back =>
      let r := unmarshal_json days in
      (res_code r =? e) &&
      match r with
      | inr w => eqb_list (eqb_option eqb_zz) (marshal_json w) back
      | inl _ => true
      end
  | CYaml days e back =>
      let r := unmarshal_yaml days in
      (res_code r =? e) &&
      match r with
      | inr w => eqb_list eqb_zz (marshal_yaml w) back
      | inl _ => true
      end
  | CDurText s code val => parse_res_ok (parse_yaml_dur s) code val
  | CDurPrint cut d obs => eqb_bytes (if cut then tu_string d else duration_string d) obs
  | CMsText s code val => parse_res_ok (parse_json_dur s) code val
  | CMsPrint d obs => eqb_bytes (print_ms_text d) obs
  | CYamlText fs e days back => doc_ok (unmarshal_fields parse_yaml_dur 7 fs) tu_string e days back
  | CJsonText fs e days back => doc_ok (unmarshal_fields parse_json_dur 7 fs) print_ms_text e days back
  | CHttp known ids zone days instants o0 steps =>
      let s := http_init ids zone days in
      let (ok, cur) := http_obs_ok known instants st_ok s None o0 in
      ok && http_run_ok known instants s cur steps
  | CReq known ids zone days gf clients steps =>
      req_first_bad known gf clients (http_init ids zone days) steps 0 =? -1
  | CZoneDoc yaml zone kn fs e ozone odays bzone back =>
      let r := zdoc_model yaml kn zone fs in
      (zdoc_res_code r =? e) &&
      match r with
      | inr sc =>
          eqb_bytes (sc_zone sc) ozone && eqb_list eqb_zz (marshal_yaml (sc_days sc)) odays &&
          eqb_bytes (sc_zone sc) bzone &&
          eqb_list (eqb_option eqb_bb)
            (marshal_text (if yaml then tu_string else print_ms_text) (sc_days sc)) back
      | inl _ => true
      end
  | CLife known ids zone days instants o0 steps =>
      life_case_bad known ids zone days instants o0 steps =? -1
  | CClientCfg known cl obs => ccfg_ok known 0%N cl obs
  end.

Definition mismatches := Base.Run.mismatches case_ok.

Definition explain (c : case) :=
  match c with
  | CContains t o w _ =>
      (Z.b2z (contains (map (fun p => mk (fst p) (snd p)) w) (fun _ => o) t), @nil (Z*Z))
  | CJson days _ _ => (res_code (unmarshal_json days), @nil (Z*Z))
  | CYaml days _ _ =>
      (res_code (unmarshal_yaml days),
       match unmarshal_yaml days with inr w => marshal_yaml w | _ => [] end)
  | CDurText s _ _ =>
      (match parse_yaml_dur s with inl c => c | inr _ => 0 end,
       match parse_yaml_dur s with inl _ => [] | inr v => [(v, 0)] end)
  | CDurPrint cut d _ =>
      (0, map (fun b => (Z.of_N b, 0)) (if cut then tu_string d else duration_string d))
  | CMsText s _ _ =>
      (match parse_json_dur s with inl c => c | inr _ => 0 end,
       match parse_json_dur s with inl _ => [] | inr v => [(v, 0)] end)
  | CMsPrint d _ => (0, map (fun b => (Z.of_N b, 0)) (print_ms_text d))
  | CYamlText fs _ _ _ =>
      let r := unmarshal_fields parse_yaml_dur 7 fs in
      (text_res_code r, match r with inr w => marshal_yaml w | _ => [] end)
  | CJsonText fs _ _ _ =>
      let r := unmarshal_fields parse_json_dur 7 fs in
      (text_res_code r, match r with inr w => marshal_yaml w | _ => [] end)
  | CHttp known ids zone days instants o0 steps =>
      let s := http_init ids zone days in
      let (ok, cur) := http_obs_ok known instants st_ok s None o0 in
      ((if ok then http_first_bad known instants s cur steps 1 else 0),
       http_statuses known s steps)
  | CReq known ids zone days gf clients steps =>
      (req_first_bad known gf clients (http_init ids zone days) steps 0,
       req_trace known clients (http_init ids zone days) steps)
  | CZoneDoc yaml zone kn fs _ _ _ _ _ =>
      let r := zdoc_model yaml kn zone fs in
      (zdoc_res_code r, match r with inr sc => marshal_yaml (sc_days sc) | _ => [] end)
  | CLife known ids zone days instants o0 steps =>
      (life_case_bad known ids zone days instants o0 steps,
       life_trace known (ylife_init (http_init ids zone days)) steps)
  | CClientCfg known cl obs =>
      (Z.b2z (ccfg_ok known 0%N cl obs),
       map (fun d => match ccfg_model known 0%N d with
                     | Some (_, ids, z, _) => (Z.of_N z, Z.of_nat (length ids))
                     | None => (-1, -1)
                     end) cl)
  end.

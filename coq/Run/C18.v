(** Evaluator glue for C18: runs the model on what the harness ran the real
    code on. *)
From AGH Require Import Base.Run Model.Schedule.
Local Open Scope Z_scope.

Definition mk (s e : Z) := {| dr_start := s; dr_end := e |}.

Definition err_code (e : range_err) : Z :=
  match e with
  | ENegStart => 1 | ENegEnd => 2 | EStartGeEnd => 3 | EStartGeMax => 4
  | EEndGtMax => 5 | EStartNotMin => 6 | EEndNotMin => 7
  end.

Inductive case :=
  (* instant (ns), zone offset at that instant (s), ranges (ns), observed Contains *)
  | CContains (t o : Z) (w : list (Z * Z)) (obs : bool)
  (* JSON document with the days given in half-milliseconds; observed:
     -1 accepted, else 10*weekday + error code; and the re-marshalled days *)
  | CJson (days : list (option (Z * Z))) (obs_err : Z) (obs_back : list (option (Z * Z)))
  (* YAML document with the days in ns *)
  | CYaml (days : list (Z * Z)) (obs_err : Z) (obs_back : list (Z * Z)).

Definition eqb_zz (a b : Z * Z) := (fst a =? fst b) && (snd a =? snd b).

Definition res_code (r : (Z * range_err) + weekly) : Z :=
  match r with inl (i, e) => 10 * i + err_code e | inr _ => -1 end.

Definition case_ok (c : case) : bool :=
  match c with
  | CContains t o w obs =>
      Bool.eqb (contains (map (fun p => mk (fst p) (snd p)) w) (fun _ => o) t) obs
  | CJson days e back =>
      let r := unmarshal_json days in
      (res_code r =? e) &&
      match r with
      | inr w => eqb_list (eqb_option eqb_zz) (marshal_json w) back
      | inl _ => true
      end
  | CYaml days e back =>
      let r := unmarshal_yaml days in
      (res_code r =? e) &&
      match r with
      | inr w => eqb_list eqb_zz (marshal_yaml w) back
      | inl _ => true
      end
  end.

Definition mismatches := Base.Run.mismatches case_ok.

Definition explain (c : case) :=
  match c with
  | CContains t o w _ =>
      (Z.b2z (contains (map (fun p => mk (fst p) (snd p)) w) (fun _ => o) t), @nil (Z*Z))
  | CJson days _ _ => (res_code (unmarshal_json days), @nil (Z*Z))
  | CYaml days _ _ =>
      (res_code (unmarshal_yaml days),
       match unmarshal_yaml days with inr w => marshal_yaml w | _ => [] end)
  end.

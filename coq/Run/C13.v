(** Evaluator glue for C13: runs the model of the configuration upgrade on
    the documents the harness fed to the real code. *)
From Coq Require Export String.
From Coq Require Export Uint63.
From Coq Require Import Ascii.
From AGH Require Import Base.Run.
From AGH Require Export Model.Migrate Model.MigrateLoad Model.MigrateKinds Model.MigrateFootprint Model.MigrateFile Model.MigratePorts Model.MigrateQuic.
(* not Local: the shard files contain string literals *)
Open Scope string_scope.

(** Strings are printed packed, seven bytes to a primitive integer
    ([len + 8 * little-endian bytes]): elaborating a string literal costs Coq
    about ten term nodes per character, which dominated the run time. *)
Definition bit (x i : Uint63.int) : bool :=
  negb (Uint63.eqb (Uint63.land (Uint63.lsr x i) 1) 0).
Definition asc (x : Uint63.int) : ascii :=
  Ascii (bit x 0) (bit x 1) (bit x 2) (bit x 3) (bit x 4) (bit x 5) (bit x 6) (bit x 7).
Fixpoint bytes_of (len : nat) (x : Uint63.int) : string :=
  match len with
  | O => EmptyString
  | S l => String (asc x) (bytes_of l (Uint63.lsr x 8))
  end.
Definition len_of (x : Uint63.int) : nat :=
  let l := Uint63.land x 7 in
  if Uint63.eqb l 0 then 0 else if Uint63.eqb l 1 then 1 else if Uint63.eqb l 2 then 2
  else if Uint63.eqb l 3 then 3 else if Uint63.eqb l 4 then 4 else if Uint63.eqb l 5 then 5
  else if Uint63.eqb l 6 then 6 else 7.
Definition s1 (n : Uint63.int) : string := bytes_of (len_of n) (Uint63.lsr n 3).
Inductive il := I0 | IC (x : Uint63.int) (l : il).
Arguments s1 n%uint63_scope.
Arguments IC x%uint63_scope l.
Fixpoint sn (l : il) : string :=
  match l with I0 => EmptyString | IC x l' => s1 x ++ sn l' end.
Definition kv (k : string) (v : val) : string * val := (k, v).

(** Oracle values observed by the harness for this document. *)
Record otab := {
  t_quic : list (string * string);          (* addQUICPort(s, 784) where it differs from s *)
  t_addr : list (string * option string);   (* netip.ParseAddr of the bind_host candidates *)
  t_glob : string
}.

Fixpoint assoc {A} (k : string) (l : list (string * A)) : option A :=
  match l with
  | [] => None
  | (k', a) :: l' => if String.eqb k k' then Some a else assoc k l'
  end.

(** The salted hash is replaced by this marker (after the harness verified it
    with bcrypt.CompareHashAndPassword); longer passwords are rejected. *)
Definition bcrypt_marker : string := "$verif-bcrypt$".

Definition mk_oracles (t : otab) : oracles :=
  {| o_bcrypt := fun s => if Nat.ltb 72 (String.length s) then None else Some (bcrypt_marker ++ s);
     o_quic := fun s => match assoc s (t_quic t) with Some r => r | None => s end;
     o_addr := fun s => match assoc s (t_addr t) with Some r => r | None => None end;
     o_glob := t_glob t |}.

Definition mode_eqb (a b : mode) : bool :=
  match a, b with
  | MLoadBalance, MLoadBalance | MParallel, MParallel | MFastest, MFastest => true
  | _, _ => false
  end.

(** Equality of trees up to the order of keys (keys are unique on both sides). *)
Fixpoint val_eqb (a b : val) {struct a} : bool :=
  match a, b with
  | VNull, VNull => true
  | VBool x, VBool y => Bool.eqb x y
  | VInt x, VInt y => Z.eqb x y
  | VStr x, VStr y => String.eqb x y
  | VFloat i x, VFloat j y => eqb_option Z.eqb i j && String.eqb x y
  | VOther x, VOther y => String.eqb x y
  | VDur x, VDur y => Z.eqb x y
  | VMode x, VMode y => mode_eqb x y
  | VStrs x, VStrs y => eqb_list String.eqb x y
  | VArr la, VArr lb =>
      (fix go (la lb : list val) {struct la} : bool :=
         match la, lb with
         | [], [] => true
         | x :: la', y :: lb' => val_eqb x y && go la' lb'
         | _, _ => false
         end) la lb
  | VObj ma, VObj mb =>
      Nat.eqb (length ma) (length mb) &&
      (fix go (l : list (string * val)) : bool :=
         match l with
         | [] => true
         | (k, v) :: l' =>
             match get k mb with Some v' => val_eqb v v' | None => false end && go l'
         end) ma
  | _, _ => false
  end.

(** Outcome classes: 0 error (body unchanged), 1 not upgraded, 2 new body, 3 panic. *)
Inductive case :=
  (* Migrator.Migrate(body, target): the decoded body, and when a new body was
     produced its re-parsed tree *)
  | CMig (top : option obj) (target : Z) (t : otab) (cls : Z) (out : obj)
  (* upgradeConfigSchema(cur, tgt, m) on the decoded map: the in-memory tree
     with Go's dynamic types *)
  | CMem (m : obj) (cur tgt : Z) (t : otab) (cls : Z) (out : obj)
  (* a body yaml cannot decode into a map: Migrate must return an error *)
  | CParseErr (cls : Z)
  (* the step table and LastSchemaVersion read from the source *)
  | CTable (names : list string) (last : Z)
  (* timeutil.Duration(ns).String() *)
  | CDur (ns : Z) (text : string)
  (* loader side (monitor only): an upgraded repository example was accepted
     by yaml.Unmarshal into the configuration type and validateConfig *)
  | CLoader (accepted : bool)
  (* the kinds of the Go types of [configuration] at every yaml path
     (reflection), to be compared with the table of the current version *)
  | CTypes (types : list (list string * Z))
  (* the base document of the mutation run: must pass the kind check and
     mention every position of the table *)
  | CBase (m : obj) (accepted : bool)
  (* a document mutated at one position of the table, and whether
     yaml.Unmarshal into [configuration] accepted it *)
  | CKind (m : obj) (path : list string) (accepted : bool)
  (* the Go copy of the footprint table (harness/configmigrate/..._frame_test.go) *)
  | CFootprints (t : list fp)
  (* the Go function c13Outside: footprint index, path, verdict *)
  | CFpOutside (samples : list (nat * path * bool))
  (* the Go twin of an in-place value function ([value_fn n]): old value at
     the key, new value as it reads in the written file *)
  | CValueFn (n : Z) (old : option val) (new : option (option val))
  (* a document the generator of the loader harness calls valid under schema
     version [ver] (decoded body), and whether the loader and the start-up
     stages accepted its upgrade *)
  | CLoadDoc (ver : Z) (m : obj) (accepted : bool)
  (* home.parseConfig on a real file (round 5).  [f]: the file before the
     call; [wr]: the fault injected lets an attempted write-back succeed;
     [acc]: the loader's verdict on the body it is given (oracle, obtained by
     running the loader alone).  Observed: [cls] 0 error / 1 nil / 2 panic;
     [chg]: the bytes on disk differ from before, [out] then being the decoded
     file; [ldeq]: what was loaded (config.fileData) equals the bytes on disk *)
  | CParse (f : content) (t : otab) (wr acc : bool) (cls : Z) (chg : bool) (out : obj) (ldeq : bool)
  (* a document of version [ver] with drawn VALUES (round 6): [ok_own]: the
     generator's rule says its ports are valid under its own schema
     (VerifC13PortsOK); [lone]: a web port without a web host below version 23;
     [verdict]: what the real validateConfig said about the ports of the real
     upgrade: 0 accepted, 1 refused, 2 not reached (decoding or the bind
     hosts refused before), 3 the upgrade failed *)
  | CValDoc (ver : Z) (m : obj) (t : otab) (ok_own lone : bool) (verdict : Z)
  (* addQUICPort on one upstream line (round 7).  [rest]: the line after its
     "[/.../]" prefix as the Go monitor cuts it; [core]: what the real function
     makes of [rest] alone ([None]: left alone); [out]: the real result on
     the whole line *)
  | CQuic (line rest : string) (core : option string) (out : string).

Definition res_ok (r : res obj) (cls : Z) (out : obj) : bool :=
  match r with
  | Ok m => Z.eqb cls 2 && val_eqb (VObj m) (VObj out)
  | Err => Z.eqb cls 0
  | Panic => Z.eqb cls 3
  end.

(** The statement of [C13_loadable_preserved], evaluated on the document at
    hand: if the input is loadable at its version (as far as the keys the steps
    touch go), so is what the model upgrades it to, in memory and as a file. *)
Definition loadable_kept (top : option obj) (target : Z) (m : obj) : bool :=
  let input := match top with None => [] | Some i => i end in
  let cur := (zint (fv_val TInt (field_val TInt input "schema_version")) mod 2 ^ 64)%Z in
  if (cur <=? 29)%Z && (target <=? 29)%Z then
    let l := loadable (Z.to_nat cur) input in
    implb l (loadable (Z.to_nat target) m && loadable (Z.to_nat target) (norm_obj m))
    (* the statement of [C13_upgrade_preserves_ports_ok] / [C13_output_ports_ok] *)
    && implb (l && (negb (web_flat (Z.to_nat cur)) || web_together input) && doc_ports_ok (Z.to_nat cur) input)
             (doc_ports_ok (Z.to_nat target) m && doc_ports_ok (Z.to_nat target) (norm_obj m))
  else true.

(** The model's verdict on the ports of an upgraded file against the real
    validator's: compared whenever the real one reached the ports. *)
Definition ports_verdict (b : obj) (verdict : Z) : bool :=
  if Z.eqb verdict 2 then true
  else negb (Z.eqb verdict 3) && Bool.eqb (doc_ports_ok 29 b) (Z.eqb verdict 0).

Definition case_ok (c : case) : bool :=
  match c with
  | CMig top target t cls out =>
      match migrate (mk_oracles t) top target with
      | OErr => Z.eqb cls 0
      | OSame => Z.eqb cls 1
      | ONew m => Z.eqb cls 2 && val_eqb (norm (VObj m)) (VObj out) && loadable_kept top target m
      | OPanic => Z.eqb cls 3
      end
  | CMem m cur tgt t cls out =>
      res_ok (upgrade (mk_oracles t) (Z.to_nat cur) (Z.to_nat tgt) m) cls out
  | CParseErr cls => Z.eqb cls 0
  | CTable names last =>
      eqb_list String.eqb names (map fst (steps (mk_oracles {| t_quic := []; t_addr := []; t_glob := "" |})))
      && Z.eqb last last_version && Z.eqb last (Z.of_nat (length names))
  | CDur ns text => String.eqb (dur_string ns) text
  | CLoader accepted => accepted
  | CTypes types => types_ok types
  | CBase m accepted => accepted && kinds_accept m && covers_table m
  | CKind m path accepted => kind_case_ok m path accepted
  | CFootprints t => fps_eqb t fp_table
  | CFpOutside samples =>
      forallb (fun s => match s with (n, p, b) => Bool.eqb (outside (nth n fp_table FAll) p) b end) samples
  | CValueFn n old new =>
      match value_fn n old, new with
      | None, None => true
      | Some None, Some None => true
      | Some (Some a), Some (Some b) => val_eqb (norm a) b
      | _, _ => false
      end
  | CLoadDoc ver m accepted => accepted && loadable (Z.to_nat ver) m
  | CParse f t wr acc cls chg out ldeq =>
      let '(r, w) := parse_config (mk_oracles t) (fun _ => acc) f wr in
      match r with
      | PLoaded _ _ => Z.eqb cls 1 && ldeq
      | PPanic => Z.eqb cls 2
      | _ => Z.eqb cls 0
      end
      && match w with
         | None => negb chg
         | Some b => chg && val_eqb (VObj b) (VObj out)
         end
  | CValDoc ver m t ok_own lone verdict =>
      let v := Z.to_nat ver in
      Bool.eqb (doc_ports_ok v m) ok_own && Bool.eqb (lone_at v m) lone &&
      match migrate (mk_oracles t) (Some m) last_version with
      | ONew a => ports_verdict (norm_obj a) verdict
      | OSame => ports_verdict m verdict
      | OErr => Z.eqb verdict 3
      | OPanic => false
      end
  | CQuic line rest core out =>
      String.eqb (domain_prefix line ++ rest) line &&
      String.eqb (add_quic_port (fun r => if String.eqb r rest then core else None) line) out
  end.

Definition mismatches := Base.Run.mismatches case_ok.

Definition explain (c : case) : Z * val :=
  match c with
  | CMig top target t _ _ =>
      match migrate (mk_oracles t) top target with
      | OErr => (0%Z, VNull)
      | OSame => (1%Z, VNull)
      | ONew m => (2%Z, norm (VObj m))
      | OPanic => (3%Z, VNull)
      end
  | CMem m cur tgt t _ _ =>
      match upgrade (mk_oracles t) (Z.to_nat cur) (Z.to_nat tgt) m with
      | Ok m' => (2%Z, VObj m')
      | Err => (0%Z, VNull)
      | Panic => (3%Z, VNull)
      end
  | CParseErr _ => (0%Z, VNull)
  | CTable _ _ => (last_version, VNull)
  | CDur ns _ => (ns, VStr (dur_string ns))
  | CLoader _ => (1%Z, VNull)
  | CTypes types =>
      (* the positions of the table the Go types disagree with *)
      (0%Z, VArr (map (fun ps => VStr (String.concat "." (fst ps)))
                      (filter (fun ps => negb (path_ok types (fst ps) (snd ps))) (paths_of (schema current) []))))
  | CBase m _ =>
      (0%Z, VArr (map (fun ps => VStr (String.concat "." (fst ps)))
                      (filter (fun ps => negb (has_path (VObj m) (fst ps))) (paths_of (schema current) []))))
  | CKind m _ _ => ((if kinds_accept m then 1 else 0)%Z, VNull)
  | CFootprints t => (Z.of_nat (length (filter (fun ab => negb (fp_eqb (fst ab) (snd ab))) (combine t fp_table))), VNull)
  | CFpOutside samples =>
      (Z.of_nat (length (filter (fun s => match s with (n, p, b) => negb (Bool.eqb (outside (nth n fp_table FAll) p) b) end) samples)), VNull)
  | CValueFn n old _ =>
      match value_fn n old with
      | None => (0%Z, VNull)
      | Some None => (1%Z, VNull)
      | Some (Some a) => (2%Z, norm a)
      end
  | CLoadDoc ver m _ => ((if loadable (Z.to_nat ver) m then 1 else 0)%Z, VNull)
  | CParse f t wr acc _ _ _ _ =>
      (* 0 read / 1 upgrade / 2 write / 3 load error, 10 loaded as it is, 11 upgraded
         and loaded, 20 panic; the body written to the file, if any *)
      let '(r, w) := parse_config (mk_oracles t) (fun _ => acc) f wr in
      ((match r with
        | PReadErr => 0 | PMigrateErr => 1 | PWriteErr => 2 | PLoadErr => 3
        | PLoaded _ false => 10 | PLoaded _ true => 11 | PPanic => 20
        end)%Z,
       match w with None => VNull | Some b => VObj b end)
  | CValDoc ver m t _ _ _ =>
      (* 10 * (ports valid under the own schema) + (lone web port), and the
         ports the model reads from its upgrade as [tls, web, dns, https, dot,
         doq, dnscrypt] (null: some port position is unreadable, or no upgrade) *)
      let v := Z.to_nat ver in
      (((if doc_ports_ok v m then 10 else 0) + (if lone_at v m then 1 else 0))%Z,
       match migrate (mk_oracles t) (Some m) last_version with
       | ONew a =>
           match doc_ports 29 (norm_obj a) with
           | Some p => VArr [VBool (p_tls p); VInt (p_web p); VInt (p_dns p); VInt (p_https p); VInt (p_dot p);
                             VInt (p_doq p); VInt (p_dnscrypt p); VBool (ports_ok p)]
           | None => VNull
           end
       | _ => VNull
       end)
  | CQuic line rest core _ =>
      (0%Z, VArr [VStr (domain_prefix line); VStr (add_quic_port (fun r => if String.eqb r rest then core else None) line)])
  end.

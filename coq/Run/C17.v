(** Evaluator glue for C17: runs the SafeFS / Glob / PathClean models on what
    the harness ran the real code on. *)
From AGH Require Import Base.Run Base.Bytes Base.PathClean Base.Glob Model.SafeFS Model.SafeFSConf.
Local Open Scope N_scope.

Definition rej_code (k : rej) : N :=
  match k with RNotExist => 1 | RUnsafe => 2 | RBadURL => 3 | RPanic => 7 | RFuel => 8 end.

Definition status_code (s : status) : N * N :=
  match s with
  | SOk n => (0, n)
  | SRejected k => (rej_code k, 0)
  | SExists => (4, 0)
  | SNotFound => (5, 0)
  | SFetchFail => (6, 0)
  | SPanic => (7, 0)
  end.

(** projection of a filter table: URL, enabled, marker found in its file *)
Definition row := (bytes * bool * N)%type.
Definition proj_list (l : list flt) : list row :=
  map (fun f => (f_url f, f_enabled f, f_loaded f)) l.

Definition eqb_row (a b : row) : bool :=
  eqb_bytes (fst (fst a)) (fst (fst b)) && Bool.eqb (snd (fst a)) (snd (fst b)) && (snd a =? snd b).

Definition obs_step := (N * N * list row * list row)%type.   (* code, updated, block, allow *)

Definition proj_step (x : status * state) : obs_step :=
  let (s, st) := x in
  (fst (status_code s), snd (status_code s), proj_list (s_block st), proj_list (s_allow st)).

Definition eqb_step (a b : obs_step) : bool :=
  match a, b with
  | (c1, u1, b1, a1), (c2, u2, b2, a2) =>
      (c1 =? c2) && (u1 =? u2) && eqb_list eqb_row b1 b2 && eqb_list eqb_row a1 a2
  end.

(** * Compact encoding of the cases

    Most strings of a case start with the root of the harness' temporary tree,
    and the tree itself is always the same; printing them in full made the
    case files large and slow to parse.  A [pstr] is a string relative to the
    root; the tree is the constant [std_files] (checked against the harness'
    own list by the [CTree] case of every run); directories are derived (every
    ancestor of a file exists); host files that exist outside the tree come as
    a bit mask over [host_extras]. *)
Definition pstr := (bool * bytes)%type.
Definition dec (root : bytes) (p : pstr) : bytes := if fst p then root ++ snd p else snd p.

Definition std_files : list (bytes * N) :=
  [([115;97;102;101;47;97;46;116;120;116], 1);
   ([115;97;102;101;47;98;46;108;115;116], 2);
   ([115;97;102;101;47;115;117;98;47;99;46;116;120;116], 3);
   ([115;97;102;101;50;47;100;46;116;120;116], 4);
   ([115;101;99;114;101;116;47;115;46;116;120;116], 5);
   ([111;116;104;101;114;46;116;120;116], 6);
   ([115;97;102;101;47;91;120;93;46;116;120;116], 7);
   ([115;97;102;101;47;195;188;46;116;120;116], 8);
   ([115;97;102;101;47;115;117;98;47;100;101;101;112;47;101;46;116;120;116], 9);
   ([115;97;102;101;47;45;46;116;120;116], 10);
   (* the same names in another letter case: SAFE/a.txt safe/A.txt safe/a.TXT safe/sub/C.txt *)
   ([83;65;70;69;47;97;46;116;120;116], 11);
   ([115;97;102;101;47;65;46;116;120;116], 12);
   ([115;97;102;101;47;97;46;84;88;84], 13);
   ([115;97;102;101;47;115;117;98;47;67;46;116;120;116], 14);
   (* names that are the text of a glob: safe/[ab].txt safe/\*.txt safe/[^a].txt, and safe/*.txt *)
   ([115;97;102;101;47;91;97;98;93;46;116;120;116], 15);
   ([115;97;102;101;47;92;42;46;116;120;116], 16);
   ([115;97;102;101;47;91;94;97;93;46;116;120;116], 17);
   ([115;97;102;101;47;42;46;116;120;116], 18);
   (* round 8: names that literally contain percent sequences: safe/..%2Fother.txt safe/..%2fsecret%2Fs.txt safe/%2E%2E%2Fother.txt safe/..%252Fother.txt safe/%61.txt safe/b%00.lst safe/..%5Cother.txt *)
   ([115;97;102;101;47;46;46;37;50;70;111;116;104;101;114;46;116;120;116], 19);
   ([115;97;102;101;47;46;46;37;50;102;115;101;99;114;101;116;37;50;70;115;46;116;120;116], 20);
   ([115;97;102;101;47;37;50;69;37;50;69;37;50;70;111;116;104;101;114;46;116;120;116], 21);
   ([115;97;102;101;47;46;46;37;50;53;50;70;111;116;104;101;114;46;116;120;116], 22);
   ([115;97;102;101;47;37;54;49;46;116;120;116], 23);
   ([115;97;102;101;47;98;37;48;48;46;108;115;116], 24);
   ([115;97;102;101;47;46;46;37;53;67;111;116;104;101;114;46;116;120;116], 25)].

Definition host_extras : list bytes :=
  [[47;101;116;99;47;112;97;115;115;119;100];
   [47;101;116;99;47;104;111;115;116;110;97;109;101];
   [47;101;116;99];
   [47;112;114;111;99;47;115;101;108;102;47;101;110;118;105;114;111;110];
   [47;112;114;111;99;47;115;101;108;102];
   [47;112;114;111;99]].

(** every proper prefix of [s] that ends before a '/', and "/" itself *)
Fixpoint ancestors_from (pre_rev s : bytes) : list bytes :=
  match s with
  | nil => nil
  | c :: t =>
      (if c =? 47 then (match pre_rev with nil => 47 :: nil | _ => rev pre_rev end) :: nil else nil)
      ++ ancestors_from (c :: pre_rev) t
  end.
Definition ancestors (s : bytes) : list bytes := ancestors_from nil s.

Fixpoint select_mask (mask : N) (i : N) (l : list bytes) : list bytes :=
  match l with
  | nil => nil
  | x :: r => (if N.testbit mask i then x :: nil else nil) ++ select_mask mask (i + 1) r
  end.

Definition tree_files (root : bytes) : list (bytes * N) :=
  map (fun x => (root ++ 47 :: fst x, snd x)) std_files.

(** [extra]: files the harness created for this case only, named relative to
    the root like [std_files] (files named exactly like a generated pattern,
    and the candidates that pattern may match). *)
Definition all_files (root : bytes) (extra : list (bytes * N)) : list (bytes * N) :=
  tree_files root ++ map (fun x => (root ++ 47 :: fst x, snd x)) extra.

Definition mk_world_x (root : bytes) (mask : N) (extra : list (bytes * N)) (pats : list pstr)
    (http : list (bytes * N)) (urlok : list bytes) : world :=
  {| w_pats := map (dec root) pats;
     w_files := all_files root extra;
     w_dirs := flat_map (fun x => ancestors (fst x)) (all_files root extra) ++ select_mask mask 0 host_extras;
     w_http := http; w_urlok := urlok |}.

Definition mk_world (root : bytes) (mask : N) (pats : list pstr)
    (http : list (bytes * N)) (urlok : list bytes) : world :=
  mk_world_x root mask nil pats http urlok.

Definition prow := (pstr * bool * N)%type.
Definition dec_row (root : bytes) (r : prow) : row := (dec root (fst (fst r)), snd (fst r), snd r).

(** a planted entry: URL, enabled, marker of the file already in data/filters (0 none);
    New() loads the files of enabled entries and remembers their checksums *)
Definition mk_flt (r : row) : flt :=
  {| f_url := fst (fst r); f_enabled := snd (fst r); f_loaded := snd r;
     f_sum := if snd (fst r) then snd r else 0 |}.

Inductive eop :=
  | op_add (loc : pstr) (white : bool)
  | op_set (old new : pstr) (enabled white : bool)
  | op_refresh (white : bool)
  | op_periodic (due : list pstr).

Definition dec_op (root : bytes) (o : eop) : op :=
  match o with
  | op_add l w => OAdd (dec root l) w
  | op_set o n e w => OSetUrl (dec root o) (dec root n) e w
  | op_refresh w => ORefresh w
  | op_periodic due => OPeriodic (map (dec root) due)
  end.

Definition eobs := (N * N * list prow * list prow)%type.
Definition dec_obs (root : bytes) (o : eobs) : obs_step :=
  match o with (c, u, b, a) => (c, u, map (dec_row root) b, map (dec_row root) a) end.

Definition gres_code (r : gres bool) : N :=
  match r with GOk false => 0 | GOk true => 1 | GBad => 2 | GFuel => 3 end.

(** Round 5: the value of [filtering.safe_fs_patterns] in a configuration
    file as the harness wrote it ([where_], [spelling], [flow] only tell the
    renderings apart: key absent from the section / no section / the key in
    another place or letter case; the spellings of null; flow or block style). *)
Inductive pitem := pi_str (s : pstr) | pi_null | pi_plain (t : bytes) | pi_seq | pi_map.
Inductive pshape :=
  | ps_absent (where_ : N)
  | ps_null (spelling : N)
  | ps_seq (flow : bool) (items : list pitem)
  | ps_scalar
  | ps_map
  | ps_dup.

Definition dec_item (root : bytes) (i : pitem) : yitem :=
  match i with
  | pi_str s => YIStr (dec root s)
  | pi_null => YINull
  | pi_plain t => YIPlain t
  | pi_seq => YISeq
  | pi_map => YIMap
  end.

Definition dec_shape (root : bytes) (s : pshape) : yshape :=
  match s with
  | ps_absent _ => YAbsent
  | ps_null _ => YNull
  | ps_seq _ items => YSeq (map (dec_item root) items)
  | ps_scalar => YScalar
  | ps_map => YMap
  | ps_dup => YDup
  end.

(** a Go []string as observed: None = nil *)
Definition pgs := option (list pstr).
Definition dec_gs (root : bytes) (g : pgs) : gslice :=
  match g with None => GNil | Some l => GSlice (map (dec root) l) end.
Definition eqb_gs (a b : gslice) : bool :=
  match a, b with
  | GNil, GNil => true
  | GSlice x, GSlice y => eqb_list eqb_bytes x y
  | _, _ => false
  end.

Inductive case :=
  (* the harness' tree and host candidates: must be the constants above *)
  | CTree (files : list (bytes * N)) (extras : list bytes)
  (* a history over one DNSFilter: root, host mask, patterns, HTTP world, planted
     block/allow lists, operations, and after every step what was observed *)
  | CHist (root : bytes) (mask : N) (pats : list pstr)
          (http : list (bytes * N)) (urlok : list bytes)
          (block allow : list prow) (ops : list eop) (obs : list eobs)
  (* the same with files created for this history only (glob space: a file
     named exactly like a configured pattern, and what the pattern may match) *)
  | CHistF (root : bytes) (mask : N) (extra : list (bytes * N)) (pats : list pstr)
           (http : list (bytes * N)) (urlok : list bytes)
           (block allow : list prow) (ops : list eop) (obs : list eobs)
  (* a history through package home: the DNSFilter configured by
     setupDNSFilteringConf (so with the HTTP client home.httpClient builds),
     lists planted in the configuration, the registered handlers; only the
     HTTP status is seen, so the code is 0 accepted / 7 panic / 1 refused *)
  | CHistH (root : bytes) (mask : N) (pats : list pstr)
           (http : list (bytes * N)) (urlok : list bytes)
           (block allow : list prow) (ops : list eop) (obs : list eobs)
  (* round 5: a configuration file through package home's real start-up
     (parseConfig over a copy of the process' default object, then
     setupDNSFilteringConf, filtering.New), a history, config.write, a restart
     from the written file, a second history.  [dflt]: SafeFSPatterns of the
     default object; [start]: 0 started / 1 parseConfig failed / 2 New failed;
     [conf]: config.Filtering.SafeFSPatterns after parseConfig; [written]: the
     sequence under the key in the file config.write produced (None: no
     sequence there); the lists of the file are [block] / [allow] *)
  | CConf (root : bytes) (mask : N) (extra : list (bytes * N)) (wd : pstr)
          (dflt : pgs) (shape : pshape) (start : N) (conf : pgs)
          (http : list (bytes * N)) (urlok : list bytes)
          (block allow : list prow) (ops : list eop) (obs : list eobs)
          (written : pgs) (start2 : N) (conf2 : pgs) (ops2 : list eop) (obs2 : list eobs)
  (* what the client built by home.httpClient handed back for a location
     ([m]: marker of the body, 0 = nothing): the hypothesis [client_no_local]
     of the theorems, evaluated on the real client *)
  | CClient (root : bytes) (loc : pstr) (m : N)
  (* validateFilterURL alone: observed code (0 accepted) *)
  | CValidate (root : bytes) (mask : N) (pats : list pstr) (urlok : list bytes)
              (loc : pstr) (obs : N)
  (* DNSFilter.reader alone: observed 0 + marker read / 1 error / 7 panic *)
  | CReader (root : bytes) (pats : list pstr) (http : list (bytes * N))
            (loc : pstr) (obs : N) (marker : N)
  (* filepath.Match *)
  | CGlob (pat name : bytes) (obs : N)
  | CGlobR (root : bytes) (pat name : pstr) (obs : N)
  (* path.Clean and filepath.Clean (both must give [obs]) *)
  | CClean (p : bytes) (obs : bytes)
  | CCleanR (root : bytes) (p obs : pstr).

Definition validate_code (o : option rej) : N :=
  match o with None => 0 | Some k => rej_code k end.

Definition reader_obs (w : world) (loc : bytes) : N * N :=
  match reader (w_pats w) loc with
  | Reject RPanic => (7, 0)
  | src => match fetch w src with Some m => (0, m) | None => (1, 0) end
  end.

Definition eqb_file (a b : bytes * N) : bool := eqb_bytes (fst a) (fst b) && (snd a =? snd b).

Definition hist_trace_x root mask extra pats http urlok block allow ops : list obs_step :=
  let w := mk_world_x root mask extra pats http urlok in
  let st := {| s_block := map (fun r => mk_flt (dec_row root r)) block;
               s_allow := map (fun r => mk_flt (dec_row root r)) allow |} in
  map proj_step (trace w st (map (dec_op root) ops)).

Definition hist_trace root mask pats http urlok block allow ops : list obs_step :=
  hist_trace_x root mask nil pats http urlok block allow ops.

(** what a caller of the HTTP API can tell: accepted, panic, refused *)
Definition coarse_code (c : N) : N := if c =? 0 then 0 else if c =? 7 then 7 else 1.
Definition coarse_step (o : obs_step) : obs_step :=
  match o with (c, u, b, a) => (coarse_code c, u, b, a) end.

(** the observation of the real client as an HTTP table of the world *)
Definition client_obs_ok (root : bytes) (loc : pstr) (m : N) : bool :=
  (m =? 0) || client_no_local_b (tree_files root) ((dec root loc, m) :: nil).

(** Round 5: a world with the patterns start-up put in force. *)
Definition mk_world_p (root : bytes) (mask : N) (extra : list (bytes * N)) (pats : list bytes)
    (http : list (bytes * N)) (urlok : list bytes) : world :=
  {| w_pats := pats;
     w_files := all_files root extra;
     w_dirs := flat_map (fun x => ancestors (fst x)) (all_files root extra) ++ select_mask mask 0 host_extras;
     w_http := http; w_urlok := urlok |}.

Definition planted_state (root : bytes) (block allow : list prow) : state :=
  {| s_block := map (fun r => mk_flt (dec_row root r)) block;
     s_allow := map (fun r => mk_flt (dec_row root r)) allow |}.

Definition coarse_trace (w : world) (st : state) (ops : list op) : list obs_step :=
  map coarse_step (map proj_step (trace w st ops)).

(** what the model says of a CConf case: start code, configuration slice,
    first trace, written list, second start code, second slice, second trace *)
Definition conf_model root mask extra wd dflt shape http urlok block allow ops ops2
  : N * gslice * list obs_step * list bytes * N * gslice * list obs_step :=
  let wdir := dec root wd in
  let d := dec_gs root dflt in
  match load wdir d (dec_shape root shape) with
  | StRejectedParse => (1, GNil, nil, nil, 1, GNil, nil)
  | StRejectedNew g => (2, g, nil, nil, 1, GNil, nil)
  | StStarted g pats =>
      let w := mk_world_p root mask extra pats http urlok in
      let st0 := planted_state root block allow in
      let ops' := map (dec_op root) ops in
      let tr := trace w st0 ops' in
      let tr1 := map coarse_step (map proj_step tr) in
      (* the state after the last step ([fst (run w st0 ops')], read off the trace) *)
      let st1 := restart_state (last (map snd tr) st0) in
      match load wdir d (write_shape g) with
      | StStarted g2 pats2 =>
          (0, g, tr1, elems g, 0, g2,
           coarse_trace (mk_world_p root mask extra pats2 http urlok) st1 (map (dec_op root) ops2))
      | StRejectedNew g2 => (0, g, tr1, elems g, 2, g2, nil)
      | StRejectedParse => (0, g, tr1, elems g, 1, GNil, nil)
      end
  end.

Definition conf_ok root mask extra wd dflt shape (start : N) (conf : pgs) http urlok block allow ops
    (obs : list eobs) (written : pgs) (start2 : N) (conf2 : pgs) ops2 (obs2 : list eobs) : bool :=
  match conf_model root mask extra wd dflt shape http urlok block allow ops ops2 with
  | (m_start, m_conf, m_tr, m_written, m_start2, m_conf2, m_tr2) =>
      (m_start =? start) &&
      (if m_start =? 1 then true
       else eqb_gs m_conf (dec_gs root conf) &&
            (if m_start =? 2 then true
             else eqb_list eqb_step m_tr (map (dec_obs root) obs) &&
                  match written with
                  | Some l => eqb_list eqb_bytes m_written (map (dec root) l)
                  | None => false
                  end &&
                  (m_start2 =? start2) && eqb_gs m_conf2 (dec_gs root conf2) &&
                  eqb_list eqb_step m_tr2 (map (dec_obs root) obs2)))
  end.

Definition case_ok (c : case) : bool :=
  match c with
  | CTree files extras =>
      eqb_list eqb_file files std_files && eqb_list eqb_bytes extras host_extras
  | CHist root mask pats http urlok block allow ops obs =>
      eqb_list eqb_step (hist_trace root mask pats http urlok block allow ops)
               (map (dec_obs root) obs)
  | CHistF root mask extra pats http urlok block allow ops obs =>
      eqb_list eqb_step (hist_trace_x root mask extra pats http urlok block allow ops)
               (map (dec_obs root) obs)
  | CHistH root mask pats http urlok block allow ops obs =>
      eqb_list eqb_step (map coarse_step (hist_trace root mask pats http urlok block allow ops))
               (map (dec_obs root) obs)
  | CConf root mask extra wd dflt shape start conf http urlok block allow ops obs written start2 conf2 ops2 obs2 =>
      conf_ok root mask extra wd dflt shape start conf http urlok block allow ops obs written start2 conf2 ops2 obs2
  | CClient root loc m => client_obs_ok root loc m
  | CValidate root mask pats urlok loc obs =>
      let w := mk_world root mask pats nil urlok in
      validate_code (validate_url (w_pats w) (w_exists w) (w_url_ok w) (dec root loc)) =? obs
  | CReader root pats http loc obs m =>
      let w := mk_world root 0 pats http nil in
      (fst (reader_obs w (dec root loc)) =? obs) && (snd (reader_obs w (dec root loc)) =? m)
  | CGlob pat name obs => gres_code (glob_match pat name) =? obs
  | CGlobR root pat name obs => gres_code (glob_match (dec root pat) (dec root name)) =? obs
  | CClean p obs => eqb_bytes (clean p) obs
  | CCleanR root p obs => eqb_bytes (clean (dec root p)) (dec root obs)
  end.

Definition mismatches := Base.Run.mismatches case_ok.

Definition explain (c : case) : list obs_step * N * N * bytes :=
  match c with
  | CTree _ _ => (nil, 0, 0, nil)
  | CHist root mask pats http urlok block allow ops _ =>
      (hist_trace root mask pats http urlok block allow ops, 0, 0, nil)
  | CHistF root mask extra pats http urlok block allow ops _ =>
      (hist_trace_x root mask extra pats http urlok block allow ops, 0, 0, nil)
  | CHistH root mask pats http urlok block allow ops _ =>
      (map coarse_step (hist_trace root mask pats http urlok block allow ops), 0, 0, nil)
  | CConf root mask extra wd dflt shape _ _ http urlok block allow ops _ _ _ _ ops2 _ =>
      match conf_model root mask extra wd dflt shape http urlok block allow ops ops2 with
      | (m_start, m_conf, m_tr, m_written, m_start2, m_conf2, m_tr2) =>
          (m_tr ++ m_tr2, m_start, m_start2, concat (map (fun p => p ++ 10 :: nil) (elems m_conf)))
      end
  | CClient root loc m => (nil, if client_obs_ok root loc m then 0 else 1, m, nil)
  | CValidate root mask pats urlok loc _ =>
      let w := mk_world root mask pats nil urlok in
      (nil, validate_code (validate_url (w_pats w) (w_exists w) (w_url_ok w) (dec root loc)), 0, nil)
  | CReader root pats http loc _ _ =>
      let w := mk_world root 0 pats http nil in
      (nil, fst (reader_obs w (dec root loc)), snd (reader_obs w (dec root loc)), nil)
  | CGlob pat name _ => (nil, gres_code (glob_match pat name), 0, nil)
  | CGlobR root pat name _ => (nil, gres_code (glob_match (dec root pat) (dec root name)), 0, nil)
  | CClean p _ => (nil, 0, 0, clean p)
  | CCleanR root p _ => (nil, 0, 0, clean (dec root p))
  end.

(** Evaluator glue for C17: runs the SafeFS / Glob / PathClean models on what
    the harness ran the real code on. *)
From AGH Require Import Base.Run Base.Bytes Base.PathClean Base.Glob Model.SafeFS.
Local Open Scope N_scope.

Definition rej_code (k : rej) : N :=
  match k with RNotExist => 1 | RUnsafe => 2 | RBadURL => 3 | RPanic => 7 | RFuel => 8 end.

Definition status_code (s : status) : N * N :=
  match s with
  | SOk n => (0, n)
  | SRejected k => (rej_code k, 0)
  | SExists => (4, 0)
  | SNotFound => (5, 0)
  | SFetchFail => (6, 0)
  | SPanic => (7, 0)
  end.

(** projection of a filter table: URL, enabled, marker found in its file *)
Definition row := (bytes * bool * N)%type.
Definition proj_list (l : list flt) : list row :=
  map (fun f => (f_url f, f_enabled f, f_loaded f)) l.

Definition eqb_row (a b : row) : bool :=
  eqb_bytes (fst (fst a)) (fst (fst b)) && Bool.eqb (snd (fst a)) (snd (fst b)) && (snd a =? snd b).

Definition obs_step := (N * N * list row * list row)%type.   (* code, updated, block, allow *)

Definition proj_step (x : status * state) : obs_step :=
  let (s, st) := x in
  (fst (status_code s), snd (status_code s), proj_list (s_block st), proj_list (s_allow st)).

Definition eqb_step (a b : obs_step) : bool :=
  match a, b with
  | (c1, u1, b1, a1), (c2, u2, b2, a2) =>
      (c1 =? c2) && (u1 =? u2) && eqb_list eqb_row b1 b2 && eqb_list eqb_row a1 a2
  end.

Definition mk_world (pats : list bytes) (files : list (bytes * N)) (dirs : list bytes)
    (http : list (bytes * N)) (urlok : list bytes) : world :=
  {| w_pats := pats; w_files := files; w_dirs := dirs; w_http := http; w_urlok := urlok |}.

(** a planted entry: URL, enabled, marker of the file already in data/filters (0 none);
    New() loads the files of enabled entries and remembers their checksums *)
Definition mk_flt (r : row) : flt :=
  {| f_url := fst (fst r); f_enabled := snd (fst r); f_loaded := snd r;
     f_sum := if snd (fst r) then snd r else 0 |}.

Definition gres_code (r : gres bool) : N :=
  match r with GOk false => 0 | GOk true => 1 | GBad => 2 | GFuel => 3 end.

Inductive case :=
  (* a history over one DNSFilter: world, planted block/allow lists, operations,
     and after every step what was observed *)
  | CHist (pats : list bytes) (files : list (bytes * N)) (dirs : list bytes)
          (http : list (bytes * N)) (urlok : list bytes)
          (block allow : list row) (ops : list op) (obs : list obs_step)
  (* validateFilterURL alone: observed code (0 accepted) *)
  | CValidate (pats : list bytes) (files : list (bytes * N)) (dirs : list bytes)
              (urlok : list bytes) (loc : bytes) (obs : N)
  (* DNSFilter.reader alone: observed 0 + marker read / 1 error / 7 panic *)
  | CReader (pats : list bytes) (files : list (bytes * N)) (http : list (bytes * N))
            (loc : bytes) (obs : N) (marker : N)
  (* filepath.Match *)
  | CGlob (pat name : bytes) (obs : N)
  (* path.Clean and filepath.Clean (both must give [obs]) *)
  | CClean (p : bytes) (obs : bytes).

Definition validate_code (o : option rej) : N :=
  match o with None => 0 | Some k => rej_code k end.

Definition reader_obs (w : world) (loc : bytes) : N * N :=
  match reader (w_pats w) loc with
  | Reject RPanic => (7, 0)
  | src => match fetch w src with Some m => (0, m) | None => (1, 0) end
  end.

Definition case_ok (c : case) : bool :=
  match c with
  | CHist pats files dirs http urlok block allow ops obs =>
      let w := mk_world pats files dirs http urlok in
      let st := {| s_block := map mk_flt block; s_allow := map mk_flt allow |} in
      eqb_list eqb_step (map proj_step (trace w st ops)) obs
  | CValidate pats files dirs urlok loc obs =>
      let w := mk_world pats files dirs nil urlok in
      validate_code (validate_url pats (w_exists w) (w_url_ok w) loc) =? obs
  | CReader pats files http loc obs m =>
      let w := mk_world pats files nil http nil in
      (fst (reader_obs w loc) =? obs) && (snd (reader_obs w loc) =? m)
  | CGlob pat name obs => gres_code (glob_match pat name) =? obs
  | CClean p obs => eqb_bytes (clean p) obs
  end.

Definition mismatches := Base.Run.mismatches case_ok.

Definition explain (c : case) : list obs_step * N * N * bytes :=
  match c with
  | CHist pats files dirs http urlok block allow ops _ =>
      let w := mk_world pats files dirs http urlok in
      let st := {| s_block := map mk_flt block; s_allow := map mk_flt allow |} in
      (map proj_step (trace w st ops), 0, 0, nil)
  | CValidate pats files dirs urlok loc _ =>
      let w := mk_world pats files dirs nil urlok in
      (nil, validate_code (validate_url pats (w_exists w) (w_url_ok w) loc), 0, nil)
  | CReader pats files http loc _ _ =>
      let w := mk_world pats files nil http nil in
      (nil, fst (reader_obs w loc), snd (reader_obs w loc), nil)
  | CGlob pat name _ => (nil, gres_code (glob_match pat name), 0, nil)
  | CClean p _ => (nil, 0, 0, clean p)
  end.

(** short names for the harness' printer *)
Definition op_add := OAdd.
Definition op_set := OSetUrl.
Definition op_refresh := ORefresh.

(** Evaluator glue for the configuration round trip of C04 (used by Run/C04.v,
    constructor [CConf]): runs [load] / [save] / [reload] of
    Model/ClientConfig.v on the file objects the harness generated and compares
    every field of every stored client, of every written object and the
    effective settings of the probes with what clientsContainer.Init /
    forConfig / ApplyClientFiltering did, for both generations. *)
From Coq Require Export ZArith.
From AGH Require Import Base.Run.
From AGH Require Export Model.ClientIndex Model.ClientConfig.
From AGH Require Model.Schedule.
Local Open Scope N_scope.

Definition mko := Build_cobj.
Definition mkss := Build_ssconf.
Definition mkx := Build_extra.
Definition mkfb := Build_fblocked.
Definition mksrc := Build_sources.

(** What one generation showed: the error of Init (stage 0: toPersistent,
    code 1 ids / 2 blocked service; stage 1: storage, code = error class of
    Storage.Add; index of the object), or the stored clients in RangeByName
    order with every field, ApplyClientFiltering for the probes, whether
    DNSFilter.ApplyAdditionalFiltering panicked for each probe (nil schedule),
    and the objects forConfig returned. *)
Inductive cres :=
  | RErr (stage i code : N)
  | ROk (stored : list (client * extra)) (acfs : list (option settings)) (panics : list bool)
        (saved : list cobj).

Definition eqb_range (a b : Schedule.day_range) : bool :=
  Z.eqb (Schedule.dr_start a) (Schedule.dr_start b) && Z.eqb (Schedule.dr_end a) (Schedule.dr_end b).
Definition eqb_blocked (a b : blocked) : bool :=
  eqb_list eqb_bytes (b_ids a) (b_ids b) && eqb_list eqb_range (b_sched a) (b_sched b) &&
  (b_zone a =? b_zone b).
Definition eqb_prefix (a b : prefix) : bool := eqb_bytes (fst a) (fst b) && (snd a =? snd b).

Definition eqb_client (a b : client) : bool :=
  (c_uid a =? c_uid b) && eqb_bytes (c_name a) (c_name b) &&
  eqb_list eqb_bytes (c_cids a) (c_cids b) && eqb_list addr_eqb (c_ips a) (c_ips b) &&
  eqb_list eqb_prefix (c_subnets a) (c_subnets b) && eqb_list eqb_bytes (c_macs a) (c_macs b) &&
  Bool.eqb (c_own_settings a) (c_own_settings b) && Bool.eqb (c_filtering a) (c_filtering b) &&
  Bool.eqb (c_safesearch a) (c_safesearch b) && Bool.eqb (c_safebrowsing a) (c_safebrowsing b) &&
  Bool.eqb (c_parental a) (c_parental b) && Bool.eqb (c_own_blocked a) (c_own_blocked b) &&
  eqb_option eqb_blocked (c_blocked a) (c_blocked b) &&
  Bool.eqb (c_ignore_qlog a) (c_ignore_qlog b) && Bool.eqb (c_ignore_stats a) (c_ignore_stats b) &&
  eqb_list eqb_bytes (c_tags a) (c_tags b) && eqb_list eqb_bytes (c_upstreams a) (c_upstreams b).

Definition eqb_ss (a b : ssconf) : bool :=
  Bool.eqb (ss_enabled a) (ss_enabled b) && Bool.eqb (ss_bing a) (ss_bing b) &&
  Bool.eqb (ss_ddg a) (ss_ddg b) && Bool.eqb (ss_ecosia a) (ss_ecosia b) &&
  Bool.eqb (ss_google a) (ss_google b) && Bool.eqb (ss_pixabay a) (ss_pixabay b) &&
  Bool.eqb (ss_yandex a) (ss_yandex b) && Bool.eqb (ss_youtube a) (ss_youtube b).

Definition eqb_extra (a b : extra) : bool :=
  eqb_ss (x_ss a) (x_ss b) && Bool.eqb (x_cache_enabled a) (x_cache_enabled b) &&
  (x_cache_size a =? x_cache_size b) && Bool.eqb (x_nil_sched a) (x_nil_sched b).

Definition eqb_fblocked (a b : fblocked) : bool :=
  eqb_list eqb_bytes (fb_ids a) (fb_ids b) &&
  eqb_option (fun x y => eqb_list eqb_range (fst x) (fst y) && (snd x =? snd y)) (fb_sched a) (fb_sched b).

Definition eqb_pid (a b : pid) : bool :=
  match a, b with
  | PIp x, PIp y => addr_eqb x y
  | PNet x, PNet y => eqb_prefix x y
  | PMac x, PMac y => eqb_bytes x y
  | PCid x, PCid y => eqb_bytes x y
  | PBad, PBad => true
  | _, _ => false
  end.

Definition eqb_cobj (a b : cobj) : bool :=
  eqb_bytes (o_name a) (o_name b) && eqb_list eqb_pid (o_ids a) (o_ids b) &&
  eqb_list eqb_bytes (o_tags a) (o_tags b) && eqb_list eqb_bytes (o_upstreams a) (o_upstreams b) &&
  (o_uid a =? o_uid b) && eqb_ss (o_ss a) (o_ss b) &&
  eqb_option eqb_fblocked (o_blocked a) (o_blocked b) &&
  (o_cache_size a =? o_cache_size b) && Bool.eqb (o_cache_enabled a) (o_cache_enabled b) &&
  Bool.eqb (o_use_global_settings a) (o_use_global_settings b) &&
  Bool.eqb (o_filtering a) (o_filtering b) && Bool.eqb (o_parental a) (o_parental b) &&
  Bool.eqb (o_safebrowsing a) (o_safebrowsing b) &&
  Bool.eqb (o_use_global_blocked a) (o_use_global_blocked b) &&
  Bool.eqb (o_ignore_qlog a) (o_ignore_qlog b) && Bool.eqb (o_ignore_stats a) (o_ignore_stats b).

Section Conf.
  Variable ecode : err -> N.
  Variable eqb_sett : settings -> settings -> bool.

  Definition eqb_cres (a b : cres) : bool :=
    match a, b with
    | RErr s i c, RErr s' i' c' => (s =? s') && (i =? i') && (c =? c')
    | ROk st ac pn sv, ROk st' ac' pn' sv' =>
        eqb_list (fun x y => eqb_client (fst x) (fst y) && eqb_extra (snd x) (snd y)) st st' &&
        eqb_list (eqb_option eqb_sett) ac ac' && eqb_list Bool.eqb pn pn' && eqb_list eqb_cobj sv sv'
    | _, _ => false
    end.

  (** The storage configuration Init builds from the runtime_sources switches
      and the DHCP server (its lease table) the harness handed to Init. *)
  Variable srcs : sources.
  Variable leases : list (addr * bytes).
  Definition conf_sc : storage_conf := init_conf srcs (fun a => zget a leases) false.

  Definition conf_obs (probes : list (bytes * addr)) (g : settings) (l : lres) : cres :=
    match l with
    | LConvErr i e => RErr 0 i (match e with CErrIds => 1 | CErrService => 2 end)
    | LAddErr i e => RErr 1 i (ecode e)
    | LOk r =>
        ROk (map (fun c => (c, extra_of r (c_uid c))) (clients_by_name (fst r)))
            (map (fun q => container_acf conf_sc r (fst q) (snd q) g) probes)
            (map (fun q => query_panics r (sc_dhcp conf_sc) (fst q) (snd q)) probes)
            (save r)
    end.

  (** Generation 1: Init on the file objects; generation 2: Init of a fresh
      container on what forConfig of generation 1 wrote (after a YAML
      round trip).  [res2 = None]: generation 2 showed exactly [res1]. *)
  Definition conf_model (cfg : config) (known : list bytes) probes g (objs : list (uid * cobj))
      : cres * option cres :=
    let l1 := load cfg known objs in
    (conf_obs probes g l1,
     match l1 with LOk r => Some (conf_obs probes g (reload cfg known 0 r)) | _ => None end).

  Definition conf_ok cfg known probes g objs (res1 : cres) (res2 : option cres) : bool :=
    match conf_model cfg known probes g objs with
    | (m1, m2) =>
        eqb_cres m1 res1 &&
        match m2 with
        | Some m => eqb_cres m (match res2 with Some r => r | None => res1 end)
        | None => match res2 with None => true | Some _ => false end
        end
    end.
End Conf.

(** Evaluator glue for C07: replays a whole history on the model and compares
    every search response and the shape of the state with what the real
    queryLog did. *)
From AGH Require Export Base.Run Model.QLogFile Model.QLog.
Local Open Scope Z_scope.

Definition E := Build_entry.
Definition Cl := Build_client.
Definition Cfg := Build_config.
Definition Req := Build_request.

Inductive hstep :=
  | HOp (o : op)
  (* buffer length, lines in querylog.json / .json.1 (-1 = file absent) *)
  | HState (nbuf ncur nrot : Z)
  (* GET /control/querylog: 0 = 200, 1 = 400, 2 = panic; ids; oldest (0 = "") *)
  | HSearch (q : request) (code : Z) (ids : list N) (oldest : Z)
  (* queryLog.search called directly with explicit searchParams (small scan
     windows cannot be requested through HTTP) *)
  | HSearchP (p : params) (code : Z) (ids : list N) (oldest : Z).

Inductive case :=
  | CHist (me bf : Z) (c0 : config) (steps : list hstep).

Definition opt_len (o : option (list entry)) : Z :=
  match o with Some l => lenZ l | None => -1 end.

Definition search_ok (me bf : Z) (s : state) (q : request) (code : Z) (ids : list N) (oldest : Z) : bool :=
  match handle me bf s q with
  | Ok es o => (code =? 0) && eqb_list N.eqb (map e_id es) ids && (o =? oldest)
  | BadRequest => code =? 1
  | Panic => code =? 2
  end.

Definition searchp_ok (me bf : Z) (s : state) (p : params) (code : Z) (ids : list N) (oldest : Z) : bool :=
  match search me bf s p with
  | Ok es o => (code =? 0) && eqb_list N.eqb (map e_id es) ids && (o =? oldest)
  | BadRequest => code =? 1
  | Panic => code =? 2
  end.

Definition P := Build_params.

Fixpoint replay (me bf : Z) (s : state) (steps : list hstep) : bool :=
  match steps with
  | [] => true
  | HOp o :: r => replay me bf (step s o) r
  | HState nb nc nr :: r =>
      (lenZ (buf s) =? nb) && (opt_len (cur s) =? nc) && (opt_len (rot s) =? nr) && replay me bf s r
  | HSearch q code ids oldest :: r => search_ok me bf s q code ids oldest && replay me bf s r
  | HSearchP p code ids oldest :: r => searchp_ok me bf s p code ids oldest && replay me bf s r
  end.

Definition case_ok (c : case) : bool :=
  match c with
  | CHist me bf c0 steps =>
      (me =? max_entry_size) && (bf =? buffer_size) && replay me bf (init c0) steps
  end.

Definition mismatches := Base.Run.mismatches case_ok.

(** For replay files: per search, what the model answers (code, ids, oldest)
    and whether it agrees. *)
Fixpoint explain_steps (me bf : Z) (s : state) (steps : list hstep) : list (Z * list N * Z * bool) :=
  match steps with
  | [] => []
  | HOp o :: r => explain_steps me bf (step s o) r
  | HState nb nc nr :: r =>
      if (lenZ (buf s) =? nb) && (opt_len (cur s) =? nc) && (opt_len (rot s) =? nr)
      then explain_steps me bf s r
      else (-1, [], lenZ (buf s) * 1000000 + (opt_len (cur s) + 1) * 1000 + (opt_len (rot s) + 1), false)
           :: explain_steps me bf s r
  | HSearch q code ids oldest :: r =>
      (match handle me bf s q with
       | Ok es o => (0, map e_id es, o)
       | BadRequest => (1, [], 0)
       | Panic => (2, [], 0)
       end, search_ok me bf s q code ids oldest) :: explain_steps me bf s r
  | HSearchP p code ids oldest :: r =>
      (match search me bf s p with
       | Ok es o => (0, map e_id es, o)
       | BadRequest => (1, [], 0)
       | Panic => (2, [], 0)
       end, searchp_ok me bf s p code ids oldest) :: explain_steps me bf s r
  end.

Definition explain (c : case) :=
  match c with CHist me bf c0 steps => explain_steps me bf (init c0) steps end.

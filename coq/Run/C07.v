(** Evaluator glue for C07: replays a whole history on the model and compares
    every search response and the shape of the state with what the real
    queryLog did. *)
From Coq Require Export Uint63.
From AGH Require Export Base.Run Model.QLogFile Model.QLog Model.QLogCodec Model.QLogServe Model.QLogRotate Model.QLogClients.
From AGH Require Model.ClientIndex.
Local Open Scope Z_scope.

(** Byte strings are printed packed, seven bytes to a primitive integer
    ([len + 8 * little-endian bytes]): list literals of N are slow to elaborate. *)
Definition bitn (x i : Uint63.int) (w : N) : N :=
  if Uint63.eqb (Uint63.land (Uint63.lsr x i) 1) 0 then 0%N else w.
Definition byte_of (x : Uint63.int) : N :=
  (bitn x 0 1 + bitn x 1 2 + bitn x 2 4 + bitn x 3 8 + bitn x 4 16 + bitn x 5 32 + bitn x 6 64 + bitn x 7 128)%N.
Fixpoint bytes_of (len : nat) (x : Uint63.int) : bytes :=
  match len with
  | O => []
  | S l => byte_of x :: bytes_of l (Uint63.lsr x 8)
  end.
Definition len_of (x : Uint63.int) : nat :=
  let l := Uint63.land x 7 in
  if Uint63.eqb l 0 then 0 else if Uint63.eqb l 1 then 1 else if Uint63.eqb l 2 then 2
  else if Uint63.eqb l 3 then 3 else if Uint63.eqb l 4 then 4 else if Uint63.eqb l 5 then 5
  else if Uint63.eqb l 6 then 6 else 7.
Inductive il := I0 | IC (x : Uint63.int) (l : il).
Arguments IC x%uint63_scope l.
Fixpoint pk (l : il) : bytes :=
  match l with I0 => [] | IC x l' => bytes_of (len_of x) (Uint63.lsr x 3) ++ pk l' end.

Definition E := Build_entry.
Definition Cl := Build_client.
Definition Cfg := Build_config.
Definition Req := Build_request.

Inductive hstep :=
  | HOp (o : op)
  (* buffer length, lines in querylog.json / .json.1 (-1 = file absent) *)
  | HState (nbuf ncur nrot : Z)
  (* GET /control/querylog: 0 = 200, 1 = 400, 2 = panic; ids; oldest (0 = "") *)
  | HSearch (q : request) (code : Z) (ids : list N) (oldest : Z)
  (* queryLog.search called directly with explicit searchParams (small scan
     windows cannot be requested through HTTP) *)
  | HSearchP (p : params) (code : Z) (ids : list N) (oldest : Z)
  (* PUT /control/querylog/config/update changed anonymize_client_ip *)
  | HAnon (b : bool)
  (* GET /control/querylog with the client column: rows = (id, index of the
     "client" text in the case's table of address texts) *)
  | HSearchC (q : request) (code : Z) (rows : list (N * N)) (oldest : Z)
  (* queryLog.checkAndRotate run as a whole with rotation interval [ivl] (ns),
     [now] = a clock reading taken right after it *)
  | HCheckRot (ivl now : Z)
  (* the registry of package home changed (persistent clients, leases,
     runtime clients): the FindClient table is recomputed from it *)
  | HReg (ops : list gop)
  (* the rotation interval as configured now (PUT .../config/update, POST
     /control/querylog_config, the configuration a restart reads) *)
  | HIvl (ivl : Z)
  (* queryLog.checkAndRotate run as a whole with the CONFIGURED interval *)
  | HCheckRotCfg (now : Z).

(** Registry records as the harness prints them (the fields the query log
    never looks at are fixed). *)
Definition mkc (u : N) (name : bytes) (cids : list bytes) (ips : list (bytes * bytes))
    (subnets : list (bytes * N)) (macs : list bytes) (ign : bool) : ClientIndex.client :=
  {| ClientIndex.c_uid := u; ClientIndex.c_name := name; ClientIndex.c_cids := cids; ClientIndex.c_ips := ips;
     ClientIndex.c_subnets := subnets; ClientIndex.c_macs := macs; ClientIndex.c_own_settings := false;
     ClientIndex.c_filtering := false; ClientIndex.c_safesearch := false; ClientIndex.c_safebrowsing := false;
     ClientIndex.c_parental := false; ClientIndex.c_own_blocked := false; ClientIndex.c_blocked := None;
     ClientIndex.c_ignore_qlog := ign; ClientIndex.c_ignore_stats := false; ClientIndex.c_tags := [];
     ClientIndex.c_upstreams := [] |}.
Definition GAdd (c : ClientIndex.client) : gop := GClient (ClientIndex.OAdd c).
Definition GUpd (name : bytes) (c : ClientIndex.client) : gop := GClient (ClientIndex.OUpdate name c).
Definition GRem (name : bytes) : gop := GClient (ClientIndex.ORemove name).
Definition ci_cfg : ClientIndex.config :=
  {| ClientIndex.cfg_tags := []; ClientIndex.cfg_addr_ok := fun _ => true |}.

(** One file line through the real codec.  [src]: the entry json.Marshal was
    given (None for hand-written lines); [good_*]: the strings of the line Go's
    time.Parse / net.ParseIP / netip.ParseAddr / base64 accept; what
    decodeLogEntry did (panicked, decoded entry); readJSONValue of the three
    searched keys; quickMatch verdicts (value, IDN form, strict, client table,
    verdict) of the real searchCriterion on the line. *)
Record qobs := { qo_v : bytes; qo_a : bytes; qo_strict : bool; qo_quick : bool; qo_match : bool }.

Inductive case :=
  (* [texts]: the address texts of the case; [masks]: (address, masked
     address) as indices into [texts] (the anonymiser oracle) *)
  | CHist (me bf : Z) (c0 : config) (texts : list bytes) (masks : list (N * N)) (steps : list hstep)
  (* a history on a log whose FindClient is home's findMultiple over a real
     client.Storage: [pt] = netip.ParseAddr on the identifier texts [ids] of
     the case; the [clients] table of [c0] and of every operation is ignored
     and computed from the registry (Model/QLogClients.v) *)
  | CHistR (me bf : Z) (c0 : config) (texts : list bytes) (masks : list (N * N))
           (pt : parse_tbl) (ids : list bytes) (steps : list hstep)
  | CCodec (src : option centry) (line : bytes)
           (good_time good_ip good_addr good_b64 : list bytes)
           (panicked : bool) (dec : centry) (qh ip cid : bytes)
           (cl : list (bytes * client)) (qs : list qobs)
  (* a log file too large to replay line by line (more lines than the scan
     cap): [nm] records with host [hm] followed by [nn] newer ones with host
     [hn], record k (from 0, oldest) stamped [base + k * step] and numbered
     k + 1; [cap] = maxFileScanEntries of newSearchParams as the harness reads
     it; requests without cursor through handleQueryLog with code / ids /
     oldest.  The file part is [collect] over the lines newest first (what
     [search_files] is without a cursor: Proofs/QLogParams.v
     search_files_collect), the rest [search_post]. *)
  | CBig (cap nm nn base step : Z) (hm hn ip : bytes) (reqs : list (request * Z * list N * Z)).

(** Constructors for the shard files. *)
Definition CE := Build_centry.
Definition CR := Build_crule.
Definition RW := Build_rewrite.
Definition QO := Build_qobs.

Definition opt_len (o : option (list entry)) : Z :=
  match o with Some l => lenZ l | None => -1 end.

Definition search_ok (me bf : Z) (s : state) (q : request) (code : Z) (ids : list N) (oldest : Z) : bool :=
  match handle me bf s q with
  | Ok es o => (code =? 0) && eqb_list N.eqb (map e_id es) ids && (o =? oldest)
  | BadRequest => code =? 1
  | Panic => code =? 2
  end.

Definition searchp_ok (me bf : Z) (s : state) (p : params) (code : Z) (ids : list N) (oldest : Z) : bool :=
  match search me bf s p with
  | Ok es o => (code =? 0) && eqb_list N.eqb (map e_id es) ids && (o =? oldest)
  | BadRequest => code =? 1
  | Panic => code =? 2
  end.

Definition P := Build_params.

Definition text_at (texts : list bytes) (i : N) : bytes := nth (N.to_nat i) texts [].

Definition tbl_of (texts : list bytes) (masks : list (N * N)) : mask_tbl :=
  map (fun x : N * N => (text_at texts (fst x), text_at texts (snd x))) masks.

Definition row_eqb (a b : N * bytes) : bool := N.eqb (fst a) (fst b) && eqb_bytes (snd a) (snd b).

(** The served response (Model/QLogServe.v) against ids and client column. *)
Definition resp_ok (texts : list bytes) (r : response) (code : Z) (rows : list (N * N)) (oldest : Z) : bool :=
  match r with
  | ROk rs o => (code =? 0) && eqb_list row_eqb rs (map (fun x : N * N => (fst x, text_at texts (snd x))) rows) && (o =? oldest)
  | RBad => code =? 1
  | RPanic => code =? 2
  end.

(** What the replay carries besides the served state: the registry (used
    when [rv_use]), the parse table and identifier texts, the configured
    rotation interval. *)
Record renv := { rv_use : bool; rv_rg : registry; rv_pt : parse_tbl; rv_ids : list bytes; rv_ivl : Z }.

Definition day_ns : Z := 86400000000000.

Definition env0 : renv := {| rv_use := false; rv_rg := empty_registry; rv_pt := []; rv_ids := []; rv_ivl := day_ns |}.
Definition envR (pt : parse_tbl) (ids : list bytes) : renv :=
  {| rv_use := true; rv_rg := empty_registry; rv_pt := pt; rv_ids := ids; rv_ivl := day_ns |}.

(** With a registry the FindClient table of the state is the computed one. *)
Definition sync (v : renv) (s : sstate) : sstate :=
  if rv_use v then
    {| st := set_config (st s) (enabled (cfg (st s))) (ignored (cfg (st s)))
                        (clients_table (rv_rg v) (rv_pt v) (rv_ids v));
       anon := anon s |}
  else s.

Definition env_reg (v : renv) (ops : list gop) : renv :=
  {| rv_use := rv_use v; rv_rg := grun ci_cfg ops (rv_rg v); rv_pt := rv_pt v; rv_ids := rv_ids v; rv_ivl := rv_ivl v |}.
Definition env_ivl (v : renv) (i : Z) : renv :=
  {| rv_use := rv_use v; rv_rg := rv_rg v; rv_pt := rv_pt v; rv_ids := rv_ids v; rv_ivl := i |}.

(** The state is threaded through [qstep] / [serve] of Model/QLogServe.v: the
    state after a served request is the one [serve] returns. *)
Fixpoint replay (me bf : Z) (texts : list bytes) (t : mask_tbl) (v : renv) (s : sstate) (steps : list hstep) : bool :=
  match steps with
  | [] => true
  | HOp o :: r => replay me bf texts t v (sync v (qstep me bf t s (SOp o))) r
  | HAnon b :: r => replay me bf texts t v (qstep me bf t s (SAnon b)) r
  | HState nb nc nr :: r =>
      (lenZ (buf (st s)) =? nb) && (opt_len (cur (st s)) =? nc) && (opt_len (rot (st s)) =? nr) && replay me bf texts t v s r
  | HSearch q code ids oldest :: r =>
      search_ok me bf (st s) q code ids oldest && replay me bf texts t v (qstep me bf t s (SServe q)) r
  | HSearchC q code rows oldest :: r =>
      let (s', resp) := serve me bf t s q in
      resp_ok texts resp code rows oldest && replay me bf texts t v s' r
  | HSearchP p code ids oldest :: r => searchp_ok me bf (st s) p code ids oldest && replay me bf texts t v s r
  | HCheckRot ivl now :: r =>
      (* the code as it is since 011b417: a missing file is not rotated *)
      replay me bf texts t v {| st := check_and_rotate false ivl now (st s); anon := anon s |} r
  | HReg ops :: r => let v' := env_reg v ops in replay me bf texts t v' (sync v' s) r
  | HIvl i :: r => replay me bf texts t (env_ivl v i) s r
  | HCheckRotCfg now :: r =>
      replay me bf texts t v {| st := check_and_rotate false (rv_ivl v) now (st s); anon := anon s |} r
  end.

(** *** codec cases *)
Definition mem_b (s : bytes) (l : list bytes) : bool := existsb (eqb_bytes s) l.

Definition mk_oracles (gt gi ga gb : list bytes) : oracles :=
  {| o_time := fun s => mem_b s gt; o_ip := fun s => mem_b s gi;
     o_addr := fun s => mem_b s ga; o_b64 := fun s => mem_b s gb |}.

Definition rrv_eqb (a b : rrv) : bool :=
  match a, b with
  | RS x, RS y => eqb_bytes x y
  | RNumber x, RNumber y => eqb_bytes x y
  | RBoolean x, RBoolean y => Bool.eqb x y
  | RNullV, RNullV => true
  | RNested, RNested => true
  | _, _ => false
  end.

Definition crule_eqb (a b : crule) : bool :=
  eqb_bytes (cr_text a) (cr_text b) && eqb_bytes (cr_ip a) (cr_ip b) && (cr_id a =? cr_id b).

(** Go maps have no order: compare sorted by key. *)
Fixpoint ins_kv (x : Z * list rrv) (l : list (Z * list rrv)) : list (Z * list rrv) :=
  match l with
  | [] => [x]
  | y :: r => if fst x <=? fst y then x :: l else y :: ins_kv x r
  end.
Definition sort_kv (l : list (Z * list rrv)) : list (Z * list rrv) := fold_right ins_kv [] l.

Definition rewrite_eqb (a b : rewrite) : bool :=
  (rw_rcode a =? rw_rcode b) &&
  eqb_list (fun x y : Z * list rrv => (fst x =? fst y) && eqb_list rrv_eqb (snd x) (snd y))
           (sort_kv (rw_resp a)) (sort_kv (rw_resp b)).

Definition centry_eqb (a b : centry) : bool :=
  eqb_list eqb_bytes (ce_s a) (ce_s b) && eqb_list Bool.eqb (ce_f a) (ce_f b) &&
  eqb_list Z.eqb (ce_i a) (ce_i b) && eqb_list eqb_bytes (ce_iplist a) (ce_iplist b) &&
  eqb_list crule_eqb (ce_rules a) (ce_rules b) && eqb_option rewrite_eqb (ce_rw a) (ce_rw b).

Definition cfg_of (cl : list (bytes * client)) : config :=
  {| enabled := true; file_enabled := true; mem_size := 1; ignored := []; clients := cl |}.

(** The abstract entry (Model/QLog.v) a decoded entry stands for. *)
Definition abs_entry (e : centry) : entry :=
  {| e_id := 0; e_time := 0; e_len := 0; e_host := slot e sQH; e_ip := slot e sIP; e_cid := slot e sCID;
     e_reason := ival e iReason; e_filtered := fval e fFiltered |}.

Definition qobs_ok (cl : list (bytes * client)) (line : bytes) (d : centry) (q : qobs) : bool :=
  let k := CTerm (qo_v q) (qo_a q) (qo_strict q) in
  Bool.eqb (quick_line (cfg_of cl) line k) (qo_quick q) &&
  Bool.eqb (crit_match (cfg_of cl) (abs_entry d) k) (qo_match q).

Definition codec_ok (src : option centry) (line : bytes) (bt bi ba bb : list bytes)
    (panicked : bool) (dec : centry) (qh ip cid : bytes) (cl : list (bytes * client)) (qs : list qobs) : bool :=
  match src with Some e => eqb_bytes (encode e) line | None => true end &&
  (let (p, d) := decode (mk_oracles bt bi ba bb) line in
   Bool.eqb p panicked && (panicked || (centry_eqb d dec && forallb (qobs_ok cl line d) qs))) &&
  eqb_bytes (read_json_value line pQH) qh &&
  eqb_bytes (read_json_value line pIP) ip &&
  eqb_bytes (read_json_value line pCID) cid.

(** *** large-file cases *)
Definition big_lines (nm nn base step : Z) (hm hn ip : bytes) : list (option entry) :=
  snd (Z.iter (nm + nn)
         (fun kl : Z * list (option entry) =>
            let (k, l) := kl in
            (k + 1, Some (E (Z.to_N (k + 1)) (base + k * step) 100 (if k <? nm then hm else hn) ip [] 0 false) :: l))
         (0, [])).

Definition big_cfg : config := Cfg true true 1 [] [].

Definition big_answer (cap : Z) (L : list (option entry)) (q : request) : option outcome :=
  match parse_with (scan_now cap) q with
  | None => Some BadRequest
  | Some p =>
      match p_older p with
      | Some _ => None     (* requests with a cursor are not replayed here *)
      | None =>
          Some (if p_limit p =? 0 then Ok [] 0 else
                let (fe, fo) := collect big_cfg p (p_offset p + p_limit p) L 0 0 0 in
                search_post p [] fe fo)
      end
  end.

Definition big_req_ok (cap : Z) (L : list (option entry)) (x : request * Z * list N * Z) : bool :=
  let '(q, code, ids, oldest) := x in
  match big_answer cap L q with
  | Some (Ok es o) => (code =? 0) && eqb_list N.eqb (map e_id es) ids && (o =? oldest)
  | Some BadRequest => code =? 1
  | Some Panic => code =? 2
  | None => false
  end.

Definition case_ok (c : case) : bool :=
  match c with
  | CHist me bf c0 texts masks steps =>
      (me =? max_entry_size) && (bf =? buffer_size) &&
      replay me bf texts (tbl_of texts masks) env0 (sinit c0) steps
  | CHistR me bf c0 texts masks pt ids steps =>
      (me =? max_entry_size) && (bf =? buffer_size) &&
      replay me bf texts (tbl_of texts masks) (envR pt ids) (sync (envR pt ids) (sinit c0)) steps
  | CCodec src line bt bi ba bb panicked dec qh ip cid cl qs =>
      codec_ok src line bt bi ba bb panicked dec qh ip cid cl qs
  | CBig cap nm nn base step hm hn ip reqs =>
      (cap =? default_scan) &&
      (let L := big_lines nm nn base step hm hn ip in forallb (big_req_ok cap L) reqs)
  end.

Definition mismatches := Base.Run.mismatches case_ok.

(** For replay files: per search, what the model answers (code, ids, oldest)
    and whether it agrees. *)
Fixpoint explain_steps (me bf : Z) (texts : list bytes) (t : mask_tbl) (v : renv) (s : sstate) (steps : list hstep) : list (Z * list N * Z * bool) :=
  match steps with
  | [] => []
  | HOp o :: r => explain_steps me bf texts t v (sync v (qstep me bf t s (SOp o))) r
  | HAnon b :: r => explain_steps me bf texts t v (qstep me bf t s (SAnon b)) r
  | HState nb nc nr :: r =>
      if (lenZ (buf (st s)) =? nb) && (opt_len (cur (st s)) =? nc) && (opt_len (rot (st s)) =? nr)
      then explain_steps me bf texts t v s r
      else (-1, [], lenZ (buf (st s)) * 1000000 + (opt_len (cur (st s)) + 1) * 1000 + (opt_len (rot (st s)) + 1), false)
           :: explain_steps me bf texts t v s r
  | HSearch q code ids oldest :: r =>
      (match handle me bf (st s) q with
       | Ok es o => (0, map e_id es, o)
       | BadRequest => (1, [], 0)
       | Panic => (2, [], 0)
       end, search_ok me bf (st s) q code ids oldest) :: explain_steps me bf texts t v s r
  | HSearchC q code rows oldest :: r =>
      (* code 10 + x: a request compared with its client column; a row whose
         client differs shows as agreement on ids but flag false *)
      (match handle me bf (st s) q with
       | Ok es o => (10, map e_id es, o)
       | BadRequest => (11, [], 0)
       | Panic => (12, [], 0)
       end, resp_ok texts (snd (serve me bf t s q)) code rows oldest) :: explain_steps me bf texts t v s r
  | HSearchP p code ids oldest :: r =>
      (match search me bf (st s) p with
       | Ok es o => (0, map e_id es, o)
       | BadRequest => (1, [], 0)
       | Panic => (2, [], 0)
       end, searchp_ok me bf (st s) p code ids oldest) :: explain_steps me bf texts t v s r
  | HCheckRot ivl now :: r =>
      explain_steps me bf texts t v {| st := check_and_rotate false ivl now (st s); anon := anon s |} r
  | HReg ops :: r => let v' := env_reg v ops in explain_steps me bf texts t v' (sync v' s) r
  | HIvl i :: r => explain_steps me bf texts t (env_ivl v i) s r
  | HCheckRotCfg now :: r =>
      explain_steps me bf texts t v {| st := check_and_rotate false (rv_ivl v) now (st s); anon := anon s |} r
  end.

(** For codec cases: (0, ids unused, 0, flag) rows: encode agrees, decode
    agrees (panic flag, entry), the three raw values agree, quick verdicts. *)
Definition explain (c : case) :=
  match c with
  | CHist me bf c0 texts masks steps => explain_steps me bf texts (tbl_of texts masks) env0 (sinit c0) steps
  | CHistR me bf c0 texts masks pt ids steps =>
      explain_steps me bf texts (tbl_of texts masks) (envR pt ids) (sync (envR pt ids) (sinit c0)) steps
  | CCodec src line bt bi ba bb panicked dec qh ip cid cl qs =>
      let (p, d) := decode (mk_oracles bt bi ba bb) line in
      [(100, [], 0, match src with Some e => eqb_bytes (encode e) line | None => true end);
       (101, [], 0, Bool.eqb p panicked);
       (102, [], 0, centry_eqb d dec);
       (103, [], 0, eqb_list eqb_bytes (ce_s d) (ce_s dec));
       (104, [], 0, eqb_list crule_eqb (ce_rules d) (ce_rules dec));
       (105, [], 0, eqb_option rewrite_eqb (ce_rw d) (ce_rw dec));
       (106, [], 0, forallb (qobs_ok cl line d) qs);
       (107, [], 0, eqb_bytes (read_json_value line pQH) qh &&
                    eqb_bytes (read_json_value line pIP) ip &&
                    eqb_bytes (read_json_value line pCID) cid)]
  | CBig cap nm nn base step hm hn ip reqs =>
      let L := big_lines nm nn base step hm hn ip in
      map (fun x : request * Z * list N * Z =>
             (match big_answer cap L (fst (fst (fst x))) with
              | Some (Ok es o) => (0, map e_id es, o)
              | Some BadRequest => (1, [], 0)
              | Some Panic => (2, [], 0)
              | None => (-1, [], 0)
              end, big_req_ok cap L x)) reqs
  end.

(** Evaluator glue shared by C01 and C02: one case = configuration, rule
    lists, safe-browsing / parental host sets, safe-search verdicts, request,
    scripted upstream answers, and what the real pipeline was observed to do. *)
From AGH Require Export Base.Run Base.NetAddr Base.RuleEngine Model.Pipeline Model.PipelineLists Model.FilterQueue.
From AGH Require Model.Rewrites.
Local Open Scope N_scope.

(** A legacy rewrite as configured (domain, answer, what netip.ParseAddr made
    of the answer), normalised as filtering.New does. *)
Definition mk_rw (d a : bytes) (p : option addr) : Rewrites.entry :=
  Rewrites.normalize
    {| Rewrites.w_dom := d; Rewrites.w_ans := a;
       Rewrites.w_parse := option_map (fun x => {| Rewrites.ip_is4 := is4 x; Rewrites.ip_val := a_val x |}) p |}.

(** One step of a history on a server whose rule lists are switched on and
    off through the set_url API: a change, or a query with what the real
    pipeline was observed to do. *)
Inductive lstep :=
  | SChange (ch : lchange)
  | SAsk (ss : list (bytes * N * ssverdict)) (q : request)
         (ups : list (bytes * option resp)) (up : option resp) (obs : outcome).

(** One step of a history on a server whose rule lists and custom rules are
    changed through the web API while the updates loop is held back (round
    4, Model/FilterQueue.v): a handler call, one half of the loop's first
    arm, the loop left alone until the queue is served; the observed number
    of queued tasks; a query with what the real pipeline was observed to do
    with the engines installed at that moment. *)
Inductive qstep :=
  | QOp (o : hop)
  | QPending (n : N)
  | QAsk (ss : list (bytes * N * ssverdict)) (q : request)
         (ups : list (bytes * option resp)) (up : option resp) (obs : outcome).

Inductive case :=
  (* a whole history over one server behind the queue of pending engine
     rebuilds: the lists, flags and custom rules at the start (engines built
     from them, loop idle), then the steps; every query must get the outcome
     of Model/FilterQueue.ask_q in the state reached so far, every count of
     queued tasks must be the model's *)
  | CQueue (c : cfg) (st : lstate) (sb par : list bytes) (qsteps : list qstep)
  (* a whole history over one server: the lists with their flags at the
     start, then changes and queries; every query must get the outcome of
     Model/PipelineLists.ask in the state reached so far *)
  | CLists (c : cfg) (st : lstate) (sb par : list bytes) (steps : list lstep)
  | CPipe (c : cfg) (allow block : list rule) (sb par : list bytes)
          (ss : list (bytes * N * ssverdict))
          (q : request) (ups : list (bytes * option resp)) (up : option resp) (obs : outcome)
  (* the same question asked again on a server whose dnsproxy cache is on:
     [up] is the answer the upstream gave to the FIRST ask (the proxy cache
     replays it), the rule lists are those in force at the repeat.  The
     verdict must be that of a fresh ask; the upstream may or may not be
     asked again, and the proxy rewrites the TTLs of cached records. *)
  | CRepeat (c : cfg) (allow block : list rule) (sb par : list bytes)
            (ss : list (bytes * N * ssverdict))
            (q : request) (ups : list (bytes * option resp)) (up : option resp) (obs : outcome).

Definition taddr_eqb (a b : taddr) : bool := addr_eqb (ta_addr a) (ta_addr b).

Definition svcparam_eqb (a b : svcparam) : bool :=
  match a, b with
  | SPv4 x, SPv4 y | SPv6 x, SPv6 y => eqb_list taddr_eqb x y
  | SPOther x, SPOther y => x =? y
  | _, _ => false
  end.

Definition rdata_eqb (a b : rdata) : bool :=
  match a, b with
  | DA x, DA y | DAAAA x, DAAAA y => taddr_eqb x y
  | DCNAME x, DCNAME y | DPTR x, DPTR y => eqb_bytes x y
  | DHTTPS x, DHTTPS y => eqb_list svcparam_eqb x y
  | DOther t i, DOther t' i' => (t =? t') && (i =? i')
  | _, _ => false
  end.

Definition rr_eqb (a b : rr) : bool :=
  eqb_bytes (rr_name a) (rr_name b) && (rr_ttl a =? rr_ttl b) && rdata_eqb (rr_data a) (rr_data b).

Definition resp_eqb (a b : resp) : bool :=
  (rs_rcode a =? rs_rcode b) && eqb_list rr_eqb (rs_answer a) (rs_answer b) && Bool.eqb (rs_soa a) (rs_soa b).

(** Rule identities are not compared (among rules of equal priority the
    engine's choice depends on its index order); the addresses carried by
    hosts-style rules are. *)
Definition rule_entry_eqb (a b : N * option addr) : bool := eqb_option addr_eqb (snd a) (snd b).

Definition rrvalue_eqb (a b : rrvalue) : bool :=
  match a, b with
  | VAddr x, VAddr y => addr_eqb x y
  | VName x, VName y => eqb_bytes x y
  | VNil, VNil => true
  | _, _ => false
  end.

(** The Go side holds the values of a DNSRewriteResult in a map by record
    type; both sides are brought into ascending type order (stably). *)
Fixpoint insert_by_type (x : N * rrvalue) (l : list (N * rrvalue)) : list (N * rrvalue) :=
  match l with
  | nil => x :: nil
  | y :: r => if fst x <? fst y then x :: l else y :: insert_by_type x r
  end.
Definition by_type (l : list (N * rrvalue)) : list (N * rrvalue) := fold_right insert_by_type nil l.

Definition drw_eqb (a b : drwresult) : bool :=
  (dw_rcode a =? dw_rcode b) &&
  eqb_list (fun x y => (fst x =? fst y) && rrvalue_eqb (snd x) (snd y)) (by_type (dw_resp a)) (by_type (dw_resp b)).

Definition result_eqb (a b : result) : bool :=
  reason_eqb (r_reason a) (r_reason b) && Bool.eqb (r_filtered a) (r_filtered b) &&
  eqb_bytes (r_service a) (r_service b) && eqb_list rule_entry_eqb (r_rules a) (r_rules b) &&
  eqb_bytes (r_canon a) (r_canon b) && eqb_list addr_eqb (r_iplist a) (r_iplist b) &&
  eqb_option drw_eqb (r_drw a) (r_drw b).

Definition call_eqb (a b : bytes * N) : bool := eqb_bytes (fst a) (fst b) && (snd a =? snd b).

Definition outcome_eqb (a b : outcome) : bool :=
  eqb_option resp_eqb (o_resp a) (o_resp b) &&
  eqb_list call_eqb (o_calls a) (o_calls b) &&
  (* the result is observed through the query log only *)
  (if o_logged a then result_eqb (o_result a) (o_result b) && Bool.eqb (o_orig_kept a) (o_orig_kept b) else true) &&
  Bool.eqb (o_logged a) (o_logged b) &&
  (* the question of the delivered message *)
  (match o_resp a with Some _ => eqb_bytes (o_qname a) (o_qname b) | None => true end).

Definition rr_eqb_mod_ttl (a b : rr) : bool :=
  eqb_bytes (rr_name a) (rr_name b) && rdata_eqb (rr_data a) (rr_data b).

Definition resp_eqb_mod_ttl (a b : resp) : bool :=
  (rs_rcode a =? rs_rcode b) && eqb_list rr_eqb_mod_ttl (rs_answer a) (rs_answer b).

(** The repeat: same verdict, same records up to TTL; the upstream asked
    not at all (served from the proxy cache) or as for a fresh ask. *)
Definition repeat_eqb (m obs : outcome) : bool :=
  eqb_option (if r_filtered (o_result m) then resp_eqb else resp_eqb_mod_ttl) (o_resp m) (o_resp obs) &&
  (match o_calls obs with nil => true | _ => eqb_list call_eqb (o_calls m) (o_calls obs) end) &&
  (if o_logged m then result_eqb (o_result m) (o_result obs) && Bool.eqb (o_orig_kept m) (o_orig_kept obs) else true) &&
  Bool.eqb (o_logged m) (o_logged obs).

Fixpoint ss_lookup (tbl : list (bytes * N * ssverdict)) (h : bytes) (qt : N) : option ssverdict :=
  match tbl with
  | nil => None
  | (h', qt', v) :: rest => if eqb_bytes h' h && (qt' =? qt) then Some v else ss_lookup rest h qt
  end.

(** The scripted upstream: answers by (lower-cased) question name, [up]
    for every other name. *)
Definition scripted (ups : list (bytes * option resp)) (up : option resp) : upstream :=
  fun name _ => match assoc_bytes ups (lower name) with Some r => r | None => up end.

Definition ask_model (cf : cfg) (sb par : list bytes) (st : lstate) ss q ups up : outcome :=
  ask (fun h => mem_bytes h sb) (fun h => mem_bytes h par) (ss_lookup ss) Rewrites.isort st cf (scripted ups up) q.

(** Replays the history; the list of (model outcome, observed outcome, agree). *)
Fixpoint run_lists (cf : cfg) (sb par : list bytes) (st : lstate) (steps : list lstep)
    : list (outcome * outcome * bool) :=
  match steps with
  | nil => nil
  | SChange ch :: rest => run_lists cf sb par (apply_change st ch) rest
  | SAsk ss q ups up obs :: rest =>
      let m := ask_model cf sb par st ss q ups up in
      (m, obs, outcome_eqb m obs) :: run_lists cf sb par st rest
  end.

Definition empty_outcome : outcome :=
  mkOutcome None nil (mkResult NotFilteredNotFound false nil nil nil nil None) false false nil.

Definition ask_q_model (cf : cfg) (sb par : list bytes) (s : pstate) ss q ups up : outcome :=
  ask_q (fun h => mem_bytes h sb) (fun h => mem_bytes h par) (ss_lookup ss) Rewrites.isort s cf (scripted ups up) q.

(** Replays the history behind the queue. *)
Fixpoint run_queue (cf : cfg) (sb par : list bytes) (s : pstate) (steps : list qstep)
    : list (outcome * outcome * bool) :=
  match steps with
  | nil => nil
  | QOp o :: rest => run_queue cf sb par (hstep s o) rest
  | QPending n :: rest =>
      (empty_outcome, empty_outcome, N.of_nat (length (q_chan s)) =? n) :: run_queue cf sb par s rest
  | QAsk ss q ups up obs :: rest =>
      let m := ask_q_model cf sb par s ss q ups up in
      (m, obs, outcome_eqb m obs) :: run_queue cf sb par s rest
  end.

(** What the model computes for the first query of the history on which it
    disagrees with the observation (for replay files), else for the last one. *)
Definition lists_explain (l : list (outcome * outcome * bool)) : outcome :=
  match find (fun x => negb (snd x)) l with
  | Some (m, _, _) => m
  | None => match rev l with (m, _, _) :: _ => m | nil => empty_outcome end
  end.

Definition model (c : case) : outcome :=
  match c with
  | CLists cf st sb par steps => lists_explain (run_lists cf sb par st steps)
  | CQueue cf st sb par steps => lists_explain (run_queue cf sb par (pinit st) steps)
  | CPipe cf allow block sb par ss q ups up _
  | CRepeat cf allow block sb par ss q ups up _ =>
      process (match_request allow) (match_request block)
              (fun h => mem_bytes h sb) (fun h => mem_bytes h par) (ss_lookup ss)
              Rewrites.isort
              cf (scripted ups up) q
  end.

Definition case_ok (c : case) : bool :=
  match c with
  | CLists cf st sb par steps => forallb (fun x => snd x) (run_lists cf sb par st steps)
  | CQueue cf st sb par steps => forallb (fun x => snd x) (run_queue cf sb par (pinit st) steps)
  | CPipe _ _ _ _ _ _ _ _ _ obs => outcome_eqb (model c) obs
  | CRepeat _ _ _ _ _ _ _ _ _ obs => repeat_eqb (model c) obs
  end.

Definition mismatches := Base.Run.mismatches case_ok.
Definition explain (c : case) := model c.

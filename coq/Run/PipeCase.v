(** Evaluator glue shared by C01 and C02: one case = configuration, rule
    lists, safe-browsing / parental host sets, safe-search verdicts, request,
    scripted upstream answers, and what the real pipeline was observed to do. *)
From AGH Require Export Base.Run Base.NetAddr Base.RuleEngine Model.Pipeline Model.PipelineLists Model.FilterQueue.
From AGH Require Model.Rewrites.
From AGH Require Model.ClientIndex Model.Schedule.
From AGH Require Export Model.PipelineClients.
From AGH Require Export Model.PipelineSvcIds.
From AGH Require Model.Protection Model.PipelineRefresh Model.Refresh Model.RuleListParser Model.FilterSwitch.
Local Open Scope N_scope.

(** A legacy rewrite as configured (domain, answer, what netip.ParseAddr made
    of the answer), normalised as filtering.New does. *)
Definition mk_rw (d a : bytes) (p : option addr) : Rewrites.entry :=
  Rewrites.normalize
    {| Rewrites.w_dom := d; Rewrites.w_ans := a;
       Rewrites.w_parse := option_map (fun x => {| Rewrites.ip_is4 := is4 x; Rewrites.ip_val := a_val x |}) p |}.

(** One step of a history on a server whose rule lists are switched on and
    off through the set_url API: a change, or a query with what the real
    pipeline was observed to do. *)
Inductive lstep :=
  | SChange (ch : lchange)
  (* round 8: POST /control/filtering/config with the global filtering flag;
     the rebuild it queues is carried out at once in this mode *)
  | SFilt (on : bool)
  | SAsk (ss : list (bytes * N * ssverdict)) (q : request)
         (ups : list (bytes * option resp)) (up : option resp) (obs : outcome).

(** One step of a history on a server whose rule lists and custom rules are
    changed through the web API while the updates loop is held back (round
    4, Model/FilterQueue.v): a handler call, one half of the loop's first
    arm, the loop left alone until the queue is served; the observed number
    of queued tasks; a query with what the real pipeline was observed to do
    with the engines installed at that moment. *)
Inductive qstep :=
  | QOp (o : hop)
  | QPending (n : N)
  (* round 7: POST /control/filtering/config switching the global filtering
     flag (Model/FilterSwitch.v): for the queue a handler call that asks for a
     rebuild; the queries that follow see the flag as the global default *)
  | QFilt (on : bool)
  | QAsk (ss : list (bytes * N * ssverdict)) (q : request)
         (ups : list (bytes * option resp)) (up : option resp) (obs : outcome).

(** Round 5.  One step of a history on a server whose protection switch is
    operated through the web API (Model/Protection.v): a handler call or the
    goroutine's wake-up, with whether the request was accepted; the raw pair
    (flag, a deadline is set) read back afterwards; a status read at a
    (virtual) instant with the reported "protection_enabled"; a query at an
    instant with what the real pipeline did. *)
Definition PSet := Protection.PSet.
Definition PConf := Protection.PConf.
Definition PRead := Protection.PRead.
Definition PWake := Protection.PWake.
Definition BMode := Protection.BMode.
Definition BTTL := Protection.BTTL.
Inductive prstep :=
  | PrOp (o : Protection.pop) (accepted : bool)
  | PrRaw (flag has_until : bool)
  | PrStatus (now : Z) (enabled : bool)
  (* round 8: POST /control/dns_config with blocking_mode (+ addresses) or
     blocked_response_ttl (Model/Protection.bop) *)
  | PrBlocking (o : Protection.bop)
  | PrAsk (now : Z) (ss : list (bytes * N * ssverdict)) (q : request)
          (ups : list (bytes * option resp)) (up : option resp) (obs : outcome).

(** Round 5.  One step of a history on a server whose lists are refreshed
    while their sources change and fail (Model/PipelineRefresh.v over C15's
    Model/Refresh.v): a pass (which arrays, forced, what the source of every
    list delivers; observed: the reported number of updated lists and, where
    the caller sees it, the network-error flag), a set_url switch (observed:
    accepted), the stored files as read from the disk, a query. *)
Definition SrcFail := Refresh.OOpenErr.
Definition SrcBody := Refresh.OBody.
Inductive rfstep :=
  | RfPass (block allow force : bool) (ocs : list (N * Refresh.outcome)) (obs_updated : N) (obs_net_err : option bool)
  | RfSwitch (allow : bool) (url : N) (name : bytes) (enabled : bool) (o : Refresh.outcome) (obs_ok : bool)
  | RfRebuild
  | RfFiles (fs : list (N * option bytes))
  | RfAsk (ss : list (bytes * N * ssverdict)) (q : request)
          (ups : list (bytes * option resp)) (up : option resp) (obs : outcome).

Inductive case :=
  (* round 5: a whole history of protection switches, clock readings and
     queries on one server: the rule lists stay as they are; every query
     must get the outcome of Model/Pipeline.process for the configuration
     Model/Protection.cfg_at yields at its instant *)
  | CProt (c : cfg) (allow block : list rule) (sb par : list bytes)
          (flag0 : bool) (until0 : option Z) (psteps : list prstep)
  (* round 5: a whole history of refresh passes over changing and failing
     sources: the user rules, the block and allow lists (model ID = number of
     the source, name) as add_url left them after downloading [ocs0], the
     table from stored texts to the rules urlfilter reads in them, then the
     steps *)
  | CRefresh (c : cfg) (user : list rule) (bl al : list (N * bytes)) (ocs0 : list (N * Refresh.outcome))
             (texts : list (bytes * list rule)) (sb par : list bytes) (rsteps : list rfstep)
  (* a whole history over one server behind the queue of pending engine
     rebuilds: the lists, flags and custom rules at the start (engines built
     from them, loop idle), then the steps; every query must get the outcome
     of Model/FilterQueue.ask_q in the state reached so far, every count of
     queued tasks must be the model's *)
  | CQueue (c : cfg) (st : lstate) (sb par : list bytes) (qsteps : list qstep)
  (* a whole history over one server: the lists with their flags at the
     start, then changes and queries; every query must get the outcome of
     Model/PipelineLists.ask in the state reached so far *)
  | CLists (c : cfg) (st : lstate) (sb par : list bytes) (steps : list lstep)
  | CPipe (c : cfg) (allow block : list rule) (sb par : list bytes)
          (ss : list (bytes * N * ssverdict))
          (q : request) (ups : list (bytes * option resp)) (up : option resp) (obs : outcome)
  (* the same question asked again on a server whose dnsproxy cache is on:
     [up] is the answer the upstream gave to the FIRST ask (the proxy cache
     replays it), the rule lists are those in force at the repeat.  The
     verdict must be that of a fresh ask; the upstream may or may not be
     asked again, and the proxy rewrites the TTLs of cached records. *)
  | CRepeat (c : cfg) (allow block : list rule) (sb par : list bytes)
            (ss : list (bytes * N * ssverdict))
            (q : request) (ups : list (bytes * option resp)) (up : option resp) (obs : outcome)
  (* round 4 (C02): the request's persistent client is LOOKED UP, not given.
     [inner] is a CPipe case whose request carries no client; the registry is
     the one reached by the history [ops] of Storage.Add / Update /
     RemoveByName calls (each with whether the real call succeeded) on a
     storage configured with the allowed [tags]; [dhcp] is the lease table
     (address -> MAC); [cid] is the ClientID the request carried (through the
     real HandleBefore; empty = none); [handed] is what the real
     Storage.ApplyClientFiltering put into the Settings for this ClientID and
     address: ClientName, FilteringEnabled, ClientTags (in the order urlfilter
     gets them). *)
  | CReg (tags : list bytes) (ops : list (ClientIndex.op * bool)) (dhcp : list (ClientIndex.addr * bytes))
         (cid : bytes) (handed : bytes * bool * list bytes) (inner : case)
  (* round 4 (C02): clients created and changed through the real HTTP
     handlers of package home (POST /control/clients/add, update, delete and
     the configuration-file constructor); for every probe (ClientID,
     address): what ApplyClientFiltering handed over and, for every (host,
     record type), whether CheckHostRules on the settings of that request
     reported "filtered" (the check filterDNSResponse makes for a record);
     [gfilter] is the global filtering switch, protection is on, nothing else
     is configured. *)
  | CHttp (gfilter : bool) (block : list rule) (tags : list bytes) (ops : list (ClientIndex.op * bool))
          (probes : list (bytes * addr * (bytes * bool * list bytes) * list (bytes * N * bool)))
  (* round 9 (C01): a history of calls of the two entry points of the global
     list of blocked-service ids (deprecated set, validated update) on one
     server; [tbl] is the table of the test services (the harness draws no
     other known id); per call: whether the real handler accepted it and the
     list GET /control/blocked_services/get showed afterwards. *)
  | CSvcStore (tbl : list (bytes * list nrule)) (init : list bytes)
              (calls : list (svc_entry * bool * list bytes)).

(** A client's BlockedServices value in the registry cases: the ids and
    whether its pause schedule contains now (a full or an empty week). *)
Definition full_day : Schedule.day_range := {| Schedule.dr_start := 0; Schedule.dr_end := Schedule.ns_day |}.
Definition reg_blocked (ids : list bytes) (paused : bool) : ClientIndex.blocked :=
  {| ClientIndex.b_ids := ids;
     ClientIndex.b_sched := if paused then repeat full_day 7 else repeat Schedule.zero_range 7;
     ClientIndex.b_zone := 0 |}.
Definition paused_now (b : ClientIndex.blocked) : bool :=
  Schedule.contains (ClientIndex.b_sched b) (fun _ => 0%Z) 0%Z.
Definition rclient := ClientIndex.Build_client.
Definition ROAdd := ClientIndex.OAdd.
Definition ROUpdate := ClientIndex.OUpdate.
Definition RORemove := ClientIndex.ORemove.
Definition reg_config (tags : list bytes) : ClientIndex.config :=
  {| ClientIndex.cfg_tags := tags; ClientIndex.cfg_addr_ok := fun _ => true |}.
Definition reg_dhcp (tbl : list (ClientIndex.addr * bytes)) : ClientIndex.addr -> option bytes :=
  fun a => ClientIndex.zget a tbl.

Definition handed_eqb (a b : bytes * bool * list bytes) : bool :=
  eqb_bytes (fst (fst a)) (fst (fst b)) && Bool.eqb (snd (fst a)) (snd (fst b)) &&
  eqb_list eqb_bytes (snd a) (snd b).

Definition taddr_eqb (a b : taddr) : bool := addr_eqb (ta_addr a) (ta_addr b).

Definition svcparam_eqb (a b : svcparam) : bool :=
  match a, b with
  | SPv4 x, SPv4 y | SPv6 x, SPv6 y => eqb_list taddr_eqb x y
  | SPOther x, SPOther y => x =? y
  | _, _ => false
  end.

Definition rdata_eqb (a b : rdata) : bool :=
  match a, b with
  | DA x, DA y | DAAAA x, DAAAA y => taddr_eqb x y
  | DCNAME x, DCNAME y | DPTR x, DPTR y => eqb_bytes x y
  | DHTTPS x, DHTTPS y => eqb_list svcparam_eqb x y
  | DOther t i, DOther t' i' => (t =? t') && (i =? i')
  | _, _ => false
  end.

Definition rr_eqb (a b : rr) : bool :=
  eqb_bytes (rr_name a) (rr_name b) && (rr_ttl a =? rr_ttl b) && rdata_eqb (rr_data a) (rr_data b).

(** (Round 6: the authority section beyond the SOA flag, the additional
    section and the TC flag are compared too; the question's case is compared
    through [o_qname].) *)
Definition resp_eqb (a b : resp) : bool :=
  (rs_rcode a =? rs_rcode b) && eqb_list rr_eqb (rs_answer a) (rs_answer b) && Bool.eqb (rs_soa a) (rs_soa b) &&
  eqb_list rr_eqb (rs_ns a) (rs_ns b) && eqb_list rr_eqb (rs_extra a) (rs_extra b) && Bool.eqb (rs_tc a) (rs_tc b).

(** Rule identities are not compared (among rules of equal priority the
    engine's choice depends on its index order); the addresses carried by
    hosts-style rules are. *)
Definition rule_entry_eqb (a b : N * option addr) : bool := eqb_option addr_eqb (snd a) (snd b).

Definition rrvalue_eqb (a b : rrvalue) : bool :=
  match a, b with
  | VAddr x, VAddr y => addr_eqb x y
  | VName x, VName y => eqb_bytes x y
  | VNil, VNil => true
  | _, _ => false
  end.

(** The Go side holds the values of a DNSRewriteResult in a map by record
    type; both sides are brought into ascending type order (stably). *)
Fixpoint insert_by_type (x : N * rrvalue) (l : list (N * rrvalue)) : list (N * rrvalue) :=
  match l with
  | nil => x :: nil
  | y :: r => if fst x <? fst y then x :: l else y :: insert_by_type x r
  end.
Definition by_type (l : list (N * rrvalue)) : list (N * rrvalue) := fold_right insert_by_type nil l.

Definition drw_eqb (a b : drwresult) : bool :=
  (dw_rcode a =? dw_rcode b) &&
  eqb_list (fun x y => (fst x =? fst y) && rrvalue_eqb (snd x) (snd y)) (by_type (dw_resp a)) (by_type (dw_resp b)).

Definition result_eqb (a b : result) : bool :=
  reason_eqb (r_reason a) (r_reason b) && Bool.eqb (r_filtered a) (r_filtered b) &&
  eqb_bytes (r_service a) (r_service b) && eqb_list rule_entry_eqb (r_rules a) (r_rules b) &&
  eqb_bytes (r_canon a) (r_canon b) && eqb_list addr_eqb (r_iplist a) (r_iplist b) &&
  eqb_option drw_eqb (r_drw a) (r_drw b).

Definition call_eqb (a b : bytes * N) : bool := eqb_bytes (fst a) (fst b) && (snd a =? snd b).

Definition outcome_eqb (a b : outcome) : bool :=
  eqb_option resp_eqb (o_resp a) (o_resp b) &&
  eqb_list call_eqb (o_calls a) (o_calls b) &&
  (* the result is observed through the query log only *)
  (if o_logged a then result_eqb (o_result a) (o_result b) && Bool.eqb (o_orig_kept a) (o_orig_kept b) else true) &&
  Bool.eqb (o_logged a) (o_logged b) &&
  (* the question of the delivered message *)
  (match o_resp a with Some _ => eqb_bytes (o_qname a) (o_qname b) | None => true end).

Definition rr_eqb_mod_ttl (a b : rr) : bool :=
  eqb_bytes (rr_name a) (rr_name b) && rdata_eqb (rr_data a) (rr_data b).

Definition resp_eqb_mod_ttl (a b : resp) : bool :=
  (rs_rcode a =? rs_rcode b) && eqb_list rr_eqb_mod_ttl (rs_answer a) (rs_answer b).

(** The repeat: same verdict, same records up to TTL; the upstream asked
    not at all (served from the proxy cache) or as for a fresh ask. *)
Definition repeat_eqb (m obs : outcome) : bool :=
  eqb_option (if r_filtered (o_result m) then resp_eqb else resp_eqb_mod_ttl) (o_resp m) (o_resp obs) &&
  (match o_calls obs with nil => true | _ => eqb_list call_eqb (o_calls m) (o_calls obs) end) &&
  (if o_logged m then result_eqb (o_result m) (o_result obs) && Bool.eqb (o_orig_kept m) (o_orig_kept obs) else true) &&
  Bool.eqb (o_logged m) (o_logged obs).

Fixpoint ss_lookup (tbl : list (bytes * N * ssverdict)) (h : bytes) (qt : N) : option ssverdict :=
  match tbl with
  | nil => None
  | (h', qt', v) :: rest => if eqb_bytes h' h && (qt' =? qt) then Some v else ss_lookup rest h qt
  end.

(** The scripted upstream: answers by (lower-cased) question name, [up]
    for every other name. *)
Definition scripted (ups : list (bytes * option resp)) (up : option resp) : upstream :=
  fun name _ => match assoc_bytes ups (lower name) with Some r => r | None => up end.

Definition ask_model (cf : cfg) (sb par : list bytes) (st : lstate) ss q ups up : outcome :=
  ask (fun h => mem_bytes h sb) (fun h => mem_bytes h par) (ss_lookup ss) Rewrites.isort st cf (scripted ups up) q.

(** Replays the history; the list of (model outcome, observed outcome, agree). *)
Fixpoint run_lists (cf : cfg) (sb par : list bytes) (st : lstate) (steps : list lstep)
    : list (outcome * outcome * bool) :=
  match steps with
  | nil => nil
  | SChange ch :: rest => run_lists cf sb par (apply_change st ch) rest
  | SFilt on :: rest =>
      let g := FilterSwitch.gstep FilterSwitch.gate_as_written FilterSwitch.config_always
                 (FilterSwitch.mkG (c_filtering cf) (c_filtering cf) (pinit st)) (FilterSwitch.GConfig on) in
      run_lists (FilterSwitch.cfg_filt cf (FilterSwitch.g_on g)) sb par st rest
  | SAsk ss q ups up obs :: rest =>
      let m := ask_model cf sb par st ss q ups up in
      (m, obs, outcome_eqb m obs) :: run_lists cf sb par st rest
  end.

Definition empty_outcome : outcome :=
  mkOutcome None nil (mkResult NotFilteredNotFound false nil nil nil nil None false) false false nil.

Definition ask_q_model (cf : cfg) (sb par : list bytes) (s : pstate) ss q ups up : outcome :=
  ask_q (fun h => mem_bytes h sb) (fun h => mem_bytes h par) (ss_lookup ss) Rewrites.isort s cf (scripted ups up) q.

(** Replays the history behind the queue. *)
Fixpoint run_queue (cf : cfg) (sb par : list bytes) (s : pstate) (steps : list qstep)
    : list (outcome * outcome * bool) :=
  match steps with
  | nil => nil
  | QOp o :: rest => run_queue cf sb par (hstep s o) rest
  | QFilt on :: rest =>
      let g := FilterSwitch.gstep FilterSwitch.gate_as_written FilterSwitch.config_always
                 (FilterSwitch.mkG (c_filtering cf) (c_filtering cf) s) (FilterSwitch.GConfig on) in
      run_queue (FilterSwitch.cfg_filt cf (FilterSwitch.g_on g)) sb par (FilterSwitch.g_q g) rest
  | QPending n :: rest =>
      (empty_outcome, empty_outcome, N.of_nat (length (q_chan s)) =? n) :: run_queue cf sb par s rest
  | QAsk ss q ups up obs :: rest =>
      let m := ask_q_model cf sb par s ss q ups up in
      (m, obs, outcome_eqb m obs) :: run_queue cf sb par s rest
  end.

(** Replays a protection history. *)
Definition prot_ask (cf : cfg) (allow block : list rule) (sb par : list bytes) (s : Protection.prot) (now : Z)
    ss q ups up : outcome :=
  process (match_request allow) (match_request block)
          (fun h => mem_bytes h sb) (fun h => mem_bytes h par) (ss_lookup ss) Rewrites.isort
          (Protection.cfg_at cf s now) (scripted ups up) q.

Definition is_some {A} (o : option A) : bool := match o with Some _ => true | None => false end.

Definition pop_accepted (o : Protection.pop) : bool :=
  match o with Protection.PSet _ en dur => Protection.set_accepted en dur | _ => true end.

Fixpoint run_prot (cf : cfg) (allow block : list rule) (sb par : list bytes) (s : Protection.prot)
    (steps : list prstep) : list (outcome * outcome * bool) :=
  match steps with
  | nil => nil
  | PrOp o acc :: rest =>
      (empty_outcome, empty_outcome, Bool.eqb (pop_accepted o) acc)
        :: run_prot cf allow block sb par (Protection.step_now s o) rest
  | PrRaw f u :: rest =>
      (empty_outcome, empty_outcome,
       Bool.eqb (Protection.pr_flag s) f && Bool.eqb (is_some (Protection.pr_until s)) u)
        :: run_prot cf allow block sb par s rest
  | PrBlocking o :: rest =>
      run_prot (Protection.bstep Protection.mode_always cf o) allow block sb par s rest
  | PrStatus now en :: rest =>
      (empty_outcome, empty_outcome, Bool.eqb (Protection.in_force now s) en)
        :: run_prot cf allow block sb par (snd (Protection.read now s)) rest
  | PrAsk now ss q ups up obs :: rest =>
      let m := prot_ask cf allow block sb par s now ss q ups up in
      (m, obs, outcome_eqb m obs) :: run_prot cf allow block sb par (snd (Protection.read now s)) rest
  end.

(** Replays a refresh history. *)
Definition oc_of (ocs : list (N * Refresh.outcome)) (i : N) : Refresh.outcome :=
  match find (fun e => fst e =? i) ocs with Some e => snd e | None => Refresh.OOpenErr end.

Definition rules_in (texts : list (bytes * list rule)) (c : bytes) : list rule :=
  match assoc_bytes texts c with Some rs => rs | None => nil end.

(** Every text in force is one the harness has named the rules of. *)
Definition texts_known (texts : list (bytes * list rule)) (e : Refresh.engine) : bool :=
  forallb (fun x => is_some (assoc_bytes texts (snd x))) (Refresh.e_block e ++ Refresh.e_allow e).

Definition crc := RuleListParser.crc32_update.

Definition refresh_ask (cf : cfg) (user : list rule) (texts : list (bytes * list rule)) (sb par : list bytes)
    (st : Refresh.rstate) ss q ups up : outcome :=
  PipelineRefresh.ask_r (rules_in texts) (fun h => mem_bytes h sb) (fun h => mem_bytes h par) (ss_lookup ss)
                        Rewrites.isort user st cf (scripted ups up) q.

Fixpoint run_refresh (cf : cfg) (user : list rule) (texts : list (bytes * list rule)) (sb par : list bytes)
    (st : Refresh.rstate) (steps : list rfstep) : list (outcome * outcome * bool) :=
  match steps with
  | nil => nil
  | RfPass b a f ocs n ne :: rest =>
      let oc := oc_of ocs in
      let mne := Refresh.pass_net_error crc b a f PipelineRefresh.all_due oc st in
      let mn := if mne then 0 else Refresh.pass_updated crc b a f PipelineRefresh.all_due oc st in
      (empty_outcome, empty_outcome,
       (mn =? n) && match ne with Some x => Bool.eqb x mne | None => true end)
        :: run_refresh cf user texts sb par (PipelineRefresh.rop_step crc st (PipelineRefresh.RPass b a f oc)) rest
  | RfSwitch a u name en o ok :: rest =>
      let r := Refresh.set_props crc a u name u en o st in
      (empty_outcome, empty_outcome, Bool.eqb (negb (snd (fst r))) ok)
        :: run_refresh cf user texts sb par (snd r) rest
  | RfRebuild :: rest => run_refresh cf user texts sb par (Refresh.rebuild_now st) rest
  | RfFiles fs :: rest =>
      (empty_outcome, empty_outcome,
       forallb (fun x => eqb_option eqb_bytes (Refresh.fget (fst x) (Refresh.r_files st)) (snd x)) fs)
        :: run_refresh cf user texts sb par st rest
  | RfAsk ss q ups up obs :: rest =>
      let m := refresh_ask cf user texts sb par st ss q ups up in
      (m, obs, texts_known texts (Refresh.r_engine st) && outcome_eqb m obs)
        :: run_refresh cf user texts sb par st rest
  end.

Definition refresh_start (bl al : list (N * bytes)) (ocs0 : list (N * Refresh.outcome)) : Refresh.rstate :=
  PipelineRefresh.start_state crc bl al (oc_of ocs0).

(** What the model computes for the first query of the history on which it
    disagrees with the observation (for replay files), else for the last one. *)
Definition lists_explain (l : list (outcome * outcome * bool)) : outcome :=
  match find (fun x => negb (snd x)) l with
  | Some (m, _, _) => m
  | None => match rev l with (m, _, _) :: _ => m | nil => empty_outcome end
  end.

(** The registry cases. *)
Definition reg_request (tags : list bytes) (ops : list (ClientIndex.op * bool))
    (dhcp : list (ClientIndex.addr * bytes)) (cid : bytes) (q : request) : request * bool :=
  let r := run_ops (reg_config tags) ops ClientIndex.empty_index in
  (attach paused_now (fst r) (reg_dhcp dhcp) cid q, snd r).

Definition reg_handed (cf : cfg) (tags : list bytes) (ops : list (ClientIndex.op * bool))
    (dhcp : list (ClientIndex.addr * bytes)) (cid : bytes) (a : addr) : bytes * bool * list bytes :=
  handed_over cf (owner (fst (run_ops (reg_config tags) ops ClientIndex.empty_index)) (reg_dhcp dhcp) cid a).

(** The configuration of a CHttp case. *)
Definition zero4 : addr := mkAddr V4 0 nil.
Definition http_cfg (gf : bool) : cfg :=
  mkCfg true None gf false false MDefault zero4 zero4 10 false
        nil false nil BHEmpty BHEmpty
        nil false nil nil nil false None false nil nil nil None.

(** One probe of a CHttp case: model (handed over, verdict per check). *)
Definition http_probe (cf : cfg) (block : list rule) (ix : ClientIndex.index) (cid : bytes) (a : addr)
    (checks : list (bytes * N * bool)) : (bytes * bool * list bytes) * list bool :=
  let q := attach paused_now ix (fun _ => None) cid (mkRequest nil 1 a None false None) in
  let st := request_settings cf q in
  (handed_over cf (owner ix (fun _ => None) cid a),
   map (fun ch => r_filtered (match_host (match_request nil) (match_request block) st (fst (fst ch)) (snd (fst ch)))) checks).

Definition http_ok (cf : cfg) (block : list rule) (tags : list bytes) (ops : list (ClientIndex.op * bool))
    (probes : list (bytes * addr * (bytes * bool * list bytes) * list (bytes * N * bool))) : bool :=
  let r := run_ops (reg_config tags) ops ClientIndex.empty_index in
  snd r &&
  forallb (fun p => match p with
                    | (cid, a, handed, checks) =>
                        let m := http_probe cf block (fst r) cid a checks in
                        handed_eqb (fst m) handed && eqb_list Bool.eqb (snd m) (map snd checks)
                    end) probes.

(** Replays the calls; true when every acceptance and stored list agree. *)
Fixpoint run_svc_store (tbl : list (bytes * list nrule)) (stored : list bytes)
    (calls : list (svc_entry * bool * list bytes)) : bool :=
  match calls with
  | nil => true
  | (e, acc, after) :: rest =>
      let '(s', a) := svc_store tbl stored e in
      Bool.eqb a acc && eqb_list eqb_bytes s' after && run_svc_store tbl s' rest
  end.

Definition model (c : case) : outcome :=
  match c with
  | CSvcStore _ _ _ => empty_outcome
  | CReg tags ops dhcp cid _ (CPipe cf allow block sb par ss q ups up _) =>
      process (match_request allow) (match_request block)
              (fun h => mem_bytes h sb) (fun h => mem_bytes h par) (ss_lookup ss)
              Rewrites.isort
              cf (scripted ups up) (fst (reg_request tags ops dhcp cid q))
  | CReg _ _ _ _ _ _ => empty_outcome
  | CHttp _ _ _ _ _ => empty_outcome
  | CLists cf st sb par steps => lists_explain (run_lists cf sb par st steps)
  | CQueue cf st sb par steps => lists_explain (run_queue cf sb par (pinit st) steps)
  | CProt cf allow block sb par f0 u0 steps =>
      lists_explain (run_prot cf allow block sb par (Protection.prot_init f0 u0) steps)
  | CRefresh cf user bl al ocs0 texts sb par steps =>
      lists_explain (run_refresh cf user texts sb par (refresh_start bl al ocs0) steps)
  | CPipe cf allow block sb par ss q ups up _
  | CRepeat cf allow block sb par ss q ups up _ =>
      process (match_request allow) (match_request block)
              (fun h => mem_bytes h sb) (fun h => mem_bytes h par) (ss_lookup ss)
              Rewrites.isort
              cf (scripted ups up) q
  end.

Definition case_ok (c : case) : bool :=
  match c with
  | CSvcStore tbl init calls => run_svc_store tbl init calls
  | CReg tags ops dhcp cid handed (CPipe cf _ _ _ _ _ q _ _ obs) =>
      snd (reg_request tags ops dhcp cid q) && outcome_eqb (model c) obs &&
      handed_eqb (reg_handed cf tags ops dhcp cid (q_addr q)) handed
  | CReg _ _ _ _ _ _ => false
  | CHttp gf block tags ops probes => http_ok (http_cfg gf) block tags ops probes
  | CLists cf st sb par steps => forallb (fun x => snd x) (run_lists cf sb par st steps)
  | CQueue cf st sb par steps => forallb (fun x => snd x) (run_queue cf sb par (pinit st) steps)
  | CProt cf allow block sb par f0 u0 steps =>
      forallb (fun x => snd x) (run_prot cf allow block sb par (Protection.prot_init f0 u0) steps)
  | CRefresh cf user bl al ocs0 texts sb par steps =>
      forallb (fun x => snd x) (run_refresh cf user texts sb par (refresh_start bl al ocs0) steps)
  | CPipe _ _ _ _ _ _ _ _ _ obs => outcome_eqb (model c) obs
  | CRepeat _ _ _ _ _ _ _ _ _ obs => repeat_eqb (model c) obs
  end.

Definition mismatches := Base.Run.mismatches case_ok.
Definition explain (c : case) := model c.

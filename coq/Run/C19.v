(** Evaluator glue for C19: replays a whole history of checks, clock advances
    and evictions on the model and compares, step by step, verdict, error,
    outgoing question and cache contents with what the real Checker did. *)
From Coq Require Export Uint63.
From AGH Require Import Base.Run Base.Bytes Model.HashPrefix Model.HashPrefixBytes.
Local Open Scope Z_scope.

(** Byte strings of the case terms arrive packed, seven bytes to a primitive
    integer (first byte lowest, the count in the three lowest bits): Coq
    elaborates one literal instead of seven list cells of binary numbers. *)
Definition ibit (x i : Uint63.int) (v : N) : N :=
  if Uint63.eqb (Uint63.land (Uint63.lsr x i) 1) 0 then 0%N else v.
Definition byte_N (x : Uint63.int) : N :=
  (ibit x 0 1 + ibit x 1 2 + ibit x 2 4 + ibit x 3 8
   + ibit x 4 16 + ibit x 5 32 + ibit x 6 64 + ibit x 7 128)%N.
Fixpoint bytes_of (len : nat) (x : Uint63.int) : bytes :=
  match len with
  | O => []
  | S l => byte_N x :: bytes_of l (Uint63.lsr x 8)
  end.
Definition len_of (x : Uint63.int) : nat :=
  let l := Uint63.land x 7 in
  if Uint63.eqb l 0 then 0 else if Uint63.eqb l 1 then 1 else if Uint63.eqb l 2 then 2
  else if Uint63.eqb l 3 then 3 else if Uint63.eqb l 4 then 4 else if Uint63.eqb l 5 then 5
  else if Uint63.eqb l 6 then 6 else 7.
Definition u1 (n : Uint63.int) : bytes := bytes_of (len_of n) (Uint63.lsr n 3).
Inductive il := I0 | IC (x : Uint63.int) (l : il).
Arguments u1 n%uint63_scope.
Arguments IC x%uint63_scope l.
Fixpoint ub (l : il) : bytes :=
  match l with I0 => [] | IC x l' => u1 x ++ ub l' end.

Inductive cop :=
  (* host, scripted upstream failure, the cache.Set calls the check made (key,
     entries the LRU evicted for it, item kept?); observed: blocked, error,
     question sent, cache entries (prefix, remaining-life class, hashes), the
     size in bytes the golibs cache reports (Stats().Size) *)
  | CCheck (host : bytes) (fail : bool) (sets : list (bytes * list bytes * bool))
           (obs_blocked obs_err : bool) (obs_q : option bytes)
           (obs_cache : list (bytes * Z * list bytes)) (obs_size : Z)
  | CAdvance (secs : Z)
  | CEvict (ps : list bytes).

Inductive case :=
  | Case (suffix : bytes) (cache_time_s : Z)
         (max : Z)                                      (* Config.CacheSize in bytes, 0 = unlimited *)
         (sha_tbl : list (bytes * bytes))               (* crypto/sha256 of every name involved *)
         (ps_tbl : list (bytes * (bytes * bool)))       (* publicsuffix.PublicSuffix of every host *)
         (db : list bytes)                              (* the TXT strings the scripted service holds *)
         (ops : list cop)
  (* one check through DNSFilter.CheckHost on a fresh Checker: the name as
     spelled in the request; observed: question sent, blocked *)
  | CaseVia (suffix : bytes) (sha_tbl : list (bytes * bytes)) (ps_tbl : list (bytes * (bytes * bool)))
            (db : list bytes) (spelled : bytes) (obs_q : option bytes) (obs_blocked : bool).

Definition lookup {V} (tbl : list (bytes * V)) (k : bytes) : option V :=
  match find (fun e => eqb_bytes (fst e) k) tbl with Some e => Some (snd e) | None => None end.

Definition sha_of tbl (x : bytes) : bytes := match lookup tbl x with Some h => h | None => [] end.
Definition ps_of tbl (x : bytes) : bytes * bool :=
  match lookup tbl x with Some r => r | None => ([], false) end.

(** The scripted service of the harness: serves every string whose first four
    characters, lower-cased, are an asked label (shorter strings always). *)
Definition raw_service (db : list bytes) (fail : bool) (asked : list prefix) : option (list bytes) :=
  if fail then None
  else Some (filter (fun s =>
    (length s <? 4)%nat || existsb (fun p => eqb_bytes (lower (firstn 4 s)) (hex_of p)) asked) db).

Definition subset (a b : list bytes) : bool := forallb (fun x => mem_hash x b) a.
Definition same_set (a b : list bytes) : bool := subset a b && subset b a.

Definition life_class (now : Z) (it : citem) : Z := (c_expiry it - now / ns_sec + 25) / 100.

Definition cache_agrees (now : Z) (c : cache) (obs : list (bytes * Z * list bytes)) : bool :=
  (length c =? length obs)%nat &&
  forallb (fun o => let '(p, cl, hs) := o in
    match cget p c with
    | Some it => (life_class now it =? cl) && same_set (c_hashes it) hs
    | None => false
    end) obs.

Definition to_op db (o : cop) : op :=
  match o with
  | CCheck host fail sets _ _ _ _ _ =>
      OCheck host (raw_service db fail) (map (fun e => fst (fst e)) sets)
             (map (fun e => (snd (fst e), snd e)) sets)
  | CAdvance s => OAdvance (s * ns_sec)
  | CEvict ps => OEvict ps
  end.

(** The model's cache, counted as the golibs cache counts (2-byte key, 8 bytes
    of expiry, 32 bytes per hash), is what the real cache reports, and within
    the configured size. *)
Definition size_agrees (max : Z) (c : cache) (obs_size : Z) : bool :=
  (cache_bytes c =? obs_size) && ((max =? 0) || (obs_size <=? max)).

Definition step_ok (max : Z) (sha_tbl : list (bytes * bytes)) (ps_tbl : list (bytes * (bytes * bool))) (o : cop) (res : (Z * cache) * option check_out) : bool :=
  match o, res with
  | CCheck host _ _ b e q oc sz, ((now, c), Some out) =>
      size_agrees max c sz &&
      Nat.eqb (o_sets_left out) 0 &&
      forallb (fun n => match lookup sha_tbl n with Some _ => true | None => false end)
              (names_to_hash (ps_of ps_tbl) host) &&
      match lookup ps_tbl host with Some _ => true | None => false end &&
      Bool.eqb (o_blocked out) b && Bool.eqb (o_err out) e &&
      eqb_option eqb_bytes (o_question out) q && cache_agrees now c oc
  | CCheck _ _ _ _ _ _ _ _, _ => false
  | _, (_, None) => true
  | _, _ => false
  end.

Definition model_run (c : case) :=
  match c with
  | Case suffix ct _ sha_tbl ps_tbl db ops =>
      run (sha_of sha_tbl) (ps_of ps_tbl) suffix (ct * ns_sec) (map (to_op db) ops) (0, [])
  | CaseVia suffix sha_tbl ps_tbl db spelled _ _ =>
      [((0, []), Some (snd (check_host (sha_of sha_tbl) (ps_of ps_tbl) suffix (3600 * ns_sec)
                                       (raw_service db false) [] [] 0 spelled [])))]
  end.

Fixpoint all2 {A B} (f : A -> B -> bool) (a : list A) (b : list B) : bool :=
  match a, b with
  | [], [] => true
  | x :: a', y :: b' => f x y && all2 f a' b'
  | _, _ => false
  end.

Definition case_ok (c : case) : bool :=
  match c with
  | Case suffix ct max sha_tbl ps_tbl db ops =>
      all2 (step_ok max sha_tbl ps_tbl) ops (model_run c) &&
      (* every recorded Set satisfies the golibs size condition on the model's cache *)
      run_fits (sha_of sha_tbl) (ps_of ps_tbl) suffix (ct * ns_sec) max (map (to_op db) ops) (0, [])
  | CaseVia suffix sha_tbl ps_tbl db spelled q b =>
      let name := caller_name spelled in
      let out := snd (check_host (sha_of sha_tbl) (ps_of ps_tbl) suffix (3600 * ns_sec)
                                 (raw_service db false) [] [] 0 spelled []) in
      forallb (fun n => match lookup sha_tbl n with Some _ => true | None => false end)
              (names_to_hash (ps_of ps_tbl) name) &&
      match lookup ps_tbl name with Some _ => true | None => false end &&
      Bool.eqb (o_blocked out) b && negb (o_err out) && eqb_option eqb_bytes (o_question out) q
  end.

Definition mismatches := Base.Run.mismatches case_ok.

(** For replay files: per step verdict, error, question, cache (prefix, class, #hashes), bytes. *)
Definition explain (c : case) :=
  map (fun res : (Z * cache) * option check_out =>
    let '((now, ch), out) := res in
    (match out with
     | Some o => Some (o_blocked o, o_err o, o_question o)
     | None => None
     end,
     map (fun e : prefix * citem => (fst e, life_class now (snd e), length (c_hashes (snd e)))) ch,
     cache_bytes ch))
    (model_run c).

(** Evaluator glue for C19: replays a whole history of checks, clock advances,
    evictions and changes of the service's database on the model (the Checker
    on the library cache of Model/HashPrefixLRU.v) and compares, step by step,
    verdict, error, outgoing question, what every cache.Set deleted and kept,
    and the cache (contents, usage order, byte counter) with what the real
    Checker did on the real cache. *)
From Coq Require Export Uint63.
From AGH Require Import Base.Run Base.Bytes Model.HashPrefix Model.HashPrefixBytes Model.HashPrefixLRU
  Model.HashPrefixGlue.
Local Open Scope Z_scope.

(** Byte strings of the case terms arrive packed, seven bytes to a primitive
    integer (first byte lowest, the count in the three lowest bits): Coq
    elaborates one literal instead of seven list cells of binary numbers. *)
Definition ibit (x i : Uint63.int) (v : N) : N :=
  if Uint63.eqb (Uint63.land (Uint63.lsr x i) 1) 0 then 0%N else v.
Definition byte_N (x : Uint63.int) : N :=
  (ibit x 0 1 + ibit x 1 2 + ibit x 2 4 + ibit x 3 8
   + ibit x 4 16 + ibit x 5 32 + ibit x 6 64 + ibit x 7 128)%N.
Fixpoint bytes_of (len : nat) (x : Uint63.int) : bytes :=
  match len with
  | O => []
  | S l => byte_N x :: bytes_of l (Uint63.lsr x 8)
  end.
Definition len_of (x : Uint63.int) : nat :=
  let l := Uint63.land x 7 in
  if Uint63.eqb l 0 then 0 else if Uint63.eqb l 1 then 1 else if Uint63.eqb l 2 then 2
  else if Uint63.eqb l 3 then 3 else if Uint63.eqb l 4 then 4 else if Uint63.eqb l 5 then 5
  else if Uint63.eqb l 6 then 6 else 7.
Definition u1 (n : Uint63.int) : bytes := bytes_of (len_of n) (Uint63.lsr n 3).
Inductive il := I0 | IC (x : Uint63.int) (l : il).
Arguments u1 n%uint63_scope.
Arguments IC x%uint63_scope l.
Fixpoint ub (l : il) : bytes :=
  match l with I0 => [] | IC x l' => u1 x ++ ub l' end.

Inductive cop :=
  (* host, scripted upstream failure, the cache.Set calls the check made (key;
     observed: entries the LRU evicted for it, in that order, item kept?: the
     keys of the first loop give the iteration order of the Go map, the rest is
     compared with what the model of the library cache computes); observed:
     blocked, error, question sent, cache elements in the order of the
     library's usage list, least recently used first (prefix, remaining-life
     class, hashes), the byte counter of the golibs cache *)
  | CCheck (host : bytes) (fail : bool) (sets : list (bytes * list bytes * bool))
           (obs_blocked obs_err : bool) (obs_q : option bytes)
           (obs_cache : list (bytes * Z * list bytes)) (obs_size : Z)
  | CAdvance (secs : Z)
  | CEvict (ps : list bytes)
  (* the scripted service's database changes: strings removed, strings added *)
  | CDb (add del : list bytes).

(** One [DNSFilter.CheckHost] call: the settings of the request, the type of
    the question (round 6), scripted failure of either upstream, the name as
    spelled; observed: for each
    checker whether the glue called it, with which name, and the question it
    sent (if any); the reason (0 not filtered, 1 safe browsing, 2 parental)
    and whether CheckHost returned an error. *)
Inductive greq :=
  | GReq (prot filt sbe pce : bool) (qt : Z) (fail_sb fail_pc : bool) (spelled : bytes)
         (obs_sb obs_pc : option (bytes * option bytes)) (obs_reason : Z) (obs_err : bool).

Inductive case :=
  | Case (suffix : bytes) (cache_time_s : Z)
         (max : Z)                                      (* Config.CacheSize in bytes, 0 = unlimited *)
         (sha_tbl : list (bytes * bytes))               (* crypto/sha256 of every name involved *)
         (ps_tbl : list (bytes * (bytes * bool)))       (* publicsuffix.PublicSuffix of every host *)
         (db : list bytes)                              (* the TXT strings the scripted service holds *)
         (ops : list cop)
  (* one check through DNSFilter.CheckHost on a fresh Checker: the name as
     spelled in the request; observed: question sent, blocked *)
  | CaseVia (suffix : bytes) (sha_tbl : list (bytes * bytes)) (ps_tbl : list (bytes * (bytes * bool)))
            (db : list bytes) (spelled : bytes) (obs_q : option bytes) (obs_blocked : bool)
  (* round 5: a history of requests through ONE DNSFilter with a real Checker
     for each service behind a recording wrapper, each on its own scripted
     upstream with its own database (constant over the history) *)
  | CaseGlue (sfx_sb sfx_pc : bytes) (sha_tbl : list (bytes * bytes))
             (ps_tbl : list (bytes * (bytes * bool)))      (* PublicSuffix of every lower-case host, with its section flag *)
             (db_sb db_pc : list bytes) (reqs : list greq).

Definition lookup {V} (tbl : list (bytes * V)) (k : bytes) : option V :=
  match find (fun e => eqb_bytes (fst e) k) tbl with Some e => Some (snd e) | None => None end.

Definition sha_of tbl (x : bytes) : bytes := match lookup tbl x with Some h => h | None => [] end.
Definition ps_of tbl (x : bytes) : bytes * bool :=
  match lookup tbl x with Some r => r | None => ([], false) end.

(** The scripted service of the harness: serves every string whose first four
    characters, lower-cased, are an asked label (shorter strings always). *)
Definition raw_service (db : list bytes) (fail : bool) (asked : list prefix) : option (list bytes) :=
  if fail then None
  else Some (filter (fun s =>
    (length s <? 4)%nat || existsb (fun p => eqb_bytes (lower (firstn 4 s)) (hex_of p)) asked) db).

Definition subset (a b : list bytes) : bool := forallb (fun x => mem_hash x b) a.
Definition same_set (a b : list bytes) : bool := subset a b && subset b a.

Definition life_class (now : Z) (it : citem) : Z := (c_expiry it - now / ns_sec + 25) / 100.

Fixpoint all2 {A B} (f : A -> B -> bool) (a : list A) (b : list B) : bool :=
  match a, b with
  | [], [] => true
  | x :: a', y :: b' => f x y && all2 f a' b'
  | _, _ => false
  end.

(** Element by element in the order of the usage list. *)
Definition cache_agrees (now : Z) (c : cache) (obs : list (bytes * Z * list bytes)) : bool :=
  all2 (fun (e : prefix * citem) o => let '(p, cl, hs) := o in
    eqb_bytes (fst e) p && (life_class now (snd e) =? cl) && same_set (c_hashes (snd e)) hs) c obs.

(** What a [Set] did: keys deleted (in order), element kept. *)
Definition ev_agrees (e : set_ev) (o : bytes * list bytes * bool) : bool :=
  all2 eqb_bytes (fst e) (snd (fst o)) && Bool.eqb (snd e) (snd o).

Definition to_op db (o : cop) : op :=
  match o with
  | CCheck host fail sets _ _ _ _ _ =>
      OCheck host (raw_service db fail) (map (fun e => fst (fst e)) sets)
             (map (fun e => (snd (fst e), snd e)) sets)
  | CAdvance s => OAdvance (s * ns_sec)
  | CEvict ps => OEvict ps
  | CDb _ _ => OEvict []
  end.

Definition raw_change (add del : list bytes) (db : list bytes) : list bytes :=
  filter (fun s => negb (mem_hash s del)) db ++ add.

(** The history with the database threaded through: every check is served by
    the database as it is at that point. *)
Fixpoint to_hops (db : list bytes) (ops : list cop) : list hop :=
  match ops with
  | [] => []
  | CDb add del :: r => let db' := raw_change add del db in HDb (parse_txt db') :: to_hops db' r
  | o :: r => HOp (to_op db o) :: to_hops db r
  end.

(** The model's cache, counted as the golibs cache counts (2-byte key, 8 bytes
    of expiry, 32 bytes per hash), is what the real cache reports, and within
    the configured size. *)
Definition size_agrees (max : Z) (l : lru) (obs_size : Z) : bool :=
  (cache_bytes (l_items l) =? obs_size) && (l_size l =? obs_size) && ((max =? 0) || (obs_size <=? max)).

Definition step_ok (max : Z) (sha_tbl : list (bytes * bytes)) (ps_tbl : list (bytes * (bytes * bool))) (o : cop)
    (res : (list bytes * (Z * lru)) * option check_out * list set_ev) : bool :=
  match o, res with
  | CCheck host _ sets b e q oc sz, ((_, (now, l)), Some out, evs) =>
      let c := l_items l in
      size_agrees max l sz &&
      all2 ev_agrees evs sets &&
      forallb (fun n => match lookup sha_tbl n with Some _ => true | None => false end)
              (names_to_hash (ps_of ps_tbl) host) &&
      match lookup ps_tbl host with Some _ => true | None => false end &&
      Bool.eqb (o_blocked out) b && Bool.eqb (o_err out) e &&
      eqb_option eqb_bytes (o_question out) q && cache_agrees now c oc
  | CCheck _ _ _ _ _ _ _ _, _ => false
  | _, (_, None, _) => true
  | _, _ => false
  end.

Definition model_run (c : case) :=
  match c with
  | Case suffix ct max sha_tbl ps_tbl db ops =>
      hrun_lru (sha_of sha_tbl) (ps_of ps_tbl) suffix (ct * ns_sec) max (to_hops db ops)
               (parse_txt db, (0, lru_empty))
  | CaseVia suffix sha_tbl ps_tbl db spelled _ _ =>
      [((parse_txt db, (0, lru_empty)),
        Some (snd (check_host (sha_of sha_tbl) (ps_of ps_tbl) suffix (3600 * ns_sec)
                              (raw_service db false) [] [] 0 spelled [])), [])]
  | CaseGlue _ _ _ _ _ _ _ => []
  end.

(** The glue on the two Checkers of the model, caches threaded through the
    history; the clock stands still (cache time one hour, a history takes
    milliseconds); the caches are unlimited, so no Set evicts and the order of
    the Go map does not matter: any order that covers every prefix will do. *)
Definition reason_code (r : reason) : Z :=
  match r with RNotFiltered => 0 | RSafeBrowsing => 1 | RParental => 2 end.

Fixpoint glue_replay (sfx_sb sfx_pc : bytes) (sha : bytes -> hash) (ps : bytes -> bytes * bool)
    (db_sb db_pc : list bytes) (order : list prefix) (reqs : list greq) (c1 c2 : cache) : list glue_out :=
  match reqs with
  | [] => []
  | GReq p f s pc qt fs fp spelled _ _ _ _ :: r =>
      let st := {| st_protection := p; st_filtering := f; st_safebrowsing := s; st_parental := pc |} in
      let '((c1', c2'), out) :=
        glue_check_host (check sha ps sfx_sb (3600 * ns_sec) (raw_service db_sb fs) order [] 0)
                        (check sha ps sfx_pc (3600 * ns_sec) (raw_service db_pc fp) order [] 0)
                        st (Z.to_N qt) spelled c1 c2 in
      out :: glue_replay sfx_sb sfx_pc sha ps db_sb db_pc order r c1' c2'
  end.

Definition seen_agrees (m : option (bytes * check_out)) (o : option (bytes * option bytes)) : bool :=
  match m, o with
  | None, None => true
  | Some (h, out), Some (h', q) => eqb_bytes h h' && eqb_option eqb_bytes (o_question out) q
  | _, _ => false
  end.

Definition greq_ok (sha_tbl : list (bytes * bytes)) (ps_tbl : list (bytes * (bytes * bool)))
    (r : greq) (out : glue_out) : bool :=
  match r with
  | GReq _ _ _ _ _ _ _ spelled osb opc oreason oerr =>
      let name := caller_name spelled in
      forallb (fun n => match lookup sha_tbl n with Some _ => true | None => false end)
              (names_to_hash (ps_of ps_tbl) name) &&
      match spelled, lookup ps_tbl name with [], _ => true | _, Some _ => true | _, None => false end &&
      seen_agrees (g_sb out) osb && seen_agrees (g_pc out) opc &&
      (reason_code (g_reason out) =? oreason) && Bool.eqb (g_err out) oerr
  end.

Definition glue_model (c : case) : list glue_out :=
  match c with
  | CaseGlue sfx_sb sfx_pc sha_tbl ps_tbl db_sb db_pc reqs =>
      glue_replay sfx_sb sfx_pc (sha_of sha_tbl) (ps_of ps_tbl) db_sb db_pc
                  (map (fun e => prefix_of (snd e)) sha_tbl) reqs [] []
  | _ => []
  end.

Definition case_ok (c : case) : bool :=
  match c with
  | Case suffix ct max sha_tbl ps_tbl db ops =>
      all2 (step_ok max sha_tbl ps_tbl) ops (model_run c)
  | CaseVia suffix sha_tbl ps_tbl db spelled q b =>
      let name := caller_name spelled in
      let out := snd (check_host (sha_of sha_tbl) (ps_of ps_tbl) suffix (3600 * ns_sec)
                                 (raw_service db false) [] [] 0 spelled []) in
      forallb (fun n => match lookup sha_tbl n with Some _ => true | None => false end)
              (names_to_hash (ps_of ps_tbl) name) &&
      match lookup ps_tbl name with Some _ => true | None => false end &&
      Bool.eqb (o_blocked out) b && negb (o_err out) && eqb_option eqb_bytes (o_question out) q
  | CaseGlue _ _ sha_tbl ps_tbl _ _ reqs => all2 (greq_ok sha_tbl ps_tbl) reqs (glue_model c)
  end.

Definition mismatches := Base.Run.mismatches case_ok.

(** For replay files: per step verdict, error, question, what each Set deleted
    and kept, cache in usage order (prefix, class, #hashes), bytes. *)
Definition explain (c : case) :=
  (map (fun res : (list bytes * (Z * lru)) * option check_out * list set_ev =>
    let '((_, (now, l)), out, evs) := res in
    (match out with
     | Some o => Some (o_blocked o, o_err o, o_question o)
     | None => None
     end, evs,
     map (fun e : prefix * citem => (fst e, life_class now (snd e), length (c_hashes (snd e)))) (l_items l),
     l_size l))
    (model_run c),
   (* glue cases: per request reason, error, and for each checker the name
      it was called with and the question it sent *)
   map (fun out : glue_out =>
     let seen (m : option (bytes * check_out)) :=
       match m with Some (h, o) => Some (h, o_question o) | None => None end in
     (reason_code (g_reason out), g_err out, seen (g_sb out), seen (g_pc out)))
    (glue_model c)).

(** Evaluator glue for C05 (round 9): the model of the HTTPS / SVCB parameter
    handlers on what the harness ran the real svcbKeyHandlers and genAnswerSVCB
    on. *)
From Coq Require Import ZArith Bool List.
From AGH Require Import Base.Run.
From AGH Require Export Model.SvcbParams.
Import ListNotations.
Local Open Scope Z_scope.

Inductive case :=
  (* key (true = ipv6hint), what net.ParseIP made of the text, what the real
     handler returned: nothing, or the kind of hint (true = SVCBIPv6Hint) and
     the class of the address in it *)
  | CHint (v6key : bool) (p : ipclass) (obs : option (bool * ipclass))
  (* "port": the text as a decimal integer if it is one, the port returned *)
  | CPort (n : option Z) (obs : option Z)
  (* "alpn": length of the text, whether genAnswerSVCB kept the parameter *)
  | CAlpn (len : Z) (kept : bool).

Definition obs_hint (o : option (bool * ipclass)) : option hint :=
  match o with
  | None => None
  | Some (true, c) => Some (Hint6 c)
  | Some (false, c) => Some (Hint4 c)
  end.

Definition case_ok (c : case) : bool :=
  match c with
  | CHint k p obs => eqb_option hint_eqb (hint_handler k p) (obs_hint obs)
  | CPort n obs => eqb_option Z.eqb (port_handler n) obs
  | CAlpn len kept => Bool.eqb (alpn_kept len) kept
  end.

Definition mismatches := Base.Run.mismatches case_ok.

Definition explain (c : case) : option hint * option Z * bool :=
  match c with
  | CHint k p _ => (hint_handler k p, None, false)
  | CPort n _ => (None, port_handler n, false)
  | CAlpn len _ => (None, None, alpn_kept len)
  end.

(** Evaluator glue for C05 (round 9): the model of the HTTPS / SVCB parameter
    handlers on what the harness ran the real svcbKeyHandlers and genAnswerSVCB
    on. *)
From Coq Require Import ZArith Bool List.
From AGH Require Import Base.Run.
From AGH Require Export Model.SvcbParams Model.TxtStrings.
From Coq Require Import NArith.
Import ListNotations.
Local Open Scope Z_scope.

Inductive case :=
  (* key (true = ipv6hint), what net.ParseIP made of the text, what the real
     handler returned: nothing, or the kind of hint (true = SVCBIPv6Hint) and
     the class of the address in it *)
  | CHint (v6key : bool) (p : ipclass) (obs : option (bool * ipclass))
  (* "port": the text as a decimal integer if it is one, the port returned *)
  | CPort (n : option Z) (obs : option Z)
  (* "alpn": length of the text, whether genAnswerSVCB kept the parameter *)
  | CAlpn (len : Z) (kept : bool)
  (* round 9b, txtStrings: the value's octets, the character strings produced *)
  | CTxt (v : bytes) (obs : list bytes)
  (* a value of [n] octets [b]: the lengths of the strings produced *)
  | CTxtRep (b n : N) (lens : list N)
  (* ansFromDNSRewriteText for TXT: wire length of the owner name, length of
     the value, whether an error came back (the record does not fit) *)
  | CTxtAns (name_wire n : N) (err : bool).

(** MaxMsgSize - txtRespReserve *)
Definition txt_room : N := 65535 - 512.

(** owner name, type, class, ttl, rdlength; per string one length octet *)
Definition txt_record_size (name_wire n : N) : N :=
  name_wire + 10 + n + N.of_nat (length (txt_strings (repeat 0%N (N.to_nat n)))).

Definition obs_hint (o : option (bool * ipclass)) : option hint :=
  match o with
  | None => None
  | Some (true, c) => Some (Hint6 c)
  | Some (false, c) => Some (Hint4 c)
  end.

Definition case_ok (c : case) : bool :=
  match c with
  | CHint k p obs => eqb_option hint_eqb (hint_handler k p) (obs_hint obs)
  | CPort n obs => eqb_option Z.eqb (port_handler n) obs
  | CAlpn len kept => Bool.eqb (alpn_kept len) kept
  | CTxt v obs => eqb_list eqb_bytes (txt_strings v) obs
  | CTxtRep b n lens =>
      eqb_list N.eqb (map (fun s => N.of_nat (length s)) (txt_strings (repeat b (N.to_nat n)))) lens
  | CTxtAns nw n err => Bool.eqb (N.ltb txt_room (txt_record_size nw n)) err
  end.

Definition mismatches := Base.Run.mismatches case_ok.

Definition explain (c : case) : option hint * option Z * bool :=
  match c with
  | CHint k p _ => (hint_handler k p, None, false)
  | CPort n _ => (None, port_handler n, false)
  | CAlpn len _ => (None, None, alpn_kept len)
  | CTxt v _ => (None, Some (Z.of_nat (length (txt_strings v))), false)
  | CTxtRep b n _ => (None, Some (Z.of_nat (length (txt_strings (repeat b (N.to_nat n))))), false)
  | CTxtAns nw n _ => (None, Some (Z.of_N (txt_record_size nw n)), N.ltb txt_room (txt_record_size nw n))
  end.

(** Evaluator glue for C16: runs the ClientID model on what the harness ran
    the real code on. *)
From AGH Require Import Base.Run Base.Bytes Base.Dom Base.PathClean Model.ClientID Model.CertNames.
Local Open Scope N_scope.

(** Error classes as the harness can tell them apart without reading message
    text: the stage (path / server name) is known from calling the path
    function separately; label errors by errors.As on netutil.LengthError /
    RuneError; Host parse errors by errors.As on net.AddrError. *)
Definition label_code (e : label_err) : N :=
  match e with LEmpty => 0 | LTooLong => 1 | LBadRune => 2 end.

Definition err_code (e : cid_err) : N :=
  match e with
  | ENoReq | EPathShape | EPathExtra => 1
  | EPathLabel e => 2 + label_code e
  | EMismatch | EConnType => 5
  | EHostParse => 6
  | ESniLabel e => 7 + label_code e
  end.

Definition res_code (r : cid_res) : N * bytes :=
  match r with CidOk id => (0, id) | CidErr e => (err_code e, nil) end.

Definition proto_of (n : N) : proto :=
  match n with 0 => UDP | 1 => TCP | 2 => DNSCrypt | 3 => DoT | 4 => DoQ | _ => DoH end.

Definition mk_req (q : bytes * option bytes * bytes) : doh_req :=
  {| d_path := fst (fst q); d_tls_sni := snd (fst q); d_host_hdr := snd q |}.

Inductive case :=
  (* Server.clientIDFromDNSContext: protocol, configured name, strict, TLS/QUIC
     connection name, HTTP request (path, TLS name, Host); observed code, id *)
  | CCtx (p : N) (host : bytes) (strict : bool) (sni : option bytes)
         (req : option (bytes * option bytes * bytes)) (obs : N) (obs_id : bytes)
  (* clientIDFromClientServerName *)
  | CSrv (host cli : bytes) (strict : bool) (obs : N) (obs_id : bytes)
  (* ValidateClientID: observed 0 ok / 1+label code *)
  | CValid (l : bytes) (obs : N)
  (* path.Clean *)
  | CClean (p : bytes) (obs : bytes)
  (* netutil.SplitHost: observed None = error *)
  | CHost (hp : bytes) (obs : option bytes)
  (* clientServerNameFromHTTP: TLS state (None = r.TLS == nil), Host header;
     observed name (None = error) and the fromHost flag *)
  | CHttpName (tls : option bytes) (hh : bytes) (obs : option bytes) (obs_from_host : bool)
  (* matchesDomainWildcard(host, pat) *)
  | CWild (host pat : bytes) (obs : bool)
  (* anyNameMatches(dnsNames, sni): the names as passed (sorted or not); v6 =
     what netutil.IsValidIPString answered (read by the model only when the
     scan of the first five bytes meets a colon first) *)
  | CAny (names : list bytes) (sni : bytes) (v6 : bool) (obs : bool)
  (* Server.prepareTLS + tls.Config.GetCertificate: strict flag, SAN DNS names
     of the certificate in certificate order, subject CommonName, handshake
     server name, v6 as above; observed: certificate handed out *)
  | CHello (strict : bool) (dns : list bytes) (cn : bytes) (sni : bytes) (v6 : bool) (obs : bool)
  (* the gate: netutil.IsValidHostname(s) || netutil.IsValidIPString(s) *)
  | CGate (s : bytes) (v6 : bool) (obs : bool).

Definition eqb_res (r : N * bytes) (c : N) (id : bytes) : bool :=
  (fst r =? c) && eqb_bytes (snd r) id.

Definition valid_code (l : bytes) : N :=
  match validate_hostname_label l with None => 0 | Some e => 1 + label_code e end.

Definition case_ok (c : case) : bool :=
  match c with
  | CCtx p host strict sni req obs id =>
      eqb_res (res_code (client_id_of (proto_of p) host strict sni (option_map mk_req req))) obs id
  | CSrv host cli strict obs id =>
      eqb_res (res_code (from_server_name host cli strict)) obs id
  | CValid l obs => valid_code l =? obs
  | CClean p obs => eqb_bytes (clean p) obs
  | CHost hp obs => eqb_option eqb_bytes (split_host hp) obs
  | CHttpName tls hh obs fh =>
      let r := mk_req (nil, tls, hh) in
      eqb_option eqb_bytes (match server_name_from_http r with inr n => Some n | inl _ => None end) obs
      && Bool.eqb (name_from_host r) fh
  | CWild host pat obs => Bool.eqb (matches_domain_wildcard host pat) obs
  | CAny names sni v6 obs => Bool.eqb (any_name_matches names sni v6) obs
  | CHello strict dns cn sni v6 obs =>
      Bool.eqb (handshake_accepts strict {| c_dns_names := dns; c_common_name := cn |} sni v6) obs
  | CGate s v6 obs => Bool.eqb (sni_wellformed s v6) obs
  end.

Definition mismatches := Base.Run.mismatches case_ok.

Definition explain (c : case) : N * bytes :=
  match c with
  | CCtx p host strict sni req _ _ =>
      res_code (client_id_of (proto_of p) host strict sni (option_map mk_req req))
  | CSrv host cli strict _ _ => res_code (from_server_name host cli strict)
  | CValid l _ => (valid_code l, nil)
  | CClean p _ => (0, clean p)
  | CHost hp _ => match split_host hp with Some h => (0, h) | None => (1, nil) end
  | CHttpName tls hh _ _ =>
      let r := mk_req (nil, tls, hh) in
      match server_name_from_http r with
      | inr n => ((if name_from_host r then 10 else 0), n)
      | inl e => (err_code e, nil)
      end
  | CWild host pat _ => ((if matches_domain_wildcard host pat then 1 else 0), nil)
  | CAny names sni v6 _ => ((if any_name_matches names sni v6 then 1 else 0), nil)
  | CHello strict dns cn sni v6 _ =>
      ((if handshake_accepts strict {| c_dns_names := dns; c_common_name := cn |} sni v6 then 1 else 0),
       concat (map (fun n => n ++ [32]) (collect_names {| c_dns_names := dns; c_common_name := cn |})))
  | CGate s v6 _ => ((if sni_wellformed s v6 then 1 else 0), nil)
  end.

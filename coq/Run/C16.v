(** Evaluator glue for C16: runs the ClientID model on what the harness ran
    the real code on. *)
From Coq Require Import List NArith ZArith.
From AGH Require Import Base.Run Base.Bytes Base.Dom Base.PathClean Model.ClientID Model.CertNames.
From AGH Require Import Model.GoLower Model.CertPrepare.
From AGH Require Import Model.ClientIDCache Model.ClientIDReconf Model.TLSSettings.
From AGH Require Import Model.TLSGlue Model.DoHTarget Model.ClientIDKey.
Import ListNotations.
Local Open Scope N_scope.

(** Error classes as the harness can tell them apart without reading message
    text: the stage (path / server name) is known from calling the path
    function separately; label errors by errors.As on netutil.LengthError /
    RuneError; Host parse errors by errors.As on net.AddrError. *)
Definition label_code (e : label_err) : N :=
  match e with LEmpty => 0 | LTooLong => 1 | LBadRune => 2 end.

Definition err_code (e : cid_err) : N :=
  match e with
  | ENoReq | EPathShape | EPathExtra => 1
  | EPathLabel e => 2 + label_code e
  | EMismatch | EConnType => 5
  | EHostParse => 6
  | ESniLabel e => 7 + label_code e
  end.

Definition res_code (r : cid_res) : N * bytes :=
  match r with CidOk id => (0, id) | CidErr e => (err_code e, nil) end.

Definition proto_of (n : N) : proto :=
  match n with 0 => UDP | 1 => TCP | 2 => DNSCrypt | 3 => DoT | 4 => DoQ | _ => DoH end.

Definition mk_req (q : bytes * option bytes * bytes) : doh_req :=
  {| d_path := fst (fst q); d_tls_sni := snd (fst q); d_host_hdr := snd q |}.

(** One step of a history on a running server (round 4).  [HReq]: a request
    over the network: the proxy creates its context and calls the hook, then
    the handler.  Observed: the RequestID the handler saw ([None]: the handler
    was not called), and 0 = processed, the query-log entry carrying [obs_id];
    1 = handler called, returned before the query log; 2 = handler not called.
    [HReconf]: Prepare with these TLS settings (Stop/Prepare/Start or
    Reconfigure). *)
Inductive hstep :=
  | HReq (p : N) (sni : option bytes) (req : option (bytes * option bytes * bytes)) (early : bool)
         (obs_rid : option N) (obs : N) (obs_id : bytes)
  | HReconf (host : bytes) (strict : bool).

Definition mk_t (enabled : bool) (name : bytes) (force : bool) (https dot doq dnscrypt file : N)
    (allow : bool) (chain key cpath kpath : N) (ciphers : list N) (strict : bool) : tls_settings :=
  {| t_enabled := enabled; t_server_name := name; t_force_https := force; t_port_https := https;
     t_port_dot := dot; t_port_doq := doq; t_port_dnscrypt := dnscrypt; t_dnscrypt_file := file;
     t_allow_unenc_doh := allow; t_cert_chain := chain; t_private_key := key; t_cert_path := cpath;
     t_key_path := kpath; t_ciphers := ciphers; t_strict := strict |}.

(** One POST /control/tls/configure: the decoded request, the two facts only
    the system knows; observed: outcome (0 bad request, 1 load failed, 2 set,
    3 set then 500), configModified called, the manager's settings and
    servePlainDNS afterwards, and what newDNSTLSConfig made of them for the DNS
    server ([dns_known = false]: it returned an error). *)
Inductive tstep :=
  | TConfigure (setts : tls_settings) (saved : bool) (serve : option bool) (avail pair_ok : bool)
               (obs_out : N) (obs_changed : bool) (obs_conf : tls_settings) (obs_serve : bool)
               (dns_known : bool) (obs_dns : option (bytes * bool)).

(** One step on one Server value (round 5).  [PPrepare]: Server.Prepare with
    these TLS settings (certificate present, a DoT/DoQ address present, strict,
    the certificate's SAN DNS names in certificate order, CommonName, whether
    it has IP SANs); observed: the new proxy has a tls.Config, s.hasIPAddrs.
    [PHello]: the installed GetCertificate (directly or inside a real TLS
    handshake) for this server name; observed: certificate handed out. *)
Inductive pstep :=
  | PPrepare (has_cert listen strict : bool) (dns : list bytes) (cn : bytes) (has_ip : bool)
             (obs_installed obs_has_ip : bool)
  | PHello (sni : bytes) (v6 : bool) (obs : bool).

Inductive case :=
  (* Server.clientIDFromDNSContext: protocol, configured name, strict, TLS/QUIC
     connection name, HTTP request (path, TLS name, Host); observed code, id *)
  | CCtx (p : N) (host : bytes) (strict : bool) (sni : option bytes)
         (req : option (bytes * option bytes * bytes)) (obs : N) (obs_id : bytes)
  (* clientIDFromClientServerName *)
  | CSrv (host cli : bytes) (strict : bool) (obs : N) (obs_id : bytes)
  (* ValidateClientID: observed 0 ok / 1+label code *)
  | CValid (l : bytes) (obs : N)
  (* path.Clean *)
  | CClean (p : bytes) (obs : bytes)
  (* netutil.SplitHost: observed None = error *)
  | CHost (hp : bytes) (obs : option bytes)
  (* clientServerNameFromHTTP: TLS state (None = r.TLS == nil), Host header;
     observed name (None = error) and the fromHost flag *)
  | CHttpName (tls : option bytes) (hh : bytes) (obs : option bytes) (obs_from_host : bool)
  (* matchesDomainWildcard(host, pat) *)
  | CWild (host pat : bytes) (obs : bool)
  (* anyNameMatches(dnsNames, sni): the names as passed (sorted or not); v6 =
     what netutil.IsValidIPString answered (read by the model only when the
     scan of the first five bytes meets a colon first) *)
  | CAny (names : list bytes) (sni : bytes) (v6 : bool) (obs : bool)
  (* Server.prepareTLS + tls.Config.GetCertificate: strict flag, SAN DNS names
     of the certificate in certificate order, subject CommonName, handshake
     server name, v6 as above; observed: certificate handed out *)
  | CHello (strict : bool) (dns : list bytes) (cn : bytes) (sni : bytes) (v6 : bool) (obs : bool)
  (* the gate: netutil.IsValidHostname(s) || netutil.IsValidIPString(s) *)
  | CGate (s : bytes) (v6 : bool) (obs : bool)
  (* a history of requests and reconfigurations on one running Server *)
  | CHist (host : bytes) (strict : bool) (steps : list hstep)
  (* a sequence of configure calls on one tlsManager: web and DNS port of the
     configuration, servePlainDNS and the settings at the start *)
  | CTls (web dns : N) (serve0 : bool) (conf0 : tls_settings) (steps : list tstep)
  (* strings.ToLower *)
  | CLower (s obs : bytes)
  (* unicode.CaseRanges of the running toolchain: (Lo, Hi, Delta[LowerCase]) *)
  | CCaseTab (tab : list (N * N * Z))
  (* Prepare calls and handshakes on one Server *)
  | CPrep (steps : list pstep)
  (* round 6: one TLS section of the configuration through the real
     newDNSTLSConfig ([pair_ok]: tls.X509KeyPair accepts what was loaded,
     [addrs]: the bind hosts are not nil); observed: the TLSConfig it returned
     ([None]: an error); then, through the real tlsManager and Reconfigure of
     the DNS server, real handshakes on the DoT port: the leaf certificate's
     SAN DNS names, CommonName, IP SANs; per handshake the server name, v6 as
     in CHello, accepted *)
  | CGlue (s : tls_settings) (pair_ok addrs : bool) (obs : option dns_tls_conf)
          (dns : list bytes) (cn : bytes) (has_ip : bool) (hellos : list (bytes * bool * bool))
  (* round 6: a DoH request as net/http parsed it from the request line
     "GET <target> HTTP/1.1": configured name, strict, the target as sent, the
     TLS name, the Host header; observed: URL.Path ([None]: http.ReadRequest
     refused the request), code and id of clientIDFromDNSContext *)
  | CTarget (host : bytes) (strict : bool) (target : bytes) (tls : option bytes) (hh : bytes)
            (obs_path : option bytes) (obs : N) (obs_id : bytes)
  (* url.PathUnescape ([None]: an error) *)
  | CUnescape (s : bytes) (obs : option bytes)
  (* round 8: requests served one after the other on ONE Server (no
     reconfiguration) through the real HandleBefore + processInitial on
     constructed contexts whose RequestID is given: per request the id, the
     protocol, the connection's server name; observed 0 = processed with
     [obs_id], 2 = refused by the hook *)
  | CKeyHist (host : bytes) (strict : bool) (steps : list (N * N * option bytes * N * bytes)).

Definition eqb_res (r : N * bytes) (c : N) (id : bytes) : bool :=
  (fst r =? c) && eqb_bytes (snd r) id.

Definition valid_code (l : bytes) : N :=
  match validate_hostname_label l with None => 0 | Some e => 1 + label_code e end.

Definition mk_q (p : N) (sni : option bytes) (req : option (bytes * option bytes * bytes)) (early : bool) : req_in :=
  {| q_proto := proto_of p; q_sni := sni; q_http := option_map mk_req req; q_early := early |}.

(** The model's observation of a request served at once: (RequestID, code, id). *)
Definition hreq_model (st : srv) (q : req_in) : srv * (N * N * bytes) :=
  let (st1, b) := arrive server_cache_conf st q in
  let rid := s_counter st1 in
  let (st2, b2) := process st1 (length (s_reqs st)) in
  (st2, match b2 with
        | BProcess id => (rid, 0, id)
        | BEarly => (rid, 1, nil)
        | _ => (rid, 2, nil)
        end).

Fixpoint hist_ok (st : srv) (steps : list hstep) : bool :=
  match steps with
  | nil => true
  | HReq p sni req early obs_rid obs obs_id :: r =>
      let (st', m) := hreq_model st (mk_q p sni req early) in
      (match obs_rid with Some n => n =? fst (fst m) | None => true end)
      && (snd (fst m) =? obs) && eqb_bytes (snd m) obs_id && hist_ok st' r
  | HReconf host strict :: r =>
      hist_ok (fst (reconf true st host strict)) r
  end.

Definition out_code (o : outcome) : N :=
  match o with OutBadRequest => 0 | OutLoadFailed => 1 | OutSet => 2 | OutSetThenError => 3 end.

Definition eqb_dns (a b : option (bytes * bool)) : bool :=
  eqb_option (fun x y => eqb_bytes (fst x) (fst y) && Bool.eqb (snd x) (snd y)) a b.

Fixpoint tls_ok (m : mgr) (steps : list tstep) : bool :=
  match steps with
  | nil => true
  | TConfigure setts saved serve avail pair_ok o ch conf sp known dns :: r =>
      let rq := {| r_setts := setts; r_key_saved := saved; r_serve_plain := serve;
                   r_avail := avail; r_pair_ok := pair_ok |} in
      let '(m', out, changed) := handle m rq in
      (out_code out =? o) && Bool.eqb changed ch && eqb_settings (m_conf m') conf
      && Bool.eqb (m_serve_plain m') sp
      && (if known then eqb_dns (dns_tls (m_conf m')) dns else true)
      && tls_ok m' r
  end.

(** For replay files: the first step (1-based) the model disagrees at, and
    what the model computes there: 1000 * step + code (requests), 10 * step +
    outcome (configure calls); 0 when it agrees everywhere. *)
Fixpoint hist_first_bad (k : N) (st : srv) (steps : list hstep) : N * bytes :=
  match steps with
  | nil => (0, nil)
  | HReq p sni req early obs_rid obs obs_id :: r =>
      let (st', m) := hreq_model st (mk_q p sni req early) in
      if (match obs_rid with Some n => n =? fst (fst m) | None => true end)
         && (snd (fst m) =? obs) && eqb_bytes (snd m) obs_id
      then hist_first_bad (k + 1) st' r
      else (1000 * k + 100 * fst (fst m) + snd (fst m), snd m)
  | HReconf host strict :: r => hist_first_bad (k + 1) (fst (reconf true st host strict)) r
  end.

Fixpoint tls_first_bad (k : N) (m : mgr) (steps : list tstep) : N * bytes :=
  match steps with
  | nil => (0, nil)
  | TConfigure setts saved serve avail pair_ok o ch conf sp known dns :: r =>
      let rq := {| r_setts := setts; r_key_saved := saved; r_serve_plain := serve;
                   r_avail := avail; r_pair_ok := pair_ok |} in
      let '(m', out, changed) := handle m rq in
      if tls_ok m [TConfigure setts saved serve avail pair_ok o ch conf sp known dns]
      then tls_first_bad (k + 1) m' r
      else (10 * k + out_code out, t_server_name (m_conf m'))
  end.

Definition eqb_range (a b : N * N * Z) : bool :=
  (fst (fst a) =? fst (fst b)) && (snd (fst a) =? snd (fst b)) && Z.eqb (snd a) (snd b).

Definition mk_conf (has_cert listen strict : bool) (dns : list bytes) (cn : bytes) (has_ip : bool) : tls_conf :=
  {| tc_has_cert := has_cert; tc_listen := listen; tc_strict := strict;
     tc_cert := {| c_dns_names := dns; c_common_name := cn |}; tc_cert_has_ip := has_ip |}.

Fixpoint prep_ok (st : tls_state) (steps : list pstep) : bool :=
  match steps with
  | nil => true
  | PPrepare hc li strict dns cn ip oi oip :: r =>
      let st' := prepare_tls false st (mk_conf hc li strict dns cn ip) in
      Bool.eqb (ts_installed st') oi && Bool.eqb (ts_has_ip st') oip && prep_ok st' r
  | PHello sni v6 obs :: r =>
      ts_installed st && Bool.eqb (on_get_certificate st sni v6) obs && prep_ok st r
  end.

(** 100 * step + (1 installed) + (2 has_ip) for a Prepare, 100 * step + verdict
    for a handshake; with the name list the model holds there. *)
Fixpoint prep_first_bad (k : N) (st : tls_state) (steps : list pstep) : N * bytes :=
  let names st := concat (map (fun n => n ++ (32 :: nil)) (ts_dns_names st)) in
  match steps with
  | nil => (0, nil)
  | PPrepare hc li strict dns cn ip oi oip :: r =>
      let st' := prepare_tls false st (mk_conf hc li strict dns cn ip) in
      if Bool.eqb (ts_installed st') oi && Bool.eqb (ts_has_ip st') oip then prep_first_bad (k + 1) st' r
      else (100 * k + (if ts_installed st' then 1 else 0) + (if ts_has_ip st' then 2 else 0), names st')
  | PHello sni v6 obs :: r =>
      if ts_installed st && Bool.eqb (on_get_certificate st sni v6) obs then prep_first_bad (k + 1) st r
      else (100 * k + (if on_get_certificate st sni v6 then 1 else 0), names st)
  end.

Definition mk_dt (has_cert : bool) (name : bytes) (strict https dot doq : bool) : dns_tls_conf :=
  {| dt_has_cert := has_cert; dt_server_name := name; dt_strict := strict;
     dt_https := https; dt_dot := dot; dt_doq := doq |}.

Definition no_dt : option dns_tls_conf := None.

Definition eqb_dt (a b : dns_tls_conf) : bool :=
  Bool.eqb (dt_has_cert a) (dt_has_cert b) && eqb_bytes (dt_server_name a) (dt_server_name b)
  && Bool.eqb (dt_strict a) (dt_strict b) && Bool.eqb (dt_https a) (dt_https b)
  && Bool.eqb (dt_dot a) (dt_dot b) && Bool.eqb (dt_doq a) (dt_doq b).

(** The state of a server that was given these settings last (whatever it
    had before: C16_reconf_handshake_current_cert). *)
Definition glue_state (s : tls_settings) (pair_ok addrs : bool) (dns : list bytes) (cn : bytes)
    (has_ip : bool) : option tls_state :=
  serve_settings false tls_state0 s pair_ok addrs {| c_dns_names := dns; c_common_name := cn |} has_ip.

Definition glue_ok (s : tls_settings) (pair_ok addrs : bool) (obs : option dns_tls_conf)
    (dns : list bytes) (cn : bytes) (has_ip : bool) (hellos : list (bytes * bool * bool)) : bool :=
  eqb_option eqb_dt (new_dns_tls_config false s pair_ok addrs) obs &&
  match glue_state s pair_ok addrs dns cn has_ip with
  | Some st =>
      if ts_installed st then
        forallb (fun h => Bool.eqb (on_get_certificate st (fst (fst h)) (snd (fst h))) (snd h)) hellos
      else match hellos with [] => true | _ :: _ => false end
  | None => match hellos with [] => true | _ :: _ => false end
  end.

Definition target_ok (host : bytes) (strict : bool) (t : bytes) (tls : option bytes) (hh : bytes)
    (obs_path : option bytes) (obs : N) (id : bytes) : bool :=
  match parse_target t, obs_path with
  | TRejected, None => true
  | TPath p, Some p' =>
      eqb_bytes p p' &&
      eqb_res (res_code (client_id_of DoH host strict None
                 (Some {| d_path := p; d_tls_sni := tls; d_host_hdr := hh |}))) obs id
  | _, _ => false
  end.

Fixpoint key_hist_ok (host : bytes) (strict : bool) (c : cache)
    (steps : list (N * N * option bytes * N * bytes)) : bool :=
  match steps with
  | nil => true
  | (rid, p, sni, obs, id) :: r =>
      let (c', o) := serve_keyed server_cache_conf key64 host strict c rid (proto_of p) sni None in
      match o with
      | Some v => (obs =? 0) && eqb_bytes v id
      | None => obs =? 2
      end && key_hist_ok host strict c' r
  end.

(** 1-based index of the first request the model disagrees at (0: none), and
    the ClientID the model processes it with. *)
Fixpoint key_hist_first_bad (k : N) (host : bytes) (strict : bool) (c : cache)
    (steps : list (N * N * option bytes * N * bytes)) : N * bytes :=
  match steps with
  | nil => (0, nil)
  | (rid, p, sni, obs, id) :: r =>
      let (c', o) := serve_keyed server_cache_conf key64 host strict c rid (proto_of p) sni None in
      if match o with Some v => (obs =? 0) && eqb_bytes v id | None => obs =? 2 end
      then key_hist_first_bad (k + 1) host strict c' r
      else (k, match o with Some v => v | None => nil end)
  end.

Definition case_ok (c : case) : bool :=
  match c with
  | CCtx p host strict sni req obs id =>
      eqb_res (res_code (client_id_of (proto_of p) host strict sni (option_map mk_req req))) obs id
  | CSrv host cli strict obs id =>
      eqb_res (res_code (from_server_name host cli strict)) obs id
  | CValid l obs => valid_code l =? obs
  | CClean p obs => eqb_bytes (clean p) obs
  | CHost hp obs => eqb_option eqb_bytes (split_host hp) obs
  | CHttpName tls hh obs fh =>
      let r := mk_req (nil, tls, hh) in
      eqb_option eqb_bytes (match server_name_from_http r with inr n => Some n | inl _ => None end) obs
      && Bool.eqb (name_from_host r) fh
  | CWild host pat obs => Bool.eqb (matches_domain_wildcard host pat) obs
  | CAny names sni v6 obs => Bool.eqb (any_name_matches names sni v6) obs
  | CHello strict dns cn sni v6 obs =>
      Bool.eqb (handshake_accepts strict {| c_dns_names := dns; c_common_name := cn |} sni v6) obs
  | CGate s v6 obs => Bool.eqb (sni_wellformed s v6) obs
  | CHist host strict steps => hist_ok (srv_init host strict) steps
  | CTls web dns serve0 conf0 steps =>
      tls_ok {| m_conf := conf0; m_serve_plain := serve0; m_web_port := web; m_dns_port := dns |} steps
  | CLower s obs => eqb_bytes (go_to_lower s) obs
  | CCaseTab tab => eqb_list eqb_range tab case_ranges
  | CPrep steps => prep_ok tls_state0 steps
  | CGlue s po a obs dns cn ip hellos => glue_ok s po a obs dns cn ip hellos
  | CTarget host strict t tls hh op obs id => target_ok host strict t tls hh op obs id
  | CUnescape s obs => eqb_option eqb_bytes (unescape s) obs
  | CKeyHist host strict steps => key_hist_ok host strict nil steps
  end.

Definition mismatches := Base.Run.mismatches case_ok.

Definition explain (c : case) : N * bytes :=
  match c with
  | CCtx p host strict sni req _ _ =>
      res_code (client_id_of (proto_of p) host strict sni (option_map mk_req req))
  | CSrv host cli strict _ _ => res_code (from_server_name host cli strict)
  | CValid l _ => (valid_code l, nil)
  | CClean p _ => (0, clean p)
  | CHost hp _ => match split_host hp with Some h => (0, h) | None => (1, nil) end
  | CHttpName tls hh _ _ =>
      let r := mk_req (nil, tls, hh) in
      match server_name_from_http r with
      | inr n => ((if name_from_host r then 10 else 0), n)
      | inl e => (err_code e, nil)
      end
  | CWild host pat _ => ((if matches_domain_wildcard host pat then 1 else 0), nil)
  | CAny names sni v6 _ => ((if any_name_matches names sni v6 then 1 else 0), nil)
  | CHello strict dns cn sni v6 _ =>
      ((if handshake_accepts strict {| c_dns_names := dns; c_common_name := cn |} sni v6 then 1 else 0),
       concat (map (fun n => n ++ [32]) (collect_names {| c_dns_names := dns; c_common_name := cn |})))
  | CGate s v6 _ => ((if sni_wellformed s v6 then 1 else 0), nil)
  | CHist host strict steps => hist_first_bad 1 (srv_init host strict) steps
  | CTls web dns serve0 conf0 steps =>
      tls_first_bad 1 {| m_conf := conf0; m_serve_plain := serve0; m_web_port := web; m_dns_port := dns |} steps
  | CLower s _ => (0, go_to_lower s)
  | CCaseTab tab => (N.of_nat (length case_ranges), nil)
  | CPrep steps => prep_first_bad 1 tls_state0 steps
  (* 100 * (2 glue error | strict handed over) + 10 * installed + number of
     handshakes the model lets through; the name handed over *)
  | CGlue s po a _ dns cn ip hellos =>
      match new_dns_tls_config false s po a with
      | None => (200, nil)
      | Some d =>
          ((if dt_strict d then 100 else 0) +
           match glue_state s po a dns cn ip with
           | Some st =>
               (if ts_installed st then 10 else 0) +
               N.of_nat (length (filter (fun h => on_get_certificate st (fst (fst h)) (snd (fst h))) hellos))
           | None => 0
           end, dt_server_name d)
      end
  (* 900 rejected by net/http, 901 outside the model; else the code and the id,
     or the path when it is the path that differs *)
  | CTarget host strict t tls hh op _ _ =>
      match parse_target t with
      | TRejected => (900, nil)
      | TOther => (901, nil)
      | TPath p =>
          match op with
          | Some p' =>
              if eqb_bytes p p' then
                res_code (client_id_of DoH host strict None
                            (Some {| d_path := p; d_tls_sni := tls; d_host_hdr := hh |}))
              else (902, p)
          | None => (902, p)
          end
      end
  | CUnescape s _ => match unescape s with Some u => (0, u) | None => (1, nil) end
  | CKeyHist host strict steps => key_hist_first_bad 1 host strict nil steps
  end.

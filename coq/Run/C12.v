(** Evaluator glue for C12: replays, on the models of Model/RateLimit.v and
    Model/Session.v, the histories the harness ran against the real limiter,
    handleLogin and Auth, and compares the projected observables step by
    step. *)
From AGH Require Import Base.Run Model.RateLimit Model.Session Model.SessionConc Model.LoginConc Model.LimiterLife.
From stdpp Require Import gmap.
Local Open Scope Z_scope.

(** Observed limiter table: address, until (ns, harness time line), num. *)
Definition ltable := list (bytes * (Z * N)).
(** Observed session table: key (an index into the case's dictionary of byte
    strings: cookie strings for the map in memory, raw tokens for the bucket),
    user, expiry. *)
Definition stable := list (N * (bytes * N)).

Inductive lim_op :=
  | LCleanup (now : Z)
  | LCheck (now : Z) (a : bytes) (obs_left : Z)
  | LInc (now : Z) (a : bytes)
  | LRemove (a : bytes).

(** handleLogin end to end.  [kind]: 0 well-formed request, 1 undecodable
    body.  [addr]: the TCP peer; [hdr]: the address the request names in a
    proxy header, if any; [trusted]: whether it lies inside trusted_proxies.  [status]: HTTP status; [retry]: Retry-After (seconds) or -1;
    [nsess]: number of sessions afterwards.
    Round 4 (time resolution): the real clock is read by the code, not given
    to it; the harness reads it immediately before ([ls_now]) and after
    ([ls_now_hi]) the call and keeps a history only if no deadline of the
    table lies inside that bracket, so that every instant in it gives the same
    decisions; the replay uses [ls_now] for the check.  [ls_now2] is the
    instant [inc] read, recovered exactly from the deadline the step wrote
    (deadline minus block or minus the window, whichever falls inside the
    bracket; [ls_now] when the step wrote none), so the model's table is the
    real one to the nanosecond and the next decision can be judged as close
    to a deadline as the bracket is narrow.  The Retry-After value must lie
    between the values for the two ends of the bracket. *)
Record login_step := { ls_kind : Z; ls_now : Z; ls_now_hi : Z; ls_now2 : Z; ls_addr : bytes; ls_hdr : option bytes; ls_trusted : bool; ls_ok : bool;
                       ls_status : Z; ls_retry : Z; ls_nsess : N; ls_tab : ltable }.

(** Arguments [raw] / [sp] are dictionary indices: [raw] of a token's bytes,
    [sp] of a cookie string (any spelling). *)
Inductive sess_op :=
  | XNew (ttl now raw : N) (user : bytes)
  | XCheck (ttl now sp : N) (obs : Z)     (* 0 OK, 1 not found, 2 expired, 3 not OK (seen through optionalAuth) *)
  | XLogout (ttl now sp : N) (obs : Z)    (* GET /control/logout through the real registration: 0 handleLogout ran, 3 refused *)
  | XRemove (sp : N)                      (* removeSession / handleLogout called directly *)
  | XRestart (now : N)
  | XSetExp (raw e : N).                  (* harness edit standing for the passage of time *)

(** Round 5.  Operations of a concurrent request; [sp] / [raw] are dictionary
    indices. *)
Inductive conc_op :=
  | YRead (tag : N)
  | YCheck (now sp : N)
  | YRemove (sp : N)
  | YAdd (now raw : N) (user : bytes).

(** [ESpawn]: a request starts.  [ESettle labs tabs]: every request is parked
    on [a.lock], parked on the write transaction, or finished; [labs] says
    where each one is ([label_code]), [tabs] is the map in memory and the
    bucket at that moment. *)
Inductive conc_ev :=
  | ESpawn (ops : list conc_op)
  | ESettle (labs : list Z) (tabs : stable * stable)
  (* the process as it would come up if it were killed right now: the file was
     copied while everything was parked and loaded by a second InitAuth; [tabs]
     is what that loaded *)
  | ECrash (now : N) (tabs : stable * stable).

Inductive case :=
  | CLim (max : N) (ttl block : Z) (steps : list (lim_op * ltable))
  | CLogin (max : N) (ttl block : Z) (tol : Z) (steps : list login_step)
  | CSess (dict : list bytes) (steps : list (sess_op * (stable * stable)))
  (* the real initUsers with [auth_attempts] / [block_auth_min] set, then a
     login history through handleLogin with the Auth it returned.  Round 8:
     [first_run] = initUsers ran with an EMPTY user list and the accounts were
     added afterwards to the same object by the real addUser (a fresh
     installation; [init_limiter true]: the object keeps the limiter).  Observed:
     [Auth.rateLimiter != nil] and its blockDur / maxAttempts fields. *)
  | CInitLogin (first_run : bool) (attempts block_min : Z) (obs_present : bool) (obs_block : Z) (obs_max : N) (tol : Z)
               (steps : list login_step)
  (* round 5: requests run concurrently against one Auth.  [pre]: sequential
     steps that build the start state (as in [CSess]); [evs]: requests
     starting and the points at which every request was seen parked or
     finished; [res]: per request, 0 served / 3 refused; [post]: sequential
     steps afterwards (replays of the cookies, restarts). *)
  | CConc (dict : list bytes) (ttl : N) (pre : list (sess_op * (stable * stable)))
          (evs : list conc_ev) (res : list Z) (post : list (sess_op * (stable * stable)))
  (* round 7: [k] wrong-password POST /control/login from one address in
     flight at once through the registered chain, the evaluation of passwords
     held back (the harness holds a.lock, which findUser needs).  Observed:
     how many requests are parked inside ensure on the control lock
     ([at_ctl]) and how many inside findUser ([at_eval]) once all have
     started; after the release, how many were answered 403 and 429. *)
  | CLoginBurst (max : N) (block : Z) (k : N) (at_ctl at_eval n403 n429 : N).

(** * Comparison of tables *)

Definition ltab_ok (tol : Z) (s : rl_state) (obs : ltable) : bool :=
  (Z.of_nat (length obs) =? Z.of_nat (size s)) &&
  forallb (fun '(a, (u, n)) =>
    match s !! a with
    | Some r => (Z.abs (fa_until r - u) <=? tol) && (fa_num r =? n)%N
    | None => false
    end) obs.

Definition key (dict : list bytes) (i : N) : bytes := nth (N.to_nat i) dict [].

Definition stab_ok (dict : list bytes) (m : gmap bytes sess) (obs : stable) : bool :=
  (Z.of_nat (length obs) =? Z.of_nat (size m)) &&
  forallb (fun '(k, (u, e)) =>
    match m !! key dict k with
    | Some s => eqb_bytes (s_user s) u && (s_expire s =? e)%N
    | None => false
    end) obs.

(** * Replays: first failing step (1-based), 0 when all agree *)

Definition lim_step (c : rl_conf) (o : lim_op) (s : rl_state) : rl_state * bool :=
  match o with
  | LCleanup now => (rl_cleanup now s, true)
  | LCheck now a l => (s, rl_check_locked c now s a =? l)
  | LInc now a => (rl_inc c now s a, true)
  | LRemove a => (rl_remove s a, true)
  end.

Fixpoint lim_replay (c : rl_conf) (s : rl_state) (i : Z) (l : list (lim_op * ltable)) : Z :=
  match l with
  | [] => 0
  | (o, tab) :: l' =>
      let '(s', ok) := lim_step c o s in
      if ok && ltab_ok 0 s' tab then lim_replay c s' (i + 1) l' else i
  end.

Definition out_status (o : login_out) : Z :=
  match o with L429 _ => 429 | L403 => 403 | L200 => 200 end.

Definition out_retry (o : login_out) : Z :=
  match retry_after o with Some r => r | None => -1 end.

(** The header value against the model's for both ends of the bracket. *)
Definition retry_in_bracket (st : login_step) (o : login_out) : bool :=
  match o with
  | L429 l => (retry_after_secs (l - (ls_now_hi st - ls_now st)) <=? ls_retry st) && (ls_retry st <=? retry_after_secs l)
  | _ => ls_retry st =? -1
  end.

Fixpoint login_replay_opt (c : option rl_conf) (tol : Z) (s : rl_state) (ns : N) (i : Z) (l : list login_step) : Z :=
  match l with
  | [] => 0
  | st :: l' =>
      if ls_kind st =? 1 then
        if (ls_status st =? 400) && (ls_nsess st =? ns)%N && ltab_ok tol s (ls_tab st)
        then login_replay_opt c tol s ns (i + 1) l' else i
      else
        let e := {| a_now := ls_now st; a_now2 := ls_now2 st; a_addr := ls_addr st; a_hdr := ls_hdr st;
                   a_trusted := ls_trusted st; a_ok := ls_ok st |} in
        let '(s', o) := login_opt c e s in
        let ns' := match o with L200 => (ns + 1)%N | _ => ns end in
        let retry_ok := retry_in_bracket st o in
        if (out_status o =? ls_status st) && retry_ok && (ls_nsess st =? ns')%N && ltab_ok tol s' (ls_tab st)
        then login_replay_opt c tol s' ns' (i + 1) l' else i
  end.

(** initUsers as observed against [mk_limiter]. *)
Definition init_ok (first_run : bool) (attempts block_min : Z) (present : bool) (block : Z) (max : N) : bool :=
  match init_limiter true {| ac_attempts := attempts; ac_block_min := block_min |} (negb first_run) with
  | Some c => present && (rl_block c =? block) && (rl_max c =? max)%N
  | None => negb present
  end.

Fixpoint login_replay (c : rl_conf) (tol : Z) (s : rl_state) (ns : N) (i : Z) (l : list login_step) : Z :=
  match l with
  | [] => 0
  | st :: l' =>
      if ls_kind st =? 1 then
        (* body does not decode: 400, limiter and sessions untouched *)
        if (ls_status st =? 400) && (ls_nsess st =? ns)%N && ltab_ok tol s (ls_tab st)
        then login_replay c tol s ns (i + 1) l' else i
      else
        let e := {| a_now := ls_now st; a_now2 := ls_now2 st; a_addr := ls_addr st; a_hdr := ls_hdr st;
                   a_trusted := ls_trusted st; a_ok := ls_ok st |} in
        let '(s', o) := login c e s in
        let ns' := match o with L200 => (ns + 1)%N | _ => ns end in
        let retry_ok := retry_in_bracket st o in
        if (out_status o =? ls_status st) && retry_ok && (ls_nsess st =? ns')%N && ltab_ok tol s' (ls_tab st)
        then login_replay c tol s' ns' (i + 1) l' else i
  end.

Definition set_exp (raw : bytes) (e : N) (st : sstate) : sstate :=
  let upd (k : bytes) (m : gmap bytes sess) :=
    match m !! k with
    | Some s => <[k := {| s_user := s_user s; s_expire := e |}]> m
    | None => m
    end in
  {| ss_mem := upd (hex_encode raw) (ss_mem st); ss_disk := upd raw (ss_disk st) |}.

Definition cs_code (r : cs_result) : Z :=
  match r with CSOK => 0 | CSNotFound => 1 | CSExpired => 2 end.

Definition cs_obs_ok (r : cs_result) (obs : Z) : bool :=
  if obs =? 3 then negb (cs_code r =? 0) else cs_code r =? obs.

Definition sess_step (dict : list bytes) (o : sess_op) (st : sstate) : sstate * bool :=
  match o with
  | XNew ttl now raw u => (new_session ttl now (key dict raw) u st, true)
  | XCheck ttl now sp obs =>
      let '(st', r) := check_session ttl now (key dict sp) st in (st', cs_obs_ok r obs)
  | XLogout ttl now sp obs =>
      let '(st', r) := logout_request ttl now (key dict sp) st in (st', cs_obs_ok r obs)
  | XRemove sp => (logout (key dict sp) st, true)
  | XRestart now => (restart now st, true)
  | XSetExp raw e => (set_exp (key dict raw) e st, true)
  end.

Fixpoint sess_replay (dict : list bytes) (st : sstate) (i : Z) (l : list (sess_op * (stable * stable))) : Z :=
  match l with
  | [] => 0
  | (o, (m, d)) :: l' =>
      let '(st', ok) := sess_step dict o st in
      if ok && stab_ok dict (ss_mem st') m && stab_ok dict (ss_disk st') d
      then sess_replay dict st' (i + 1) l' else i
  end.


(** * Round 5: concurrent requests

    The harness cannot choose every interleaving, and what it observes of one
    (where each request is parked, the tables) does not always determine the
    order of the steps in between.  So the replay asks: is there an
    interleaving of the MODEL'S steps that passes through every observation?
    [S] is the set of model states compatible with the observations so far. *)

Definition label_code (l : label) : Z :=
  match l with
  | WDone => 0 | WCheck => 1 | WCheckPut => 2 | WCheckDel => 3 | WRemove => 4 | WRemoveDel => 5
  | WAdd => 6 | WAddPut => 7 | WRead tag => 10 + Z.of_N tag | WHidden => -1
  end.

Definition conc_cop (dict : list bytes) (o : conc_op) : cop :=
  match o with
  | YRead tag => ORead tag
  | YCheck now sp => OCheck now (key dict sp)
  | YRemove sp => ORemove (key dict sp)
  | YAdd now raw u => OAdd now (key dict raw) u
  end.

Fixpoint labels_match (cfg : ccfg) (labs : list Z) (thr : list thread) : bool :=
  match labs, thr with
  | [], [] => true
  | l :: labs', t :: thr' => (label_code (tlabel cfg t) =? l) && labels_match cfg labs' thr'
  | _, _ => false
  end.

Global Instance sess_eq_dec : EqDecision sess.
Proof. solve_decision. Defined.
Global Instance cs_result_eq_dec : EqDecision cs_result.
Proof. solve_decision. Defined.
Global Instance cop_eq_dec : EqDecision cop.
Proof. solve_decision. Defined.
Global Instance pc_eq_dec : EqDecision pc.
Proof. solve_decision. Defined.
Global Instance thread_eq_dec : EqDecision thread.
Proof. solve_decision. Defined.

(** Equality of what the future and the verdict depend on (the ghost fields
    are left out). *)
Definition cstate_same (a b : cstate) : bool :=
  bool_decide (c_mem a = c_mem b) && bool_decide (c_disk a = c_disk b) &&
  bool_decide (c_lock a = c_lock b) && bool_decide (c_thr a = c_thr b).

Fixpoint dedup_states (l : list cstate) : list cstate :=
  match l with
  | [] => []
  | a :: l' =>
      let r := dedup_states l' in
      if existsb (cstate_same a) r then r else a :: r
  end.

(** All interleavings in which every thread runs up to the place it was seen
    at and no further: breadth first, one step of one thread per level, equal
    states merged (the state space is the product of a few program counters;
    the number of paths is not).  A thread that has finished although it was
    seen elsewhere has overshot: that branch is dropped. *)
Fixpoint overshot (cfg : ccfg) (labs : list Z) (thr : list thread) : bool :=
  match labs, thr with
  | l :: labs', t :: thr' => (finished t && negb (l =? 0)) || overshot cfg labs' thr'
  | _, _ => false
  end.

Definition successors (cfg : ccfg) (labs : list Z) (st : cstate) : list cstate :=
  flat_map (fun i =>
    match c_thr st !! i, labs !! i with
    | Some t, Some l =>
        if label_code (tlabel cfg t) =? l then []
        else match cstep cfg i st with
             | Some st' => if overshot cfg labs (c_thr st') then [] else [st']
             | None => []
             end
    | _, _ => []
    end) (seq 0 (length (c_thr st))).

Fixpoint advance_bfs (cfg : ccfg) (fuel : nat) (labs : list Z) (frontier acc : list cstate) : list cstate :=
  let arrived := filter (fun st => labels_match cfg labs (c_thr st)) frontier in
  let moving := filter (fun st => negb (labels_match cfg labs (c_thr st))) frontier in
  let acc' := dedup_states (acc ++ arrived) in
  match fuel, moving with
  | _, [] => acc'
  | O, _ => acc'
  | S f, _ => advance_bfs cfg f labs (dedup_states (flat_map (successors cfg labs) moving)) acc'
  end.

Definition advance (cfg : ccfg) (fuel : nat) (labs : list Z) (st : cstate) : list cstate :=
  advance_bfs cfg fuel labs [st] [].

(** Somebody seen waiting for [a.lock] means somebody is inside a section. *)
Definition settled_ok (cfg : ccfg) (st : cstate) : bool :=
  forallb (fun t => negb (label_needs_lock (tlabel cfg t)) || match c_lock st with Some _ => true | None => false end) (c_thr st).

Definition conc_fuel : nat := 64.

Definition conc_event (cfg : ccfg) (dict : list bytes) (e : conc_ev) (sts : list cstate) : list cstate :=
  match e with
  | ESpawn ops => map (cspawn (map (conc_cop dict) ops)) sts
  | ESettle labs (m, d) =>
      dedup_states
        (filter (fun st => settled_ok cfg st && stab_ok dict (c_mem st) m && stab_ok dict (c_disk st) d)
                (flat_map (advance cfg conc_fuel labs) sts))
  | ECrash now (m, d) =>
      filter (fun st => let r := crestart now st in stab_ok dict (c_mem r) m && stab_ok dict (c_disk r) d) sts
  end.

Fixpoint conc_events (cfg : ccfg) (dict : list bytes) (sts : list cstate) (i : Z) (evs : list conc_ev) : Z * list cstate :=
  match evs with
  | [] => (0, sts)
  | e :: evs' =>
      match conc_event cfg dict e sts with
      | [] => (i, [])
      | sts' => conc_events cfg dict sts' (i + 1) evs'
      end
  end.

Definition thread_refused (t : thread) : bool :=
  match t_res t with
  | CSOK :: _ | [] => false
  | _ => true
  end.

Fixpoint results_match (res : list Z) (thr : list thread) : bool :=
  match res, thr with
  | [], [] => true
  | r :: res', t :: thr' =>
      finished t && (if thread_refused t then r =? 3 else r =? 0) && results_match res' thr'
  | _, _ => false
  end.

(** The sequential prefix: as [sess_replay], returning the state. *)
Fixpoint sess_replay_st (dict : list bytes) (st : sstate) (i : Z) (l : list (sess_op * (stable * stable))) : Z * sstate :=
  match l with
  | [] => (0, st)
  | (o, (m, d)) :: l' =>
      let '(st', ok) := sess_step dict o st in
      if ok && stab_ok dict (ss_mem st') m && stab_ok dict (ss_disk st') d
      then sess_replay_st dict st' (i + 1) l' else (i, st)
  end.

Definition conc_first_bad (dict : list bytes) (ttl : N) (pre : list (sess_op * (stable * stable)))
    (evs : list conc_ev) (res : list Z) (post : list (sess_op * (stable * stable))) : Z :=
  let '(i, st0) := sess_replay_st dict s_init 1 pre in
  if negb (i =? 0) then i else
  let n1 := Z.of_nat (length pre) in
  let '(j, sts) := conc_events (code_cfg ttl) dict [of_sstate st0] (n1 + 1) evs in
  if negb (j =? 0) then j else
  let n2 := n1 + Z.of_nat (length evs) in
  match filter (fun st => results_match res (c_thr st)) sts with
  | [] => n2 + 1
  | st :: _ => sess_replay dict (sstate_of st) (n2 + 2) post
  end.

(** * Round 7: simultaneous logins *)

Definition burst_att : att :=
  {| a_now := 0; a_now2 := 0; a_addr := [49%N]; a_hdr := None; a_trusted := false; a_ok := false |}.

Definition count_out (p : login_out -> bool) (l : list login_out) : N := N.of_nat (length (List.filter p l)).

(** With the control lock (the code): after every request has arrived and the
    first one is held inside findUser, all the others wait for the lock; the
    answers are those of the sequential history (C12_logins_serialised). *)
Definition burst_ok (max : N) (block : Z) (k at_ctl at_eval n403 n429 : N) : bool :=
  let c := {| rl_ttl := minute_ns; rl_block := block; rl_max := max |} in
  let atts := repeat burst_att (N.to_nat k) in
  match lstep true c 0 (linit ∅ atts) with
  | None => false
  | Some st1 =>
      let idx := seq 0 (length atts) in
      let waiting := List.filter (fun i => match l_thr st1 !! i with
                                           | Some (_, LStart) => match lstep true c i st1 with None => true | Some _ => false end
                                           | _ => false end) idx in
      let inside := List.filter (fun i => match l_thr st1 !! i with Some (_, LChecked) => true | _ => false end) idx in
      let outs := snd (run_logins c ∅ atts) in
      (N.of_nat (length waiting) =? at_ctl)%N && (N.of_nat (length inside) =? at_eval)%N &&
      (count_out (fun o => match o with L403 => true | _ => false end) outs =? n403)%N &&
      (count_out (fun o => match o with L429 _ => true | _ => false end) outs =? n429)%N
  end.

Definition first_bad (c : case) : Z :=
  match c with
  | CLim max ttl block steps =>
      lim_replay {| rl_ttl := ttl; rl_block := block; rl_max := max |} ∅ 1 steps
  | CLogin max ttl block tol steps =>
      login_replay {| rl_ttl := ttl; rl_block := block; rl_max := max |} tol ∅ 0%N 1 steps
  | CSess dict steps => sess_replay dict s_init 1 steps
  | CInitLogin fr att blk present oblock omax tol steps =>
      if init_ok fr att blk present oblock omax
      then login_replay_opt (mk_limiter {| ac_attempts := att; ac_block_min := blk |}) tol ∅ 0%N 1 steps
      else -1
  | CConc dict ttl pre evs res post => conc_first_bad dict ttl pre evs res post
  | CLoginBurst max block k a b n403 n429 => if burst_ok max block k a b n403 n429 then 0 else 1
  end.

Definition case_ok (c : case) : bool := first_bad c =? 0.

Definition mismatches := Base.Run.mismatches case_ok.

(** For replay files: the first divergent step and what the model has there. *)
Fixpoint lim_state (c : rl_conf) (s : rl_state) (n : nat) (l : list (lim_op * ltable)) : rl_state :=
  match n, l with
  | S n', (o, _) :: l' => lim_state c (fst (lim_step c o s)) n' l'
  | _, _ => s
  end.

Fixpoint login_outs (c : rl_conf) (s : rl_state) (l : list login_step) : list (Z * Z) :=
  match l with
  | [] => []
  | st :: l' =>
      if ls_kind st =? 1 then (400, -1) :: login_outs c s l'
      else
        let e := {| a_now := ls_now st; a_now2 := ls_now2 st; a_addr := ls_addr st; a_hdr := ls_hdr st;
                   a_trusted := ls_trusted st; a_ok := ls_ok st |} in
        let '(s', o) := login c e s in (out_status o, out_retry o) :: login_outs c s' l'
  end.

Fixpoint login_outs_opt (c : option rl_conf) (s : rl_state) (l : list login_step) : list (Z * Z) :=
  match l with
  | [] => []
  | st :: l' =>
      if ls_kind st =? 1 then (400, -1) :: login_outs_opt c s l'
      else
        let e := {| a_now := ls_now st; a_now2 := ls_now2 st; a_addr := ls_addr st; a_hdr := ls_hdr st;
                   a_trusted := ls_trusted st; a_ok := ls_ok st |} in
        let '(s', o) := login_opt c e s in (out_status o, out_retry o) :: login_outs_opt c s' l'
  end.

Fixpoint sess_state (dict : list bytes) (st : sstate) (n : nat) (l : list (sess_op * (stable * stable))) : sstate :=
  match n, l with
  | S n', (o, _) :: l' => sess_state dict (fst (sess_step dict o st)) n' l'
  | _, _ => st
  end.

Definition dump_l (s : rl_state) : ltable := map (fun '(k, r) => (k, (fa_until r, fa_num r))) (map_to_list s).
Definition dump_s (m : gmap bytes sess) : list (bytes * (bytes * N)) := map (fun '(k, s) => (k, (s_user s, s_expire s))) (map_to_list m).

Definition explain (c : case) : Z * (ltable * list (Z * Z) * (list (bytes * (bytes * N)) * list (bytes * (bytes * N)))) :=
  let i := first_bad c in
  match c with
  | CLim max ttl block steps =>
      (i, (dump_l (lim_state {| rl_ttl := ttl; rl_block := block; rl_max := max |} ∅ (Z.to_nat i) steps), [], ([], [])))
  | CLogin max ttl block tol steps =>
      (i, ([], login_outs {| rl_ttl := ttl; rl_block := block; rl_max := max |} ∅ steps, ([], [])))
  | CSess dict steps =>
      let st := sess_state dict s_init (Z.to_nat i) steps in
      (i, ([], [], (dump_s (ss_mem st), dump_s (ss_disk st))))
  | CInitLogin _ att blk _ _ _ _ steps =>
      (* what the model builds: (block, max) as a one-row table under the key "limiter" / "none" *)
      let lim := mk_limiter {| ac_attempts := att; ac_block_min := blk |} in
      (i, (match lim with
           | Some c => [([108;105;109;105;116;101;114]%N, (rl_block c, rl_max c))]
           | None => [([110;111;110;101]%N, (0, 0%N))]
           end, login_outs_opt lim ∅ steps, ([], [])))
  | CConc dict ttl pre evs res post =>
      (* the tables of the first model state compatible with the observations
         before the failing event (none: empty tables) *)
      let '(i0, st0) := sess_replay_st dict s_init 1 pre in
      let n1 := Z.of_nat (length pre) in
      let k := Z.to_nat (i - n1 - 1) in
      match snd (conc_events (code_cfg ttl) dict [of_sstate st0] (n1 + 1) (firstn k evs)) with
      | st :: _ => (i, ([], map (fun t => (label_code (tlabel (code_cfg ttl) t), if thread_refused t then 3 else 0)) (c_thr st),
                        (dump_s (c_mem st), dump_s (c_disk st))))
      | [] => (i, ([], [], ([], [])))
      end
  | CLoginBurst max block k _ _ _ _ =>
      (i, ([], login_outs {| rl_ttl := minute_ns; rl_block := block; rl_max := max |} ∅
                 (repeat {| ls_kind := 0; ls_now := 0; ls_now_hi := 0; ls_now2 := 0; ls_addr := [49%N]; ls_hdr := None; ls_trusted := false;
                            ls_ok := false; ls_status := 0; ls_retry := 0; ls_nsess := 0%N; ls_tab := [] |} (N.to_nat k)), ([], [])))
  end.

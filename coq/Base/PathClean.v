(** Go's [path.Clean] (and [filepath.Clean] on Unix, which is the same
    algorithm), on byte strings.

    The Go function scans bytes with a write index; its effect is exactly a
    stack machine over the '/'-separated elements, which is how it is modelled
    here: empty elements and "." are dropped; ".." pops the last real element
    if there is one, is dropped at the root of a rooted path, and is kept (and
    can never be popped afterwards: Go's [dotdot] index) in a relative path.

    Interface:
      [clean p]                       path.Clean
      [is_abs p]                      p starts with '/'
      [real s : Prop]                 non-empty element other than "." / "..", without '/'
    Lemmas:
      [clean_idem]                    clean (clean p) = clean p
      [clean_abs]                     is_abs p = true -> is_abs (clean p) = true
      [clean_is_abs]                  is_abs (clean p) = is_abs p
      [clean_abs_shape]               for absolute p: clean p = "/" ++ join "/" segs with every
                                      seg [real] (so no "", ".", ".." element), and
                                      [split "/" (clean p) = "" :: segs] unless clean p = "/"
      [clean_not_nil]                 clean p <> []
    The agreement with path.Clean / filepath.Clean is tested differentially by
    the C17 harness (stream "clean"). *)
From Coq Require Import List NArith Bool Lia.
From AGH Require Import Base.Run Base.Bytes.
Import ListNotations.
Local Open Scope N_scope.

Definition slash : N := 47.
Definition seg_dot : bytes := [46].
Definition seg_dotdot : bytes := [46; 46].

Definition is_abs (p : bytes) : bool :=
  match p with c :: _ => c =? slash | [] => false end.

(** One element against the stack of kept elements (top first). *)
Definition step (rooted : bool) (st : list bytes) (seg : bytes) : list bytes :=
  match seg with
  | [] => st
  | _ :: _ =>
      if eqb_bytes seg seg_dot then st
      else if eqb_bytes seg seg_dotdot then
        match st with
        | top :: rest =>
            if negb rooted && eqb_bytes top seg_dotdot then seg :: st else rest
        | [] => if rooted then [] else [seg]
        end
      else seg :: st
  end.

Definition clean_stack (rooted : bool) (p : bytes) : list bytes :=
  fold_left (step rooted) (split slash p) [].

Definition clean (p : bytes) : bytes :=
  match p with
  | [] => seg_dot
  | _ :: _ =>
      let rooted := is_abs p in
      let st := clean_stack rooted p in
      if rooted then slash :: join slash (rev st)
      else match st with
           | [] => seg_dot
           | _ :: _ => join slash (rev st)
           end
  end.

(** * Well-formed stacks *)

Definition real (s : bytes) : Prop :=
  s <> [] /\ s <> seg_dot /\ s <> seg_dotdot /\ mem slash s = false.

Inductive wf (rooted : bool) : list bytes -> Prop :=
  | wf_nil : wf rooted []
  | wf_dd st : rooted = false -> Forall (eq seg_dotdot) st -> wf rooted (seg_dotdot :: st)
  | wf_real s st : real s -> wf rooted st -> wf rooted (s :: st).

Lemma all_dd_wf st : Forall (eq seg_dotdot) st -> wf false st.
Proof.
  induction 1 as [|x st Hx H IH]; [constructor|]. subst. apply wf_dd; auto.
Qed.

Lemma wf_suffix rooted a b : wf rooted (a ++ b) -> wf rooted b.
Proof.
  induction a as [|x a IH]; cbn; auto. intros H. inversion H; subst; auto.
  apply IH. match goal with H : Forall _ _ |- _ => apply all_dd_wf in H; exact H end.
Qed.

Lemma wf_elems rooted st :
  wf rooted st -> Forall (fun s => s <> [] /\ mem slash s = false) st.
Proof.
  induction 1 as [|st Hr H|s st Hs H IH].
  - constructor.
  - constructor; [split; [discriminate|reflexivity]|].
    eapply Forall_impl; [|exact H]. intros a <-. split; [discriminate|reflexivity].
  - constructor; auto. destruct Hs as (? & ? & ? & ?). auto.
Qed.

Lemma wf_rooted_real st : wf true st -> Forall real st.
Proof. induction 1; [constructor|discriminate|constructor; auto]. Qed.

Lemma step_wf rooted st seg :
  mem slash seg = false -> wf rooted st -> wf rooted (step rooted st seg).
Proof.
  intros Hs Hw. unfold step. destruct seg as [|c seg']; auto. set (seg := c :: seg') in *.
  destruct (eqb_bytes seg seg_dot) eqn:E1; auto.
  destruct (eqb_bytes seg seg_dotdot) eqn:E2.
  - apply eqb_bytes_eq in E2. rewrite E2. destruct st as [|top rest].
    + destruct rooted; [constructor|]. apply wf_dd; auto.
    + destruct (negb rooted && eqb_bytes top seg_dotdot) eqn:E3.
      * apply andb_true_iff in E3 as [Hr Ht]. apply negb_true_iff in Hr.
        apply eqb_bytes_eq in Ht. subst top. apply wf_dd; auto.
        inversion Hw; subst; [constructor; auto|].
        match goal with H : real _ |- _ => destruct H as (_ & _ & H & _); congruence end.
      * inversion Hw; subst; auto. vm_compute in E3. discriminate.
  - apply wf_real; auto. apply eqb_bytes_neq in E1, E2. repeat split; auto. discriminate.
Qed.

Lemma fold_step_wf rooted segs st :
  Forall (fun s => mem slash s = false) segs -> wf rooted st ->
  wf rooted (fold_left (step rooted) segs st).
Proof.
  intros H. revert st. induction H as [|s segs Hs H IH]; cbn; auto.
  intros st Hw. apply IH, step_wf; auto.
Qed.

Lemma clean_stack_wf rooted p : wf rooted (clean_stack rooted p).
Proof. apply fold_step_wf; [apply split_no_sep|constructor]. Qed.

(** Re-running the machine over an already clean element list rebuilds it. *)
Lemma fold_step_fixed rooted segs st :
  wf rooted (rev segs ++ st) -> fold_left (step rooted) segs st = rev segs ++ st.
Proof.
  revert st. induction segs as [|s segs IH]; cbn; auto. intros st Hw.
  rewrite <- app_assoc in Hw. cbn in Hw.
  assert (Hs : step rooted st s = s :: st).
  { apply wf_suffix in Hw. inversion Hw; subst.
    - cbn. destruct st as [|top rest]; auto.
      assert (top = seg_dotdot) as ->
        by (match goal with H : Forall _ (_ :: _) |- _ => inversion H; auto end).
      rewrite eqb_bytes_refl. reflexivity.
    - match goal with H : real _ |- _ => destruct H as (Hr1 & Hr2 & Hr3 & _) end.
      unfold step. destruct s; [congruence|].
      apply eqb_bytes_neq in Hr2, Hr3. rewrite Hr2, Hr3. reflexivity. }
  rewrite Hs, IH by exact Hw. rewrite <- app_assoc. reflexivity.
Qed.

Lemma Forall_rev' {A} (P : A -> Prop) l : Forall P l -> Forall P (rev l).
Proof. rewrite !Forall_forall. intros H x Hx. apply H, in_rev, Hx. Qed.

(** * Facts about [clean] *)

Lemma join_hd l :
  l <> [] -> Forall (fun s : bytes => s <> [] /\ mem slash s = false) l ->
  exists b tl, join slash l = b :: tl /\ (b =? slash) = false.
Proof.
  destruct l as [|x r]; [congruence|]. intros _ H. inversion H as [|? ? [H1 H2] _]; subst.
  destruct x as [|b x]; [congruence|]. exists b.
  unfold mem in H2. cbn [existsb] in H2. apply orb_false_iff in H2 as [H2 _]. rewrite N.eqb_sym in H2.
  destruct r; cbn; eauto.
Qed.

Lemma rev_cons_not_nil {A} (t : A) st : rev (t :: st) <> [].
Proof. cbn. destruct (rev st); discriminate. Qed.

Lemma clean_not_nil p : clean p <> [].
Proof.
  unfold clean. destruct p as [|c p]; [discriminate|].
  destruct (is_abs (c :: p)); [discriminate|].
  pose proof (clean_stack_wf false (c :: p)) as Hw.
  destruct (clean_stack false (c :: p)) as [|t st] eqn:E; [discriminate|].
  apply wf_elems, Forall_rev' in Hw.
  destruct (join_hd _ (rev_cons_not_nil t st) Hw) as (b & tl & -> & _). discriminate.
Qed.

Lemma clean_is_abs p : is_abs (clean p) = is_abs p.
Proof.
  unfold clean. destruct p as [|c p]; [reflexivity|].
  destruct (is_abs (c :: p)) eqn:Ea; [reflexivity|].
  pose proof (clean_stack_wf false (c :: p)) as Hw.
  destruct (clean_stack false (c :: p)) as [|t st] eqn:E; [reflexivity|].
  apply wf_elems, Forall_rev' in Hw.
  destruct (join_hd _ (rev_cons_not_nil t st) Hw) as (b & tl & -> & Hb). exact Hb.
Qed.

Lemma clean_abs p : is_abs p = true -> is_abs (clean p) = true.
Proof. rewrite clean_is_abs. auto. Qed.

(** Shape of the result for an absolute path. *)
Lemma clean_abs_shape p :
  is_abs p = true ->
  exists segs, clean p = slash :: join slash segs /\ Forall real segs /\
               (segs = [] \/ split slash (clean p) = [] :: segs).
Proof.
  intros Ha. unfold clean. destruct p as [|c p]; [discriminate|]. rewrite Ha.
  pose proof (clean_stack_wf true (c :: p)) as Hw. apply wf_rooted_real in Hw.
  exists (rev (clean_stack true (c :: p))). split; [reflexivity|].
  split; [apply Forall_rev', Hw|].
  destruct (rev (clean_stack true (c :: p))) as [|x r] eqn:E; [left; reflexivity|right].
  cbn [split]. unfold slash at 1. rewrite N.eqb_refl. f_equal.
  apply split_join; [discriminate|]. rewrite <- E. apply Forall_rev'.
  eapply Forall_impl; [|exact Hw]. intros a (_ & _ & _ & H). exact H.
Qed.

(** No element of a cleaned absolute path is "", "." or "..": every element
    between two separators (and after the last one) is [real], unless the
    result is the root itself. *)
Lemma clean_abs_no_dots p :
  is_abs p = true ->
  clean p = [slash] \/
  exists segs, segs <> [] /\ split slash (clean p) = [] :: segs /\ Forall real segs.
Proof.
  intros Ha. destruct (clean_abs_shape p Ha) as (segs & H1 & H2 & [->|H3]).
  - left. exact H1.
  - destruct segs as [|x r]; [left; exact H1|right]. exists (x :: r). repeat split; auto. discriminate.
Qed.

Lemma clean_unfold_abs p :
  is_abs p = true -> clean p = slash :: join slash (rev (clean_stack true p)).
Proof. intros Ha. unfold clean. destruct p; [discriminate|]. rewrite Ha. reflexivity. Qed.

Lemma clean_unfold_rel p :
  p <> [] -> is_abs p = false ->
  clean p = match clean_stack false p with
            | [] => seg_dot
            | _ :: _ => join slash (rev (clean_stack false p))
            end.
Proof.
  intros Hn Ha. unfold clean. destruct p; [congruence|]. rewrite Ha.
  destruct (clean_stack false (n :: p)); reflexivity.
Qed.

Lemma wf_slash_free rooted st : wf rooted st -> Forall (fun x => mem slash x = false) (rev st).
Proof.
  intros Hw. apply Forall_rev'. apply wf_elems in Hw.
  eapply Forall_impl; [|exact Hw]. cbn. tauto.
Qed.

Lemma rev_not_nil {A} (l : list A) : l <> [] -> rev l <> [].
Proof. destruct l; [congruence|]. intros _. apply rev_cons_not_nil. Qed.

Lemma clean_stack_rel_fixed st :
  st <> [] -> wf false st -> clean_stack false (join slash (rev st)) = st.
Proof.
  intros Hn Hw. unfold clean_stack.
  rewrite split_join by (auto using rev_not_nil, (wf_slash_free false)).
  rewrite fold_step_fixed; rewrite rev_involutive, app_nil_r; auto.
Qed.

Lemma clean_stack_abs_fixed st :
  wf true st -> clean_stack true (slash :: join slash (rev st)) = st.
Proof.
  intros Hw. unfold clean_stack. cbn [split]. unfold slash at 1. rewrite N.eqb_refl.
  cbn [fold_left step]. destruct st as [|t st'] eqn:Est; [reflexivity|]. rewrite <- Est in *.
  assert (Hn : st <> []) by (rewrite Est; discriminate).
  rewrite split_join by (auto using rev_not_nil, (wf_slash_free true)).
  rewrite fold_step_fixed; rewrite rev_involutive, app_nil_r; auto.
Qed.

Theorem clean_idem p : clean (clean p) = clean p.
Proof.
  destruct (is_abs p) eqn:Ea.
  - rewrite (clean_unfold_abs p Ea). rewrite clean_unfold_abs by reflexivity.
    rewrite clean_stack_abs_fixed by apply clean_stack_wf. reflexivity.
  - destruct p as [|c p]; [reflexivity|].
    rewrite (clean_unfold_rel (c :: p)) by (auto; discriminate).
    pose proof (clean_stack_wf false (c :: p)) as Hw.
    destruct (clean_stack false (c :: p)) as [|t st] eqn:E; [reflexivity|].
    pose proof (wf_elems _ _ Hw) as He. apply Forall_rev' in He.
    destruct (join_hd _ (rev_cons_not_nil t st) He) as (b & tl & Hj & Hb).
    rewrite clean_unfold_rel.
    + rewrite clean_stack_rel_fixed by (auto; discriminate). reflexivity.
    + rewrite Hj. discriminate.
    + rewrite Hj. exact Hb.
Qed.

(** * Examples (checked by computation) *)

Example clean_ex1 : clean [47;97;47;46;46;47;46;46;47;98] (* /a/../../b *) = [47;98].
Proof. reflexivity. Qed.
Example clean_ex2 : clean [97;47;47;98;47;46;47] (* a//b/./ *) = [97;47;98].
Proof. reflexivity. Qed.
Example clean_ex3 : clean [46;46;47;97;47;46;46;47;46;46] (* ../a/../.. *) = [46;46;47;46;46].
Proof. reflexivity. Qed.
Example clean_ex4 : clean [47;46;46] = [47].
Proof. reflexivity. Qed.

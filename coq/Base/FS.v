(** Abstract file system with crash points (property C14).  Model only, no
    proofs (they are in Proofs/FS.v).

    Contents are [list N].  An element is a byte when the strace parser could
    see every written byte (small files, `strace -xx -s`), and otherwise one
    opaque chunk id per write(2) (sequence number and length packed in one
    number).  Nothing in the model or in the theorems looks inside an element,
    so both readings are covered by the same statements; crash granularity is
    one element (a byte, resp. one write call).  Chunks keep a 32 MiB save at a
    few thousand list cells.

    Trusted contract of the kernel (the PARTIAL part of C14):
    - per file: after a crash the content is the last fsynced content with some
      PREFIX of the later writes/truncations applied (element granularity);
      fsync/fdatasync make everything written so far durable;
    - directory: creation, rename and unlink are journalled in order.  After a
      crash the directory is the one that existed after some prefix of the
      metadata operations; rename is atomic (no state in between).  Nothing in
      the model forces the journal out, so EVERY earlier directory is a
      possible crash outcome (conservative);
    - data and metadata are otherwise independent: a rename can be durable
      while the data of the renamed file is not (delayed allocation).
    Paths, descriptors and inodes are numbers; no hard links, no mmap. *)
From Coq Require Import List NArith Bool.
Import ListNotations.
Local Open Scope N_scope.

Definition data := list N.
Definition path := N.

(** A not yet durable modification of one file. *)
Inductive pop :=
  | PTrunc (len : N)
  | PWrite (off : N) (d : data).

Definition nlen (c : data) : N := N.of_nat (length c).

Definition pad_to (c : data) (n : N) : data :=
  c ++ repeat 0 (N.to_nat n - length c).

Definition write_at (c : data) (off : N) (d : data) : data :=
  firstn (N.to_nat off) (pad_to c off) ++ d ++ skipn (N.to_nat off + length d) c.

Definition apply_pop (c : data) (p : pop) : data :=
  match p with
  | PTrunc n => firstn (N.to_nat n) (pad_to c n)
  | PWrite off d => write_at c off d
  end.

(** [f_pend]: modifications since the last fsync, NEWEST FIRST. *)
Record file := { f_dur : data; f_pend : list pop }.

Definition empty_file := {| f_dur := []; f_pend := [] |}.

(** What a running process reads: the pending modifications applied, oldest
    first.  [f_cur_spec] is the definition; [f_cur] computes the same list
    (lemma [f_cur_spec_eq] in Proofs/FS.v) in linear time for the usual run of
    sequential writes, by keeping the content reversed together with its
    length, so that a save made of 10^5 write calls stays cheap to judge. *)
Definition f_cur_spec (f : file) : data := fold_right (fun p c => apply_pop c p) (f_dur f) (f_pend f).

Definition rv (l : data) : data := rev_append l [].

Definition apply_pop_r (st : data * N) (p : pop) : data * N :=
  match p with
  | PWrite off d =>
      if off =? snd st then (rev_append d (fst st), snd st + nlen d)
      else let c := write_at (rv (fst st)) off d in (rv c, nlen c)
  | PTrunc n => let c := apply_pop (rv (fst st)) p in (rv c, nlen c)
  end.

Definition f_cur (f : file) : data :=
  match f_pend f with
  | [] => f_dur f
  | ps => rv (fst (fold_right (fun p st => apply_pop_r st p) (rv (f_dur f), nlen (f_dur f)) ps))
  end.

(** Split a pending write into one-element writes (a crash may cut a write). *)
Fixpoint expand_write (off : N) (d : data) : list pop :=
  match d with
  | [] => []
  | x :: d' => PWrite off [x] :: expand_write (off + 1) d'
  end.

Definition expand (p : pop) : list pop :=
  match p with
  | PTrunc n => [PTrunc n]
  | PWrite off d => expand_write off d
  end.

Fixpoint scan (c : data) (ps : list pop) : list data :=
  c :: match ps with
       | [] => []
       | p :: ps' => scan (apply_pop c p) ps'
       end.

(** Possible contents of the file after a crash. *)
Definition crash_contents (f : file) : list data :=
  scan (f_dur f) (flat_map expand (rev (f_pend f))).

(** Finite maps as association lists, overwritten in place (a trace of 10^5
    writes keeps the tables a handful of entries long). *)
Definition amap (A : Type) := list (N * A).

Fixpoint aget {A} (m : amap A) (k : N) : option A :=
  match m with
  | [] => None
  | (k', v) :: r => if k' =? k then Some v else aget r k
  end.

Fixpoint aset {A} (m : amap A) (k : N) (v : A) : amap A :=
  match m with
  | [] => [(k, v)]
  | (k', v') :: r => if k' =? k then (k, v) :: r else (k', v') :: aset r k v
  end.

Fixpoint adel {A} (m : amap A) (k : N) : amap A :=
  match m with
  | [] => []
  | (k', v') :: r => if k' =? k then adel r k else (k', v') :: adel r k
  end.

Definition dir := amap N.            (* path -> inode *)

Record fdent := { fd_ino : N; fd_off : N; fd_wr : bool; fd_app : bool }.

Record fs := {
  dir_cur : dir;
  dir_old : list dir;          (* every earlier directory, newest first *)
  files : amap file;           (* by inode; absent = empty file *)
  fds : amap fdent;
  next_ino : N
}.

Definition all_dirs (s : fs) : list dir := dir_cur s :: dir_old s.

Definition file_of (s : fs) (i : N) : file :=
  match aget (files s) i with Some f => f | None => empty_file end.

Record oflags := { o_creat : bool; o_excl : bool; o_trunc : bool; o_wr : bool; o_app : bool }.

(** Successful system calls only (a failed call changes nothing and is dropped
    by the parser). *)
Inductive op :=
  | Open (fd : N) (p : path) (fl : oflags)
  | Write (fd : N) (d : data)
  | PWriteAt (fd : N) (off : N) (d : data)
  | Fsync (fd : N)
  | Close (fd : N)
  | Rename (a b : path)
  | Unlink (p : path)
  | Ftruncate (fd : N) (len : N)
  | TruncatePath (p : path) (len : N).

Definition set_dir (s : fs) (d : dir) : fs :=
  {| dir_cur := d; dir_old := dir_cur s :: dir_old s; files := files s; fds := fds s; next_ino := next_ino s |}.

Definition set_file (s : fs) (i : N) (f : file) : fs :=
  {| dir_cur := dir_cur s; dir_old := dir_old s; files := aset (files s) i f; fds := fds s; next_ino := next_ino s |}.

Definition set_fd (s : fs) (fd : N) (e : fdent) : fs :=
  {| dir_cur := dir_cur s; dir_old := dir_old s; files := files s; fds := aset (fds s) fd e; next_ino := next_ino s |}.

Definition del_fd (s : fs) (fd : N) : fs :=
  {| dir_cur := dir_cur s; dir_old := dir_old s; files := files s; fds := adel (fds s) fd; next_ino := next_ino s |}.

Definition add_pend (s : fs) (i : N) (p : pop) : fs :=
  let f := file_of s i in
  set_file s i {| f_dur := f_dur f; f_pend := p :: f_pend f |}.

Definition step (s : fs) (o : op) : fs :=
  match o with
  | Open fd p fl =>
      match aget (dir_cur s) p with
      | Some i =>
          if o_creat fl && o_excl fl then s
          else
            let s1 := if o_trunc fl then add_pend s i (PTrunc 0) else s in
            set_fd s1 fd ({| fd_ino := i; fd_off := 0; fd_wr := o_wr fl; fd_app := o_app fl |})
      | None =>
          if o_creat fl then
            let i := next_ino s in
            let s1 := set_dir s (aset (dir_cur s) p i) in
            let s2 := {| dir_cur := dir_cur s1; dir_old := dir_old s1; files := files s1; fds := fds s1;
                         next_ino := i + 1 |} in
            set_fd s2 fd ({| fd_ino := i; fd_off := 0; fd_wr := o_wr fl; fd_app := o_app fl |})
          else s
      end
  | Write fd d =>
      match aget (fds s) fd with
      | Some e =>
          if fd_wr e then
            let off := if fd_app e then nlen (f_cur (file_of s (fd_ino e))) else fd_off e in
            let s1 := add_pend s (fd_ino e) (PWrite off d) in
            set_fd s1 fd ({| fd_ino := fd_ino e; fd_off := off + nlen d; fd_wr := true; fd_app := fd_app e |})
          else s
      | None => s
      end
  | PWriteAt fd off d =>
      match aget (fds s) fd with
      | Some e => if fd_wr e then add_pend s (fd_ino e) (PWrite off d) else s
      | None => s
      end
  | Fsync fd =>
      match aget (fds s) fd with
      | Some e => let f := file_of s (fd_ino e) in
                  set_file s (fd_ino e) {| f_dur := f_cur f; f_pend := [] |}
      | None => s
      end
  | Close fd => del_fd s fd
  | Rename a b =>
      match aget (dir_cur s) a with
      | Some i => set_dir s (aset (adel (dir_cur s) a) b i)
      | None => s
      end
  | Unlink p =>
      match aget (dir_cur s) p with
      | Some _ => set_dir s (adel (dir_cur s) p)
      | None => s
      end
  | Ftruncate fd n =>
      match aget (fds s) fd with
      | Some e => if fd_wr e then add_pend s (fd_ino e) (PTrunc n) else s
      | None => s
      end
  | TruncatePath p n =>
      match aget (dir_cur s) p with
      | Some i => add_pend s i (PTrunc n)
      | None => s
      end
  end.

Definition run (s : fs) (t : list op) : fs := fold_left step t s.

(** What is read at [p] through directory [d]: [None] = no such file. *)
Definition view (d : dir) (s : fs) (p : path) : option data :=
  match aget d p with Some i => Some (f_cur (file_of s i)) | None => None end.

Definition live_view (s : fs) (p : path) : option data := view (dir_cur s) s p.

(** What can be read at [p] after a crash now (and reboot). *)
Definition crash_views (s : fs) (p : path) : list (option data) :=
  flat_map (fun d => match aget d p with
                     | Some i => map Some (crash_contents (file_of s i))
                     | None => [None]
                     end) (all_dirs s).

(** Everything readable at [dst] at every instant of the trace and after a
    crash at every prefix of the trace. *)
Fixpoint visible_states (s : fs) (t : list op) (dst : path) : list (option data) :=
  (live_view s dst :: crash_views s dst) ++
  match t with
  | [] => []
  | o :: t' => visible_states (step s o) t' dst
  end.

(** The complete versions published at [dst]: what was there at the start and
    the full content (as the writing process sees it) of every file at the
    moment it is renamed onto [dst]. *)
Definition published (s : fs) (o : op) (dst : path) : list (option data) :=
  match o with
  | Rename a b => if b =? dst then match aget (dir_cur s) a with Some _ => [live_view s a] | None => [] end else []
  | _ => []
  end.

Fixpoint versions (s : fs) (t : list op) (dst : path) : list (option data) :=
  match t with
  | [] => []
  | o :: t' => published s o dst ++ versions (step s o) t' dst
  end.

Definition all_versions (s : fs) (t : list op) (dst : path) : list (option data) :=
  live_view s dst :: versions s t dst.

(** ** The checker the recorded traces are judged by.  One pass; looks only at
    names, descriptors and the "has unsynced modifications" bit, never at
    contents. *)

(** inode [i] is, or was in some earlier directory, what [dst] names *)
Definition ever_at (s : fs) (dst : path) (i : N) : bool :=
  existsb (fun d => match aget d dst with Some j => j =? i | None => false end) (all_dirs s).

Definition synced (s : fs) (i : N) : bool :=
  match f_pend (file_of s i) with [] => true | _ => false end.

Definition fd_target_ok (s : fs) (dst : path) (fd : N) : bool :=
  match aget (fds s) fd with
  | Some e => negb (ever_at s dst (fd_ino e))
  | None => false        (* descriptor the parser lost track of: refuse *)
  end.

Definition step_ok (dst : path) (s : fs) (o : op) : bool :=
  match o with
  | Open _ p fl =>
      match aget (dir_cur s) p with
      | Some i => negb (ever_at s dst i) || negb (o_wr fl || o_trunc fl || o_app fl)
      | None => negb (o_creat fl && (p =? dst))       (* dst must not be created in place *)
      end
  | Write fd _ | PWriteAt fd _ _ | Ftruncate fd _ => fd_target_ok s dst fd
  | Fsync _ | Close _ => true
  | Rename a b =>
      negb (a =? dst) &&
      (if b =? dst then
         match aget (dir_cur s) a with Some i => synced s i | None => true end
       else true)
  | Unlink p => negb (p =? dst)
  | TruncatePath p _ =>
      match aget (dir_cur s) p with Some i => negb (ever_at s dst i) | None => true end
  end.

Fixpoint trace_safe (dst : path) (s : fs) (t : list op) : bool :=
  match t with
  | [] => true
  | o :: t' => step_ok dst s o && trace_safe dst (step s o) t'
  end.

(** Index of the first offending operation (for reports). *)
Fixpoint first_unsafe (dst : path) (s : fs) (t : list op) (k : N) : option N :=
  match t with
  | [] => None
  | o :: t' => if step_ok dst s o then first_unsafe dst (step s o) t' (k + 1) else Some k
  end.

(** Hygiene: every name created during the trace is gone at the end (renamed
    away or unlinked) unless it is in [keep]. *)
Fixpoint created (s : fs) (t : list op) : list path :=
  match t with
  | [] => []
  | o :: t' =>
      (match o with
       | Open _ p fl => match aget (dir_cur s) p with
                        | None => if o_creat fl then [p] else []
                        | Some _ => []
                        end
       | _ => []
       end) ++ created (step s o) t'
  end.

Definition no_leftovers (keep : list path) (s : fs) (t : list op) : bool :=
  let fin := run s t in
  forallb (fun p => match aget (dir_cur fin) p with
                    | None => true
                    | Some _ => existsb (N.eqb p) keep
                    end) (created s t).

(** ** Building concrete states and the two canonical shapes. *)

(** State after boot: one directory, everything durable.  [ents] lists
    (path, content); inode k+1 is the k-th entry. *)
Fixpoint boot_dir (ents : list (path * data)) (k : N) : dir :=
  match ents with
  | [] => []
  | (p, _) :: r => aset (boot_dir r (k + 1)) p k
  end.

Fixpoint boot_files (ents : list (path * data)) (k : N) : amap file :=
  match ents with
  | [] => []
  | (_, c) :: r => aset (boot_files r (k + 1)) k {| f_dur := c; f_pend := [] |}
  end.

Definition boot (ents : list (path * data)) : fs :=
  {| dir_cur := boot_dir ents 1; dir_old := []; files := boot_files ents 1;
     fds := []; next_ino := 1 + nlen (map fst ents) |}.

Definition fl_tmp := {| o_creat := true; o_excl := true; o_trunc := false; o_wr := true; o_app := false |}.
Definition fl_trunc := {| o_creat := true; o_excl := false; o_trunc := true; o_wr := true; o_app := false |}.
Definition fl_rd := {| o_creat := false; o_excl := false; o_trunc := false; o_wr := false; o_app := false |}.

(** write-to-temp, fsync, close, rename *)
Definition atomic_shape (fd : N) (tmp dst : path) (chunks : list data) : list op :=
  Open fd tmp fl_tmp :: map (Write fd) chunks ++ [Fsync fd; Close fd; Rename tmp dst].

(** os.WriteFile *)
Definition inplace_shape (fd : N) (dst : path) (chunks : list data) : list op :=
  Open fd dst fl_trunc :: map (Write fd) chunks ++ [Close fd].

(** ** "The path exists at every instant" and the shapes that break it. *)

(** One pass over the trace: once [dst] names a file it names one after every
    later operation (evaluated on the recorded traces beside [trace_safe]; the
    theorems show that [trace_safe] implies it and much more). *)
Fixpoint dst_stays (dst : path) (s : fs) (t : list op) : bool :=
  match t with
  | [] => true
  | o :: t' =>
      (match aget (dir_cur s) dst, aget (dir_cur (step s o)) dst with
       | Some _, None => false
       | _, _ => true
       end) && dst_stays dst (step s o) t'
  end.

(** Index of the first operation after which [dst] is gone (for reports). *)
Fixpoint first_absent (dst : path) (s : fs) (t : list op) (k : N) : option N :=
  match t with
  | [] => None
  | o :: t' =>
      match aget (dir_cur s) dst, aget (dir_cur (step s o)) dst with
      | Some _, None => Some k
      | _, _ => first_absent dst (step s o) t' (k + 1)
      end
  end.

(** What is read at [dst] after every prefix of the trace (no crash). *)
Fixpoint live_states (s : fs) (t : list op) (dst : path) : list (option data) :=
  live_view s dst ::
  match t with
  | [] => []
  | o :: t' => live_states (step s o) t' dst
  end.

(** "Keep a backup first": rename dst away, then the write-to-temp shape. *)
Definition backup_shape (fd : N) (bak tmp dst : path) (chunks : list data) : list op :=
  Rename dst bak :: atomic_shape fd tmp dst chunks.

(** The write-to-temp shape through a FIXED temporary name opened with
    O_CREAT|O_TRUNC (no O_EXCL): fine for one save at a time. *)
Definition fixed_tmp_shape (fd : N) (tmp dst : path) (chunks : list data) : list op :=
  Open fd tmp fl_trunc :: map (Write fd) chunks ++ [Fsync fd; Close fd; Rename tmp dst].

(** Every way of interleaving two traces (order within each is kept). *)
Fixpoint interleavings (a : list op) : list op -> list (list op) :=
  fix inner (b : list op) : list (list op) :=
    match a, b with
    | [], _ => [b]
    | _, [] => [a]
    | x :: a', y :: b' => map (cons x) (interleavings a' b) ++ map (cons y) (inner b')
    end.

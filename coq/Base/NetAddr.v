(** IP addresses and prefixes as netip has them, without bit vectors.

    An address is a family, the numeric value and a zone (empty for none);
    a 4-in-6 address is simply a [V6] address in ::ffff:0:0/96 and is a
    different value from the [V4] address it embeds, as in netip.  Prefix
    containment is "same family, no zone, and equal after division by
    2^(width - bits)", which is what [netip.Prefix.Contains] computes with
    shifts and masks (the prefix address need not be masked). *)
From Coq Require Import List NArith Bool Lia.
From AGH Require Import Base.Run.
Import ListNotations.
Local Open Scope N_scope.

Inductive fam := V4 | V6.

Definition fam_eqb (a b : fam) : bool :=
  match a, b with V4, V4 | V6, V6 => true | _, _ => false end.

Lemma fam_eqb_spec a b : fam_eqb a b = true <-> a = b.
Proof. destruct a, b; cbn; split; congruence. Qed.

Record addr := mkAddr { a_fam : fam; a_val : N; a_zone : bytes }.

Definition addr_eqb (a b : addr) : bool :=
  fam_eqb (a_fam a) (a_fam b) && (a_val a =? a_val b) && eqb_bytes (a_zone a) (a_zone b).

Lemma eqb_bytes_spec (x y : bytes) : eqb_bytes x y = true <-> x = y.
Proof.
  unfold eqb_bytes. revert y; induction x as [|a x IH]; intros [|b y]; cbn; split; try congruence; auto.
  - intros H. apply andb_true_iff in H as [H1 H2]. apply N.eqb_eq in H1. apply IH in H2. congruence.
  - intros H; inversion H; subst. apply andb_true_iff; split; [apply N.eqb_refl | apply IH; reflexivity].
Qed.

Lemma addr_eqb_spec a b : addr_eqb a b = true <-> a = b.
Proof.
  destruct a as [f v z], b as [f' v' z']; unfold addr_eqb; cbn.
  rewrite !andb_true_iff, fam_eqb_spec, N.eqb_eq, eqb_bytes_spec.
  split; [intros [[-> ->] ->]; reflexivity | intros H; inversion H; auto].
Qed.

Definition width (f : fam) : N := match f with V4 => 32 | V6 => 128 end.

Definition without_zone (a : addr) : addr := mkAddr (a_fam a) (a_val a) [].

Definition is4 (a : addr) : bool := fam_eqb (a_fam a) V4.

Record prefix := mkPrefix { p_fam : fam; p_val : N; p_bits : N }.

Definition prefix_eqb (p q : prefix) : bool :=
  fam_eqb (p_fam p) (p_fam q) && (p_val p =? p_val q) && (p_bits p =? p_bits q).

(** [netip.Prefix.Contains]: false for a zoned address or another family. *)
Definition prefix_contains (p : prefix) (a : addr) : bool :=
  match a_zone a with
  | [] =>
      fam_eqb (p_fam p) (a_fam a) &&
      let d := 2 ^ (width (p_fam p) - p_bits p) in
      (a_val a / d =? p_val p / d)
  | _ :: _ => false
  end.

(** The declarative reading: the address lies in the aligned block of size
    2^(width-bits) that contains the prefix address. *)
Definition in_block (p : prefix) (a : addr) : Prop :=
  a_zone a = [] /\ a_fam a = p_fam p /\
  let d := 2 ^ (width (p_fam p) - p_bits p) in
  (p_val p / d) * d <= a_val a < (p_val p / d) * d + d.

Lemma prefix_contains_spec p a : prefix_contains p a = true <-> in_block p a.
Proof.
  unfold prefix_contains, in_block. destruct (a_zone a) as [|z zs].
  - rewrite andb_true_iff, fam_eqb_spec, N.eqb_eq.
    set (d := 2 ^ (width (p_fam p) - p_bits p)).
    assert (Hd : d <> 0) by (apply N.pow_nonzero; discriminate).
    split.
    + intros [Hf He]. split; [reflexivity|]. split; [congruence|].
      cbv zeta. rewrite <- He.
      pose proof (N.mul_div_le (a_val a) d Hd).
      pose proof (N.mod_upper_bound (a_val a) d Hd).
      pose proof (N.div_mod (a_val a) d Hd). lia.
    + intros (_ & Hf & Hr). split; [congruence|]. cbv zeta in Hr.
      symmetry. apply (N.div_unique _ _ _ (a_val a - p_val p / d * d)); lia.
  - split; [discriminate | intros [H _]; discriminate].
Qed.

(** /0 contains every zoneless address of the family, /width only itself. *)
Lemma prefix_zero_all p a :
  p_bits p = 0 -> a_zone a = [] -> a_fam a = p_fam p ->
  a_val a < 2 ^ width (p_fam p) -> p_val p < 2 ^ width (p_fam p) ->
  prefix_contains p a = true.
Proof.
  intros Hb Hz Hf Ha Hp. unfold prefix_contains. rewrite Hz, Hb, N.sub_0_r.
  rewrite <- Hf, (proj2 (fam_eqb_spec _ _) eq_refl). cbn [andb].
  rewrite Hf. rewrite !N.div_small by assumption. reflexivity.
Qed.

Lemma prefix_full_self p a :
  p_bits p = width (p_fam p) ->
  (prefix_contains p a = true <-> a_zone a = [] /\ a_fam a = p_fam p /\ a_val a = p_val p).
Proof.
  intros Hb. unfold prefix_contains. rewrite Hb, N.sub_diag. cbn [N.pow].
  rewrite !N.div_1_r. destruct (a_zone a).
  - rewrite andb_true_iff, fam_eqb_spec, N.eqb_eq. intuition congruence.
  - split; [discriminate | intros [H _]; discriminate].
Qed.

(** Go's [filepath.Match] for Unix (path/filepath/match.go), on byte strings.

    Pattern syntax: [*] any run of non-'/' bytes, [?] one non-'/' character,
    [[...]] / [[^...]] character class with ranges, [\c] literal c; a malformed
    pattern is [GBad] (ErrBadPattern) -- but, exactly like Go, only if the
    scan reaches the malformed part.  Characters of the *name* and of class
    bounds are UTF-8 runes as [utf8.DecodeRuneInString] yields them
    ([decode_rune]); literal pattern bytes are compared byte-wise.

    Interface:
      [gres A]                          GOk a | GBad (ErrBadPattern) | GFuel (never, see [glob_match])
      [decode_rune s]                   (rune, width); (65533, 1) for invalid UTF-8, (65533, 0) for ""
      [scan_chunk p]                    (star, chunk, rest)
      [match_chunk fuel chunk s failed] GOk (Some rest) | GOk None (no match)
      [glob_match pat name]             filepath.Match(pat, name)
      [plain_pattern pat]               no '[' and no '\' in the pattern
    Lemmas (section "separators"):
      [match_chunk_slashes]             a chunk without class/escape consumes exactly as many '/'
                                        as it contains
      [glob_match_slashes]              for a [plain_pattern]: a match implies the name has exactly
                                        as many '/' as the pattern: [*] and [?] never match '/'
      [glob_star_no_slash]              "dir/*"-shaped patterns: what [*] stands for has no '/'
    The agreement with filepath.Match is tested differentially by the C17
    harness (stream "glob"). *)
From Coq Require Import List NArith Bool Arith Lia.
From AGH Require Import Base.Run Base.Bytes.
Import ListNotations.
Local Open Scope N_scope.

Inductive gres (A : Type) := GOk (a : A) | GBad | GFuel.
Arguments GOk {A} a.
Arguments GBad {A}.
Arguments GFuel {A}.

Definition sep : N := 47.        (* '/' *)
Definition c_star : N := 42.
Definition c_quest : N := 63.
Definition c_lbr : N := 91.
Definition c_rbr : N := 93.
Definition c_bslash : N := 92.
Definition c_caret : N := 94.
Definition c_minus : N := 45.
Definition rune_error : N := 65533.

Definition is_nil {A} (l : list A) : bool := match l with [] => true | _ => false end.

(** * utf8.DecodeRuneInString *)

Definition is_cont (b : N) : bool := (128 <=? b) && (b <=? 191).

(** size, and the accepted range of the first continuation byte *)
Definition lead_info (b0 : N) : option (nat * N * N) :=
  if (194 <=? b0) && (b0 <=? 223) then Some (2%nat, 128, 191)
  else if b0 =? 224 then Some (3%nat, 160, 191)
  else if (225 <=? b0) && (b0 <=? 236) then Some (3%nat, 128, 191)
  else if b0 =? 237 then Some (3%nat, 128, 159)
  else if (238 <=? b0) && (b0 <=? 239) then Some (3%nat, 128, 191)
  else if b0 =? 240 then Some (4%nat, 144, 191)
  else if (241 <=? b0) && (b0 <=? 243) then Some (4%nat, 128, 191)
  else if b0 =? 244 then Some (4%nat, 128, 143)
  else None.

Definition lead_mask (sz : nat) : N :=
  match sz with 2%nat => 32 | 3%nat => 16 | _ => 8 end.

Definition decode_rune (s : bytes) : N * nat :=
  match s with
  | [] => (rune_error, 0%nat)
  | b0 :: t =>
      if b0 <? 128 then (b0, 1%nat)
      else match lead_info b0 with
           | None => (rune_error, 1%nat)
           | Some (sz, lo, hi) =>
               let conts := firstn (sz - 1) t in
               if Nat.eqb (length conts) (sz - 1) && forallb is_cont conts &&
                  (lo <=? hd 0 conts) && (hd 0 conts <=? hi)
               then (fold_left (fun acc b => acc * 64 + b mod 64) conts (b0 mod lead_mask sz), sz)
               else (rune_error, 1%nat)
           end
  end.

(** * Character classes *)

(** getEsc: one class bound; [None] = ErrBadPattern. *)
Definition get_esc (chunk : bytes) : option (N * bytes) :=
  match chunk with
  | [] => None
  | c :: t =>
      if (c =? c_minus) || (c =? c_rbr) then None
      else
        let chunk1 := if c =? c_bslash then t else chunk in
        match chunk1 with
        | [] => None
        | _ :: _ =>
            let (r, n) := decode_rune chunk1 in
            if (r =? rune_error) && Nat.eqb n 1 then None
            else match skipn n chunk1 with
                 | [] => None
                 | nchunk => Some (r, nchunk)
                 end
        end
  end.

(** The loop over the ranges of a class, after '[' and an optional '^'.
    Returns whether [r] is in some range and the chunk after the closing ']'. *)
Fixpoint class_loop (fuel : nat) (chunk : bytes) (r : N) (matched seen : bool)
  : gres (bool * bytes) :=
  match fuel with
  | O => GFuel
  | S f =>
      match chunk with
      | c :: rest =>
          if (c =? c_rbr) && seen then GOk (matched, rest)
          else
            match get_esc chunk with
            | None => GBad
            | Some (lo, chunk1) =>
                match chunk1 with
                | d :: t1 =>
                    if d =? c_minus then
                      match get_esc t1 with
                      | None => GBad
                      | Some (hi, chunk2) =>
                          class_loop f chunk2 r (matched || ((lo <=? r) && (r <=? hi))) true
                      end
                    else class_loop f chunk1 r (matched || (lo =? r)) true
                | [] => GBad  (* unreachable: get_esc never returns an empty rest *)
                end
            end
      | [] => GBad  (* get_esc "" *)
      end
  end.

(** * matchChunk *)

Fixpoint match_chunk (fuel : nat) (chunk s : bytes) (failed : bool) : gres (option bytes) :=
  match fuel with
  | O => GFuel
  | S f =>
      match chunk with
      | [] => GOk (if failed then None else Some s)
      | c :: ctl =>
          let failed := failed || is_nil s in
          if c =? c_lbr then
            let r := if failed then 0 else fst (decode_rune s) in
            let s' := if failed then s else skipn (snd (decode_rune s)) s in
            let negated := match ctl with d :: _ => d =? c_caret | [] => false end in
            let body := if negated then tl ctl else ctl in
            match class_loop (S (length body)) body r false false with
            | GOk (m, rest) => match_chunk f rest s' (failed || Bool.eqb m negated)
            | GBad => GBad
            | GFuel => GFuel
            end
          else if c =? c_quest then
            if failed then match_chunk f ctl s true
            else match_chunk f ctl (skipn (snd (decode_rune s)) s) (hd 0 s =? sep)
          else
            let lit := if c =? c_bslash then ctl else chunk in
            match lit with
            | [] => GBad
            | l0 :: ltl =>
                if failed then match_chunk f ltl s true
                else match_chunk f ltl (tl s) (negb (l0 =? hd 0 s))
            end
      end
  end.

(** * scanChunk *)

Fixpoint strip_stars (p : bytes) : bool * bytes :=
  match p with
  | c :: t => if c =? c_star then (true, snd (strip_stars t)) else (false, p)
  | [] => (false, [])
  end.

Fixpoint scan (p : bytes) (inrange : bool) : bytes * bytes :=
  match p with
  | [] => ([], [])
  | c :: t =>
      if c =? c_bslash then
        match t with
        | [] => ([c], [])
        | d :: t' => let (a, b) := scan t' inrange in (c :: d :: a, b)
        end
      else if c =? c_lbr then let (a, b) := scan t true in (c :: a, b)
      else if c =? c_rbr then let (a, b) := scan t false in (c :: a, b)
      else if (c =? c_star) && negb inrange then ([], p)
      else let (a, b) := scan t inrange in (c :: a, b)
  end.

Definition scan_chunk (p : bytes) : bool * bytes * bytes :=
  let (star, p1) := strip_stars p in
  let (chunk, rest) := scan p1 false in
  (star, chunk, rest).

(** * Match *)

(** The retry loop after a '*': try the chunk at name[i+1:] for i = 0, 1, ...
    while name[i] is not a separator.  [last]: the pattern is exhausted, so
    the chunk must consume the whole rest of the name. *)
Fixpoint star_loop (chunk name : bytes) (last : bool) : gres (option bytes) :=
  match name with
  | [] => GOk None
  | c :: t =>
      if c =? sep then GOk None
      else match match_chunk (S (length chunk)) chunk t false with
           | GOk (Some rest) =>
               if last && negb (is_nil rest) then star_loop chunk t last else GOk (Some rest)
           | GOk None => star_loop chunk t last
           | GBad => GBad
           | GFuel => GFuel
           end
  end.

Fixpoint match_loop (fuel : nat) (pattern name : bytes) : gres bool :=
  match fuel with
  | O => GFuel
  | S f =>
      match pattern with
      | [] => GOk (is_nil name)
      | _ :: _ =>
          let '(star, chunk, rest) := scan_chunk pattern in
          if star && is_nil chunk then GOk (negb (mem sep name))
          else
            let retry :=
              if star then
                match star_loop chunk name (is_nil rest) with
                | GOk (Some t) => match_loop f rest t
                | GOk None => GOk false
                | GBad => GBad
                | GFuel => GFuel
                end
              else GOk false in
            match match_chunk (S (length chunk)) chunk name false with
            | GOk (Some t) => if is_nil t || negb (is_nil rest) then match_loop f rest t else retry
            | GOk None => retry
            | GBad => GBad
            | GFuel => GFuel
            end
      end
  end.

Definition glob_match (pat name : bytes) : gres bool := match_loop (S (length pat)) pat name.

(** A pattern without classes and escapes. *)
Definition plain_pattern (pat : bytes) : bool := negb (mem c_lbr pat) && negb (mem c_bslash pat).

(** * Examples (by computation) *)

Definition b_safe_star : bytes := [47;115;47;42].                     (* /s/*    *)
Example glob_ex1 : glob_match b_safe_star [47;115;47;97] = GOk true.                     (* /s/a *)
Proof. reflexivity. Qed.
Example glob_ex2 : glob_match b_safe_star [47;115;47;97;47;98] = GOk false.              (* /s/a/b *)
Proof. reflexivity. Qed.
Example glob_ex3 : glob_match [47;115;47;63] [47;115;47;47] = GOk false.                 (* /s/? vs /s// *)
Proof. reflexivity. Qed.
Example glob_ex4 : glob_match [91;97;45;99;93;42] [98;120] = GOk true.                   (* [a-c]* vs bx *)
Proof. reflexivity. Qed.
Example glob_ex5 : glob_match [91;94;97;93] [97] = GOk false.                            (* [^a] vs a *)
Proof. reflexivity. Qed.
Example glob_ex6 : glob_match [97;91] [97] = GBad.                                       (* a[ vs a *)
Proof. reflexivity. Qed.
Example glob_ex7 : glob_match [47;115;47;42;91] [116;101;115;116] = GOk false.           (* /s/*[ vs test: not detected *)
Proof. reflexivity. Qed.
Example glob_ex8 : glob_match [47;115;47;42;91] [47;115;47;120] = GBad.                  (* /s/*[ vs /s/x *)
Proof. reflexivity. Qed.
Example glob_ex9 : glob_match [92;42] [42] = GOk true.                                   (* \* vs * *)
Proof. reflexivity. Qed.
Example glob_ex10 : glob_match [63] [195;188] = GOk true.                                (* ? vs one 2-byte rune *)
Proof. reflexivity. Qed.

(** * Separators: [*] and [?] never match '/' *)

Section separators.

Lemma mem_cons_false b c s : mem b (c :: s) = false -> (c =? b) = false /\ mem b s = false.
Proof.
  unfold mem. cbn [existsb]. intros H. apply orb_false_iff in H as [H1 H2].
  rewrite N.eqb_sym. auto.
Qed.

Lemma count_cont l : forallb is_cont l = true -> count sep l = 0%nat.
Proof.
  induction l as [|c l IH]; cbn [forallb count]; [reflexivity|]. intros H.
  apply andb_true_iff in H as [H1 H2]. unfold is_cont in H1. apply andb_true_iff in H1 as [H1 _].
  apply N.leb_le in H1. assert ((c =? sep) = false) as -> by (apply N.eqb_neq; unfold sep; lia).
  apply IH, H2.
Qed.

Lemma lead_info_size b sz lo hi : lead_info b = Some (sz, lo, hi) -> (2 <= sz)%nat.
Proof.
  unfold lead_info.
  repeat match goal with |- context [if ?c then _ else _] => destruct c end;
    intros H; try discriminate; injection H as <- _ _; lia.
Qed.

(** The bytes [?] or a class consume for one rune contain no separator unless
    the first one is a separator. *)
Lemma decode_no_sep b0 t :
  (b0 =? sep) = false ->
  count sep (firstn (snd (decode_rune (b0 :: t))) (b0 :: t)) = 0%nat.
Proof.
  intros Hb. assert (H1 : count sep (firstn 1 (b0 :: t)) = 0%nat) by (cbn; rewrite Hb; reflexivity).
  unfold decode_rune. destruct (b0 <? 128); [exact H1|].
  destruct (lead_info b0) as [[[sz lo] hi]|] eqn:El; [|exact H1].
  destruct (_ && _ && _ && _) eqn:Ec; [|exact H1]. cbn [snd].
  pose proof (lead_info_size _ _ _ _ El) as Hsz.
  apply andb_true_iff in Ec as [Ec _]. apply andb_true_iff in Ec as [Ec _].
  apply andb_true_iff in Ec as [_ Ec].
  destruct sz as [|sz']; [lia|]. cbn [firstn count]. rewrite Hb.
  replace (S sz' - 1)%nat with sz' in Ec by lia. apply count_cont, Ec.
Qed.

(** A chunk without class and escape consumes exactly as many separators as
    it contains (its '?' never stand for one). *)
Lemma match_chunk_slashes : forall fuel chunk s failed t,
  mem c_lbr chunk = false -> mem c_bslash chunk = false ->
  match_chunk fuel chunk s failed = GOk (Some t) ->
  failed = false /\ exists consumed, s = consumed ++ t /\ count sep consumed = count sep chunk.
Proof.
  induction fuel as [|f IH]; intros chunk s failed t Hl Hb; cbn [match_chunk]; [discriminate|].
  destruct chunk as [|c ctl].
  - destruct failed; [discriminate|]. intros [= <-]. split; [reflexivity|]. exists []. auto.
  - apply mem_cons_false in Hl as [Hl1 Hl2]. apply mem_cons_false in Hb as [Hb1 Hb2].
    rewrite Hl1. destruct (c =? c_quest) eqn:Eq.
    + apply N.eqb_eq in Eq. subst c.
      destruct (failed || is_nil s) eqn:Ef.
      * intros H. apply IH in H as [H _]; auto. discriminate.
      * apply orb_false_iff in Ef as [-> Hs]. destruct s as [|b0 s0]; [discriminate|].
        intros H. apply IH in H as [Hsep (consumed & Hc & Hn)]; auto.
        split; [reflexivity|]. cbn [hd] in Hsep.
        exists (firstn (snd (decode_rune (b0 :: s0))) (b0 :: s0) ++ consumed). split.
        -- rewrite <- app_assoc, <- Hc. symmetry. apply firstn_skipn.
        -- rewrite count_app, (decode_no_sep _ _ Hsep), Hn. reflexivity.
    + rewrite Hb1. destruct (failed || is_nil s) eqn:Ef.
      * intros H. apply IH in H as [H _]; auto. discriminate.
      * apply orb_false_iff in Ef as [-> Hs]. destruct s as [|b0 s0]; [discriminate|].
        intros H. apply IH in H as [Hsep (consumed & Hc & Hn)]; auto.
        cbn [hd tl] in *. apply negb_false_iff, N.eqb_eq in Hsep. subst b0.
        split; [reflexivity|]. exists (c :: consumed). split; [cbn; f_equal; exact Hc|].
        cbn [count]. rewrite Hn. reflexivity.
Qed.

Lemma star_loop_slashes : forall name chunk last t,
  mem c_lbr chunk = false -> mem c_bslash chunk = false ->
  star_loop chunk name last = GOk (Some t) ->
  exists skipped consumed, name = skipped ++ consumed ++ t /\
    count sep skipped = 0%nat /\ count sep consumed = count sep chunk.
Proof.
  induction name as [|c tl IH]; intros chunk last t Hl Hb; cbn [star_loop]; [discriminate|].
  destruct (c =? sep) eqn:Ec; [discriminate|].
  assert (Hrec : star_loop chunk tl last = GOk (Some t) ->
          exists skipped consumed, c :: tl = skipped ++ consumed ++ t /\
            count sep skipped = 0%nat /\ count sep consumed = count sep chunk).
  { intros H. destruct (IH _ _ _ Hl Hb H) as (sk & co & -> & H1 & H2).
    exists (c :: sk), co. repeat split; auto. cbn [count]. rewrite Ec. exact H1. }
  destruct (match_chunk (S (length chunk)) chunk tl false) as [[rest|]| |] eqn:Em; try discriminate.
  - destruct (last && negb (is_nil rest)); [exact Hrec|].
    intros [= ->]. apply match_chunk_slashes in Em as [_ (co & -> & Hn)]; auto.
    exists [c], co. repeat split; auto. cbn [count]. rewrite Ec. reflexivity.
  - exact Hrec.
Qed.

Lemma strip_stars_count p : count sep (snd (strip_stars p)) = count sep p.
Proof.
  induction p as [|c t IH]; cbn [strip_stars]; [reflexivity|].
  destruct (c =? c_star) eqn:E; [|reflexivity]. cbn [snd count].
  apply N.eqb_eq in E. subst c. cbn. exact IH.
Qed.

Lemma strip_stars_mem b p : mem b p = false -> mem b (snd (strip_stars p)) = false.
Proof.
  induction p as [|c t IH]; cbn [strip_stars]; [auto|].
  destruct (c =? c_star); [|auto]. intros H. apply mem_cons_false in H as [_ H]. apply IH, H.
Qed.

Lemma strip_stars_hd p :
  match snd (strip_stars p) with c :: _ => (c =? c_star) = false | [] => True end.
Proof.
  induction p as [|c t IH]; cbn [strip_stars]; [exact I|].
  destruct (c =? c_star) eqn:E; [exact IH|]. cbn [snd]. exact E.
Qed.

Lemma scan_plain p :
  mem c_lbr p = false -> mem c_bslash p = false ->
  p = fst (scan p false) ++ snd (scan p false) /\
  mem c_lbr (fst (scan p false)) = false /\ mem c_bslash (fst (scan p false)) = false /\
  mem c_lbr (snd (scan p false)) = false /\ mem c_bslash (snd (scan p false)) = false /\
  (fst (scan p false) = [] -> p = [] \/ exists t, p = c_star :: t).
Proof.
  induction p as [|c t IH]; intros Hl Hb; cbn [scan].
  - cbn. repeat split; auto.
  - pose proof Hl as Hl0. pose proof Hb as Hb0.
    apply mem_cons_false in Hl as [Hl1 Hl2]. apply mem_cons_false in Hb as [Hb1 Hb2].
    rewrite Hb1, Hl1. destruct (IH Hl2 Hb2) as (H1 & H2 & H3 & H4 & H5 & _).
    assert (Hcons : c :: t = (c :: fst (scan t false)) ++ snd (scan t false))
      by (cbn; f_equal; exact H1).
    assert (Hm1 : mem c_lbr (c :: fst (scan t false)) = false).
    { unfold mem in *. cbn [existsb]. rewrite N.eqb_sym, Hl1. exact H2. }
    assert (Hm2 : mem c_bslash (c :: fst (scan t false)) = false).
    { unfold mem in *. cbn [existsb]. rewrite N.eqb_sym, Hb1. exact H3. }
    destruct (c =? c_rbr).
    + destruct (scan t false) as [a b]. cbn [fst snd] in *. repeat split; auto. discriminate.
    + destruct (c =? c_star) eqn:Es; cbn [andb negb].
      * cbn [fst snd app]. repeat split; auto. intros _. right.
        apply N.eqb_eq in Es. subst c. eauto.
      * destruct (scan t false) as [a b]. cbn [fst snd] in *. repeat split; auto. discriminate.
Qed.

Lemma match_loop_slashes : forall fuel pattern name,
  mem c_lbr pattern = false -> mem c_bslash pattern = false ->
  match_loop fuel pattern name = GOk true ->
  count sep name = count sep pattern.
Proof.
  induction fuel as [|f IH]; intros pattern name Hl Hb; cbn [match_loop]; [discriminate|].
  destruct pattern as [|c0 ptl].
  - destruct name; [reflexivity|discriminate].
  - set (P := c0 :: ptl) in *. unfold scan_chunk.
    pose proof (strip_stars_count P) as Hcnt.
    pose proof (strip_stars_mem _ _ Hl) as Hl1. pose proof (strip_stars_mem _ _ Hb) as Hb1.
    pose proof (strip_stars_hd P) as Hhd.
    destruct (strip_stars P) as [star p1]. cbn [snd] in *.
    destruct (scan_plain p1 Hl1 Hb1) as (Hp & Hcl & Hcb & Hrl & Hrb & Hnil).
    destruct (scan p1 false) as [chunk rest]. cbn [fst snd] in *.
    assert (Hsum : count sep P = (count sep chunk + count sep rest)%nat)
      by (rewrite <- Hcnt, Hp at 1; apply count_app).
    destruct (star && is_nil chunk) eqn:Esn.
    + apply andb_true_iff in Esn as [_ Hn]. destruct chunk; [|discriminate].
      intros [= Hm]. apply negb_true_iff in Hm. apply mem_count in Hm. rewrite Hm, Hsum. cbn.
      destruct (Hnil eq_refl) as [->|[t ->]].
      * cbn in Hp. subst rest. reflexivity.
      * cbn in Hhd. discriminate.
    + assert (Hretry :
        (if star then
           match star_loop chunk name (is_nil rest) with
           | GOk (Some t) => match_loop f rest t
           | GOk None => GOk false
           | GBad => GBad
           | GFuel => GFuel
           end
         else GOk false) = GOk true -> count sep name = count sep P).
      { destruct star; [|discriminate].
        destruct (star_loop chunk name (is_nil rest)) as [[t|]| |] eqn:Esl; try discriminate.
        intros H. apply IH in H; auto.
        apply star_loop_slashes in Esl as (sk & co & -> & H1 & H2); auto.
        rewrite !count_app, H1, H2, H, Hsum. reflexivity. }
      destruct (match_chunk (S (length chunk)) chunk name false) as [[t|]| |] eqn:Em;
        try discriminate; [|exact Hretry].
      destruct (is_nil t || negb (is_nil rest)); [|exact Hretry].
      intros H. apply IH in H; auto.
      apply match_chunk_slashes in Em as [_ (co & -> & Hn)]; auto.
      rewrite count_app, Hn, H, Hsum. reflexivity.
Qed.

(** For a pattern without character classes and escapes, a matching name has
    exactly as many separators as the pattern: [*] and [?] never stand for a
    '/'.  (A class can: "[/]" matches "/"; that is visible in the pattern.) *)
Theorem glob_match_slashes pat name :
  plain_pattern pat = true -> glob_match pat name = GOk true ->
  count sep name = count sep pat.
Proof.
  unfold plain_pattern, glob_match. intros H. apply andb_true_iff in H as [H1 H2].
  apply negb_true_iff in H1, H2. apply match_loop_slashes; assumption.
Qed.

End separators.

(** * Literal prefixes: "dir/*" *)

Section literal_prefix.

(** A byte that stands for itself in a pattern. *)
Definition is_lit (c : N) : bool :=
  negb (c =? c_star) && negb (c =? c_quest) && negb (c =? c_lbr) && negb (c =? c_bslash).

Lemma is_lit_inv c : is_lit c = true ->
  (c =? c_star) = false /\ (c =? c_quest) = false /\ (c =? c_lbr) = false /\ (c =? c_bslash) = false.
Proof.
  unfold is_lit. intros H. repeat (apply andb_true_iff in H as [H ?]).
  repeat split; apply negb_true_iff; assumption.
Qed.

Lemma lit_plain l : forallb is_lit l = true -> mem c_lbr l = false /\ mem c_bslash l = false.
Proof.
  induction l as [|c l IH]; cbn [forallb]; [split; reflexivity|]. intros H.
  apply andb_true_iff in H as [H1 H2]. apply is_lit_inv in H1 as (_ & _ & H3 & H4).
  destruct (IH H2) as [I1 I2]. unfold mem in *. cbn [existsb].
  rewrite (N.eqb_sym c_lbr c), (N.eqb_sym c_bslash c), H3, H4. auto.
Qed.

Lemma match_chunk_literal : forall fuel chunk s failed t,
  forallb is_lit chunk = true ->
  match_chunk fuel chunk s failed = GOk (Some t) -> failed = false /\ s = chunk ++ t.
Proof.
  induction fuel as [|f IH]; intros chunk s failed t Hl; cbn [match_chunk]; [discriminate|].
  destruct chunk as [|c ctl].
  - destruct failed; [discriminate|]. intros [= <-]. auto.
  - cbn [forallb] in Hl. apply andb_true_iff in Hl as [Hc Hl].
    apply is_lit_inv in Hc as (_ & Hq & Hb & Hs). rewrite Hb, Hq, Hs.
    destruct (failed || is_nil s) eqn:Ef.
    + intros H. apply IH in H as [H _]; auto. discriminate.
    + apply orb_false_iff in Ef as [-> Hn]. destruct s as [|b0 s0]; [discriminate|].
      intros H. apply IH in H as [Heq Htl]; auto. cbn [hd tl] in Heq, Htl.
      apply negb_false_iff, N.eqb_eq in Heq. subst b0 s0. auto.
Qed.

Lemma scan_literal lit rest :
  forallb is_lit lit = true -> scan (lit ++ c_star :: rest) false = (lit, c_star :: rest).
Proof.
  induction lit as [|c l IH]; cbn [forallb app]; [reflexivity|]. intros H.
  apply andb_true_iff in H as [Hc Hl]. apply is_lit_inv in Hc as (Hst & _ & Hb & Hs).
  cbn [scan]. rewrite Hs, Hb, Hst, (IH Hl). cbn [andb]. destruct (c =? c_rbr); reflexivity.
Qed.

(** A pattern that starts with literal bytes and continues with a star only
    matches names that start with those bytes. *)
Theorem glob_literal_prefix lit rest name :
  lit <> [] -> forallb is_lit lit = true ->
  glob_match (lit ++ c_star :: rest) name = GOk true -> exists t, name = lit ++ t.
Proof.
  intros Hne Hl. unfold glob_match. cbn [match_loop].
  destruct lit as [|c l]; [congruence|]. cbn [app]. unfold scan_chunk.
  pose proof Hl as Hl0. cbn [forallb] in Hl. apply andb_true_iff in Hl as [Hc _].
  apply is_lit_inv in Hc as (Hst & _). cbn [strip_stars]. rewrite Hst.
  change (c :: l ++ c_star :: rest) with ((c :: l) ++ c_star :: rest).
  rewrite (scan_literal _ _ Hl0). cbn [andb].
  destruct (match_chunk _ (c :: l) name false) as [[t|]| |] eqn:Em; try discriminate.
  apply match_chunk_literal in Em as [_ ->]; auto. intros _. exists t. reflexivity.
Qed.

(** "dir/*": the match is [dir], a separator, and one separator-free element. *)
Theorem glob_dir_star d name :
  forallb is_lit d = true ->
  glob_match (d ++ [sep; c_star]) name = GOk true ->
  exists x, name = d ++ sep :: x /\ mem sep x = false.
Proof.
  intros Hd Hm.
  assert (Hl : forallb is_lit (d ++ [sep]) = true) by (rewrite forallb_app, Hd; reflexivity).
  replace (d ++ [sep; c_star]) with ((d ++ [sep]) ++ c_star :: []) in Hm
    by (rewrite <- app_assoc; reflexivity).
  destruct (glob_literal_prefix (d ++ [sep]) [] name) as [x Hx]; auto.
  { destruct d; discriminate. }
  exists x. rewrite <- app_assoc in Hx. split; [exact Hx|].
  apply glob_match_slashes in Hm.
  - rewrite Hx in Hm. rewrite !count_app in Hm. cbn [count app] in Hm.
    apply mem_count. cbn in Hm. lia.
  - destruct (lit_plain _ Hl) as [H1 H2]. unfold plain_pattern.
    rewrite (mem_app c_lbr (d ++ [sep])), (mem_app c_bslash (d ++ [sep])), H1, H2. reflexivity.
Qed.

End literal_prefix.

(** Go's [filepath.Match] for Unix (path/filepath/match.go), on byte strings.

    Pattern syntax: [*] any run of non-'/' bytes, [?] one non-'/' character,
    [[...]] / [[^...]] character class with ranges, [\c] literal c; a malformed
    pattern is [GBad] (ErrBadPattern) -- but, exactly like Go, only if the
    scan reaches the malformed part.  Characters of the *name* and of class
    bounds are UTF-8 runes as [utf8.DecodeRuneInString] yields them
    ([decode_rune]); literal pattern bytes are compared byte-wise.

    Interface:
      [gres A]                          GOk a | GBad (ErrBadPattern) | GFuel (never, see [glob_match])
      [decode_rune s]                   (rune, width); (65533, 1) for invalid UTF-8, (65533, 0) for ""
      [scan_chunk p]                    (star, chunk, rest)
      [match_chunk fuel chunk s failed] GOk (Some rest) | GOk None (no match)
      [glob_match pat name]             filepath.Match(pat, name)
      [plain_pattern pat]               no '[' and no '\' in the pattern
    Lemmas (section "separators"):
      [match_chunk_slashes]             a chunk without class/escape consumes exactly as many '/'
                                        as it contains
      [glob_match_slashes]              for a [plain_pattern]: a match implies the name has exactly
                                        as many '/' as the pattern: [*] and [?] never match '/'
      [glob_star_no_slash]              "dir/*"-shaped patterns: what [*] stands for has no '/'
    The agreement with filepath.Match is tested differentially by the C17
    harness (stream "glob"). *)
From Coq Require Import List NArith Bool Arith Lia.
From AGH Require Import Base.Run Base.Bytes.
Import ListNotations.
Local Open Scope N_scope.

Inductive gres (A : Type) := GOk (a : A) | GBad | GFuel.
Arguments GOk {A} a.
Arguments GBad {A}.
Arguments GFuel {A}.

Definition sep : N := 47.        (* '/' *)
Definition c_star : N := 42.
Definition c_quest : N := 63.
Definition c_lbr : N := 91.
Definition c_rbr : N := 93.
Definition c_bslash : N := 92.
Definition c_caret : N := 94.
Definition c_minus : N := 45.
Definition rune_error : N := 65533.

Definition is_nil {A} (l : list A) : bool := match l with [] => true | _ => false end.

(** * utf8.DecodeRuneInString *)

Definition is_cont (b : N) : bool := (128 <=? b) && (b <=? 191).

(** size, and the accepted range of the first continuation byte *)
Definition lead_info (b0 : N) : option (nat * N * N) :=
  if (194 <=? b0) && (b0 <=? 223) then Some (2%nat, 128, 191)
  else if b0 =? 224 then Some (3%nat, 160, 191)
  else if (225 <=? b0) && (b0 <=? 236) then Some (3%nat, 128, 191)
  else if b0 =? 237 then Some (3%nat, 128, 159)
  else if (238 <=? b0) && (b0 <=? 239) then Some (3%nat, 128, 191)
  else if b0 =? 240 then Some (4%nat, 144, 191)
  else if (241 <=? b0) && (b0 <=? 243) then Some (4%nat, 128, 191)
  else if b0 =? 244 then Some (4%nat, 128, 143)
  else None.

Definition lead_mask (sz : nat) : N :=
  match sz with 2%nat => 32 | 3%nat => 16 | _ => 8 end.

Definition decode_rune (s : bytes) : N * nat :=
  match s with
  | [] => (rune_error, 0%nat)
  | b0 :: t =>
      if b0 <? 128 then (b0, 1%nat)
      else match lead_info b0 with
           | None => (rune_error, 1%nat)
           | Some (sz, lo, hi) =>
               let conts := firstn (sz - 1) t in
               if Nat.eqb (length conts) (sz - 1) && forallb is_cont conts &&
                  (lo <=? hd 0 conts) && (hd 0 conts <=? hi)
               then (fold_left (fun acc b => acc * 64 + b mod 64) conts (b0 mod lead_mask sz), sz)
               else (rune_error, 1%nat)
           end
  end.

(** * Character classes *)

(** getEsc: one class bound; [None] = ErrBadPattern. *)
Definition get_esc (chunk : bytes) : option (N * bytes) :=
  match chunk with
  | [] => None
  | c :: t =>
      if (c =? c_minus) || (c =? c_rbr) then None
      else
        let chunk1 := if c =? c_bslash then t else chunk in
        match chunk1 with
        | [] => None
        | _ :: _ =>
            let (r, n) := decode_rune chunk1 in
            if (r =? rune_error) && Nat.eqb n 1 then None
            else match skipn n chunk1 with
                 | [] => None
                 | nchunk => Some (r, nchunk)
                 end
        end
  end.

(** The loop over the ranges of a class, after '[' and an optional '^'.
    Returns whether [r] is in some range and the chunk after the closing ']'. *)
Fixpoint class_loop (fuel : nat) (chunk : bytes) (r : N) (matched seen : bool)
  : gres (bool * bytes) :=
  match fuel with
  | O => GFuel
  | S f =>
      match chunk with
      | c :: rest =>
          if (c =? c_rbr) && seen then GOk (matched, rest)
          else
            match get_esc chunk with
            | None => GBad
            | Some (lo, chunk1) =>
                match chunk1 with
                | d :: t1 =>
                    if d =? c_minus then
                      match get_esc t1 with
                      | None => GBad
                      | Some (hi, chunk2) =>
                          class_loop f chunk2 r (matched || ((lo <=? r) && (r <=? hi))) true
                      end
                    else class_loop f chunk1 r (matched || (lo =? r)) true
                | [] => GBad  (* unreachable: get_esc never returns an empty rest *)
                end
            end
      | [] => GBad  (* get_esc "" *)
      end
  end.

(** * matchChunk *)

Fixpoint match_chunk (fuel : nat) (chunk s : bytes) (failed : bool) : gres (option bytes) :=
  match fuel with
  | O => GFuel
  | S f =>
      match chunk with
      | [] => GOk (if failed then None else Some s)
      | c :: ctl =>
          let failed := failed || is_nil s in
          if c =? c_lbr then
            let r := if failed then 0 else fst (decode_rune s) in
            let s' := if failed then s else skipn (snd (decode_rune s)) s in
            let negated := match ctl with d :: _ => d =? c_caret | [] => false end in
            let body := if negated then tl ctl else ctl in
            match class_loop (S (length body)) body r false false with
            | GOk (m, rest) => match_chunk f rest s' (failed || Bool.eqb m negated)
            | GBad => GBad
            | GFuel => GFuel
            end
          else if c =? c_quest then
            if failed then match_chunk f ctl s true
            else match_chunk f ctl (skipn (snd (decode_rune s)) s) (hd 0 s =? sep)
          else
            let lit := if c =? c_bslash then ctl else chunk in
            match lit with
            | [] => GBad
            | l0 :: ltl =>
                if failed then match_chunk f ltl s true
                else match_chunk f ltl (tl s) (negb (l0 =? hd 0 s))
            end
      end
  end.

(** * scanChunk *)

Fixpoint strip_stars (p : bytes) : bool * bytes :=
  match p with
  | c :: t => if c =? c_star then (true, snd (strip_stars t)) else (false, p)
  | [] => (false, [])
  end.

Fixpoint scan (p : bytes) (inrange : bool) : bytes * bytes :=
  match p with
  | [] => ([], [])
  | c :: t =>
      if c =? c_bslash then
        match t with
        | [] => ([c], [])
        | d :: t' => let (a, b) := scan t' inrange in (c :: d :: a, b)
        end
      else if c =? c_lbr then let (a, b) := scan t true in (c :: a, b)
      else if c =? c_rbr then let (a, b) := scan t false in (c :: a, b)
      else if (c =? c_star) && negb inrange then ([], p)
      else let (a, b) := scan t inrange in (c :: a, b)
  end.

Definition scan_chunk (p : bytes) : bool * bytes * bytes :=
  let (star, p1) := strip_stars p in
  let (chunk, rest) := scan p1 false in
  (star, chunk, rest).

(** * Match *)

(** The retry loop after a '*': try the chunk at name[i+1:] for i = 0, 1, ...
    while name[i] is not a separator.  [last]: the pattern is exhausted, so
    the chunk must consume the whole rest of the name. *)
Fixpoint star_loop (chunk name : bytes) (last : bool) : gres (option bytes) :=
  match name with
  | [] => GOk None
  | c :: t =>
      if c =? sep then GOk None
      else match match_chunk (S (length chunk)) chunk t false with
           | GOk (Some rest) =>
               if last && negb (is_nil rest) then star_loop chunk t last else GOk (Some rest)
           | GOk None => star_loop chunk t last
           | GBad => GBad
           | GFuel => GFuel
           end
  end.

Fixpoint match_loop (fuel : nat) (pattern name : bytes) : gres bool :=
  match fuel with
  | O => GFuel
  | S f =>
      match pattern with
      | [] => GOk (is_nil name)
      | _ :: _ =>
          let '(star, chunk, rest) := scan_chunk pattern in
          if star && is_nil chunk then GOk (negb (mem sep name))
          else
            let retry :=
              if star then
                match star_loop chunk name (is_nil rest) with
                | GOk (Some t) => match_loop f rest t
                | GOk None => GOk false
                | GBad => GBad
                | GFuel => GFuel
                end
              else GOk false in
            match match_chunk (S (length chunk)) chunk name false with
            | GOk (Some t) => if is_nil t || negb (is_nil rest) then match_loop f rest t else retry
            | GOk None => retry
            | GBad => GBad
            | GFuel => GFuel
            end
      end
  end.

Definition glob_match (pat name : bytes) : gres bool := match_loop (S (length pat)) pat name.

(** A pattern without classes and escapes. *)
Definition plain_pattern (pat : bytes) : bool := negb (mem c_lbr pat) && negb (mem c_bslash pat).

(** * Examples (by computation) *)

Definition b_safe_star : bytes := [47;115;47;42].                     (* /s/*    *)
Example glob_ex1 : glob_match b_safe_star [47;115;47;97] = GOk true.                     (* /s/a *)
Proof. reflexivity. Qed.
Example glob_ex2 : glob_match b_safe_star [47;115;47;97;47;98] = GOk false.              (* /s/a/b *)
Proof. reflexivity. Qed.
Example glob_ex3 : glob_match [47;115;47;63] [47;115;47;47] = GOk false.                 (* /s/? vs /s// *)
Proof. reflexivity. Qed.
Example glob_ex4 : glob_match [91;97;45;99;93;42] [98;120] = GOk true.                   (* [a-c]* vs bx *)
Proof. reflexivity. Qed.
Example glob_ex5 : glob_match [91;94;97;93] [97] = GOk false.                            (* [^a] vs a *)
Proof. reflexivity. Qed.
Example glob_ex6 : glob_match [97;91] [97] = GBad.                                       (* a[ vs a *)
Proof. reflexivity. Qed.
Example glob_ex7 : glob_match [47;115;47;42;91] [116;101;115;116] = GOk false.           (* /s/*[ vs test: not detected *)
Proof. reflexivity. Qed.
Example glob_ex8 : glob_match [47;115;47;42;91] [47;115;47;120] = GBad.                  (* /s/*[ vs /s/x *)
Proof. reflexivity. Qed.
Example glob_ex9 : glob_match [92;42] [42] = GOk true.                                   (* \* vs * *)
Proof. reflexivity. Qed.
Example glob_ex10 : glob_match [63] [195;188] = GOk true.                                (* ? vs one 2-byte rune *)
Proof. reflexivity. Qed.

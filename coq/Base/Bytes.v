(** Byte strings as [list N] (the representation the harnesses print).

    Interface (all total, computable):
      [is_upper] [lower_byte] [lower]            ASCII lower-casing (strings.ToLower on ASCII input)
      [equal_fold]                               ASCII case-insensitive equality
      [has_prefix p s] [has_suffix x s]          strings.HasPrefix / HasSuffix
      [count b s] [mem b s]                      strings.Count / IndexByte >= 0 for one byte
      [split sep s] [join sep l]                 strings.Split / Join on ONE separator byte
      [index_byte b s] [last_index_byte b s]     option nat positions
      [contains_sub sub s]                       strings.Contains
    Lemmas: [eqb_bytes_eq], [lower_idem], [lower_length], [has_prefix_spec],
    [has_suffix_spec], [has_suffix_trans], [join_split], [split_join],
    [split_no_sep], [split_not_nil], [count_app], [mem_count] ...

    Go's strings.ToLower / EqualFold are Unicode aware; the definitions here
    agree with them on byte strings without bytes >= 128, which is what the
    models guarantee (by validation) before they use them. *)
From Coq Require Import List NArith Bool Lia.
From AGH Require Import Base.Run.
Import ListNotations.
Local Open Scope N_scope.

(** * Equality *)

Lemma eqb_list_eq {A} (eqb : A -> A -> bool) :
  (forall a b, eqb a b = true <-> a = b) ->
  forall l1 l2, eqb_list eqb l1 l2 = true <-> l1 = l2.
Proof.
  intros H. induction l1 as [|a l1 IH]; destruct l2 as [|b l2]; cbn; try (split; congruence).
  rewrite andb_true_iff, H, IH. split; [intros [-> ->]; reflexivity|intros [= -> ->]; auto].
Qed.

Lemma eqb_bytes_eq a b : eqb_bytes a b = true <-> a = b.
Proof. apply eqb_list_eq. intros; apply N.eqb_eq. Qed.

Lemma eqb_bytes_refl a : eqb_bytes a a = true.
Proof. apply eqb_bytes_eq; reflexivity. Qed.

Lemma eqb_bytes_neq a b : eqb_bytes a b = false <-> a <> b.
Proof.
  destruct (eqb_bytes a b) eqn:E.
  - apply eqb_bytes_eq in E. split; congruence.
  - split; auto. intros _ ->. rewrite eqb_bytes_refl in E. discriminate.
Qed.

(** * ASCII case *)

Definition is_upper (b : N) : bool := (65 <=? b) && (b <=? 90).
Definition is_lower (b : N) : bool := (97 <=? b) && (b <=? 122).
Definition is_digit (b : N) : bool := (48 <=? b) && (b <=? 57).
Definition lower_byte (b : N) : N := if is_upper b then b + 32 else b.
Definition lower (s : bytes) : bytes := map lower_byte s.
Definition equal_fold (a b : bytes) : bool := eqb_bytes (lower a) (lower b).

Lemma lower_byte_idem b : lower_byte (lower_byte b) = lower_byte b.
Proof.
  unfold lower_byte, is_upper. destruct ((65 <=? b) && (b <=? 90)) eqn:E; [|rewrite E; reflexivity].
  apply andb_true_iff in E as [E1 E2]. apply N.leb_le in E1, E2.
  assert ((b + 32 <=? 90) = false) as -> by (apply N.leb_gt; lia).
  rewrite andb_false_r. reflexivity.
Qed.

Lemma lower_idem s : lower (lower s) = lower s.
Proof. unfold lower. rewrite map_map. apply map_ext. intros; apply lower_byte_idem. Qed.

Lemma lower_length s : length (lower s) = length s.
Proof. apply map_length. Qed.

Lemma lower_app a b : lower (a ++ b) = lower a ++ lower b.
Proof. apply map_app. Qed.

Lemma lower_byte_not_upper b : is_upper (lower_byte b) = false.
Proof.
  unfold lower_byte. destruct (is_upper b) eqn:E; [|exact E].
  unfold is_upper in *. apply andb_true_iff in E as [E1 E2]. apply N.leb_le in E1, E2.
  assert ((b + 32 <=? 90) = false) as -> by (apply N.leb_gt; lia). apply andb_false_r.
Qed.

Lemma lower_no_upper s : forallb (fun b => negb (is_upper b)) (lower s) = true.
Proof.
  induction s as [|b s IH]; cbn; [reflexivity|]. rewrite lower_byte_not_upper. exact IH.
Qed.

Lemma lower_fixed_iff s : lower s = s <-> forallb (fun b => negb (is_upper b)) s = true.
Proof.
  split; [intros <-; apply lower_no_upper|].
  induction s as [|b s IH]; cbn; [reflexivity|]. intros H. apply andb_true_iff in H as [H1 H2].
  unfold lower_byte. apply negb_true_iff in H1. rewrite H1. f_equal. apply IH, H2.
Qed.

Lemma equal_fold_refl a : equal_fold a a = true.
Proof. apply eqb_bytes_refl. Qed.

Lemma equal_fold_lower a : equal_fold (lower a) a = true.
Proof. unfold equal_fold. rewrite lower_idem. apply eqb_bytes_refl. Qed.

(** * Prefix / suffix *)

Fixpoint has_prefix (p s : bytes) : bool :=
  match p, s with
  | [], _ => true
  | a :: p, b :: s => (a =? b) && has_prefix p s
  | _ :: _, [] => false
  end.

Definition has_suffix (x s : bytes) : bool := has_prefix (rev x) (rev s).

Lemma has_prefix_spec p s : has_prefix p s = true <-> exists t, s = p ++ t.
Proof.
  revert s. induction p as [|a p IH]; intros s; cbn.
  - split; eauto.
  - destruct s as [|b s]; [split; [discriminate|intros [t [=]]]|].
    rewrite andb_true_iff, N.eqb_eq, IH. split.
    + intros [-> [t ->]]. eauto.
    + intros [t [= -> ->]]. eauto.
Qed.

Lemma has_suffix_spec x s : has_suffix x s = true <-> exists t, s = t ++ x.
Proof.
  unfold has_suffix. rewrite has_prefix_spec. split; intros [t H].
  - exists (rev t). rewrite <- (rev_involutive s), H, rev_app_distr, rev_involutive. reflexivity.
  - exists (rev t). rewrite H, rev_app_distr. reflexivity.
Qed.

Lemma has_prefix_refl s : has_prefix s s = true.
Proof. apply has_prefix_spec. exists []. symmetry; apply app_nil_r. Qed.

Lemma has_suffix_refl s : has_suffix s s = true.
Proof. apply has_suffix_spec. exists []. reflexivity. Qed.

Lemma has_prefix_trans a b c : has_prefix a b = true -> has_prefix b c = true -> has_prefix a c = true.
Proof.
  rewrite !has_prefix_spec. intros [t ->] [u ->]. exists (t ++ u). symmetry; apply app_assoc.
Qed.

Lemma has_suffix_trans a b c : has_suffix a b = true -> has_suffix b c = true -> has_suffix a c = true.
Proof.
  rewrite !has_suffix_spec. intros [t ->] [u ->]. exists (u ++ t). apply app_assoc.
Qed.

Lemma has_prefix_length p s : has_prefix p s = true -> (length p <= length s)%nat.
Proof. rewrite has_prefix_spec. intros [t ->]. rewrite app_length. lia. Qed.

Lemma has_suffix_length x s : has_suffix x s = true -> (length x <= length s)%nat.
Proof. rewrite has_suffix_spec. intros [t ->]. rewrite app_length. lia. Qed.

(** * Counting and membership of one byte *)

Fixpoint count (b : N) (s : bytes) : nat :=
  match s with
  | [] => 0
  | c :: s => if c =? b then S (count b s) else count b s
  end.

Definition mem (b : N) (s : bytes) : bool := existsb (N.eqb b) s.

Lemma count_app b s t : count b (s ++ t) = (count b s + count b t)%nat.
Proof. induction s as [|c s IH]; cbn; [reflexivity|]. rewrite IH. destruct (c =? b); reflexivity. Qed.

Lemma mem_In b s : mem b s = true <-> In b s.
Proof.
  unfold mem. rewrite existsb_exists. split.
  - intros [x [H E]]. apply N.eqb_eq in E. subst; auto.
  - intros H. exists b. split; auto. apply N.eqb_refl.
Qed.

Lemma mem_false_In b s : mem b s = false <-> ~ In b s.
Proof. rewrite <- mem_In. destruct (mem b s); split; congruence. Qed.

Lemma mem_count b s : mem b s = false <-> count b s = 0%nat.
Proof.
  induction s as [|c s IH]; cbn; [tauto|].
  rewrite N.eqb_sym. destruct (c =? b); cbn; [split; [discriminate|lia]|exact IH].
Qed.

Lemma mem_app b s t : mem b (s ++ t) = mem b s || mem b t.
Proof. apply existsb_app. Qed.

Lemma mem_lower_nonalpha b s :
  is_upper b = false -> is_lower b = false -> mem b (lower s) = mem b s.
Proof.
  intros Hu Hl. unfold mem, lower. induction s as [|c s IH]; cbn; [reflexivity|]. rewrite IH. f_equal.
  unfold lower_byte. destruct (is_upper c) eqn:E; [|reflexivity].
  unfold is_upper, is_lower in *.
  apply andb_true_iff in E as [E1 E2]. apply N.leb_le in E1, E2.
  destruct (b =? c + 32) eqn:F, (b =? c) eqn:G; try reflexivity;
    try apply N.eqb_eq in F; try apply N.eqb_eq in G; subst.
  - assert ((97 <=? c + 32) = true) as H1 by (apply N.leb_le; lia).
    assert ((c + 32 <=? 122) = true) as H2 by (apply N.leb_le; lia).
    rewrite H1, H2 in Hl. discriminate.
  - assert ((65 <=? c) = true) as H1 by (apply N.leb_le; lia).
    assert ((c <=? 90) = true) as H2 by (apply N.leb_le; lia).
    rewrite H1, H2 in Hu. discriminate.
Qed.

(** * Positions *)

Fixpoint index_byte (b : N) (s : bytes) : option nat :=
  match s with
  | [] => None
  | c :: s => if c =? b then Some O else option_map S (index_byte b s)
  end.

Definition last_index_byte (b : N) (s : bytes) : option nat :=
  match index_byte b (rev s) with
  | None => None
  | Some i => Some (length s - 1 - i)%nat
  end.

Lemma index_byte_None b s : index_byte b s = None <-> mem b s = false.
Proof.
  induction s as [|c s IH]; cbn; [tauto|]. rewrite N.eqb_sym.
  destruct (b =? c); cbn; [split; discriminate|].
  rewrite <- IH. destruct (index_byte b s); cbn; split; congruence.
Qed.

Lemma index_byte_Some b s i :
  index_byte b s = Some i ->
  s = firstn i s ++ b :: skipn (S i) s /\ mem b (firstn i s) = false.
Proof.
  revert i. induction s as [|c s IH]; cbn; [discriminate|]. intros i.
  destruct (c =? b) eqn:E.
  - intros [= <-]. apply N.eqb_eq in E. subst. auto.
  - destruct (index_byte b s) as [j|]; cbn; [|discriminate]. intros [= <-].
    destruct (IH j eq_refl) as [H1 H2]. split; [cbn; f_equal; exact H1|].
    unfold mem in *. cbn. rewrite N.eqb_sym, E. exact H2.
Qed.

Lemma index_byte_app_first b s t :
  mem b s = false -> index_byte b (s ++ b :: t) = Some (length s).
Proof.
  induction s as [|c s IH]; cbn [app index_byte length]; intros H.
  - rewrite N.eqb_refl. reflexivity.
  - unfold mem in H. cbn [existsb] in H. apply orb_false_iff in H as [H1 H2].
    rewrite N.eqb_sym, H1. rewrite IH by exact H2. reflexivity.
Qed.

Lemma last_index_byte_app_last b s t :
  mem b t = false -> last_index_byte b (s ++ b :: t) = Some (length s).
Proof.
  intros H. unfold last_index_byte. rewrite rev_app_distr. cbn [rev]. rewrite <- app_assoc.
  cbn [app]. rewrite index_byte_app_first.
  - rewrite rev_length, app_length. cbn [length]. f_equal. lia.
  - apply mem_false_In. intros Hin. apply in_rev in Hin. apply mem_In in Hin. congruence.
Qed.

(** * Split on one byte, join *)

(** [split sep s] is strings.Split(s, string(sep)): always at least one
    element; n separators give n+1 elements. *)
Fixpoint split (sep : N) (s : bytes) : list bytes :=
  match s with
  | [] => [[]]
  | c :: s =>
      if c =? sep then [] :: split sep s
      else match split sep s with
           | [] => [[c]]               (* unreachable *)
           | x :: r => (c :: x) :: r
           end
  end.

Fixpoint join (sep : N) (l : list bytes) : bytes :=
  match l with
  | [] => []
  | [x] => x
  | x :: r => x ++ sep :: join sep r
  end.

Lemma split_not_nil sep s : split sep s <> [].
Proof.
  destruct s as [|c s]; cbn; [discriminate|].
  destruct (c =? sep); [discriminate|]. destruct (split sep s); discriminate.
Qed.

Lemma join_cons sep x r : r <> [] -> join sep (x :: r) = x ++ sep :: join sep r.
Proof. destruct r; [congruence|reflexivity]. Qed.

Lemma join_split sep s : join sep (split sep s) = s.
Proof.
  induction s as [|c s IH]; cbn; [reflexivity|].
  destruct (c =? sep) eqn:E.
  - apply N.eqb_eq in E. subst. rewrite join_cons by apply split_not_nil. cbn. f_equal. exact IH.
  - pose proof (split_not_nil sep s) as Hn. destruct (split sep s) as [|x r]; [congruence|].
    destruct r as [|y r]; cbn in *; subst; reflexivity.
Qed.

Lemma split_no_sep sep s : Forall (fun x => mem sep x = false) (split sep s).
Proof.
  induction s as [|c s IH]; cbn; [repeat constructor|].
  destruct (c =? sep) eqn:E; [constructor; auto|].
  destruct (split sep s) as [|x r]; [repeat constructor; cbn; rewrite N.eqb_sym, E; reflexivity|].
  inversion IH; subst. constructor; auto. cbn. rewrite N.eqb_sym, E. assumption.
Qed.

Lemma split_nosep sep s : mem sep s = false -> split sep s = [s].
Proof.
  induction s as [|c s IH]; cbn; [reflexivity|]. rewrite N.eqb_sym.
  destruct (c =? sep); cbn; [discriminate|]. intros H. rewrite IH by assumption. reflexivity.
Qed.

Lemma split_app_sep sep x s : mem sep x = false -> split sep (x ++ sep :: s) = x :: split sep s.
Proof.
  induction x as [|c x IH]; cbn.
  - rewrite N.eqb_refl. reflexivity.
  - rewrite N.eqb_sym. destruct (c =? sep); cbn; [discriminate|]. intros H.
    rewrite IH by assumption. reflexivity.
Qed.

(** Inverse in the other direction: joining separator-free pieces and
    splitting again gives the pieces back (for a non-empty list). *)
Lemma split_join sep l :
  l <> [] -> Forall (fun x => mem sep x = false) l -> split sep (join sep l) = l.
Proof.
  induction l as [|x r IH]; [congruence|]. intros _ H. inversion H; subst.
  destruct r as [|y r]; [cbn; apply split_nosep; assumption|].
  rewrite join_cons by discriminate. rewrite split_app_sep by assumption.
  f_equal. apply IH; [discriminate|assumption].
Qed.

Lemma split_length sep s : length (split sep s) = S (count sep s).
Proof.
  induction s as [|c s IH]; cbn; [reflexivity|].
  destruct (c =? sep); cbn; [rewrite IH; reflexivity|].
  pose proof (split_not_nil sep s). destruct (split sep s); [congruence|]. cbn in *. lia.
Qed.

(** * Substring search (strings.Contains) *)

Fixpoint contains_sub (sub s : bytes) : bool :=
  has_prefix sub s ||
  match s with
  | [] => false
  | _ :: s' => contains_sub sub s'
  end.

Lemma contains_sub_spec sub s : contains_sub sub s = true <-> exists a b, s = a ++ sub ++ b.
Proof.
  induction s as [|c s IH]; cbn; rewrite orb_true_iff.
  - rewrite has_prefix_spec. split.
    + intros [[t H]|]; [|discriminate]. exists [], t. exact H.
    + intros [a [b H]]. left. destruct a; [eauto|discriminate].
  - rewrite IH, has_prefix_spec. split.
    + intros [[t H]|[a [b ->]]]; [exists [], t; exact H|exists (c :: a), b; reflexivity].
    + intros [[|a0 a] [b H]]; [left; eauto|right]. cbn in H. injection H as -> ->. eauto.
Qed.

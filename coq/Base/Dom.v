(** Host names as the code checks them (golibs/netutil v0.32.8, addr.go).

    Interface:
      [valid_outer] [valid_inner]            netutil.IsValidHostOuterRune / InnerRune on a byte
      [label_err]                            LEmpty | LTooLong | LBadRune
      [validate_hostname_label l]            netutil.ValidateHostnameLabel: [None] = valid
      [valid_label l : Prop]                 declarative reading: 1..63 bytes, [A-Za-z0-9] at both
                                             ends, [A-Za-z0-9-] inside
      [is_subdomain d top]                   netutil.IsSubdomain (byte-wise, case-sensitive)
      [is_immediate_subdomain d top]         netutil.IsImmediateSubdomain
      [labels d]                             split on '.'
    Lemmas: [validate_hostname_label_spec], [valid_label_lower],
    [valid_label_no_byte] (no '.', '/', ... in a valid label), [is_subdomain_spec],
    [is_immediate_subdomain_spec].

    ValidateHostnameLabel ranges over the *runes* of the inner part; a byte
    >= 128 decodes to a rune >= 128 or to U+FFFD, both rejected, and ASCII
    bytes always decode to themselves, so the byte-wise check is equivalent. *)
From Coq Require Import List NArith Bool Lia Arith.
From AGH Require Import Base.Run Base.Bytes.
Import ListNotations.
Local Open Scope N_scope.

Definition dot : N := 46.
Definition hyphen : N := 45.

Definition valid_outer (b : N) : bool := is_lower b || is_upper b || is_digit b.
Definition valid_inner (b : N) : bool := (b =? hyphen) || valid_outer b.

Inductive label_err := LEmpty | LTooLong | LBadRune.

Definition max_label_len : nat := 63.

Definition validate_hostname_label (l : bytes) : option label_err :=
  match l with
  | [] => Some LEmpty
  | c :: r =>
      if Nat.ltb max_label_len (length l) then Some LTooLong
      else if negb (valid_outer c) then Some LBadRune
      else match r with
           | [] => None
           | _ :: _ =>
               if forallb valid_inner (removelast r) && valid_outer (last r 0)
               then None else Some LBadRune
           end
  end.

Definition labels (d : bytes) : list bytes := split dot d.

Definition is_subdomain (d top : bytes) : bool :=
  Nat.ltb (length top + 1) (length d) &&
  has_suffix top d &&
  (nth (length d - length top - 1) d 0 =? dot).

Definition is_immediate_subdomain (d top : bytes) : bool :=
  is_subdomain d top && Nat.eqb (count dot d) (count dot top + 1).

(** * Declarative readings *)

Definition valid_label (l : bytes) : Prop :=
  l <> [] /\ (length l <= max_label_len)%nat /\
  valid_outer (hd 0 l) = true /\ valid_outer (last l 0) = true /\
  forallb valid_inner l = true.

Lemma valid_outer_inner b : valid_outer b = true -> valid_inner b = true.
Proof. unfold valid_inner. intros ->. apply orb_true_r. Qed.

Lemma forallb_removelast_last {A} (f : A -> bool) (d : A) l :
  l <> [] -> forallb f l = forallb f (removelast l) && f (last l d).
Proof.
  intros H. rewrite (app_removelast_last d H) at 1.
  rewrite forallb_app. cbn. rewrite andb_true_r. reflexivity.
Qed.

Lemma validate_hostname_label_spec l : validate_hostname_label l = None <-> valid_label l.
Proof.
  unfold validate_hostname_label, valid_label. destruct l as [|c r].
  - split; [discriminate|intros [H _]; congruence].
  - destruct (Nat.ltb max_label_len (length (c :: r))) eqn:EL.
    { apply Nat.ltb_lt in EL. split; [discriminate|]. intros (_ & H & _). lia. }
    apply Nat.ltb_ge in EL. cbn [hd].
    destruct (valid_outer c) eqn:Ec; cbn [negb].
    2:{ split; [discriminate|]. intros (_ & _ & H & _). discriminate. }
    destruct r as [|c' r'].
    + cbn. rewrite (valid_outer_inner _ Ec). repeat split; auto; discriminate.
    + set (r := c' :: r') in *.
      assert (Hl : last (c :: r) 0 = last r 0) by reflexivity. rewrite Hl.
      cbn [forallb]. rewrite (valid_outer_inner _ Ec). cbn [andb].
      rewrite (forallb_removelast_last valid_inner 0 r) by discriminate.
      destruct (forallb valid_inner (removelast r)) eqn:E1; cbn [andb].
      * destruct (valid_outer (last r 0)) eqn:E2.
        -- rewrite (valid_outer_inner _ E2). repeat split; auto; discriminate.
        -- split; [discriminate|]. intros (_ & _ & _ & H & _). discriminate.
      * split; [discriminate|]. intros (_ & _ & _ & _ & H). discriminate.
Qed.

Lemma valid_label_dec l : {valid_label l} + {~ valid_label l}.
Proof.
  destruct (validate_hostname_label l) eqn:E.
  - right. rewrite <- validate_hostname_label_spec. congruence.
  - left. apply validate_hostname_label_spec, E.
Qed.

Lemma is_lower_lower_byte b : is_lower b = true -> lower_byte b = b.
Proof.
  unfold lower_byte, is_lower, is_upper. intros H. apply andb_true_iff in H as [H1 H2].
  apply N.leb_le in H1. assert ((b <=? 90) = false) as -> by (apply N.leb_gt; lia).
  rewrite andb_false_r. reflexivity.
Qed.

Lemma valid_outer_lower_byte b : valid_outer b = true -> valid_outer (lower_byte b) = true.
Proof.
  unfold valid_outer, lower_byte. destruct (is_upper b) eqn:E; [|rewrite E; auto]. intros _.
  unfold is_upper in E. apply andb_true_iff in E as [E1 E2]. apply N.leb_le in E1, E2.
  unfold is_lower.
  assert ((97 <=? b + 32) = true) as -> by (apply N.leb_le; lia).
  assert ((b + 32 <=? 122) = true) as -> by (apply N.leb_le; lia). reflexivity.
Qed.

Lemma valid_inner_lower_byte b : valid_inner b = true -> valid_inner (lower_byte b) = true.
Proof.
  unfold valid_inner. intros H. apply orb_true_iff in H as [H|H].
  - apply N.eqb_eq in H. subst. reflexivity.
  - rewrite (valid_outer_lower_byte _ H). apply orb_true_r.
Qed.

Lemma last_map {A B} (f : A -> B) l d : last (map f l) (f d) = f (last l d).
Proof. induction l as [|a [|b l] IH]; cbn in *; auto. Qed.

(** Lower-casing keeps a label valid (so validating before lower-casing, as
    the code does, is as good as validating after). *)
Lemma valid_label_lower l : valid_label l -> valid_label (lower l).
Proof.
  intros (H1 & H2 & H3 & H4 & H5). unfold valid_label. rewrite lower_length.
  repeat split; auto.
  - destruct l; [congruence|discriminate].
  - destruct l as [|c r]; [congruence|]. cbn in *. apply valid_outer_lower_byte, H3.
  - unfold lower. change 0 with (lower_byte 0) at 1. rewrite last_map.
    apply valid_outer_lower_byte, H4.
  - unfold lower. rewrite forallb_forall in *. intros x Hx. apply in_map_iff in Hx as [y [<- Hy]].
    apply valid_inner_lower_byte, H5, Hy.
Qed.

(** A valid label contains no byte outside [A-Za-z0-9-]; in particular no
    '.', '/', '%', NUL or byte >= 128. *)
Lemma valid_label_no_byte l b : valid_label l -> valid_inner b = false -> mem b l = false.
Proof.
  intros (_ & _ & _ & _ & H) Hb. apply mem_false_In. intros Hin.
  rewrite forallb_forall in H. rewrite (H _ Hin) in Hb. discriminate.
Qed.

Lemma valid_label_no_dot l : valid_label l -> mem dot l = false.
Proof. intros H. apply (valid_label_no_byte l dot H). reflexivity. Qed.

Lemma valid_label_ascii l b : valid_label l -> In b l -> b < 128.
Proof.
  intros (_ & _ & _ & _ & H) Hin. rewrite forallb_forall in H. specialize (H _ Hin).
  unfold valid_inner, valid_outer, is_lower, is_upper, is_digit, hyphen in H.
  repeat (apply orb_true_iff in H as [H|H]);
    try (apply andb_true_iff in H as [_ H]; apply N.leb_le in H; lia).
  apply N.eqb_eq in H. lia.
Qed.

(** * Subdomains *)

Lemma nth_app_mid {A} (x : list A) (c d : A) t : nth (length x) (x ++ c :: t) d = c.
Proof. rewrite app_nth2 by lia. rewrite Nat.sub_diag. reflexivity. Qed.

Lemma is_subdomain_spec d top :
  is_subdomain d top = true <-> exists x, x <> [] /\ d = x ++ dot :: top.
Proof.
  unfold is_subdomain. rewrite !andb_true_iff, Nat.ltb_lt, has_suffix_spec, N.eqb_eq. split.
  - intros [[Hlen [t ->]] Hnth]. rewrite app_length in *.
    destruct (exists_last (l := t)) as [x [c ->]]; [intros ->; cbn in Hlen; lia|].
    rewrite app_length in *. cbn [length] in *.
    replace (length x + 1 + length top - length top - 1)%nat with (length x) in Hnth by lia.
    rewrite <- !app_assoc in Hnth. cbn in Hnth. rewrite nth_app_mid in Hnth. subst c.
    exists x. split; [intros ->; cbn in Hlen; lia|]. rewrite <- app_assoc. reflexivity.
  - intros [x [Hx ->]]. rewrite app_length. cbn [length]. repeat split.
    + destruct x; [congruence|cbn; lia].
    + exists (x ++ [dot]). rewrite <- app_assoc. reflexivity.
    + replace (length x + S (length top) - length top - 1)%nat with (length x) by lia.
      apply nth_app_mid.
Qed.

Lemma is_immediate_subdomain_spec d top :
  is_immediate_subdomain d top = true <->
  exists x, x <> [] /\ mem dot x = false /\ d = x ++ dot :: top.
Proof.
  unfold is_immediate_subdomain. rewrite andb_true_iff, is_subdomain_spec, Nat.eqb_eq. split.
  - intros [[x [Hx ->]] Hc]. exists x. repeat split; auto.
    rewrite count_app in Hc. cbn in Hc. apply mem_count. lia.
  - intros [x (Hx & Hm & ->)]. split; [eauto|]. rewrite count_app. cbn.
    apply mem_count in Hm. lia.
Qed.

(** The decomposition is unique: the candidate label is determined. *)
Lemma subdomain_label_unique x y top : x ++ dot :: top = y ++ dot :: top -> x = y.
Proof.
  intros H. change (dot :: top) with ([dot] ++ top) in H. rewrite !app_assoc in H.
  apply app_inv_tail in H. apply app_inj_tail in H. tauto.
Qed.

(** Generic glue for the correspondence evaluator.

    The Go harness runs the real code, prints every case (input and the
    projected observables) as a Gallina term; a shard file applies the
    per-property [case_ok] (which runs the *model* on the input and compares
    with what the implementation was observed to do) and prints the ids that
    disagree.  The driver expects [M = []]. *)
From Coq Require Export List ZArith NArith Bool.
Export ListNotations.

Definition mismatches {C : Type} (ok : C -> bool) (l : list (N * C)) : list N :=
  map fst (filter (fun p => negb (ok (snd p))) l).

Lemma mismatches_nil_all_ok {C} (ok : C -> bool) l :
  mismatches ok l = [] -> forall p, In p l -> ok (snd p) = true.
Proof.
  unfold mismatches. induction l as [|a l IH]; cbn; intros H p Hp; [tauto|].
  destruct (ok (snd a)) eqn:E; cbn in H.
  - destruct Hp as [<-|Hp]; auto.
  - discriminate.
Qed.

(** Decidable equality helpers used by the evaluators. *)
Definition eqb_list {A} (eqb : A -> A -> bool) : list A -> list A -> bool :=
  fix go l1 l2 := match l1, l2 with
  | [], [] => true
  | a :: l1, b :: l2 => eqb a b && go l1 l2
  | _, _ => false
  end.

Definition eqb_option {A} (eqb : A -> A -> bool) (a b : option A) : bool :=
  match a, b with
  | None, None => true
  | Some x, Some y => eqb x y
  | _, _ => false
  end.

Definition bytes := list N.
Definition eqb_bytes : bytes -> bytes -> bool := eqb_list N.eqb.

(** The DNS rule sub-grammar of urlfilter v0.20 used by AdGuard Home's DNS
    filtering, and its matching / priority semantics (executable model).

    Rules arrive here already split into their parts (exception marker,
    pattern text, modifiers); the harness renders the same structure to the
    rule text given to the real engine.  What is modelled:

      - the pattern language: [||] (start of URL incl. any subdomain), [|]
        (start / end of string), [^] (separator or end), [*], literals,
        matched case-insensitively against the host name, or against
        "http://"+host for [||] patterns (rules/regex.go patternToRegexp,
        network.go shouldMatchHostname, matchShortcut);
      - modifiers [$important], [$badfilter], [$dnstype=] (permitted /
        restricted), [$client=] (names, addresses, CIDRs, negated),
        [$denyallow=];
      - [IsHigherPriority] exactly as written (including that the right-hand
        rule's $client / $denyallow are not counted), [removeBadfilterRules]
        exactly as written (one pass per $badfilter rule, appended),
        [GetDNSBasicRule] as the fold keeping the first maximal rule;
      - hosts-style rules ("IP name…", plain "name" = 0.0.0.0), matched
        case-sensitively on the full name, one hit per listed occurrence;
      - [DNSEngine.MatchRequest]: network rules first, then host rules.

      - [$ctag=] (permitted / restricted client tags, both sides sorted as
        urlfilter and the client storage keep them);
      - [$dnsrewrite] with the payloads AdGuard Home serves for DNS: the
        empty value / NOERROR keyword, the RCODE keywords (NXDOMAIN, REFUSED,
        SERVFAIL), A / AAAA values (short and NOERROR;A;… forms) and new
        CNAMEs; such rules take no part in the choice of the basic rule
        ([removeDNSRewriteRules]) but stay in [DNSResult.NetworkRules], from
        which [DNSResult.DNSRewrites] applies the exception logic exactly as
        written (the in-place loop with its index arithmetic).

    Outside the grammar (never generated, matched by nothing here): regex
    rules [/…/], [$domain], other $dnsrewrite record types (MX, TXT, PTR,
    SRV, HTTPS, SVCB), cosmetic rules. *)
From Coq Require Import List NArith Bool.
From AGH Require Import Base.Run Base.NetAddr.
Import ListNotations.
Local Open Scope N_scope.

(** * Byte-string helpers *)

Definition lower_byte (c : N) : N := if (65 <=? c) && (c <=? 90) then c + 32 else c.
Definition lower (s : bytes) : bytes := map lower_byte s.

Fixpoint has_prefix (p s : bytes) : bool :=
  match p, s with
  | [], _ => true
  | a :: p', b :: s' => (a =? b) && has_prefix p' s'
  | _ :: _, [] => false
  end.

Fixpoint drop_prefix (p s : bytes) : option bytes :=
  match p, s with
  | [], _ => Some s
  | a :: p', b :: s' => if a =? b then drop_prefix p' s' else None
  | _ :: _, [] => None
  end.

Definition has_suffix (p s : bytes) : bool := has_prefix (rev p) (rev s).

Fixpoint contains (sub s : bytes) : bool :=
  has_prefix sub s || match s with [] => false | _ :: s' => contains sub s' end.

Definition mem_bytes (x : bytes) (l : list bytes) : bool := existsb (eqb_bytes x) l.

Fixpoint count_bytes (x : bytes) (l : list bytes) : nat :=
  match l with
  | [] => O
  | y :: l' => (if eqb_bytes x y then S (count_bytes x l') else count_bytes x l')
  end.

(** Multiset equality (Go compares the sorted slices). *)
Fixpoint remove_one {A} (eqb : A -> A -> bool) (x : A) (l : list A) : option (list A) :=
  match l with
  | [] => None
  | y :: l' => if eqb x y then Some l'
               else match remove_one eqb x l' with Some r => Some (y :: r) | None => None end
  end.

Fixpoint same_multiset {A} (eqb : A -> A -> bool) (l1 l2 : list A) : bool :=
  match l1 with
  | [] => match l2 with [] => true | _ => false end
  | x :: l1' => match remove_one eqb x l2 with
                | Some l2' => same_multiset eqb l1' l2'
                | None => false
                end
  end.

(** * Rules *)

Record clients := mkClients { cl_hosts : list bytes; cl_nets : list prefix }.

Definition clients_len (c : clients) : nat := length (cl_hosts c) + length (cl_nets c).
Definition clients_empty (c : clients) : bool :=
  match cl_hosts c, cl_nets c with [], [] => true | _, _ => false end.

Definition clients_equal (a b : clients) : bool :=
  same_multiset eqb_bytes (cl_hosts a) (cl_hosts b) &&
  same_multiset prefix_eqb (cl_nets a) (cl_nets b).

(** A $dnsrewrite payload as [rules.DNSRewrite] (NewCNAME, RCode, RRType,
    Value): the empty value and the NOERROR keyword are both [DRWRcode 0]. *)
Inductive dnsrw :=
  | DRWRcode (rc : N)
  | DRWCname (name : bytes)
  | DRWAddr (a : addr).

Record nrule := mkNRule {
  nr_id : N;                   (* identity of the rule line, for reporting *)
  nr_white : bool;             (* @@ *)
  nr_pattern : bytes;
  nr_important : bool;
  nr_badfilter : bool;
  nr_dt_perm : list N;         (* $dnstype=A|AAAA *)
  nr_dt_restr : list N;        (* $dnstype=~A *)
  nr_cl_perm : clients;        (* $client= *)
  nr_cl_restr : clients;       (* $client=~ *)
  nr_denyallow : list bytes;
  nr_ctag_perm : list bytes;   (* $ctag= *)
  nr_ctag_restr : list bytes;  (* $ctag=~ *)
  nr_drw : option dnsrw        (* $dnsrewrite= *)
}.

Record hrule := mkHRule { hr_id : N; hr_ip : addr; hr_names : list bytes }.

Inductive rule := RNet (r : nrule) | RHost (h : hrule).

(** The request as urlfilter.DNSRequest. *)
Record ufreq := mkReq {
  rq_host : bytes;
  rq_qtype : N;
  rq_cname : bytes;            (* ClientName, empty = not considered *)
  rq_cip : option addr;        (* ClientIP, None = zero value *)
  rq_ctags : list bytes        (* SortedClientTags *)
}.

(** * Patterns *)

Inductive tok := TLit (c : N) | TStar | TSep | TEnd.
Inductive anchor := ANone | AString | AURL.
Inductive pat := PAny | PUnsupported | PPat (a : anchor) (toks : list tok).

Definition c_pipe : N := 124.
Definition c_star : N := 42.
Definition c_caret : N := 94.
Definition c_slash : N := 47.
Definition c_dot : N := 46.

Definition is_regex_pattern (p : bytes) : bool :=
  match p with
  | c :: (_ :: _) as rest => (c =? c_slash) && (last rest 0 =? c_slash)
  | _ => false
  end.

Definition tok_of (c : N) : tok :=
  if c =? c_star then TStar else if c =? c_caret then TSep else TLit c.

(** The body between the anchors: every byte but the last is a literal, [*]
    or [^]; a final [|] is the end-of-string anchor. *)
Fixpoint body_toks (s : bytes) : list tok :=
  match s with
  | [] => []
  | [c] => if c =? c_pipe then [TEnd] else [tok_of c]
  | c :: s' => tok_of c :: body_toks s'
  end.

Definition compile (p : bytes) : pat :=
  match p with
  | [] => PAny
  | [c] => if (c =? c_pipe) || (c =? c_star) then PAny else PPat ANone (body_toks p)
  | c1 :: c2 :: rest =>
      if (c1 =? c_pipe) && (c2 =? c_pipe) then
        match rest with [] => PAny | _ => PPat AURL (body_toks rest) end
      else if is_regex_pattern p then PUnsupported
      else if c1 =? c_pipe then PPat AString (body_toks (c2 :: rest))
      else PPat ANone (body_toks p)
  end.

Definition is_alnum (c : N) : bool :=
  ((48 <=? c) && (c <=? 57)) || ((65 <=? c) && (c <=? 90)) || ((97 <=? c) && (c <=? 122)).

(** [[^ a-zA-Z0-9.%_-]] *)
Definition is_sep (c : N) : bool :=
  negb (is_alnum c || (c =? 32) || (c =? 46) || (c =? 37) || (c =? 95) || (c =? 45)).

(** [[a-z0-9-_.]] under (?i) *)
Definition is_hostch (c : N) : bool :=
  is_alnum c || (c =? 45) || (c =? 95) || (c =? 46).

Fixpoint match_here (toks : list tok) (s : bytes) {struct toks} : bool :=
  match toks with
  | [] => true
  | TLit c :: ts =>
      match s with
      | x :: s' => (lower_byte c =? lower_byte x) && match_here ts s'
      | [] => false
      end
  | TSep :: ts =>
      match s with
      | x :: s' => is_sep x && match_here ts s'
      | [] => match_here ts []
      end
  | TEnd :: ts => match s with [] => match_here ts [] | _ :: _ => false end
  | TStar :: ts =>
      (fix any (s : bytes) : bool :=
         match_here ts s ||
         match s with
         | [] => false
         | x :: s' => if x =? 10 then false else any s'
         end) s
  end.

Fixpoint search (toks : list tok) (s : bytes) : bool :=
  match_here toks s || match s with [] => false | _ :: s' => search toks s' end.

(** After the scheme: [([a-z0-9-_.]+\.)?] then the body. *)
Fixpoint url_sub (toks : list tok) (r : bytes) (seen : bool) : bool :=
  match r with
  | [] => false
  | x :: r' =>
      (seen && (x =? c_dot) && match_here toks r') ||
      (is_hostch x && url_sub toks r' true)
  end.

Definition schemes : list bytes :=
  [ [104;116;116;112;58;47;47];          (* http:// *)
    [104;116;116;112;115;58;47;47];      (* https:// *)
    [119;115;58;47;47];                  (* ws:// *)
    [119;115;115;58;47;47] ].            (* wss:// *)

Definition match_url (toks : list tok) (url : bytes) : bool :=
  existsb (fun sch =>
    match drop_prefix sch (lower (firstn (length sch) url)) with
    | Some _ =>
        let r := skipn (length sch) url in
        match_here toks r || url_sub toks r false
    | None => false
    end) schemes.

Definition http_prefix : bytes := [104;116;116;112;58;47;47].
Definition url_of (host : bytes) : bytes := http_prefix ++ host.

(** rules/network.go shouldMatchHostname for a host-name request. *)
Definition should_match_hostname (p : bytes) : bool :=
  negb (has_prefix [c_pipe; c_pipe] p
        || has_prefix http_prefix p
        || has_prefix [104;116;116;112;115;58;47;47] p
        || has_prefix [58;47;47] p).

Definition match_pattern (p : bytes) (host : bytes) : bool :=
  match compile p with
  | PAny => true
  | PUnsupported => false
  | PPat a toks =>
      let text := if should_match_hostname p then host else url_of host in
      match a with
      | ANone => search toks text
      | AString => match_here toks text
      | AURL => match_url toks text
      end
  end.

(** findShortcut: the first longest run without [*], [^], [|]; used only if
    longer than one byte, lower-cased. *)
Definition is_special (c : N) : bool := (c =? c_star) || (c =? c_caret) || (c =? c_pipe).

Fixpoint segments (s cur : bytes) : list bytes :=
  match s with
  | [] => [rev cur]
  | c :: s' => if is_special c then rev cur :: segments s' [] else segments s' (c :: cur)
  end.

Definition longest_first (l : list bytes) : bytes :=
  fold_left (fun best x => if (length best <? length x)%nat then x else best) l [].

Definition shortcut (p : bytes) : bytes :=
  let s := longest_first (segments p []) in
  if (1 <? length s)%nat then lower s else [].

Definition match_shortcut (p host : bytes) : bool := contains (shortcut p) (url_of host).

(** * Modifiers *)

(** netip.ParseAddr succeeds on the host name.  Exact for dotted quads;
    for IPv6 every string of hex digits, [:] and [.] that contains [:] is
    taken as a literal (exact on the canonical renderings Go produces). *)
Definition is_digit (c : N) : bool := (48 <=? c) && (c <=? 57).
Definition is_hex (c : N) : bool :=
  is_digit c || ((65 <=? c) && (c <=? 70)) || ((97 <=? c) && (c <=? 102)).

Fixpoint split_on (sep : N) (s cur : bytes) : list bytes :=
  match s with
  | [] => [rev cur]
  | c :: s' => if c =? sep then rev cur :: split_on sep s' [] else split_on sep s' (c :: cur)
  end.

Definition dec_value (s : bytes) : N := fold_left (fun acc c => acc * 10 + (c - 48)) s 0.

Definition is_v4_field (s : bytes) : bool :=
  match s with
  | [] => false
  | c :: rest =>
      forallb is_digit s && (length s <=? 3)%nat && (dec_value s <=? 255) &&
      match rest with [] => true | _ => negb (c =? 48) end
  end.

Definition is_ip_literal (s : bytes) : bool :=
  if existsb (N.eqb 58) s then forallb (fun c => is_hex c || (c =? 58) || (c =? 46)) s
  else let fs := split_on c_dot s [] in (length fs =? 4)%nat && forallb is_v4_field fs.

Definition is_domain_or_sub (host d : bytes) : bool :=
  eqb_bytes host d || has_suffix (c_dot :: d) host.

(** matchRequestDomain: $denyallow (entries of the form "name.*" are outside
    the grammar). *)
Definition match_denyallow (r : nrule) (host : bytes) : bool :=
  match nr_denyallow r with
  | [] => true
  | ds => if is_ip_literal host then false else negb (existsb (is_domain_or_sub host) ds)
  end.

Definition match_dnstype (r : nrule) (qt : N) : bool :=
  match nr_dt_perm r, nr_dt_restr r with
  | [], [] => true
  | perm, restr =>
      if existsb (N.eqb qt) restr then false
      else match perm with [] => true | _ => existsb (N.eqb qt) perm end
  end.

Definition clients_contain (c : clients) (name : bytes) (ip : option addr) : bool :=
  (match name with [] => false | _ => mem_bytes name (cl_hosts c) end) ||
  match ip with
  | None => false
  | Some a => existsb (fun n => prefix_contains n a) (cl_nets c)
  end.

Definition match_client (r : nrule) (name : bytes) (ip : option addr) : bool :=
  if clients_empty (nr_cl_perm r) && clients_empty (nr_cl_restr r) then true
  else if clients_contain (nr_cl_restr r) name ip then false
  else if clients_empty (nr_cl_perm r) then true
  else clients_contain (nr_cl_perm r) name ip.

(** matchClientTags / matchClientTagsSpecific: the two-pointer walk over two
    sorted lists finds a common element iff there is one. *)
Definition tags_meet (rule_tags client_tags : list bytes) : bool :=
  existsb (fun t => mem_bytes t client_tags) rule_tags.

Definition match_ctags (r : nrule) (tags : list bytes) : bool :=
  match nr_ctag_perm r, nr_ctag_restr r with
  | [], [] => true
  | perm, restr =>
      if tags_meet restr tags then false
      else match perm with [] => true | _ => tags_meet perm tags end
  end.

(** NetworkRule.Match for a host-name request. *)
Definition nrule_match (q : ufreq) (r : nrule) : bool :=
  match_shortcut (nr_pattern r) (rq_host q) &&
  match_denyallow r (rq_host q) &&
  match_dnstype r (rq_qtype q) &&
  match_ctags r (rq_ctags q) &&
  match_client r (rq_cname q) (rq_cip q) &&
  match_pattern (nr_pattern r) (rq_host q).

(** * Priority *)

Definition b2n (b : bool) : N := if b then 1 else 0.
Definition nonempty {A} (l : list A) : bool := match l with [] => false | _ => true end.

Definition has_dnstypes (r : nrule) := nonempty (nr_dt_perm r) || nonempty (nr_dt_restr r).
Definition has_clients (r : nrule) :=
  negb (clients_empty (nr_cl_perm r)) || negb (clients_empty (nr_cl_restr r)).

Definition has_ctags (r : nrule) := nonempty (nr_ctag_perm r) || nonempty (nr_ctag_restr r).

(** The two counts of IsHigherPriority: the left one includes $client and
    $denyallow, the right one does not ($dnsrewrite is not an option bit and
    counts on neither side). *)
Definition count_left (r : nrule) : N :=
  b2n (nr_important r) + b2n (nr_badfilter r) + b2n (has_dnstypes r) + b2n (has_ctags r) +
  b2n (has_clients r) + b2n (nonempty (nr_denyallow r)).
Definition count_right (r : nrule) : N :=
  b2n (nr_important r) + b2n (nr_badfilter r) + b2n (has_dnstypes r) + b2n (has_ctags r).

Definition is_higher_priority (f r : nrule) : bool :=
  let fi := nr_important f in let ri := nr_important r in
  let fw := nr_white f in let rw := nr_white r in
  if (fw && fi) && negb (rw && ri) then true
  else if (rw && ri) && negb (fw && fi) then false
  else if fi && negb ri then true
  else if ri && negb fi then false
  else if fw && negb rw then true
  else if rw && negb fw then false
  else count_right r <? count_left f.

(** negatesBadfilter: $dnstype, $denyallow and $dnsrewrite are not compared. *)
Definition negates_badfilter (f r : nrule) : bool :=
  nr_badfilter f &&
  Bool.eqb (nr_white f) (nr_white r) &&
  eqb_bytes (nr_pattern f) (nr_pattern r) &&
  Bool.eqb (nr_important f) (nr_important r) &&
  negb (nr_badfilter r) &&
  eqb_list eqb_bytes (nr_ctag_perm f) (nr_ctag_perm r) &&
  eqb_list eqb_bytes (nr_ctag_restr f) (nr_ctag_restr r) &&
  clients_equal (nr_cl_perm f) (nr_cl_perm r) &&
  clients_equal (nr_cl_restr f) (nr_cl_restr r).

Definition remove_badfilter (rs : list nrule) : list nrule :=
  match filter nr_badfilter rs with
  | [] => rs
  | bads =>
      flat_map (fun b => filter (fun r => negb (negates_badfilter b r) && negb (nr_badfilter r)) rs) bads
  end.

Definition pick (best : option nrule) (r : nrule) : option nrule :=
  match best with
  | None => Some r
  | Some b => if is_higher_priority r b then Some r else Some b
  end.

Definition has_drw (r : nrule) : bool := match nr_drw r with Some _ => true | None => false end.

(** removeDNSRewriteRules *)
Definition remove_drw (rs : list nrule) : list nrule := filter (fun r => negb (has_drw r)) rs.

(** The rules that compete for the basic rule. *)
Definition basic_candidates (rs : list nrule) : list nrule := remove_drw (remove_badfilter rs).

Definition get_dns_basic_rule (rs : list nrule) : option nrule :=
  fold_left pick (basic_candidates rs) None.

(** * The DNS engine *)

Record dnsresult := mkRes {
  dr_net : option nrule; dr_v4 : list hrule; dr_v6 : list hrule;
  dr_all : list nrule          (* NetworkRules: every matching network rule *)
}.

Definition empty_result : dnsresult := mkRes None [] [] [].

Definition net_rules (rs : list rule) : list nrule :=
  flat_map (fun r => match r with RNet n => [n] | RHost _ => [] end) rs.
Definition host_rules (rs : list rule) : list hrule :=
  flat_map (fun r => match r with RHost h => [h] | RNet _ => [] end) rs.

Definition match_all (rs : list rule) (q : ufreq) : list nrule :=
  filter (nrule_match q) (net_rules rs).

(** One hit per occurrence of the name in the rule (the lookup table holds
    the rule once per listed name). *)
Definition host_hits (rs : list rule) (host : bytes) : list hrule :=
  flat_map (fun h => repeat h (count_bytes host (hr_names h))) (host_rules rs).

Definition match_request (rs : list rule) (q : ufreq) : dnsresult * bool :=
  match rq_host q with
  | [] => (empty_result, false)
  | _ =>
      let all := match_all rs q in
      match get_dns_basic_rule all with
      | Some n => (mkRes (Some n) [] [] all, true)
      | None =>
          match host_hits rs (rq_host q) with
          | [] => (mkRes None [] [] all, false)
          | hits => (mkRes None (filter (fun h => is4 (hr_ip h)) hits)
                              (filter (fun h => negb (is4 (hr_ip h))) hits) all, true)
          end
      end
  end.

(** * $dnsrewrite: DNSResult.DNSRewrites (urlfilter/dnsrewrite.go) *)

Definition drw_cname (d : dnsrw) : bytes := match d with DRWCname n => n | _ => [] end.
Definition drw_rcode (d : dnsrw) : N := match d with DRWRcode rc => rc | _ => 0 end.
(** RRType and Value together: None = (0, nil). *)
Definition drw_value (d : dnsrw) : option addr := match d with DRWAddr a => Some a | _ => None end.
Definition drw_is_zero (d : dnsrw) : bool := match d with DRWRcode 0 => true | _ => false end.

Definition the_drw (r : nrule) : dnsrw := match nr_drw r with Some d => d | None => DRWRcode 0 end.

(** matchException *)
Definition match_exception (nr exc : nrule) (exc_important : bool) : bool :=
  if negb exc_important && nr_important nr then false
  else
    let n := the_drw nr in let e := the_drw exc in
    match drw_cname e with
    | _ :: _ => eqb_bytes (drw_cname n) (drw_cname e)
    | [] =>
        if drw_rcode n =? drw_rcode e then
          if negb (drw_rcode e =? 0) then true
          else eqb_option addr_eqb (drw_value n) (drw_value e)
        else false
    end.

(** removeMatchingException (exc is one of the $dnsrewrite rules). *)
Definition remove_matching_exception (l : list nrule) (exc : nrule) : list nrule :=
  if drw_is_zero (the_drw exc) then
    (if nr_important exc then [] else filter nr_important l)
  else filter (fun nr => negb (match_exception nr exc (nr_important exc))) l.

Fixpoint remove_nth {A} (i : nat) (l : list A) : list A :=
  match i, l with
  | _, [] => []
  | O, _ :: t => t
  | S i', x :: t => x :: remove_nth i' t
  end.

(** The loop of DNSRewrites: [for i := 0; i < len(nrules); i++] over a slice
    that is edited in place; after an exception at index i is taken out (and
    what it disables with it) the index still advances.  [fuel] bounds the
    iterations; [S (length l)] is always enough ([drw_loop_fuel] in
    Proofs/RuleEngine.v), [None] = out of fuel. *)
Fixpoint drw_loop (fuel i : nat) (l : list nrule) : option (list nrule) :=
  match fuel with
  | O => None
  | S fuel' =>
      match nth_error l i with
      | None => Some l
      | Some nr =>
          if nr_white nr then drw_loop fuel' (S i) (remove_matching_exception (remove_nth i l) nr)
          else drw_loop fuel' (S i) l
      end
  end.

Definition dns_rewrites (dr : dnsresult) : list nrule :=
  let all := filter has_drw (dr_all dr) in
  match drw_loop (S (length all)) 0 all with Some l => l | None => [] end.

(** strings.ToLower over a whole rule line (access blocked-hosts). *)
Definition lower_clients (c : clients) : clients := mkClients (map lower (cl_hosts c)) (cl_nets c).

Definition lower_rule (r : rule) : rule :=
  match r with
  | RNet n =>
      RNet (mkNRule (nr_id n) (nr_white n) (lower (nr_pattern n)) (nr_important n) (nr_badfilter n)
              (nr_dt_perm n) (nr_dt_restr n) (lower_clients (nr_cl_perm n))
              (lower_clients (nr_cl_restr n)) (map lower (nr_denyallow n))
              (map lower (nr_ctag_perm n)) (map lower (nr_ctag_restr n))
              (match nr_drw n with Some (DRWCname c) => Some (DRWCname (lower c)) | d => d end))
  | RHost h => RHost (mkHRule (hr_id h) (hr_ip h) (map lower (hr_names h)))
  end.

(** The abstract lock machine of C05.

    Threads are finite lists of events [Acq l m | Rel l m | Rd f | Wr f]; the
    machine interleaves them one event at a time over a table of
    reader/writer mutexes that behave like Go's [sync.RWMutex]:

    - a writer excludes everybody, readers share;
    - writer preference: [Lock] first *announces* itself (one step, always
      enabled) and from then on no new reader is admitted until that writer
      has acquired and released the mutex; the writer itself proceeds when no
      writer holds the lock and the readers have drained;
    - the mutex does not know who holds it: [Unlock]/[RUnlock] act on the
      counters whoever calls them ([sync.Mutex] = the same machine used in
      write mode only).

    Definitions only; the theorems are in Proofs/Conc.v. *)
From Coq Require Import List String Bool Arith.
Import ListNotations.

Definition lock := string.
Definition field := string.

Inductive mode := R | W.

Inductive event :=
| Acq (l : lock) (m : mode)
| Rel (l : lock) (m : mode)
| Rd (f : field)
| Wr (f : field).

Definition mode_eqb (a b : mode) : bool :=
  match a, b with R, R | W, W => true | _, _ => false end.

(** * Mutex state *)

Record lstate := LS { writer : bool; readers : nat; pending : nat }.

Definition ltable := lock -> lstate.

Definition l0 : lstate := LS false 0 0.

Definition upd (t : ltable) (l : lock) (s : lstate) : ltable :=
  fun l' => if String.eqb l' l then s else t l'.

(** * Threads and steps *)

(** [announced = true]: the thread is inside [Lock] on the lock named by the
    head event, has told the readers, and waits for them to leave. *)
Record thread := TH { announced : bool; rest : list event }.

Record state := ST { locks : ltable; threads : list thread }.

Inductive tstep : ltable -> thread -> ltable -> thread -> Prop :=
| ts_rd : forall t f r,
    tstep t (TH false (Rd f :: r)) t (TH false r)
| ts_wr : forall t f r,
    tstep t (TH false (Wr f :: r)) t (TH false r)
| ts_announce : forall t l r,
    tstep t (TH false (Acq l W :: r))
          (upd t l (LS (writer (t l)) (readers (t l)) (S (pending (t l)))))
          (TH true (Acq l W :: r))
| ts_acq_w : forall t l r,
    writer (t l) = false -> readers (t l) = 0 ->
    tstep t (TH true (Acq l W :: r))
          (upd t l (LS true 0 (pred (pending (t l)))))
          (TH false r)
| ts_acq_r : forall t l r,
    writer (t l) = false -> pending (t l) = 0 ->
    tstep t (TH false (Acq l R :: r))
          (upd t l (LS false (S (readers (t l))) 0))
          (TH false r)
| ts_rel_w : forall t l r,
    tstep t (TH false (Rel l W :: r))
          (upd t l (LS false (readers (t l)) (pending (t l))))
          (TH false r)
| ts_rel_r : forall t l r,
    tstep t (TH false (Rel l R :: r))
          (upd t l (LS (writer (t l)) (pred (readers (t l))) (pending (t l))))
          (TH false r).

Inductive step : state -> state -> Prop :=
| step_thread : forall lt lt' pre th th' post,
    tstep lt th lt' th' ->
    step (ST lt (pre ++ th :: post)) (ST lt' (pre ++ th' :: post)).

Inductive reachable (s0 : state) : state -> Prop :=
| reach_refl : reachable s0 s0
| reach_step : forall s s', reachable s0 s -> step s s' -> reachable s0 s'.

Definition init (progs : list (list event)) : state :=
  ST (fun _ => l0) (map (TH false) progs).

(** * What must not happen *)

(** The access a thread is about to perform: field and "is a write". *)
Definition next_access (th : thread) : option (field * bool) :=
  match rest th with
  | Rd f :: _ => Some (f, false)
  | Wr f :: _ => Some (f, true)
  | _ => None
  end.

(** Two distinct threads are about to access the same field and at least one
    of the two accesses is a write. *)
Definition race (s : state) : Prop :=
  exists pre t1 mid t2 post f w1 w2,
    threads s = pre ++ t1 :: mid ++ t2 :: post /\
    next_access t1 = Some (f, w1) /\
    next_access t2 = Some (f, w2) /\
    (w1 || w2) = true.

Definition can_step (lt : ltable) (th : thread) : Prop :=
  exists lt' th', tstep lt th lt' th'.

(** Some thread is unfinished and no unfinished thread can move. *)
Definition deadlocked (s : state) : Prop :=
  (exists th, In th (threads s) /\ rest th <> []) /\
  (forall th, In th (threads s) -> rest th <> [] -> ~ can_step (locks s) th).

(** * The discipline, as executable checks on one thread's event list *)

Definition held := list (lock * mode).

Definition lm_eqb (a b : lock * mode) : bool :=
  String.eqb (fst a) (fst b) && mode_eqb (snd a) (snd b).

Definition mem_lm (x : lock * mode) (h : held) : bool := existsb (lm_eqb x) h.

Fixpoint remove_one (x : lock * mode) (h : held) : held :=
  match h with
  | [] => []
  | y :: h' => if lm_eqb x y then h' else y :: remove_one x h'
  end.

(** the thread holds [l] in some mode / in write mode *)
Definition holds (h : held) (l : lock) : bool :=
  existsb (fun y => String.eqb (fst y) l) h.

Definition holds_w (h : held) (l : lock) : bool := mem_lm (l, W) h.

(** Every access happens while the thread holds the guard of the field (in
    write mode for a write), and a thread only releases what it holds. *)
Fixpoint well_locked (guard : field -> lock) (h : held) (p : list event) : bool :=
  match p with
  | [] => true
  | Acq l m :: r => well_locked guard ((l, m) :: h) r
  | Rel l m :: r => mem_lm (l, m) h && well_locked guard (remove_one (l, m) h) r
  | Rd f :: r => holds h (guard f) && well_locked guard h r
  | Wr f :: r => holds_w h (guard f) && well_locked guard h r
  end.

(** The same with several guards per field: a write needs ALL of them in write
    mode (and there is at least one), a read needs ANY of them in any mode.
    (A field written only by admin handlers that hold both the global control
    lock and the module's own lock may be read under either.) *)
Fixpoint well_locked_m (guards : field -> list lock) (h : held) (p : list event) : bool :=
  match p with
  | [] => true
  | Acq l m :: r => well_locked_m guards ((l, m) :: h) r
  | Rel l m :: r => mem_lm (l, m) h && well_locked_m guards (remove_one (l, m) h) r
  | Rd f :: r => existsb (holds h) (guards f) && well_locked_m guards h r
  | Wr f :: r =>
      match guards f with [] => false | gs => forallb (holds_w h) gs end
      && well_locked_m guards h r
  end.

(** ... and with fields that no thread ever writes ([ro f = true]): reading
    them needs no lock, writing them is not allowed at all. *)
Fixpoint well_locked_ro (guards : field -> list lock) (ro : field -> bool)
    (h : held) (p : list event) : bool :=
  match p with
  | [] => true
  | Acq l m :: r => well_locked_ro guards ro ((l, m) :: h) r
  | Rel l m :: r => mem_lm (l, m) h && well_locked_ro guards ro (remove_one (l, m) h) r
  | Rd f :: r => (ro f || existsb (holds h) (guards f)) && well_locked_ro guards ro h r
  | Wr f :: r =>
      (negb (ro f) && match guards f with [] => false | gs => forallb (holds_w h) gs end)
      && well_locked_ro guards ro h r
  end.

(** Nested acquisitions go to strictly higher ranks (so in particular no lock
    is re-acquired while held, in any mode), a thread only releases what it
    holds and ends holding nothing. *)
Fixpoint ranked (rank : lock -> nat) (h : held) (p : list event) : bool :=
  match p with
  | [] => match h with [] => true | _ => false end
  | Acq l m :: r =>
      forallb (fun y => rank (fst y) <? rank l) h && ranked rank ((l, m) :: h) r
  | Rel l m :: r => mem_lm (l, m) h && ranked rank (remove_one (l, m) h) r
  | Rd _ :: r | Wr _ :: r => ranked rank h r
  end.

(** Statements of the two generic theorems (proved in Proofs/Conc.v). *)
Definition well_locked_race_free_statement : Prop :=
  forall (guard : field -> lock) (progs : list (list event)),
    Forall (fun p => well_locked guard [] p = true) progs ->
    forall s, reachable (init progs) s -> ~ race s.

Definition well_locked_m_race_free_statement : Prop :=
  forall (guards : field -> list lock) (progs : list (list event)),
    Forall (fun p => well_locked_m guards [] p = true) progs ->
    forall s, reachable (init progs) s -> ~ race s.

Definition well_locked_ro_race_free_statement : Prop :=
  forall (guards : field -> list lock) (ro : field -> bool) (progs : list (list event)),
    Forall (fun p => well_locked_ro guards ro [] p = true) progs ->
    forall s, reachable (init progs) s -> ~ race s.

Definition ranked_no_deadlock_statement : Prop :=
  forall (rank : lock -> nat) (progs : list (list event)),
    Forall (fun p => ranked rank [] p = true) progs ->
    forall s, reachable (init progs) s -> ~ deadlocked s.

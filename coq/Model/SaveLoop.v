(** The save paths of C14 as programs over the abstract file system of
    Base/FS.v, with the NEW VERSION as a parameter (content identity).  Model
    only; proofs are in Proofs/SaveLoop.v.

    Mirrored code (as it is in /repo and in google/renameio v2.0.0):

    - renameio.WriteFile = maybe.WriteFile (configuration.write, parseConfig's
      upgrade write, writeDB): NewPendingFile; defer Cleanup; Write(data);
      CloseAtomicallyReplace (Sync, Close, Rename; each error returns at once).
      Cleanup = Close (unless already closed) + Remove(temp), a no-op after a
      successful rename.
    - DNSFilter.updateIntl + finalizeUpdate (filter lists): NewPendingFile
      FIRST, then the reader is opened (HTTP GET / os.Open), then
      rulelist.Parser.Parse copies reader -> parser -> pending file, one Write
      per rule line; ok = checksum changed && err == nil; !ok => Cleanup;
      ok => CloseReplace, and when THAT fails the error is returned WITHOUT a
      Cleanup (the temporary file stays behind: [cleanup = false] below).
    - the three readers that occur on the download path: the response body as
      it is (DNSFilter.readerFromURL), golibs ioutil.LimitReader (rulelist
      storage: an ERROR at the limit) and the standard io.LimitReader (plain
      EOF at the limit: NOT in the tree; the refuted variant).

    A reader is the list of the results of its successive Read calls.  The
    parser stage is abstract (a state machine that turns every chunk read into
    the writes it requests); the real parser is the subject of C15.  *)
From Coq Require Import List NArith Bool.
From AGH Require Import Base.FS.
Import ListNotations.
Local Open Scope N_scope.

(** ** Readers *)

Inductive rd := RData (d : data) | REof | RErr.
Definition reader := list rd.      (* exhausted list = EOF for ever *)

(** The served body arriving in [chunks]; [cut]: the connection breaks after
    them (an error, as net/http reports a body shorter than announced). *)
Definition serve (chunks : list data) (cut : bool) : reader :=
  map RData chunks ++ [if cut then RErr else REof].

(** What a consumer that reads until EOF or error receives, and whether the
    stream ended with EOF. *)
Fixpoint received (r : reader) : data :=
  match r with RData d :: r' => d ++ received r' | _ => [] end.

Fixpoint ends_ok (r : reader) : bool :=
  match r with RData _ :: r' => ends_ok r' | RErr :: _ => false | _ => true end.

(** io.LimitReader(r, n): when n elements have been delivered the next Read
    returns plain EOF without asking [r]. *)
Fixpoint std_limit (r : reader) (n : N) : reader :=
  match r with
  | RData d :: r' =>
      if n =? 0 then [REof]
      else if nlen d <=? n then RData d :: std_limit r' (n - nlen d)
      else [RData (firstn (N.to_nat n) d); REof]
  | x :: _ => if n =? 0 then [REof] else [x]
  | [] => []
  end.

(** golibs ioutil.LimitReader(r, n): when n elements have been delivered the
    next Read returns a *LimitError. *)
Fixpoint err_limit (r : reader) (n : N) : reader :=
  match r with
  | RData d :: r' =>
      if n =? 0 then [RErr]
      else if nlen d <=? n then RData d :: err_limit r' (n - nlen d)
      else [RData (firstn (N.to_nat n) d); RErr]
  | x :: _ => if n =? 0 then [RErr] else [x]
  | [] => []
  end.

(** ** Faults and outcomes *)

Inductive stage := AtOpen | AtSource | AtRead | AtWrite | AtSync | AtClose | AtRename.
Inductive outcome := Replaced | Skipped | Failed (st : stage).

Definition replaced (r : outcome) : bool := match r with Replaced => true | _ => false end.

(** Which system calls of the save fail.  [p_write = Some (k, n)]: the k-th
    write request gets only n elements onto the disk and then fails (a short
    write followed by ENOSPC / EFBIG / EIO; n = 0: nothing is written). *)
Record plan := { p_open : bool; p_write : option (nat * N); p_sync : bool; p_close : bool; p_rename : bool }.

Definition no_faults := {| p_open := false; p_write := None; p_sync := false; p_close := false; p_rename := false |}.

(** The write calls that reach the file, and whether all requests were served. *)
Fixpoint do_writes (ws : list data) (wf : option (nat * N)) : list data * bool :=
  match ws with
  | [] => ([], true)
  | w :: ws' =>
      match wf with
      | Some (O, n) => ((if n =? 0 then [] else [firstn (N.to_nat n) w]), false)
      | Some (S k, n) => let (p, ok) := do_writes ws' (Some (k, n)) in (w :: p, ok)
      | None => let (p, ok) := do_writes ws' None in (w :: p, ok)
      end
  end.

(** ** The system calls of one save *)

(** CloseAtomicallyReplace, followed (renameio.WriteFile: [cleanup]) or not
    (finalizeUpdate) by Cleanup when it failed.  After a failed fsync the
    descriptor is still open: Cleanup closes it. *)
Definition replace_ops (cleanup : bool) (fd : N) (tmp dst : path) (p : plan) : list op * outcome :=
  if p_sync p then ((if cleanup then [Close fd; Unlink tmp] else []), Failed AtSync)
  else if p_close p then (Fsync fd :: Close fd :: (if cleanup then [Unlink tmp] else []), Failed AtClose)
  else if p_rename p then (Fsync fd :: Close fd :: (if cleanup then [Unlink tmp] else []), Failed AtRename)
  else ([Fsync fd; Close fd; Rename tmp dst], Replaced).

Inductive ending := EAbort (st : stage) | ESkip | EReplace.

(** [done]: the write calls that reached the temporary file. *)
Definition save_ops (cleanup : bool) (fd : N) (tmp dst : path) (done : list data) (e : ending) (p : plan)
  : list op * outcome :=
  if p_open p then ([], Failed AtOpen)
  else
    let pre := Open fd tmp fl_tmp :: map (Write fd) done in
    match e with
    | EAbort st => (pre ++ [Close fd; Unlink tmp], Failed st)
    | ESkip => (pre ++ [Close fd; Unlink tmp], Skipped)
    | EReplace => let (o, r) := replace_ops cleanup fd tmp dst p in (pre ++ o, r)
    end.

(** renameio.WriteFile of the serialised configuration / lease table.
    [chunks]: the pieces in which the kernel accepts the one Write(data)
    (os.File.Write continues after a short write); the new version is
    [concat chunks]. *)
Definition write_file (fd : N) (tmp dst : path) (chunks : list data) (p : plan) : list op * outcome :=
  let (done, ok) := do_writes chunks (p_write p) in
  save_ops true fd tmp dst done (if ok then EReplace else EAbort AtWrite) p.

(** renameio.TempDir probing whether $TMPDIR is on the mount of the
    destination (only when $TMPDIR exists): two empty files, one renamed over
    the other.  Seen in the traces before the save proper; judged by the
    generic checker only. *)
Definition probe_ops (fd1 : N) (p1 : path) (fd2 : N) (p2 : path) (rename_fails : bool) : list op :=
  [Open fd1 p1 fl_tmp; Close fd1; Open fd2 p2 fl_tmp; Close fd2] ++
  (if rename_fails then [Unlink p2; Unlink p1] else [Rename p1 p2; Unlink p2]).

(** ** The download path: reader -> parser -> pending file *)

Section Update.
  Variable St : Type.
  Variable st0 : St.
  (** the parser consumes a chunk: [None] = it rejects the input (HTML, binary
      character, line too long), else the new state and the writes requested *)
  Variable feed : St -> data -> option (St * list data).
  (** end of input: the last, unterminated line *)
  Variable finish : St -> option (list data).
  (** checksum of the output *)
  Variable sum : data -> N.

  (** The copy loop: read until EOF; an error of the reader or of the parser
      aborts.  Result: the writes requested so far, and whether the input was
      consumed to its end. *)
  Fixpoint pump (st : St) (r : reader) : list data * bool :=
    match r with
    | RData d :: r' =>
        match feed st d with
        | Some (st', ws) => let (ws', ok) := pump st' r' in (ws ++ ws', ok)
        | None => ([], false)
        end
    | RErr :: _ => ([], false)
    | _ => match finish st with Some ws => (ws, true) | None => ([], false) end
    end.

  (** updateIntl + finalizeUpdate.  [src_ok = false]: the reader could not be
      opened (status code, connection refused, unreadable file). *)
  Definition update_list (fd : N) (tmp dst : path) (src_ok : bool) (r : reader) (old_sum : N) (p : plan)
    : list op * outcome :=
    if negb src_ok then save_ops false fd tmp dst [] (EAbort AtSource) p
    else
      let (ws, rok) := pump st0 r in
      let (done, wok) := do_writes ws (p_write p) in
      let e := if negb wok then EAbort AtWrite
               else if negb rok then EAbort AtRead
               else if sum (concat ws) =? old_sum then ESkip
               else EReplace in
      save_ops false fd tmp dst done e p.

  (** The normal form of a whole body: what the parser writes when the body
      arrives in one piece. *)
  Definition norm (st : St) (body : data) : option data :=
    match feed st body with
    | Some (st', ws) => match finish st' with Some ws' => Some (concat (ws ++ ws')) | None => None end
    | None => None
    end.
End Update.

(** Two parser stages for examples: the identity, and one that drops every
    element for which [keep] is false (a comment filter at element level). *)
Definition id_feed (st : unit) (d : data) : option (unit * list data) := Some (st, [d]).
Definition id_finish (st : unit) : option (list data) := Some [].
Definition filter_feed (keep : N -> bool) (st : unit) (d : data) : option (unit * list data) :=
  Some (st, [filter keep d]).
Definition len_sum (d : data) : N := nlen d.

(** ** For the evaluator: decidable equality of operations *)

Definition bool_eqb (a b : bool) : bool := if a then b else negb b.
Definition data_eqb : data -> data -> bool :=
  fix go (a b : data) : bool :=
    match a, b with
    | [], [] => true
    | x :: a', y :: b' => (x =? y) && go a' b'
    | _, _ => false
    end.

Definition oflags_eqb (a b : oflags) : bool :=
  bool_eqb (o_creat a) (o_creat b) && bool_eqb (o_excl a) (o_excl b) && bool_eqb (o_trunc a) (o_trunc b) &&
  bool_eqb (o_wr a) (o_wr b) && bool_eqb (o_app a) (o_app b).

Definition op_eqb (a b : op) : bool :=
  match a, b with
  | Open f p fl, Open f' p' fl' => (f =? f') && (p =? p') && oflags_eqb fl fl'
  | Write f d, Write f' d' => (f =? f') && data_eqb d d'
  | PWriteAt f o d, PWriteAt f' o' d' => (f =? f') && (o =? o') && data_eqb d d'
  | Fsync f, Fsync f' => f =? f'
  | Close f, Close f' => f =? f'
  | Rename x y, Rename x' y' => (x =? x') && (y =? y')
  | Unlink x, Unlink x' => x =? x'
  | Ftruncate f n, Ftruncate f' n' => (f =? f') && (n =? n')
  | TruncatePath x n, TruncatePath x' n' => (x =? x') && (n =? n')
  | _, _ => false
  end.

Fixpoint ops_eqb (a b : list op) : bool :=
  match a, b with
  | [], [] => true
  | x :: a', y :: b' => op_eqb x y && ops_eqb a' b'
  | _, _ => false
  end.

(** the data of the write calls of a trace segment, in order *)
Fixpoint writes_of (t : list op) : list data :=
  match t with
  | Write _ d :: t' => d :: writes_of t'
  | _ :: t' => writes_of t'
  | [] => []
  end.

(** The save paths of C14 as programs over the abstract file system of
    Base/FS.v, with the NEW VERSION as a parameter (content identity).  Model
    only; proofs are in Proofs/SaveLoop.v.

    Mirrored code (as it is in /repo and in google/renameio v2.0.0):

    - renameio.WriteFile = maybe.WriteFile (configuration.write, parseConfig's
      upgrade write, writeDB): NewPendingFile; defer Cleanup; Write(data);
      CloseAtomicallyReplace (Sync, Close, Rename; each error returns at once).
      Cleanup = Close (unless already closed) + Remove(temp), a no-op after a
      successful rename.
    - DNSFilter.updateIntl + finalizeUpdate (filter lists): NewPendingFile
      FIRST, then the reader is opened (HTTP GET / os.Open), then
      rulelist.Parser.Parse copies reader -> parser -> pending file, one Write
      per rule line; ok = checksum changed && err == nil; !ok => Cleanup;
      ok => CloseReplace, and when THAT fails the error is returned WITHOUT a
      Cleanup (the temporary file stays behind: [cleanup = false] below).
    - the three readers that occur on the download path: the response body as
      it is (DNSFilter.readerFromURL), golibs ioutil.LimitReader (rulelist
      storage: an ERROR at the limit) and the standard io.LimitReader (plain
      EOF at the limit: NOT in the tree; the refuted variant).

    A reader is the list of the results of its successive Read calls.  The
    parser stage is abstract (a state machine that turns every chunk read into
    the writes it requests); the real parser is the subject of C15.  *)
From Coq Require Import List NArith Bool.
From AGH Require Import Base.FS.
Import ListNotations.
Local Open Scope N_scope.

(** ** Readers *)

Inductive rd := RData (d : data) | REof | RErr.
Definition reader := list rd.      (* exhausted list = EOF for ever *)

(** The served body arriving in [chunks]; [cut]: the connection breaks after
    them (an error, as net/http reports a body shorter than announced). *)
Definition serve (chunks : list data) (cut : bool) : reader :=
  map RData chunks ++ [if cut then RErr else REof].

(** What a consumer that reads until EOF or error receives, and whether the
    stream ended with EOF. *)
Fixpoint received (r : reader) : data :=
  match r with RData d :: r' => d ++ received r' | _ => [] end.

Fixpoint ends_ok (r : reader) : bool :=
  match r with RData _ :: r' => ends_ok r' | RErr :: _ => false | _ => true end.

(** io.LimitReader(r, n): when n elements have been delivered the next Read
    returns plain EOF without asking [r]. *)
Fixpoint std_limit (r : reader) (n : N) : reader :=
  match r with
  | RData d :: r' =>
      if n =? 0 then [REof]
      else if nlen d <=? n then RData d :: std_limit r' (n - nlen d)
      else [RData (firstn (N.to_nat n) d); REof]
  | x :: _ => if n =? 0 then [REof] else [x]
  | [] => []
  end.

(** golibs ioutil.LimitReader(r, n): when n elements have been delivered the
    next Read returns a *LimitError. *)
Fixpoint err_limit (r : reader) (n : N) : reader :=
  match r with
  | RData d :: r' =>
      if n =? 0 then [RErr]
      else if nlen d <=? n then RData d :: err_limit r' (n - nlen d)
      else [RData (firstn (N.to_nat n) d); RErr]
  | x :: _ => if n =? 0 then [RErr] else [x]
  | [] => []
  end.

(** ** Faults and outcomes *)

Inductive stage := AtOpen | AtSource | AtRead | AtWrite | AtSync | AtClose | AtRename.
Inductive outcome := Replaced | Skipped | Failed (st : stage).

Definition replaced (r : outcome) : bool := match r with Replaced => true | _ => false end.

(** Which system calls of the save fail.  [p_write = Some (k, n)]: the k-th
    write request gets only n elements onto the disk and then fails (a short
    write followed by ENOSPC / EFBIG / EIO; n = 0: nothing is written). *)
Record plan := { p_open : bool; p_write : option (nat * N); p_sync : bool; p_close : bool; p_rename : bool }.

Definition no_faults := {| p_open := false; p_write := None; p_sync := false; p_close := false; p_rename := false |}.

(** The write calls that reach the file, and whether all requests were served. *)
Fixpoint do_writes (ws : list data) (wf : option (nat * N)) : list data * bool :=
  match ws with
  | [] => ([], true)
  | w :: ws' =>
      match wf with
      | Some (O, n) => ((if n =? 0 then [] else [firstn (N.to_nat n) w]), false)
      | Some (S k, n) => let (p, ok) := do_writes ws' (Some (k, n)) in (w :: p, ok)
      | None => let (p, ok) := do_writes ws' None in (w :: p, ok)
      end
  end.

(** ** The system calls of one save *)

(** CloseAtomicallyReplace, followed (renameio.WriteFile: [cleanup]) or not
    (finalizeUpdate) by Cleanup when it failed.  After a failed fsync the
    descriptor is still open: Cleanup closes it. *)
Definition replace_ops (cleanup : bool) (fd : N) (tmp dst : path) (p : plan) : list op * outcome :=
  if p_sync p then ((if cleanup then [Close fd; Unlink tmp] else []), Failed AtSync)
  else if p_close p then (Fsync fd :: Close fd :: (if cleanup then [Unlink tmp] else []), Failed AtClose)
  else if p_rename p then (Fsync fd :: Close fd :: (if cleanup then [Unlink tmp] else []), Failed AtRename)
  else ([Fsync fd; Close fd; Rename tmp dst], Replaced).

Inductive ending := EAbort (st : stage) | ESkip | EReplace.

(** [done]: the write calls that reached the temporary file. *)
Definition save_ops (cleanup : bool) (fd : N) (tmp dst : path) (done : list data) (e : ending) (p : plan)
  : list op * outcome :=
  if p_open p then ([], Failed AtOpen)
  else
    let pre := Open fd tmp fl_tmp :: map (Write fd) done in
    match e with
    | EAbort st => (pre ++ [Close fd; Unlink tmp], Failed st)
    | ESkip => (pre ++ [Close fd; Unlink tmp], Skipped)
    | EReplace => let (o, r) := replace_ops cleanup fd tmp dst p in (pre ++ o, r)
    end.

(** renameio.WriteFile of the serialised configuration / lease table.
    [chunks]: the pieces in which the kernel accepts the one Write(data)
    (os.File.Write continues after a short write); the new version is
    [concat chunks]. *)
Definition write_file (fd : N) (tmp dst : path) (chunks : list data) (p : plan) : list op * outcome :=
  let (done, ok) := do_writes chunks (p_write p) in
  save_ops true fd tmp dst done (if ok then EReplace else EAbort AtWrite) p.

(** renameio.TempDir probing whether $TMPDIR is on the mount of the
    destination (only when $TMPDIR exists): two empty files, one renamed over
    the other.  Seen in the traces before the save proper; judged by the
    generic checker only. *)
Definition probe_ops (fd1 : N) (p1 : path) (fd2 : N) (p2 : path) (rename_fails : bool) : list op :=
  [Open fd1 p1 fl_tmp; Close fd1; Open fd2 p2 fl_tmp; Close fd2] ++
  (if rename_fails then [Unlink p2; Unlink p1] else [Rename p1 p2; Unlink p2]).

(** ** The download path: reader -> parser -> pending file *)

Section Update.
  Variable St : Type.
  Variable st0 : St.
  (** the parser consumes a chunk: [None] = it rejects the input (HTML, binary
      character, line too long), else the new state and the writes requested *)
  Variable feed : St -> data -> option (St * list data).
  (** end of input: the last, unterminated line *)
  Variable finish : St -> option (list data).
  (** checksum of the output *)
  Variable sum : data -> N.

  (** The copy loop: read until EOF; an error of the reader or of the parser
      aborts.  Result: the writes requested so far, and whether the input was
      consumed to its end. *)
  Fixpoint pump (st : St) (r : reader) : list data * bool :=
    match r with
    | RData d :: r' =>
        match feed st d with
        | Some (st', ws) => let (ws', ok) := pump st' r' in (ws ++ ws', ok)
        | None => ([], false)
        end
    | RErr :: _ => ([], false)
    | _ => match finish st with Some ws => (ws, true) | None => ([], false) end
    end.

  (** updateIntl + finalizeUpdate.  [src_ok = false]: the reader could not be
      opened (status code, connection refused, unreadable file). *)
  Definition update_list (fd : N) (tmp dst : path) (src_ok : bool) (r : reader) (old_sum : N) (p : plan)
    : list op * outcome :=
    if negb src_ok then save_ops false fd tmp dst [] (EAbort AtSource) p
    else
      let (ws, rok) := pump st0 r in
      let (done, wok) := do_writes ws (p_write p) in
      let e := if negb wok then EAbort AtWrite
               else if negb rok then EAbort AtRead
               else if sum (concat ws) =? old_sum then ESkip
               else EReplace in
      save_ops false fd tmp dst done e p.

  (** The normal form of a whole body: what the parser writes when the body
      arrives in one piece. *)
  Definition norm (st : St) (body : data) : option data :=
    match feed st body with
    | Some (st', ws) => match finish st' with Some ws' => Some (concat (ws ++ ws')) | None => None end
    | None => None
    end.
End Update.

(** Two parser stages for examples: the identity, and one that drops every
    element for which [keep] is false (a comment filter at element level). *)
Definition id_feed (st : unit) (d : data) : option (unit * list data) := Some (st, [d]).
Definition id_finish (st : unit) : option (list data) := Some [].
Definition filter_feed (keep : N -> bool) (st : unit) (d : data) : option (unit * list data) :=
  Some (st, [filter keep d]).
Definition len_sum (d : data) : N := nlen d.

(** ** For the evaluator: decidable equality of operations *)

Definition bool_eqb (a b : bool) : bool := if a then b else negb b.
Definition data_eqb : data -> data -> bool :=
  fix go (a b : data) : bool :=
    match a, b with
    | [], [] => true
    | x :: a', y :: b' => (x =? y) && go a' b'
    | _, _ => false
    end.

Definition oflags_eqb (a b : oflags) : bool :=
  bool_eqb (o_creat a) (o_creat b) && bool_eqb (o_excl a) (o_excl b) && bool_eqb (o_trunc a) (o_trunc b) &&
  bool_eqb (o_wr a) (o_wr b) && bool_eqb (o_app a) (o_app b).

Definition op_eqb (a b : op) : bool :=
  match a, b with
  | Open f p fl, Open f' p' fl' => (f =? f') && (p =? p') && oflags_eqb fl fl'
  | Write f d, Write f' d' => (f =? f') && data_eqb d d'
  | PWriteAt f o d, PWriteAt f' o' d' => (f =? f') && (o =? o') && data_eqb d d'
  | Fsync f, Fsync f' => f =? f'
  | Close f, Close f' => f =? f'
  | Rename x y, Rename x' y' => (x =? x') && (y =? y')
  | Unlink x, Unlink x' => x =? x'
  | Ftruncate f n, Ftruncate f' n' => (f =? f') && (n =? n')
  | TruncatePath x n, TruncatePath x' n' => (x =? x') && (n =? n')
  | _, _ => false
  end.

Fixpoint ops_eqb (a b : list op) : bool :=
  match a, b with
  | [], [] => true
  | x :: a', y :: b' => op_eqb x y && ops_eqb a' b'
  | _, _ => false
  end.

(** the data of the write calls of a trace segment, in order *)
Fixpoint writes_of (t : list op) : list data :=
  match t with
  | Write _ d :: t' => d :: writes_of t'
  | _ :: t' => writes_of t'
  | [] => []
  end.

(** ** Round 5 (I): the scanner buffer as a resource; overlapping downloads

    rulelist.Parser.Parse scans the reader through a buffer it is handed
    ([bufio.Scanner.Buffer(buf, ...)]); updateIntl takes that buffer from
    DNSFilter.bufPool ([Get]) and gives it back with a DEFERRED [Put], that is
    after Parse has returned.  Several downloads may run at the same time
    (periodic refresh, add_url and set_url call DNSFilter.update without a
    common lock), all drawing from the one pool.

    The parser stage of the section above is made concrete here in so far as
    the buffer is concerned: the stage's state is the parser's own state [PS]
    (private to the download) plus the bytes the scanner has read but not yet
    consumed (the unterminated end of the last chunk), and THOSE live in the
    pool's buffer.  A buffer is a cell of shared memory; the window of the
    backing array that a scanner uses is represented by its contents.  Lines
    are split at [nl]; the per-line processing stays abstract ([pl]: reject,
    or the next state and the writes requested for the line).  Not modelled:
    the scanner dropping a CR before the terminator, its growing a private
    buffer for a line that does not fit (then the pooled one is no longer in
    use), the 64 KiB token limit (C15's). *)

Definition nl : N := 10.

(** [split_nl cur d]: the complete lines of [cur ++ d] (without their
    terminators) and the unterminated rest. *)
Fixpoint split_nl (cur d : data) : list data * data :=
  match d with
  | [] => ([], cur)
  | x :: d' =>
      if x =? nl then let (ls, r) := split_nl [] d' in (cur :: ls, r)
      else split_nl (cur ++ [x]) d'
  end.

Section Buffered.
  Variable PS : Type.
  Variable ps0 : PS.
  (** processLine: [None] = the line is rejected (HTML, binary character) *)
  Variable pl : PS -> data -> option (PS * list data).

  Fixpoint lines_fold (ps : PS) (ls : list data) : option (PS * list data) :=
    match ls with
    | [] => Some (ps, [])
    | l :: r =>
        match pl ps l with
        | Some (ps1, w1) =>
            match lines_fold ps1 r with
            | Some (ps2, w2) => Some (ps2, w1 ++ w2)
            | None => None
            end
        | None => None
        end
    end.

  (** The stage of [pump] with the buffer contents explicit. *)
  Definition bst := (PS * data)%type.

  Definition buf_feed (st : bst) (d : data) : option (bst * list data) :=
    let (ls, rest) := split_nl (snd st) d in
    match lines_fold (fst st) ls with
    | Some (ps', ws) => Some ((ps', rest), ws)
    | None => None
    end.

  (** end of input: a non-empty unterminated rest is the last line *)
  Definition buf_finish (st : bst) : option (list data) :=
    match snd st with
    | [] => Some []
    | l => match pl (fst st) l with Some (_, ws) => Some ws | None => None end
    end.

  (** *** The pool and the downloads drawing from it *)

  Inductive sphase := SNew | SCopy | SEnded (ok : bool).

  (** One download: what it has still to read, its parser state, the buffer
      it scans through, the writes it has requested so far. *)
  Record saver := { sv_phase : sphase; sv_in : reader; sv_ps : PS; sv_buf : N; sv_ws : list data }.

  (** [po_cells]: the contents of every buffer ever allocated; [po_free]: the
      pool (sync.Pool on one P: last in, first out); [po_next]: the next
      buffer [New] makes. *)
  Record pool := { po_cells : amap data; po_free : list N; po_next : N; po_savers : amap saver }.

  Definition cell (w : pool) (b : N) : data :=
    match aget (po_cells w) b with Some c => c | None => [] end.

  Definition new_saver (r : reader) : saver :=
    {| sv_phase := SNew; sv_in := r; sv_ps := ps0; sv_buf := 0; sv_ws := [] |}.

  Definition pinit (inputs : amap reader) : pool :=
    {| po_cells := []; po_free := []; po_next := 0;
       po_savers := map (fun ir => (fst ir, new_saver (snd ir))) inputs |}.

  (** The download is over: with the code's DEFERRED Put the buffer goes back
      to the pool now; with the early Put ([early = true], the refuted
      variant) it went back before the first read. *)
  Definition end_saver (early : bool) (w : pool) (i : N) (sv : saver) (ok : bool) (ws : list data) : pool :=
    {| po_cells := po_cells w;
       po_free := if early then po_free w else sv_buf sv :: po_free w;
       po_next := po_next w;
       po_savers := aset (po_savers w) i
                      {| sv_phase := SEnded ok; sv_in := []; sv_ps := sv_ps sv; sv_buf := sv_buf sv; sv_ws := ws |} |}.

  (** One step of download [i]: [SNew]: bufPool.Get (a new scanner's window is
      empty, whatever the buffer held); [SCopy]: one Read result is consumed
      (chunk: scanned together with what the buffer holds, the complete lines
      processed, the rest left in the buffer; EOF: the rest is the last line;
      error / rejected line: the download fails). *)
  Definition pstep (early : bool) (w : pool) (i : N) : pool :=
    match aget (po_savers w) i with
    | None => w
    | Some sv =>
        match sv_phase sv with
        | SNew =>
            let '(b, fr, nx) := match po_free w with
                                | b :: f => (b, f, po_next w)
                                | [] => (po_next w, [], po_next w + 1)
                                end in
            {| po_cells := aset (po_cells w) b [];
               po_free := if early then b :: fr else fr;
               po_next := nx;
               po_savers := aset (po_savers w) i
                              {| sv_phase := SCopy; sv_in := sv_in sv; sv_ps := sv_ps sv; sv_buf := b; sv_ws := sv_ws sv |} |}
        | SCopy =>
            let b := sv_buf sv in
            match sv_in sv with
            | RData d :: r' =>
                match buf_feed (sv_ps sv, cell w b) d with
                | Some ((ps', rest), ws) =>
                    {| po_cells := aset (po_cells w) b rest;
                       po_free := po_free w;
                       po_next := po_next w;
                       po_savers := aset (po_savers w) i
                                      {| sv_phase := SCopy; sv_in := r'; sv_ps := ps'; sv_buf := b; sv_ws := sv_ws sv ++ ws |} |}
                | None => end_saver early w i sv false (sv_ws sv)
                end
            | RErr :: _ => end_saver early w i sv false (sv_ws sv)
            | _ =>
                match buf_finish (sv_ps sv, cell w b) with
                | Some ws => end_saver early w i sv true (sv_ws sv ++ ws)
                | None => end_saver early w i sv false (sv_ws sv)
                end
            end
        | SEnded _ => w
        end
    end.

  (** A schedule names, step by step, the download that moves. *)
  Definition prun (early : bool) (w : pool) (sched : list N) : pool := fold_left (pstep early) sched w.

  (** What download [i] requested to be written and whether it read its input
      to the end; [None]: not finished. *)
  Definition saver_result (w : pool) (i : N) : option (list data * bool) :=
    match aget (po_savers w) i with
    | Some sv => match sv_phase sv with SEnded ok => Some (sv_ws sv, ok) | _ => None end
    | None => None
    end.
End Buffered.

(** ** Round 5 (J): what filterSetProperties (set_url) does with the list file

    Only what decides the file: the entry's URL (a number), its enabled flag
    and the checksum in memory.  Mirrored from the code as it is: a URL that
    another list has is refused before anything changes; a URL change
    unloads (checksum 0); a download is made iff the list is enabled
    afterwards and the URL or the flag changed; [err == nil && !updated]
    ("the new contents have no rules", fix 9598232) removes the stored file
    (ENOENT tolerated, another error of the removal is reported); a list
    disabled afterwards is unloaded, its file stays; on any error the entry is
    rolled back.  [guard = false] is the refuted variant in which the removal
    is guarded by [!updated] alone. *)
Section SetUrl.
  Variable St : Type.
  Variable st0 : St.
  Variable feed : St -> data -> option (St * list data).
  Variable finish : St -> option (list data).
  Variable sum : data -> N.

  Record entry := { e_url : N; e_enabled : bool; e_sum : N }.
  Record request := { q_url : N; q_enabled : bool }.
  Inductive set_res := SetErr | SetOk (restart : bool).

  Definition dst_present (s : fs) (dst : path) : bool :=
    match aget (dir_cur s) dst with Some _ => true | None => false end.

  (** os.Remove(dst): no operation when there is no file (ENOENT) or when the
      removal fails for another reason ([rm_fails]). *)
  Definition remove_ops (s : fs) (dst : path) (rm_fails : bool) : list op * bool :=
    if dst_present s dst then (if rm_fails then ([], false) else ([Unlink dst], true))
    else ([], true).

  Definition set_props (guard : bool) (s : fs) (e : entry) (url_taken : bool) (q : request)
             (fd : N) (tmp dst : path) (src_ok : bool) (r : reader) (p : plan) (rm_fails : bool)
    : list op * set_res * entry :=
    let url_changes := negb (e_url e =? q_url q) in
    if url_changes && url_taken then ([], SetErr, e)
    else
      let sum1 := if url_changes then 0 else e_sum e in
      let restart1 := url_changes || negb (bool_eqb (e_enabled e) (q_enabled q)) in
      if q_enabled q then
        if restart1 then
          let (ops, o) := update_list St st0 feed finish sum fd tmp dst src_ok r sum1 p in
          match o with
          | Replaced =>
              (ops, SetOk true,
               {| e_url := q_url q; e_enabled := true; e_sum := sum (concat (fst (pump St feed finish st0 r))) |})
          | Skipped =>
              let (rm, rm_ok) := remove_ops s dst rm_fails in
              if rm_ok then (ops ++ rm, SetOk true, {| e_url := q_url q; e_enabled := true; e_sum := sum1 |})
              else (ops ++ rm, SetErr, e)
          | Failed _ =>
              if guard then (ops, SetErr, e)
              else let (rm, _) := remove_ops s dst rm_fails in (ops ++ rm, SetErr, e)
          end
        else ([], SetOk false, {| e_url := q_url q; e_enabled := true; e_sum := sum1 |})
      else ([], SetOk restart1, {| e_url := q_url q; e_enabled := false; e_sum := 0 |}).
End SetUrl.

(** For the evaluator: a line processor for the fragment of rule-list syntax
    the C14 list scenarios generate (no white space except the terminator, no
    title handling: a title line is a comment): empty lines and lines starting
    with '!' or '#' are dropped; a byte below 32 other than TAB, or 127,
    rejects; a line starting with '<' before the first rule rejects (the HTML
    pages served all start with "<!DOCTYPE html>" or "<html>"); every other
    line is written with its terminator.  State: whether a rule was written. *)
Definition simple_pl (written : bool) (l : data) : option (bool * list data) :=
  match l with
  | [] => Some (written, [])
  | c :: _ =>
      if (c =? 33) || (c =? 35) then Some (written, [])
      else if negb written && (c =? 60) then None
      else if existsb (fun b => ((b <? 32) && negb (b =? 9)) || (b =? 127)) l then None
      else Some (true, [l ++ [nl]])
  end.

(** An injective "checksum" for the evaluator (the code's is CRC-32: equal
    for equal contents; distinct generated contents are assumed not to
    collide). *)
Definition big_sum (d : data) : N := fold_left (fun a x => a * 257 + x + 1) d 0.

(** ** Round 6 (L): the HTTP status of a list download

    DNSFilter.readerFromURL asks d.conf.HTTPClient.Get and opens a reader on
    the body ONLY when the status of the final response is 200; every other
    status is an error of the source (the pending file is cleaned up, the
    stored list stays).  The client follows redirects by itself (net/http:
    301, 302, 303, 307, 308 carrying a Location; at most [max_redirects] hops,
    then an error); a 3xx answer without Location, 300, 304 ... come back as
    they are and are refused like any status that is not 200.

    The list server is a map from URLs (numbers) to answers.  [fetch] is what
    Get returns: the status and the body of the LAST response of the chain, or
    nothing (connection refused, too many redirects).  [accept] is the status
    test: [only_200] as the code is, [any_2xx] the refuted variant. *)

Inductive answer :=
  | ARedirect (to : N)                                  (* 3xx with a Location *)
  | AServe (status : N) (chunks : list data) (cut : bool)
  | ADown.

Fixpoint fetch (fuel : nat) (web : N -> answer) (u : N) : option (N * reader) :=
  match web u with
  | ADown => None
  | AServe st chunks cut => Some (st, serve chunks cut)
  | ARedirect to => match fuel with O => None | S f => fetch f web to end
  end.

(** net/http defaultCheckRedirect: the 10th redirect of a chain is refused. *)
Definition max_redirects : nat := 9.

Definition only_200 (st : N) : bool := st =? 200.
Definition any_2xx (st : N) : bool := (200 <=? st) && (st <? 300).

Section UpdateUrl.
  Variable St : Type.
  Variable st0 : St.
  Variable feed : St -> data -> option (St * list data).
  Variable finish : St -> option (list data).
  Variable sum : data -> N.

  (** updateIntl on an HTTP URL: the pending file first, then Get. *)
  Definition update_from_url (accept : N -> bool) (fuel : nat) (web : N -> answer) (u : N)
             (fd : N) (tmp dst : path) (old_sum : N) (p : plan) : list op * outcome :=
    match fetch fuel web u with
    | Some (st, r) => update_list St st0 feed finish sum fd tmp dst (accept st) r old_sum p
    | None => update_list St st0 feed finish sum fd tmp dst false [] old_sum p
    end.
End UpdateUrl.

(** ** Round 6 (K): the migration of the legacy lease database

    dhcpd.migrateDB (run by Create at every start): read <work>/leases.db
    (absent: nothing to do; unreadable or not decodable: error, nothing
    written); convert; writeDB(<data>/leases.json) = renameio.WriteFile;
    ONLY when that succeeded os.Remove(leases.db) (its error is returned).
    The lease data live in TWO paths during this save: [old] (legacy) and
    [dst].  [conv]: decoding + conversion + serialisation of the legacy
    content, abstract ("null" decodes to no table at all: nothing to
    migrate).  [guard = false] is the refuted variant whose removal does not
    look at the result of the write (deferred, unconditional). *)

Inductive conv_res := ConvNothing | ConvErr | ConvNew (chunks : list data).
Inductive mig_res := MigNothing | MigDone | MigErr.

(** What follows the write: [w] = operations and outcome of the write. *)
Definition migrate_tail (guard : bool) (old : path) (w : list op * outcome) (rm_fails : bool) : list op * mig_res :=
  match snd w with
  | Replaced => if rm_fails then (fst w, MigErr) else (fst w ++ [Unlink old], MigDone)
  | _ => if guard then (fst w, MigErr)
         else (fst w ++ (if rm_fails then [] else [Unlink old]), MigErr)
  end.

Definition migrate (guard : bool) (s : fs) (old dst : path) (fd : N) (tmp : path) (readable : bool)
           (conv : data -> conv_res) (p : plan) (rm_fails : bool) : list op * mig_res :=
  match live_view s old with
  | None => ([], MigNothing)
  | Some oc =>
      if negb readable then ([], MigErr)
      else match conv oc with
           | ConvNothing => ([], MigNothing)
           | ConvErr => ([], MigErr)
           | ConvNew chunks => migrate_tail guard old (write_file fd tmp dst chunks p) rm_fails
           end
  end.

(** What can be read at TWO paths at the same moment: now, and after a crash
    now (one directory of the journal for both paths; per file any crash
    content). *)
Definition dviews (d : dir) (s : fs) (p : path) : list (option data) :=
  match aget d p with
  | Some i => map Some (crash_contents (file_of s i))
  | None => [None]
  end.

Definition crash_pairs (s : fs) (p q : path) : list (option data * option data) :=
  flat_map (fun d => list_prod (dviews d s p) (dviews d s q)) (all_dirs s).

Fixpoint visible_pairs (s : fs) (t : list op) (p q : path) : list (option data * option data) :=
  ((live_view s p, live_view s q) :: crash_pairs s p q) ++
  match t with
  | [] => []
  | o :: t' => visible_pairs (step s o) t' p q
  end.

(** ** Round 7 (N): the identity of the destination path: list ids

    Every list of BOTH arrays (block lists, allow lists) is stored at
    data/filters/<id>.txt: two lists with one id share one file, and the
    (atomic) save of one replaces the other's.  Ids come from one generator
    (DNSFilter.idGen): filtering.New seeds it ([seed]; as the code is: the
    Unix time of the start, an oracle value [now]), add_url takes [next] = the
    counter incremented.  Not modelled: lists without an id in the
    configuration (loadFilters gives them the next id) and idGenerator.fix
    (duplicates INSIDE one array are renumbered at start-up; it never compares
    the two arrays): the configurations considered have non-zero ids, distinct
    over both arrays. *)

Record idstate := { ids_block : list N; ids_allow : list N; id_cur : N }.

Inductive idop :=
  | IRestart (now : N)        (* filtering.New; [now]: the clock at that moment *)
  | IAdd (allow : bool).      (* add_url (a successful one: the list is appended) *)

Definition ids_all (st : idstate) : list N := ids_block st ++ ids_allow st.

Definition lmax (l : list N) : N := fold_right N.max 0 l.

(** the seed of the generator at a start: as the code is, and the refuted
    variant (the largest id of the BLOCK lists only) *)
Definition seed_clock (now : N) (st : idstate) : N := now.
Definition seed_max_block (now : N) (st : idstate) : N := lmax (ids_block st).

Definition idstep (seed : N -> idstate -> N) (st : idstate) (o : idop) : idstate :=
  match o with
  | IRestart now => {| ids_block := ids_block st; ids_allow := ids_allow st; id_cur := seed now st |}
  | IAdd allow =>
      let i := id_cur st + 1 in
      if allow then {| ids_block := ids_block st; ids_allow := ids_allow st ++ [i]; id_cur := i |}
      else {| ids_block := ids_block st ++ [i]; ids_allow := ids_allow st; id_cur := i |}
  end.

Definition idrun (seed : N -> idstate -> N) (st : idstate) (ops : list idop) : idstate :=
  fold_left (idstep seed) ops st.

(** THE ASSUMPTION on the code as it is: at every start the clock reads at
    least every id in use (ids in the configuration are timestamps of the
    past, plus the lists added since).  A restart within the second of the
    previous start after an add_url breaks it (DESIGN section 14). *)
Fixpoint clock_ahead (st : idstate) (ops : list idop) : Prop :=
  match ops with
  | [] => True
  | o :: r =>
      match o with IRestart now => lmax (ids_all st) <= now | IAdd _ => True end /\
      clock_ahead (idstep seed_clock st o) r
  end.

(** Round 7 (M): what a start does to a list's entry: New loads (computes the
    checksum of) the ENABLED lists only; a disabled list has no checksum in
    memory.  [load_disabled = true] is the refuted variant. *)
Definition start_sum (load_disabled : bool) (sum : data -> N) (enabled : bool) (file : option data) : N :=
  if enabled || load_disabled then match file with Some c => sum c | None => 0 end else 0.

(** ** Round 8 (O): remove_url and the files of the OTHER lists

    handleFilteringRemoveURL: the entry at index [k] of its array is looked up,
    ITS file <id>.txt is renamed to <id>.txt.old (a missing file is tolerated,
    another error leaves everything as it was), then the entry is deleted from
    the array.  Result: the array afterwards and the id whose file was renamed
    away.  [after_delete = true] is the refuted variant: the path is computed
    through a pointer into the array AFTER slices.Delete shifted the tail, so
    it is the path of the FOLLOWING list. *)
Definition remove_at (arr : list N) (k : nat) : list N := firstn k arr ++ skipn (S k) arr.

Definition remove_list (after_delete : bool) (arr : list N) (k : nat) : list N * option N :=
  match nth_error arr k with
  | None => (arr, None)                       (* no such list: nothing happens *)
  | Some id =>
      let arr' := remove_at arr k in
      (arr', if after_delete then nth_error arr' k else Some id)
  end.

(** ** Round 8 (P): the updater's copy of supporting files

    updater.copySupportingFiles copies entries of the update package over the
    files of the working directory IN PLACE (os.WriteFile: the only raw
    in-place writer whose destination directory holds one of the property's
    files), by base name; it skips the names of the executable and of the
    configuration file.  Names as codes: 0 AdGuardHome, 1 AdGuardHome.exe,
    2 AdGuardHome.yaml, 3 and above: anything else.  (The lease database and
    the list files live below data/, which a base name cannot reach.) *)
Definition supporting_skipped (name_code : N) : bool := name_code <? 3.

(** C17: executable model of where filter lists are read from.

    Mirrors internal/filtering: validateFilterURL (http.go), reader / update /
    updateIntl / refreshFiltersArray / filterSetProperties / filterAdd
    (filter.go), pathMatchesAny (path.go), with filepath.Clean = Base/PathClean
    and filepath.Match = Base/Glob.  No proofs in this file.

    The world outside (which files and directories exist, what the HTTP client
    can fetch, which strings net/url accepts as http(s) URLs) is a parameter;
    file contents are abstracted to a non-zero marker number, and a list's
    checksum to the marker of the content it was computed from. *)
From Coq Require Import List NArith Bool.
From AGH Require Import Base.Run Base.Bytes Base.PathClean Base.Glob.
Import ListNotations.
Local Open Scope N_scope.

Inductive rej :=
  | RNotExist      (* os.Stat failed *)
  | RUnsafe        (* no safe pattern matches *)
  | RBadURL        (* not a path, not an http(s) URL *)
  | RPanic         (* pathMatchesAny panicked: malformed pattern reached *)
  | RFuel.         (* never: fuel of the glob matcher *)

Inductive source := OpenFile (p : bytes) | HttpGet (u : bytes) | Reject (k : rej).

(** pathMatchesAny *)
Inductive pm_res := PmYes | PmNo | PmBad (k : rej).

Fixpoint any_match (pats : list bytes) (p : bytes) : pm_res :=
  match pats with
  | [] => PmNo
  | g :: r =>
      match glob_match g p with
      | GOk true => PmYes
      | GOk false => any_match r p
      | GBad => PmBad RPanic
      | GFuel => PmBad RFuel
      end
  end.

Definition path_matches_any (pats : list bytes) (p : bytes) : pm_res :=
  match pats with
  | [] => PmNo
  | _ :: _ =>
      (* filepath.Abs(p) != p panics; for an absolute p, Abs is Clean *)
      if negb (is_abs p && eqb_bytes (clean p) p) then PmBad RPanic
      else any_match pats p
  end.

(** DNSFilter.reader: what is opened for a list location at download time. *)
Definition reader (pats : list bytes) (loc : bytes) : source :=
  if negb (is_abs loc) then HttpGet loc
  else
    let p := clean loc in
    match path_matches_any pats p with
    | PmYes => OpenFile p
    | PmNo => Reject RUnsafe
    | PmBad k => Reject k
    end.

(** DNSFilter.validateFilterURL; [None] = accepted. *)
Definition validate_url (pats : list bytes) (exists_ url_ok : bytes -> bool) (loc : bytes)
  : option rej :=
  if is_abs loc then
    let p := clean loc in
    if negb (exists_ p) then Some RNotExist
    else match path_matches_any pats p with
         | PmYes => None
         | PmNo => Some RUnsafe
         | PmBad k => Some k
         end
  else if url_ok loc then None else Some RBadURL.

(** * The world and the state *)

Record world := {
  w_pats : list bytes;             (* safe_fs_patterns *)
  w_files : list (bytes * N);      (* regular files: clean absolute path, marker of the content *)
  w_dirs : list bytes;             (* other things os.Stat finds *)
  w_http : list (bytes * N);       (* URLs the HTTP client can fetch, marker of the body *)
  w_urlok : list bytes             (* strings accepted by url.ParseRequestURI + ValidateHTTPURL *)
}.

Fixpoint lookup (k : bytes) (l : list (bytes * N)) : option N :=
  match l with
  | [] => None
  | (k', v) :: r => if eqb_bytes k k' then Some v else lookup k r
  end.

Definition mem_bytes (k : bytes) (l : list bytes) : bool := existsb (eqb_bytes k) l.

Definition w_exists (w : world) (p : bytes) : bool :=
  match lookup p (w_files w) with Some _ => true | None => mem_bytes p (w_dirs w) end.

Definition w_url_ok (w : world) (u : bytes) : bool := mem_bytes u (w_urlok w).

(** What reading the source yields: the marker of the content, if it can be read. *)
Definition fetch (w : world) (s : source) : option N :=
  match s with
  | OpenFile p => lookup p (w_files w)
  | HttpGet u => lookup u (w_http w)
  | Reject _ => None
  end.

(** The HTTP client as the world sees it is the table [w_http]: what comes
    back for a location handed to [HttpGet].  A marker names a content; the
    hypothesis under which the property can hold at all is that the client
    never hands back the content of a local file (it speaks http(s) only; a
    transport with a handler for the file scheme would).  Executable form,
    evaluated by the harness on what the client that package home really
    builds returned for every spelling it was given. *)
Definition is_file_marker (files : list (bytes * N)) (m : N) : bool :=
  existsb (fun x => snd x =? m) files.

Definition client_no_local_b (files http : list (bytes * N)) : bool :=
  forallb (fun x => negb (is_file_marker files (snd x))) http.

Record flt := {
  f_url : bytes;
  f_enabled : bool;
  f_loaded : N;      (* marker of the content of data/filters/<id>.txt, 0 = no file *)
  f_sum : N          (* marker whose checksum the entry remembers, 0 = none *)
}.

Record state := { s_block : list flt; s_allow : list flt }.

Definition event := (bytes * source)%type.      (* location, what reader chose for it *)

Inductive status :=
  | SOk (updated : N)
  | SRejected (k : rej)
  | SExists
  | SNotFound
  | SFetchFail
  | SPanic.

Inductive op :=
  | OAdd (loc : bytes) (white : bool)
  | OSetUrl (old new : bytes) (enabled white : bool)
  | ORefresh (white : bool)
  | OPeriodic (due : list bytes).

Definition url_exists (st : state) (u : bytes) : bool :=
  existsb (fun f => eqb_bytes (f_url f) u) (s_block st) ||
  existsb (fun f => eqb_bytes (f_url f) u) (s_allow st).

Definition get_list (st : state) (white : bool) := if white then s_allow st else s_block st.
Definition set_list (st : state) (white : bool) (l : list flt) : state :=
  if white then {| s_block := s_block st; s_allow := l |}
  else {| s_block := l; s_allow := s_allow st |}.

(** DNSFilter.update on one entry. *)
Inductive upd_res := UErr | UPanic | USame | UNew (m : N).

Definition update (w : world) (f : flt) : event * upd_res :=
  let src := reader (w_pats w) (f_url f) in
  ((f_url f, src),
   match src with
   | Reject RPanic => UPanic
   | _ => match fetch w src with
          | None => UErr
          | Some m => if m =? f_sum f then USame else UNew m
          end
   end).

Definition with_content (f : flt) (m : N) : flt :=
  {| f_url := f_url f; f_enabled := f_enabled f; f_loaded := m; f_sum := m |}.

(** handleFilteringAddURL *)
Definition add (w : world) (st : state) (loc : bytes) (white : bool)
  : state * status * list event :=
  match validate_url (w_pats w) (w_exists w) (w_url_ok w) loc with
  | Some RPanic => (st, SPanic, [])
  | Some k => (st, SRejected k, [])
  | None =>
      if url_exists st loc then (st, SExists, [])
      else
        let f0 := {| f_url := loc; f_enabled := true; f_loaded := 0; f_sum := 0 |} in
        let (ev, r) := update w f0 in
        match r with
        | UNew m => (set_list st white (get_list st white ++ [with_content f0 m]), SOk 0, [ev])
        | UPanic => (st, SPanic, [ev])
        | _ => (st, SFetchFail, [ev])
        end
  end.

Fixpoint replace_first (old : bytes) (g : flt -> flt) (l : list flt) : option (list flt) :=
  match l with
  | [] => None
  | f :: r =>
      if eqb_bytes (f_url f) old then Some (g f :: r)
      else option_map (cons f) (replace_first old g r)
  end.

Fixpoint find_first (old : bytes) (l : list flt) : option flt :=
  match l with
  | [] => None
  | f :: r => if eqb_bytes (f_url f) old then Some f else find_first old r
  end.

(** validateFilterURL + filterSetProperties, as in handleFilteringSetURL *)
Definition set_url (w : world) (st : state) (old new : bytes) (enabled white : bool)
  : state * status * list event :=
  match validate_url (w_pats w) (w_exists w) (w_url_ok w) new with
  | Some RPanic => (st, SPanic, [])
  | Some k => (st, SRejected k, [])
  | None =>
      match find_first old (get_list st white) with
      | None => (st, SNotFound, [])
      | Some f =>
          let url_changed := negb (eqb_bytes (f_url f) new) in
          if url_changed && url_exists st new then (st, SExists, [])
          else
            let restart := url_changed || negb (Bool.eqb (f_enabled f) enabled) in
            (* URL and flags set; unload() forgets the checksum when the URL changes *)
            let f1 := {| f_url := new; f_enabled := enabled; f_loaded := f_loaded f;
                         f_sum := if url_changed then 0 else f_sum f |} in
            let put g := match replace_first old g (get_list st white) with
                         | Some l => set_list st white l
                         | None => st
                         end in
            if enabled then
              if restart then
                let (ev, r) := update w f1 in
                match r with
                | UNew m => (put (fun _ => with_content f1 m), SOk 0, [ev])
                | USame =>
                    (* "no changes" against the forgotten checksum: the new contents
                       have no rules; the stored file is removed (fix 9598232) *)
                    (put (fun _ => {| f_url := f_url f1; f_enabled := f_enabled f1;
                                      f_loaded := 0; f_sum := f_sum f1 |}), SOk 0, [ev])
                | UErr =>
                    (* rolled back completely, the remembered checksum included
                       (fix fab89af) *)
                    (st, SFetchFail, [ev])
                | UPanic => (st, SPanic, [ev])
                end
              else (put (fun _ => f1), SOk 0, [])
            else
              (put (fun _ => {| f_url := new; f_enabled := false; f_loaded := f_loaded f;
                                f_sum := 0 |}), SOk 0, [])
      end
  end.

(** refreshFiltersArray with force: every enabled entry of one list goes
    through [update] in order; a panic aborts the rest, and then the
    remembered checksums are not written back (the files already are). *)
Fixpoint refresh_pass (w : world) (l : list flt) : list (flt * upd_res) * list event * bool :=
  match l with
  | [] => ([], [], false)
  | f :: r =>
      if f_enabled f then
        let (ev, res) := update w f in
        match res with
        | UPanic => (map (fun g => (g, UErr)) l, [ev], true)
        | _ => let '(rs, evs, dead) := refresh_pass w r in ((f, res) :: rs, ev :: evs, dead)
        end
      else
        let '(rs, evs, dead) := refresh_pass w r in ((f, UErr) :: rs, evs, dead)
  end.

Definition apply_refresh (dead : bool) (x : flt * upd_res) : flt :=
  let (f, r) := x in
  match r with
  | UNew m =>
      {| f_url := f_url f; f_enabled := f_enabled f; f_loaded := m;
         f_sum := if dead then f_sum f else m |}
  | _ => f
  end.

Definition count_new (l : list (flt * upd_res)) : N :=
  N.of_nat (length (filter (fun x => match snd x with UNew _ => true | _ => false end) l)).

Definition refresh (w : world) (st : state) (white : bool) : state * status * list event :=
  let '(rs, evs, dead) := refresh_pass w (get_list st white) in
  (set_list st white (map (apply_refresh dead) rs),
   if dead then SPanic else SOk (count_new rs), evs).

(** The periodic path: the timer of updatesLoop calls
    periodicallyRefreshFilters, which runs tryRefreshFilters(block, allow,
    force = false): listsToUpdate takes only the enabled entries whose
    LastUpdated + interval has passed (here: whose location is in [due]; the
    harness sets the time stamps), first over the block lists, then over the
    allow lists.  A panic in the first pass ends the call.  The number of
    updated lists is not returned to anybody. *)
Fixpoint refresh_pass_sel (w : world) (sel : flt -> bool) (l : list flt)
  : list (flt * upd_res) * list event * bool :=
  match l with
  | [] => ([], [], false)
  | f :: r =>
      if sel f then
        let (ev, res) := update w f in
        match res with
        | UPanic => (map (fun g => (g, UErr)) l, [ev], true)
        | _ => let '(rs, evs, dead) := refresh_pass_sel w sel r in ((f, res) :: rs, ev :: evs, dead)
        end
      else
        let '(rs, evs, dead) := refresh_pass_sel w sel r in ((f, UErr) :: rs, evs, dead)
  end.

Definition is_due (due : list bytes) (f : flt) : bool := f_enabled f && mem_bytes (f_url f) due.

Definition periodic (w : world) (st : state) (due : list bytes) : state * status * list event :=
  let '(rs, evs, dead) := refresh_pass_sel w (is_due due) (s_block st) in
  let st1 := set_list st false (map (apply_refresh dead) rs) in
  if dead then (st1, SPanic, evs)
  else
    let '(rs2, evs2, dead2) := refresh_pass_sel w (is_due due) (s_allow st1) in
    (set_list st1 true (map (apply_refresh dead2) rs2),
     if dead2 then SPanic else SOk 0, evs ++ evs2).

Definition step (w : world) (st : state) (o : op) : state * status * list event :=
  match o with
  | OAdd loc white => add w st loc white
  | OSetUrl old new enabled white => set_url w st old new enabled white
  | ORefresh white => refresh w st white
  | OPeriodic due => periodic w st due
  end.

(** A history: the statuses and the events of every step, and the final state. *)
Fixpoint run (w : world) (st : state) (ops : list op) : state * list (status * list event) :=
  match ops with
  | [] => (st, [])
  | o :: r =>
      let '(st1, s, evs) := step w st o in
      let (st2, outs) := run w st1 r in
      (st2, (s, evs) :: outs)
  end.

(** The states along a history (after each step), for the evaluator. *)
Fixpoint trace (w : world) (st : state) (ops : list op) : list (status * state) :=
  match ops with
  | [] => []
  | o :: r => let '(st1, s, _) := step w st o in (s, st1) :: trace w st1 r
  end.

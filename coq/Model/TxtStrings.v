(** C05, round 9b: txtStrings of internal/dnsforward/dnsrewrite.go (/repo
    cda17d7), which splits the value of a TXT $dnsrewrite rule into character
    strings a record can carry.  As the code is now.  No proofs here.

        for len(val) > 255 { strs = append(strs, val[:255]); val = val[255:] }
        return append(strs, val)

    The loop runs at most len(val) times: that is the fuel. *)
From Coq Require Import List NArith Arith.
Import ListNotations.

Definition max_txt_string_len : nat := 255.

Fixpoint txt_strings_fuel (fuel : nat) (v : list N) : list (list N) :=
  match fuel with
  | O => [v]
  | S f =>
      if max_txt_string_len <? length v
      then firstn max_txt_string_len v :: txt_strings_fuel f (skipn max_txt_string_len v)
      else [v]
  end.

Definition txt_strings (v : list N) : list (list N) := txt_strings_fuel (length v) v.

(** the value as one string, as before cda17d7 *)
Definition txt_unsplit (v : list N) : list (list N) := [v].

(** what a TXT record can carry: every character string at most 255 octets *)
Definition txt_fits (ss : list (list N)) : bool :=
  forallb (fun s => length s <=? max_txt_string_len) ss.

(** Model of the ignore engines of the query log and the statistics (C08):
    aghnet.NewIgnoreEngine (internal/aghnet/ignore.go) and IgnoreEngine.Has.
    No proofs here.

    NewIgnoreEngine joins the configured entries with "\n", lower-cases the
    WHOLE text (strings.ToLower) and hands it to urlfilter as one rule list;
    Has(host) = urlfilter.DNSEngine.Match(host) found something.

    What is modelled here is the path from the configured entry (bytes, in any
    letter case) to the rule urlfilter makes of it, for the entry forms

        [||] or [|] or nothing, then a body of [a-z0-9._-] and [*], then
        [^] or [|] or nothing

    i.e. plain names, [||d^], wildcards such as [*.d], the root [|.^], bare
    substrings.  For such a line rules.NewRule tries NewHostRule first: a line
    that filterutil.IsDomainName accepts becomes a hosts-style rule
    ("just domain" syntax, matched by exact, case-sensitive comparison with the
    host); every other line becomes a network rule whose pattern is the whole
    line (no options, no [@@]), unless the pattern is shorter than 3 bytes
    (ErrTooWideRule: the line is dropped by the rule scanner).  Pattern
    matching itself is [Base.RuleEngine.match_pattern] / [match_shortcut] (the
    urlfilter model of C01 / C02); [Proofs/IgnoreEngine.v] shows that
    [ignore_has] is [RuleEngine.match_request] on the corresponding rule list.

    Outside (the evaluator falls back to the oracle table read off the real
    engine): entries with options ([$…]), exceptions ([@@]), regular
    expressions, hosts-file lines with an address, comments, cosmetic
    markers, white space, non-ASCII bytes. *)
From Coq Require Import List NArith Bool.
From AGH Require Import Base.Run Base.RuleEngine.
Import ListNotations.
Local Open Scope N_scope.

(** * filterutil.IsDomainName, the state machine as written *)
Definition is_letter (c : N) : bool := ((65 <=? c) && (c <=? 90)) || ((97 <=? c) && (c <=? 122)).

Record dn := mkDn {
  dn_in_label : bool;      (* st = 2 (inside a label); st 0 / 1 otherwise *)
  dn_nlabel : N;           (* nLabel *)
  dn_prev : N;             (* prevChar *)
  dn_charonly : bool;      (* charOnly *)
  dn_xn : N                (* xn *)
}.

Definition dn_init : dn := mkDn false 0 0 true 0.

(** "xn--"[i] *)
Definition xn_at (i : N) : N := nth (N.to_nat i) [120; 110; 45; 45] 0.

(** One byte; [None] = return false. *)
Definition dn_step (s : dn) (c : N) : option dn :=
  let letter := is_letter c in
  if dn_in_label s then
    if c =? 46 then
      (if dn_prev s =? 45 then None else Some (mkDn false (dn_nlabel s) (dn_prev s) true 0))
    else if dn_nlabel s =? 63 then None
    else if negb letter && negb (is_digit c || (c =? 45)) then None
    else
      let xn := if 0 <? dn_xn s
                then (if dn_xn s <? 4 then (if c =? xn_at (dn_xn s) then dn_xn s + 1 else 0) else dn_xn s + 1)
                else 0 in
      Some (mkDn true (dn_nlabel s + 1) c (dn_charonly s && letter) xn)
  else
    if negb letter && negb (is_digit c) then None
    else Some (mkDn true 1 (dn_prev s) (dn_charonly s && letter)
                 (if letter && ((c =? 120) || (c =? 88)) then 1 else dn_xn s)).

Definition dn_run (name : bytes) : option dn :=
  fold_left (fun acc c => match acc with Some s => dn_step s c | None => None end) name (Some dn_init).

Definition is_domain_name (name : bytes) : bool :=
  if (253 <? length name)%nat then false else
  match dn_run name with
  | None => false
  | Some s => dn_in_label s && negb (dn_nlabel s =? 1) && (dn_charonly s || (8 <=? dn_xn s))
  end.

(** * The modelled entry forms (on the lower-cased line) *)
Definition is_lower_letter (c : N) : bool := (97 <=? c) && (c <=? 122).
Definition is_plain_char (c : N) : bool :=
  is_lower_letter c || is_digit c || (c =? 46) || (c =? 45) || (c =? 95).
Definition is_body_char (c : N) : bool := is_plain_char c || (c =? c_star).

Definition strip_anchor_prefix (l : bytes) : bytes :=
  match l with
  | 124 :: 124 :: r => r
  | 124 :: r => r
  | _ => l
  end.
Definition strip_anchor_suffix (l : bytes) : bytes :=
  match rev l with
  | c :: r => if (c =? c_caret) || (c =? c_pipe) then rev r else l
  | [] => l
  end.

Definition in_grammar (l : bytes) : bool :=
  let b := strip_anchor_suffix (strip_anchor_prefix l) in
  negb (Nat.eqb (length b) 0) && forallb is_body_char b.

(** What urlfilter makes of one line. *)
Inductive irule :=
  | IHost (name : bytes)       (* rules.HostRule{IP: 0.0.0.0, Hostnames: [name]} *)
  | INet (pattern : bytes).    (* rules.NetworkRule with this pattern and no options *)

Inductive entry :=
  | EOutside                   (* not a modelled form *)
  | ESkip                      (* ErrTooWideRule: no rule *)
  | ERule (r : irule).

Definition classify (l : bytes) : entry :=
  if negb (in_grammar l) then EOutside
  else if is_domain_name l then ERule (IHost l)
  else if (length l <? 3)%nat then ESkip
  else ERule (INet l).

(** aghnet.NewIgnoreEngine: every entry lower-cased; [None] if some entry is
    outside the modelled forms. *)
Definition add_entry (e : bytes) (acc : option (list irule)) : option (list irule) :=
  match classify (lower e), acc with
  | EOutside, _ => None
  | _, None => None
  | ESkip, Some rs => Some rs
  | ERule r, Some rs => Some (r :: rs)
  end.

Definition engine_of (entries : list bytes) : option (list irule) :=
  fold_right add_entry (Some []) entries.

(** * IgnoreEngine.Has *)
Definition irule_match (host : bytes) (r : irule) : bool :=
  match r with
  | IHost n => eqb_bytes host n
  | INet p => match_shortcut p host && match_pattern p host
  end.

(** DNSEngine.MatchRequest returns false for the empty host name. *)
Definition ignore_has (rs : list irule) (host : bytes) : bool :=
  match host with
  | [] => false
  | _ => existsb (irule_match host) rs
  end.

(** The engine of a configured list; [fallback] (the oracle table) answers
    when the list has an entry outside the modelled forms. *)
Definition ignore_fn (entries : list bytes) (fallback : bytes -> bool) : bytes -> bool :=
  match engine_of entries with
  | Some rs => ignore_has rs
  | None => fallback
  end.

(** A list of (name, Has name) pairs read off the real engine agrees with the
    modelled engine (vacuous when the list is outside the model). *)
Definition table_agrees (entries : list bytes) (tbl : list (bytes * bool)) : bool :=
  match engine_of entries with
  | Some rs => forallb (fun nb => Bool.eqb (ignore_has rs (fst nb)) (snd nb)) tbl
  | None => true
  end.

(** Lists of blocked-service ids and the entry points that store them
    (filtering/blocked.go): the deprecated POST /control/blocked_services/set
    stores the decoded list as it is; PUT /control/blocked_services/update
    (as filtering.New and the client handlers of package home) stores a list
    only when [BlockedServices.Validate] finds every id in the service
    table.  What a stored list means for a request is
    Model/Pipeline.services_list ([ApplyBlockedServicesList]: ids the table
    does not know are skipped, the others applied in order).  No proofs. *)
From Coq Require Import List NArith Bool.
From AGH Require Import Base.Run Base.NetAddr Base.RuleEngine Model.Pipeline.
Import ListNotations.

Definition svc_known (tbl : list (bytes * list nrule)) (id : bytes) : bool :=
  match lookup_service tbl id with Some _ => true | None => false end.

(** BlockedServices.Validate *)
Definition svc_valid (tbl : list (bytes * list nrule)) (ids : list bytes) : bool := forallb (svc_known tbl) ids.

Inductive svc_entry :=
  | SESet (ids : list bytes)       (* handleBlockedServicesSet: no validation *)
  | SEUpdate (ids : list bytes).   (* handleBlockedServicesUpdate: validated *)

(** The stored list afterwards and whether the request was accepted. *)
Definition svc_store (tbl : list (bytes * list nrule)) (stored : list bytes) (e : svc_entry) : list bytes * bool :=
  match e with
  | SESet ids => (ids, true)
  | SEUpdate ids => if svc_valid tbl ids then (ids, true) else (stored, false)
  end.

Definition svc_run (tbl : list (bytes * list nrule)) (stored : list bytes) (es : list svc_entry) : list bytes :=
  fold_left (fun s e => fst (svc_store tbl s e)) es stored.

(** The list with the ids the table does not know taken out. *)
Definition svc_known_only (tbl : list (bytes * list nrule)) (ids : list bytes) : list bytes :=
  filter (svc_known tbl) ids.

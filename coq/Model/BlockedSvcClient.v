(** Model of the request side of the blocked services (C18):
    internal/filtering/blocked.go [ApplyBlockedServices],
    [ApplyBlockedServicesList], [BlockedServices.Clone], and the
    blocked-services part of internal/filtering/filter.go
    [ApplyAdditionalFiltering], and of internal/client/storage.go
    [Storage.ApplyClientFiltering] on the client it found: the assignment
    [if c.UseOwnBlockedServices { setts.BlockedServices =
    c.BlockedServices.Clone() }], which stands BEFORE the early return
    [if !c.UseOwnSettings { return }], and after it the general settings of
    the client (represented by [FilteringEnabled]).  The two switches
    (use_global_blocked_services, use_global_settings in the configuration,
    both negated) are independent.  No proofs here.

    The code reads [time.Now()] twice: once in [ApplyBlockedServices] for the
    global schedule, once in [ApplyAdditionalFiltering] for the schedule of
    [setts.BlockedServices]; the model takes the two instants [t1], [t2].
    A zone is its name; what the name means is the section variable [zoff]
    (any tz database: name -> instant -> offset in seconds). *)
From Coq Require Import ZArith List Bool.
From AGH Require Import Base.Run Model.Schedule Model.ScheduleText Model.BlockedSvcHttp.
Import ListNotations.
Local Open Scope Z_scope.

(** [client.Persistent], the fields read here: [UseOwnSettings] and
    [FilteringEnabled] (one of the general settings it guards),
    [UseOwnBlockedServices] and [BlockedServices]. *)
Record client := { cl_use_own_settings : bool; cl_filtering : bool;
                   cl_use_own : bool; cl_bsvc : bsvc }.

(** [filtering.Settings], the fields written here: the names of
    [ServicesRules] (the rules of a name are the table's),
    [BlockedServices], and [FilteringEnabled]. *)
Record settings := { se_rules : list bytes; se_bsvc : option bsvc; se_filtering : bool }.

Definition set_rules (se : settings) (l : list bytes) : settings :=
  {| se_rules := l; se_bsvc := se_bsvc se; se_filtering := se_filtering se |}.

(** [BlockedServices.Clone] -> [Weekly.Clone] + [slices.Clone]: a copy field
    by field. *)
Definition clone_sched (sc : sched) : sched :=
  {| sc_zone := sc_zone sc; sc_days := map (fun r => {| dr_start := dr_start r; dr_end := dr_end r |}) (sc_days sc) |}.
Definition clone_bsvc (b : bsvc) : bsvc :=
  {| bs_ids := map (fun x => x) (bs_ids b); bs_sched := clone_sched (bs_sched b) |}.

Section Request.
  Variable zoff : bytes -> Z -> Z.
  Variable known : list bytes.

  (** [Schedule.Contains(now)] of a schedule stored with its zone. *)
  Definition paused (sc : sched) (t : Z) : bool :=
    contains (sc_days sc) (zoff (sc_zone sc)) t.

  (** [ApplyBlockedServicesList]: the loop appends the names found in the
      table, in order; an unknown name is logged and skipped. *)
  Definition apply_list (se : settings) (ids : list bytes) : settings :=
    set_rules se
      (fold_left (fun acc name => if id_known known name then acc ++ [name] else acc)
                 ids (se_rules se)).

  (** [ApplyBlockedServices]. *)
  Definition apply_blocked_services (g : bsvc) (t : Z) (se : settings) : settings :=
    let se := set_rules se [] in
    if negb (paused (bs_sched g) t) then apply_list se (bs_ids g) else se.

  (** [applyClientFiltering] = [Storage.ApplyClientFiltering] on the client
      found for the request ([None]: no persistent client). *)
  Definition apply_client_filtering (c : option client) (se : settings) : settings :=
    match c with
    | Some c =>
        let se :=
          if cl_use_own c
          then {| se_rules := se_rules se; se_bsvc := Some (clone_bsvc (cl_bsvc c));
                  se_filtering := se_filtering se |}
          else se in
        (* setts.ClientName, setts.ClientTags: not in the model *)
        if negb (cl_use_own_settings c) then se
        else {| se_rules := se_rules se; se_bsvc := se_bsvc se; se_filtering := cl_filtering c |}
    | None => se
    end.

  (** [ApplyAdditionalFiltering], the blocked-services part. *)
  Definition apply_additional_filtering (g : bsvc) (c : option client) (t1 t2 : Z)
      (se : settings) : settings :=
    let se := apply_blocked_services g t1 se in
    let se := apply_client_filtering c se in
    match se_bsvc se with
    | Some b =>
        let se := set_rules se [] in
        if negb (paused (bs_sched b) t2) then apply_list se (bs_ids b) else se
    | None => se
    end.

  (** The settings a request starts from ([DNSFilter.Settings()]: no
      services rules, no blocked services of a client, the global
      [FilteringEnabled]). *)
  Definition settings_of (gf : bool) : settings :=
    {| se_rules := []; se_bsvc := None; se_filtering := gf |}.
  Definition fresh_settings : settings := settings_of true.

  (** The names of the services blocked for a request. *)
  Definition request_services (g : bsvc) (c : option client) (t1 t2 : Z) : list bytes :=
    se_rules (apply_additional_filtering g c t1 t2 fresh_settings).

  (** [setts.FilteringEnabled] of a request when the global value is [gf]. *)
  Definition request_filtering (gf : bool) (g : bsvc) (c : option client) (t1 t2 : Z) : bool :=
    se_filtering (apply_additional_filtering g c t1 t2 (settings_of gf)).
End Request.

(** The shape of seeded change C18-I: the blocked-services assignment moved
    below the early return. *)
Definition apply_client_filtering_c18i (c : option client) (se : settings) : settings :=
  match c with
  | Some c =>
      if negb (cl_use_own_settings c) then se
      else
        let se :=
          if cl_use_own c
          then {| se_rules := se_rules se; se_bsvc := Some (clone_bsvc (cl_bsvc c));
                  se_filtering := se_filtering se |}
          else se in
        {| se_rules := se_rules se; se_bsvc := se_bsvc se; se_filtering := cl_filtering c |}
  | None => se
  end.

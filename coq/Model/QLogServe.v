(** C07 model, API layer (internal/querylog/http.go handleQueryLog,
    json.go entriesToJSON / entryToJSON): what GET /control/querylog shows for
    the entries that [handle] (Model/QLog.v) selects, and the anonymisation
    switch of the configuration (anonymize_client_ip).

    entryToJSON renders every entry on a COPY of its address
    ([slices.Clone(entry.IP)], masked by the anonymiser when the switch is
    on): serving a request leaves the state as it is.  The model says so by
    construction ([serve] returns the state it was given); the harness replays
    whole histories in which requests are served between the other
    operations, with the switch on and off, and compares the client column of
    every later response, so a request that changed a stored entry shows as a
    disagreement.

    The anonymiser on address TEXTS is an oracle: a finite table from the text
    of an address to the text of the masked address (computed by the harness
    with its own mask, not with the query log's).

    No proofs in this file. *)
From Coq Require Import ZArith NArith List Bool.
From AGH Require Import Base.Run Model.QLogFile Model.QLog.
Import ListNotations.
Local Open Scope Z_scope.

Definition mask_tbl := list (bytes * bytes).

Fixpoint mask_of (t : mask_tbl) (ip : bytes) : bytes :=
  match t with
  | [] => ip
  | (k, v) :: r => if eqb_bytes k ip then v else mask_of r ip
  end.

(** State of the served log: the log itself and queryLog.anonymizer. *)
Record sstate := { st : state; anon : bool }.

Definition sinit (c : config) : sstate := {| st := init c; anon := false |}.

(** The "client" member of a returned entry. *)
Definition client_shown (t : mask_tbl) (a : bool) (e : entry) : bytes :=
  if a then mask_of t (e_ip e) else e_ip e.

Inductive response :=
  | ROk (rows : list (N * bytes)) (oldest : Z)    (* (entry, client shown) *)
  | RBad
  | RPanic.

Definition render (t : mask_tbl) (a : bool) (o : outcome) : response :=
  match o with
  | Ok es old => ROk (map (fun e => (e_id e, client_shown t a e)) es) old
  | BadRequest => RBad
  | Panic => RPanic
  end.

(** handleQueryLog: state afterwards, response. *)
Definition serve (me bf : Z) (t : mask_tbl) (s : sstate) (q : request) : sstate * response :=
  (s, render t (anon s) (handle me bf (st s) q)).

(** Histories with requests and switch changes between the operations. *)
Inductive sop :=
  | SOp (o : op)
  | SAnon (b : bool)          (* anonymize_client_ip := b *)
  | SServe (q : request).     (* GET /control/querylog *)

Definition qstep (me bf : Z) (t : mask_tbl) (s : sstate) (o : sop) : sstate :=
  match o with
  | SOp o => {| st := step (st s) o; anon := anon s |}
  | SAnon b => {| st := st s; anon := b |}
  | SServe q => fst (serve me bf t s q)
  end.

Definition qrun (me bf : Z) (t : mask_tbl) (c : config) (ops : list sop) : sstate :=
  fold_left (qstep me bf t) ops (sinit c).

(** The operations of a history without the requests and switch changes. *)
Definition plain (ops : list sop) : list op :=
  flat_map (fun o => match o with SOp o => [o] | _ => [] end) ops.

(** The switch after a history. *)
Definition anon_after (a0 : bool) (ops : list sop) : bool :=
  fold_left (fun a o => match o with SAnon b => b | _ => a end) ops a0.

(** C17 (round 5): where the pattern list comes FROM.

    The patterns the filter enforces are not given to it by the property's
    reader: they travel from the configuration file through package home's
    start-up path

      parseConfig            internal/home/config.go   (yaml.Unmarshal of the
                             file over the process' default configuration
                             object, then validateConfig)
      setupDNSFilteringConf  internal/home/home.go     (fills the rest of
                             filtering.Config)
      filtering.New          internal/filtering/filtering.go (copies
                             c.SafeFSPatterns into d.safeFSPatterns, one
                             filepath.Match(p, "test") per pattern)

    and back through config.write (WriteDiskConfig + the YAML encoder) at every
    change.  This file mirrors that path as it is now.  No proofs here.

    What the YAML decoder hands over is taken as given (the decoder itself is
    not modelled): the value of the key [filtering.safe_fs_patterns] comes as a
    [yshape].  Go distinguishes a nil slice from an empty one and the decoder
    produces both, so the model keeps the distinction ([gslice]); which of the
    two reaches [New] is observable in the real run (config.Filtering after
    parseConfig) and compared. *)
From Coq Require Import List NArith Bool.
From AGH Require Import Base.Run Base.Bytes Base.PathClean Base.Glob Model.SafeFS.
Import ListNotations.
Local Open Scope N_scope.

(** A Go [[]string]. *)
Inductive gslice := GNil | GSlice (l : list bytes).

Definition elems (g : gslice) : list bytes :=
  match g with GNil => [] | GSlice l => l end.

(** One element of a YAML sequence, as yaml.v3 sees it when the target is a
    [string]. *)
Inductive yitem :=
  | YIStr (s : bytes)         (* a string scalar, any style *)
  | YINull                    (* ~, null, nothing *)
  | YIPlain (text : bytes)    (* a plain scalar of another type (5, true, 1.5): its source text *)
  | YISeq                     (* a nested sequence *)
  | YIMap.                    (* a mapping *)

(** The value of [filtering.safe_fs_patterns] in the file. *)
Inductive yshape :=
  | YAbsent                   (* no such key (or no [filtering] section, or the key
                                 only in some other section) *)
  | YNull                     (* [safe_fs_patterns:], [~], [null] *)
  | YSeq (items : list yitem) (* block or flow sequence, [[]] included *)
  | YScalar                   (* a string where the list should be *)
  | YMap                      (* a mapping where the list should be *)
  | YDup.                     (* the key twice in the section *)

(** yaml.v3, sequence into [[]string]: a null element is skipped, a scalar of
    another type contributes its source text, a collection is an error (the
    decoder goes on and reports at the end: the whole Unmarshal fails). *)
Fixpoint decode_items (items : list yitem) : list bytes * bool :=
  match items with
  | [] => ([], false)
  | i :: r =>
      let (l, bad) := decode_items r in
      match i with
      | YIStr s => (s :: l, bad)
      | YINull => (l, bad)
      | YIPlain t => (t :: l, bad)
      | YISeq | YIMap => (l, true)
      end
  end.

(** yaml.Unmarshal(fileData, &config) for this one field.  [dflt] is the value
    the field has in the object the file is decoded over (the process' default
    configuration): an absent key leaves it alone; a null sets the zero value;
    a sequence always makes a fresh non-nil slice.  [None]: Unmarshal returns an
    error, parseConfig returns it, start-up ends. *)
Definition decode (dflt : gslice) (y : yshape) : option gslice :=
  match y with
  | YAbsent => Some dflt
  | YNull => Some GNil
  | YSeq items => let (l, bad) := decode_items items in if bad then None else Some (GSlice l)
  | YScalar | YMap | YDup => None
  end.

(** validateConfig: checks addresses and ports, resets an invalid update
    interval; the patterns are not looked at. *)
Definition validate_config (workdir : bytes) (g : gslice) : gslice := g.

(** setupDNSFilteringConf: fills EtcHosts, DataDir, Filters, HTTPClient, the
    checkers; the patterns are not looked at. *)
Definition setup_filtering_conf (workdir : bytes) (g : gslice) : gslice := g.

(** filtering.New: [for i, p := range c.SafeFSPatterns]: filepath.Match(p,
    "test") must not fail (a malformed pattern the matcher does not get to see
    on that name goes unnoticed); every pattern is appended as it is. *)
Definition probe_name : bytes := [116;101;115;116].

Fixpoint new_patterns (l : list bytes) : option (list bytes) :=
  match l with
  | [] => Some []
  | p :: r =>
      match glob_match p probe_name with
      | GBad => None
      | _ => option_map (cons p) (new_patterns r)
      end
  end.

Inductive start :=
  | StRejectedParse                                  (* parseConfig returned an error *)
  | StRejectedNew (conf : gslice)                    (* filtering.New returned an error *)
  | StStarted (conf : gslice) (pats : list bytes).   (* config.Filtering.SafeFSPatterns, d.safeFSPatterns *)

(** Start-up, as far as the patterns go. *)
Definition load (workdir : bytes) (dflt : gslice) (y : yshape) : start :=
  match decode dflt y with
  | None => StRejectedParse
  | Some g =>
      let g' := setup_filtering_conf workdir (validate_config workdir g) in
      match new_patterns (elems g') with
      | None => StRejectedNew g'
      | Some pats => StStarted g' pats
      end
  end.

(** config.write: WriteDiskConfig copies the filter's Config (so the slice New
    was given), the YAML encoder writes a nil and an empty slice alike as [[]]
    and every string as a string scalar (quoted where a plain one would read
    back as something else). *)
Definition write_shape (g : gslice) : yshape := YSeq (map YIStr (elems g)).

(** What survives a restart of the list state: URL, flag and the file in
    data/filters; New recomputes the checksum of an enabled entry's file. *)
Definition restart_flt (f : flt) : flt :=
  {| f_url := f_url f; f_enabled := f_enabled f; f_loaded := f_loaded f;
     f_sum := if f_enabled f then f_loaded f else 0 |}.

Definition restart_state (st : state) : state :=
  {| s_block := map restart_flt (s_block st); s_allow := map restart_flt (s_allow st) |}.

(** * A loader that fills in a default (red-team change C17-I)

    validateConfig with one more "protection": a configuration without the
    list gets the pattern the installation writes.  Not the code; kept
    executable for the refutation in Proofs/SafeFSConf.v. *)
Definition userfilters_glob : bytes :=
  [47;117;115;101;114;102;105;108;116;101;114;115;47;42].           (* /userfilters/* *)

Definition validate_config_filling (workdir : bytes) (g : gslice) : gslice :=
  match g with
  | GNil => GSlice [workdir ++ userfilters_glob]
  | GSlice _ => g
  end.

Definition load_filling (workdir : bytes) (dflt : gslice) (y : yshape) : start :=
  match decode dflt y with
  | None => StRejectedParse
  | Some g =>
      let g' := setup_filtering_conf workdir (validate_config_filling workdir g) in
      match new_patterns (elems g') with
      | None => StRejectedNew g'
      | Some pats => StStarted g' pats
      end
  end.

(** C20 model: reverse reading and timestamp seek of query-log files
    (internal/querylog/qlogfile.go, qlogreader.go).

    A file is the list of its lines, oldest first, each line given by its
    length in bytes WITHOUT the terminating newline and its timestamp (Unix
    nanoseconds; 0 = the line carries no readable timestamp).  Every line is
    newline-terminated (flushLogBuffer writes them that way).  The model never
    looks at bytes: all the code does with the contents is to look for '\n'
    and to parse the "T" field.

    Parameters [me] (maxEntrySize) and [buf] (bufferSize) are explicit in the
    functions; the Go values are in [max_entry_size], [buffer_size].

    No proofs in this file. *)
From Coq Require Import ZArith List Bool.
Import ListNotations.
Local Open Scope Z_scope.

Definition max_entry_size : Z := 16 * 1024.
Definition buffer_size : Z := 100 * max_entry_size.
Definition max_depth : nat := 100.

Notation line := (Z * Z)%type (only parsing).   (* (length without newline, timestamp) *)
Definition qfile := list line.

Fixpoint fsize (f : qfile) : Z :=
  match f with [] => 0 | (l, _) :: r => l + 1 + fsize r end.

(** [line_at f o p]: the line containing byte [p], for a file whose first
    line starts at offset [o]: (start, length, timestamp).  Byte [p] belongs
    to the line whose newline is the first one at a position >= p.  [None]
    when [p] is at or beyond the end of the file. *)
Fixpoint line_at (f : qfile) (o p : Z) : option (Z * Z * Z) :=
  match f with
  | [] => None
  | (l, t) :: r => if o + l <? p then line_at r (o + l + 1) p else Some (o, l, t)
  end.

(** Start of the line containing byte [p] (= the position after the last
    newline strictly before [p]); the file size when [p] is beyond the end. *)
Definition line_start (f : qfile) (p : Z) : Z :=
  match line_at f 0 p with Some (s, _, _) => s | None => fsize f end.

(** Reader state of one qLogFile. *)
Record rstate := { pos : Z; buf_start : Z; buf_valid : bool }.

Definition rstate0 : rstate := {| pos := 0; buf_start := 0; buf_valid := false |}.

(** SeekStart: position on the last byte (the last newline); buffer dropped. *)
Definition seek_start (f : qfile) (s : rstate) : rstate :=
  {| pos := Z.max 0 (fsize f - 1); buf_start := buf_start s; buf_valid := false |}.

(** ReadNext + readNextLine + initBuffer.  Result: [None] = io.EOF, else
    (index of the first returned byte, number of returned bytes). *)
Definition read_next (me buf : Z) (f : qfile) (s : rstate) : option (Z * Z) * rstate :=
  if pos s =? 0 then (None, s) else
  let p := pos s in
  let reinit := negb (buf_valid s) || ((p - buf_start s <? me) && negb (buf_start s =? 0)) in
  let bs := if reinit then (if p >? buf then p - buf else 0) else buf_start s in
  (* backwards scan for a newline in [bs, p) *)
  let start := Z.max bs (line_start f p) in
  (Some (start, p - start),
   {| pos := if start =? 0 then 0 else start - 1; buf_start := bs; buf_valid := true |}).

(** Read until EOF (at most [fuel] lines): the lines and whether EOF was reached. *)
Fixpoint read_all (me buf : Z) (f : qfile) (fuel : nat) (s : rstate) : list (Z * Z) * bool :=
  match fuel with
  | O => ([], false)
  | S fuel =>
      match read_next me buf f s with
      | (None, _) => ([], true)
      | (Some x, s') => let (l, e) := read_all me buf f fuel s' in (x :: l, e)
      end
  end.

(** readProbeLine: the line around byte [p] seen through a window of 2*me
    bytes starting at max 0 (p - me).  [None] = the read hit EOF (empty file).
    Result: (lineIdx, lineEndIdx, number of bytes of the returned string,
    timestamp parsed from it).  A line cut by the window on either side is
    modelled as carrying no readable timestamp (it cannot happen for lines
    shorter than [me], see Proofs). *)
Definition probe_line (me : Z) (f : qfile) (p : Z) : option (Z * Z * Z * Z) :=
  let size := fsize f in
  let sp := if p >? me then p - me else 0 in
  let blen := Z.min (size - sp) (2 * me) in
  if blen <=? 0 then None else
  match line_at f 0 p with
  | None => let li := Z.max sp size in Some (li, sp + blen, sp + blen - li, 0)
  | Some (s, l, t) =>
      let li := Z.max sp s in
      let e := s + l in
      if e <? sp + blen
      then Some (li, e + 1, e - li, if li =? s then t else 0)
      else Some (li, sp + blen, sp + blen - li, 0)
  end.

Inductive seek_res :=
  | Found (p : Z) (depth : Z)
  | NotFound | TooEarly | TooLate | EmptyStamp | DepthExceeded | IOEof.

(** The loop of qLogFile.seekTS.  [fuel] is the number of probes still
    allowed: Go stops with "depth too high" once depth reaches 100, i.e. after
    the 100th narrowing. *)
Fixpoint seek_loop (fuel : nat) (me : Z) (f : qfile) (ts : Z)
    (start end_ probe last depth : Z) : seek_res :=
  match fuel with
  | O => DepthExceeded
  | S fuel =>
      match probe_line me f probe with
      | None => IOEof
      | Some (li, le, len, lts) =>
          if li =? last then (if li =? 0 then TooEarly else NotFound)
          else if li =? fsize f then TooLate
          else if lts =? 0 then EmptyStamp
          else if lts =? ts then Found (li + len) depth
          else
            let start' := if lts >? ts then start else le in
            let end' := if lts >? ts then li else end_ in
            seek_loop fuel me f ts start' end' (start' + (end' - start') ÷ 2) li (depth + 1)
      end
  end.

Definition seek_ts_fuel (fuel : nat) (me : Z) (f : qfile) (ts : Z) : seek_res :=
  seek_loop fuel me f ts 0 (fsize f) (fsize f ÷ 2) (-1) 0.

Definition seek_ts (me : Z) (f : qfile) (ts : Z) : seek_res :=
  seek_ts_fuel max_depth me f ts.

(** State change of qLogFile.seekTS: the buffer is always dropped, the
    position moves only on success. *)
Definition seek_ts_state (me : Z) (f : qfile) (ts : Z) (s : rstate) : seek_res * rstate :=
  let r := seek_ts me f ts in
  (r, {| pos := match r with Found p _ => p | _ => pos s end;
         buf_start := buf_start s; buf_valid := false |}).

(** ** qLogReader: several files, oldest first. *)
Record reader := { r_files : list (qfile * rstate); r_cur : Z; r_fellback : bool }.

Definition new_reader (fs : list qfile) : reader :=
  {| r_files := map (fun f => (f, rstate0)) fs; r_cur := Z.of_nat (length fs) - 1; r_fellback := false |}.

Definition nth_file (r : reader) (i : Z) : qfile * rstate :=
  nth (Z.to_nat i) (r_files r) ([], rstate0).

Fixpoint set_nth {A} (l : list A) (n : nat) (x : A) : list A :=
  match l, n with
  | [], _ => []
  | _ :: r, O => x :: r
  | a :: r, S n => a :: set_nth r n x
  end.

Definition set_state (r : reader) (i : Z) (s : rstate) : list (qfile * rstate) :=
  set_nth (r_files r) (Z.to_nat i) (fst (nth_file r i), s).

Definition reader_seek_start (r : reader) : reader :=
  match r_files r with
  | [] => r
  | _ => let i := Z.of_nat (length (r_files r)) - 1 in
         let (f, s) := nth_file r i in
         {| r_files := set_state r i (seek_start f s); r_cur := i; r_fellback := r_fellback r |}
  end.

Inductive rseek_res := RFound | RNotFound | RFellBack | ROther.

(** qLogReader.seekTS: newest file first; too-early continues with the older
    file, too-late falls back to the newest end. [n] = files still to try. *)
Fixpoint reader_seek_loop (me : Z) (n : nat) (ts : Z) (r : reader) : rseek_res * reader :=
  match n with
  | O => (RNotFound, r)
  | S i =>
      let iz := Z.of_nat i in
      let (f, s) := nth_file r iz in
      let (res, s') := seek_ts_state me f ts s in
      let r' := {| r_files := set_state r iz s'; r_cur := r_cur r; r_fellback := r_fellback r |} in
      match res with
      | Found _ _ => (RFound, {| r_files := r_files r'; r_cur := iz; r_fellback := r_fellback r' |})
      | TooEarly => reader_seek_loop me i ts r'
      | TooLate =>
          let r2 := reader_seek_start r' in
          (RFellBack, {| r_files := r_files r2; r_cur := r_cur r2; r_fellback := true |})
      | NotFound | DepthExceeded => (RNotFound, r')
      | EmptyStamp | IOEof => (ROther, r')
      end
  end.

Definition reader_seek_ts (me : Z) (ts : Z) (r : reader) : rseek_res * reader :=
  let r0 := {| r_files := r_files r; r_cur := r_cur r; r_fellback := false |} in
  match r_files r with
  | [] => (RFound, r0)        (* the Go loop does not run: nil error *)
  | _ => reader_seek_loop me (length (r_files r)) ts r0
  end.

(** qLogReader.ReadNext: (file index, first byte, length) or [None] = EOF.
    [n] bounds the number of file switches. *)
Fixpoint reader_read_loop (me buf : Z) (n : nat) (r : reader) : option (Z * Z * Z) * reader :=
  match n with
  | O => (None, r)
  | S n =>
      if r_cur r <? 0 then (None, r) else
      let (f, s) := nth_file r (r_cur r) in
      match read_next me buf f s with
      | (Some (st, len), s') =>
          (Some (r_cur r, st, len),
           {| r_files := set_state r (r_cur r) s'; r_cur := r_cur r; r_fellback := r_fellback r |})
      | (None, _) =>
          let c := r_cur r - 1 in
          if c <? 0 then (None, {| r_files := r_files r; r_cur := c; r_fellback := r_fellback r |})
          else
            let (f2, s2) := nth_file r c in
            reader_read_loop me buf n
              {| r_files := set_state r c (seek_start f2 s2); r_cur := c; r_fellback := r_fellback r |}
      end
  end.

Definition reader_read_next (me buf : Z) (r : reader) : option (Z * Z * Z) * reader :=
  match r_files r with
  | [] => (None, r)
  | _ => reader_read_loop me buf (S (length (r_files r))) r
  end.

(** ReadNext until EOF (at most [fuel] lines). *)
Fixpoint reader_read_all (me buf : Z) (fuel : nat) (r : reader) : list (Z * Z * Z) :=
  match fuel with
  | O => []
  | S fuel =>
      match reader_read_next me buf r with
      | (None, _) => []
      | (Some x, r') => x :: reader_read_all me buf fuel r'
      end
  end.

(** Model of internal/home/authratelimiter.go and of the limiter's use in
    authhttp.go handleLogin / newCookie (C12).  No proofs here.

    Instants are [Z] nanoseconds on the process' monotonic clock
    ([time.Now()]); durations are [Z] nanoseconds.  The failed-attempt table
    is a finite map from the remote address (the string that
    [netutil.SplitHost(r.RemoteAddr)] yields) to a record.

    Not modelled: overflow of the [uint] attempt counter (2^64 failures) and
    saturation of [time.Time.Sub] (292 years). *)
From AGH Require Import Base.Run.
From stdpp Require Import gmap.
Local Open Scope Z_scope.

Record fa := { fa_until : Z; fa_num : N }.          (* failedAuth *)
Notation rl_state := (gmap bytes fa).                (* authRateLimiter.failedAuths *)

(** [failedAuthTTL], [blockDur], [maxAttempts]. *)
Record rl_conf := { rl_ttl : Z; rl_block : Z; rl_max : N }.

(** [cleanupLocked]: delete every record with [now.After(until)]. *)
Definition rl_cleanup (now : Z) (s : rl_state) : rl_state :=
  filter (fun kv => now <= fa_until (snd kv)) s.

(** [checkLocked]: time left; non-positive means "not blocked". *)
Definition rl_check_locked (c : rl_conf) (now : Z) (s : rl_state) (a : bytes) : Z :=
  match s !! a with
  | None => 0
  | Some r => if (fa_num r <? rl_max c)%N then 0 else fa_until r - now
  end.

(** [check]: cleanup first, then [checkLocked], with the same instant. *)
Definition rl_check (c : rl_conf) (now : Z) (s : rl_state) (a : bytes) : rl_state * Z :=
  let s1 := rl_cleanup now s in (s1, rl_check_locked c now s1 a).

(** [incLocked]. *)
Definition rl_inc (c : rl_conf) (now : Z) (s : rl_state) (a : bytes) : rl_state :=
  let '(until, n) :=
    match s !! a with
    | Some r => (fa_until r, (fa_num r + 1)%N)
    | None => (now + rl_ttl c, 1%N)
    end in
  let until := if (rl_max c <=? n)%N then now + rl_block c else until in
  <[a := {| fa_until := until; fa_num := n |}]> s.

(** [remove]. *)
Definition rl_remove (s : rl_state) (a : bytes) : rl_state := delete a s.

(** Which of the two addresses handleLogin has at hand is used as the
    limiter's key: the TCP peer ([remoteIP], from [r.RemoteAddr]) or the
    address written to the log ([logIP]: the proxy-header address when the
    header names an address inside trusted_proxies, else the peer). *)
Inductive addr_choice := UsePeer | UseLog.

(** One login attempt as handleLogin + newCookie treat it.  [a_now] is the
    instant read by [check], [a_now2] the instant read by [inc] after the
    password has been evaluated ([a_now <= a_now2]); [a_ok] says whether
    [findUser] would accept the submitted name and password.  [a_addr] is the
    TCP peer ([netutil.SplitHost(r.RemoteAddr)], the code's [remoteIP]);
    [a_hdr] is the address [realIP] takes from a proxy header
    (CF-Connecting-IP, True-Client-IP, X-Real-IP, leftmost X-Forwarded-For;
    [None]: no usable header, [realIP] falls back to the peer); [a_trusted]
    says whether [trustedProxies.Contains] accepts that address.  The sender
    of a request chooses [a_hdr] (and with it [a_trusted]) freely.  Attempts
    are serialised: the route is wrapped by [ensure], which holds the global
    control lock for POST. *)
Record att := { a_now : Z; a_now2 : Z; a_addr : bytes; a_hdr : option bytes; a_trusted : bool; a_ok : bool }.

(** The code's [logIP]. *)
Definition log_addr (e : att) : bytes :=
  match a_hdr e with
  | Some h => if a_trusted e then h else a_addr e
  | None => a_addr e
  end.

Definition pick (ch : addr_choice) (e : att) : bytes :=
  match ch with UsePeer => a_addr e | UseLog => log_addr e end.

Inductive login_out :=
  | L429 (lft : Z)    (* rejected, password not evaluated; Retry-After from [left] *)
  | L403              (* evaluated, wrong *)
  | L200.             (* evaluated, right: a session is created (Model/Session.v) *)

(** handleLogin with its two choices explicit: [chk] is the address given to
    [rateLimiter.check], [cnt] the one given to [newCookie] and so to
    [inc] / [remove]. *)
Definition login_with (chk cnt : addr_choice) (c : rl_conf) (e : att) (s : rl_state) : rl_state * login_out :=
  let '(s1, lft) := rl_check c (a_now e) s (pick chk e) in
  if 0 <? lft then (s1, L429 lft)
  else if a_ok e then (rl_remove s1 (pick cnt e), L200)
  else (rl_inc c (a_now2 e) s1 (pick cnt e), L403).

(** The code: both are [remoteIP] (authhttp.go handleLogin; tools/routes
    re-reads this from the source, [Gen.AuthPins]). *)
Definition login : rl_conf -> att -> rl_state -> rl_state * login_out := login_with UsePeer UsePeer.

Fixpoint run_logins (c : rl_conf) (s : rl_state) (h : list att) : rl_state * list login_out :=
  match h with
  | [] => (s, [])
  | e :: h' =>
      let '(s1, o) := login c e s in
      let '(s2, os) := run_logins c s1 h' in (s2, o :: os)
  end.

Fixpoint run_logins_with (chk cnt : addr_choice) (c : rl_conf) (s : rl_state) (h : list att) : rl_state * list login_out :=
  match h with
  | [] => (s, [])
  | e :: h' =>
      let '(s1, o) := login_with chk cnt c e s in
      let '(s2, os) := run_logins_with chk cnt c s1 h' in (s2, o :: os)
  end.

(** Whether the password of an attempt was evaluated. *)
Definition evaluated (o : login_out) : bool :=
  match o with L429 _ => false | _ => true end.

(** * Construction of the limiter from the configuration (home.go initUsers)

    [auth_attempts] and [block_auth_min] are Go [uint]s (64 bits).  The code:
    [if config.AuthAttempts > 0 && config.AuthBlockMin > 0 { blockDur :=
    time.Duration(config.AuthBlockMin) * time.Minute; rateLimiter =
    newAuthRateLimiter(blockDur, config.AuthAttempts) }], else the limiter
    stays nil; [InitAuth] stores it in [Auth.rateLimiter], which handleLogin
    and newCookie read (nil: no check, no count).  The conversion to
    [time.Duration] (int64 nanoseconds) and the multiplication wrap. *)
Record auth_cfg := { ac_attempts : Z; ac_block_min : Z }.

Definition minute_ns : Z := 60000000000.
Definition wrap64 (z : Z) : Z := (z + 2 ^ 63) mod 2 ^ 64 - 2 ^ 63.

(** The enabling condition, as a parameter; the code's is [cond_code]
    (tools/routes re-reads it from the source, [Gen.AuthPins]). *)
Definition block_dur (cfg : auth_cfg) : Z := wrap64 (wrap64 (ac_block_min cfg) * minute_ns).
Definition cond_code (cfg : auth_cfg) : bool := (0 <? ac_attempts cfg) && (0 <? ac_block_min cfg).

Definition mk_limiter_with (cond : auth_cfg -> bool) (cfg : auth_cfg) : option rl_conf :=
  if cond cfg
  then Some {| rl_ttl := minute_ns; rl_block := block_dur cfg; rl_max := Z.to_N (ac_attempts cfg) |}
  else None.

Definition mk_limiter : auth_cfg -> option rl_conf := mk_limiter_with cond_code.

(** handleLogin / newCookie with [Auth.rateLimiter] possibly nil. *)
Definition login_opt (lim : option rl_conf) (e : att) (s : rl_state) : rl_state * login_out :=
  match lim with
  | Some c => login c e s
  | None => (s, if a_ok e then L200 else L403)
  end.

Fixpoint run_logins_opt (lim : option rl_conf) (s : rl_state) (h : list att) : rl_state * list login_out :=
  match h with
  | [] => (s, [])
  | e :: h' =>
      let '(s1, o) := login_opt lim e s in
      let '(s2, os) := run_logins_opt lim s1 h' in (s2, o :: os)
  end.

(** * Time resolution of the blocked test (round 4)

    Instants and durations are nanoseconds throughout: [rl_check_locked]
    returns [a.until.Sub(now)] as it is, and handleLogin tests that duration
    itself ([left > 0]); only the Retry-After header is in whole seconds,
    [strconv.Itoa(int(left.Seconds()))], the duration truncated toward zero
    ([Z.quot]).  [login_blk] is handleLogin + newCookie with the blocked test
    a parameter of the duration; the code's is [blk_code], and [login_blk
    blk_code] is [login] (Proofs/RateLimit.v [login_blk_code]).  [blk_trunc]
    is the test made on the truncated whole seconds, i.e. on the header
    value. *)
Definition second_ns : Z := 1000000000.

(** The Retry-After header value for a time left. *)
Definition retry_after_secs (lft : Z) : Z := Z.quot lft second_ns.

Definition retry_after (o : login_out) : option Z :=
  match o with L429 l => Some (retry_after_secs l) | _ => None end.

Definition blk_code (lft : Z) : bool := 0 <? lft.
Definition blk_trunc (lft : Z) : bool := 0 <? retry_after_secs lft.

Definition login_blk (blk : Z -> bool) (c : rl_conf) (e : att) (s : rl_state) : rl_state * login_out :=
  let '(s1, lft) := rl_check c (a_now e) s (a_addr e) in
  if blk lft then (s1, L429 lft)
  else if a_ok e then (rl_remove s1 (a_addr e), L200)
  else (rl_inc c (a_now2 e) s1 (a_addr e), L403).

Fixpoint run_logins_blk (blk : Z -> bool) (c : rl_conf) (s : rl_state) (h : list att) : rl_state * list login_out :=
  match h with
  | [] => (s, [])
  | e :: h' =>
      let '(s1, o) := login_blk blk c e s in
      let '(s2, os) := run_logins_blk blk c s1 h' in (s2, o :: os)
  end.

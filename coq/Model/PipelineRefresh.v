(** The DNS pipeline behind the filter-list refresh: the rule lists whose
    sources change and fail between refresh passes.

    The refresh itself is property C15's model, Model/Refresh.v, taken as it
    is ([Refresh.refresh] = refreshFiltersIntl with refreshFiltersArray,
    [Refresh.set_props] = filterSetProperties as handleFilteringSetURL drives
    it, [Refresh.rebuild_now] = EnableFilters): a state holds the configured
    lists, the stored files and, as [Refresh.r_engine], for every enabled list
    the text its file had when the engines were last built.  This file adds
    only the step from that text to a verdict:

      block engine = user rules ++ rules of the texts in force of the block lists,
      allow engine =               rules of the texts in force of the allow lists

    (enableFiltersLocked: custom rules first, then the lists in configuration
    order), with urlfilter's reading of a stored text as the parameter
    [rules_of] (rule-text parsing is trusted, as everywhere in C01), and the
    query processed by Model/Pipeline.v with these engines.  No proofs. *)
From Coq Require Import List NArith Bool.
From AGH Require Import Base.Run Base.NetAddr Base.RuleEngine Model.Pipeline.
From AGH Require Model.Rewrites Model.Refresh.
Import ListNotations.
Local Open Scope N_scope.

Section Engines.
  (** What urlfilter reads in a stored list file. *)
  Variable rules_of : bytes -> list rule.

  Definition text_rules (snap : list (N * bytes)) : list rule := flat_map (fun e => rules_of (snd e)) snap.

  Definition allow_in_force (e : Refresh.engine) : list rule := text_rules (Refresh.e_allow e).
  Definition block_in_force (user : list rule) (e : Refresh.engine) : list rule :=
    user ++ text_rules (Refresh.e_block e).

  Section Ask.
    Variable sb_oracle par_oracle : bytes -> bool.
    Variable ss_oracle : bytes -> N -> option ssverdict.
    Variable rw_sort : list Rewrites.entry -> list Rewrites.entry.

    (** A query on a server whose refresh state is [st]. *)
    Definition ask_r (user : list rule) (st : Refresh.rstate) (c : cfg) (up : upstream) (q : request) : outcome :=
      process (match_request (allow_in_force (Refresh.r_engine st)))
              (match_request (block_in_force user (Refresh.r_engine st)))
              sb_oracle par_oracle ss_oracle rw_sort c up q.
  End Ask.
End Engines.

(** Histories at the grain the harness drives. *)
Inductive rop :=
  (* one refresh pass: POST /control/filtering/refresh (one array, forced) or
     the periodic refresh (both arrays; every enabled list is due): what the
     source of each list (by ID) delivers in this pass *)
  | RPass (block allow force : bool) (oc : N -> Refresh.outcome)
  (* POST /control/filtering/set_url with the list's own URL and name and the
     given Enabled flag; [o] is what its source delivers if it is asked *)
  | RSwitch (allow : bool) (url : N) (name : bytes) (enabled : bool) (o : Refresh.outcome)
  (* any other engine rebuild *)
  | RRebuild.

Definition all_due : N -> bool := fun _ => true.

Section Run.
  Variable crc : N -> bytes -> N.

  Definition rop_step (st : Refresh.rstate) (o : rop) : Refresh.rstate :=
    match o with
    | RPass b a f oc => Refresh.refresh crc b a f all_due oc st
    | RSwitch a u name en o => snd (Refresh.set_props crc a u name u en o st)
    | RRebuild => Refresh.rebuild_now st
    end.

  Definition rop_run (st : Refresh.rstate) (h : list rop) : Refresh.rstate := fold_left rop_step h st.

  (** The lists as add_url leaves them: each configured enabled under its
      name, downloaded once. *)
  Definition new_list (p : N * bytes) : Refresh.flist :=
    {| Refresh.f_id := fst p; Refresh.f_url := fst p; Refresh.f_enabled := true; Refresh.f_name := snd p;
       Refresh.f_count := 0; Refresh.f_sum := 0 |}.

  Definition start_state (bl al : list (N * bytes)) (oc : N -> Refresh.outcome) : Refresh.rstate :=
    Refresh.refresh crc true true true all_due oc
      {| Refresh.r_block := map new_list bl; Refresh.r_allow := map new_list al; Refresh.r_files := [];
         Refresh.r_engine := {| Refresh.e_block := []; Refresh.e_allow := [] |} |}.
End Run.

(** The queue of pending engine rebuilds between the web handlers and the
    updates loop (filtering/filtering.go setFilters / Start / updatesLoop,
    filtering/filter.go EnableFilters / enableFiltersLocked,
    filtering/http.go handleFilteringSetRules / AddURL / RemoveURL / SetURL /
    Config), as the Go code is NOW.

    A handler changes the configuration under [conf.filtersMu.Lock], releases
    it, and calls [EnableFilters(true)]: under [conf.filtersMu.RLock] (held
    until the task is in the channel) a snapshot of the custom rules and of
    the enabled lists is taken ([filtersInitializerParams]) and handed to
    [setFilters(…, async = true)]:

        filtersInitializerLock.Lock()
        removeLoop: drain filtersInitializerChan          (capacity 1)
        filtersInitializerChan <- params

    [updatesLoop] takes a task from the channel ([OTake]) and builds and
    installs the engines from it ([initFiltering], [OInstall]); in between it
    is busy and further tasks may arrive.  [EnableFilters(false)] (refresh,
    start-up) builds the engines from the configuration of the moment without
    touching the channel ([OSync]).

    The first section is generic in the configuration, the change and the
    snapshot; the second instantiates it with the rule lists of
    Model/PipelineLists.v and the changes the web API offers.  No proofs. *)
From Coq Require Import List NArith Bool Arith.
From AGH Require Import Base.Run Base.NetAddr Base.RuleEngine Model.Pipeline Model.PipelineLists.
From AGH Require Model.Rewrites.
Import ListNotations.

Section Queue.
  Variables conf change snap : Type.
  Variable apply : conf -> change -> conf.
  (** enableFiltersLocked: the snapshot of a configuration. *)
  Variable take : conf -> snap.

  (** [make(chan filtersInitializerParams, 1)] in Start. *)
  Definition chan_cap : nat := 1.

  Record qstate := mkQ {
    q_conf : conf;          (* conf.UserRules, conf.Filters, conf.WhitelistFilters *)
    q_chan : list snap;     (* filtersInitializerChan, oldest first *)
    q_busy : option snap;   (* the task updatesLoop has taken and not yet installed *)
    q_engine : snap;        (* what the installed engines were built from *)
    q_stuck : bool          (* a sender found the channel full and blocks (holding filtersMu.RLock) *)
  }.

  (** How setFilters puts a task into the channel: the new contents and
      whether the sender blocks. *)
  Definition enqueue_policy := list snap -> snap -> list snap * bool.

  (** A blocking send on a buffered channel. *)
  Definition chan_send (c : list snap) (p : snap) : list snap * bool :=
    if length c <? chan_cap then (c ++ [p], false) else (c, true).

  (** removeLoop: receive until the channel is empty. *)
  Fixpoint drain (c : list snap) : list snap :=
    match c with
    | [] => []
    | _ :: rest => drain rest
    end.

  (** setFilters, asynchronous branch, as it is: drain, then send. *)
  Definition enq_drain_send : enqueue_policy := fun c p => chan_send (drain c) p.

  (** The variant that was seeded (C01-G): a non-blocking send, no drain; a
      task that finds the channel full is dropped. *)
  Definition enq_nonblocking : enqueue_policy :=
    fun c p => if length c <? chan_cap then (c ++ [p], false) else (c, false).

  Inductive op :=
  | OChange (ch : change)   (* a handler changes the configuration (filtersMu.Lock) *)
  | OTrigger                (* EnableFilters(true): snapshot + setFilters async, atomic w.r.t. OChange (filtersMu.RLock) *)
  | OTake                   (* updatesLoop: params := <-filtersInitializerChan *)
  | OInstall                (* updatesLoop: initFiltering(params) has installed the engines *)
  | OSync.                  (* EnableFilters(false): initFiltering from the configuration of the moment *)

  Section Step.
    Variable enq : enqueue_policy.

    Definition step (s : qstate) (o : op) : qstate :=
      match o with
      | OChange ch => mkQ (apply (q_conf s) ch) (q_chan s) (q_busy s) (q_engine s) (q_stuck s)
      | OTrigger =>
          let (c, blocked) := enq (q_chan s) (take (q_conf s)) in
          mkQ (q_conf s) c (q_busy s) (q_engine s) (q_stuck s || blocked)
      | OTake =>
          match q_busy s, q_chan s with
          | None, p :: rest => mkQ (q_conf s) rest (Some p) (q_engine s) (q_stuck s)
          | _, _ => s
          end
      | OInstall =>
          match q_busy s with
          | Some p => mkQ (q_conf s) (q_chan s) None p (q_stuck s)
          | None => s
          end
      | OSync => mkQ (q_conf s) (q_chan s) (q_busy s) (take (q_conf s)) (q_stuck s)
      end.

    Definition run (s : qstate) (h : list op) : qstate := fold_left step h s.
  End Step.

  (** The updates loop left alone until it has nothing to do: it finishes
      the task it holds, then takes and installs what is queued. *)
  Fixpoint serve_n (n : nat) (s : qstate) : qstate :=
    match n with
    | O => step enq_drain_send s OInstall
    | S n => serve_n n (step enq_drain_send (step enq_drain_send s OInstall) OTake)
    end.
  Definition quiesce (s : qstate) : qstate := serve_n (length (q_chan s)) s.

  (** No configuration change is waiting for its EnableFilters call: after
      the last OChange of the history an OTrigger follows.  [d] says whether
      one was waiting before the history. *)
  Fixpoint dirty_after (d : bool) (h : list op) : bool :=
    match h with
    | [] => d
    | OChange _ :: rest => dirty_after true rest
    | OTrigger :: rest => dirty_after false rest
    | _ :: rest => dirty_after d rest
    end.
  Definition settled (h : list op) : bool := negb (dirty_after false h).
End Queue.

Arguments mkQ {conf snap}.
Arguments q_conf {conf snap}.
Arguments q_chan {conf snap}.
Arguments q_busy {conf snap}.
Arguments q_engine {conf snap}.
Arguments q_stuck {conf snap}.
Arguments OChange {change}.
Arguments OTrigger {change}.
Arguments OTake {change}.
Arguments OInstall {change}.
Arguments OSync {change}.
Arguments step {conf change snap}.
Arguments run {conf change snap}.
Arguments quiesce {conf change snap}.
Arguments serve_n {conf change snap}.
Arguments enq_drain_send {snap}.
Arguments enq_nonblocking {snap}.
Arguments chan_send {snap}.
Arguments drain {snap}.
Arguments settled {change}.
Arguments dirty_after {change}.

(** * The rule lists of a running server behind the queue *)
Local Open Scope N_scope.

(** What the web API can do to the rule lists and the custom rules. *)
Inductive qchange :=
  | QSet (whitelist : bool) (u : N) (en : bool)   (* set_url: the Enabled flag of the list with this URL *)
  | QRules (rs : list rule)                       (* set_rules: the custom rules *)
  | QAdd (whitelist : bool) (f : flist)           (* add_url: appended (enabled) unless the URL is known *)
  | QRemove (whitelist : bool) (u : N)            (* remove_url: the first list with this URL *)
  | QTouch.                                       (* filtering/config with the values in force *)

(** filterSetProperties: slices.IndexFunc finds the FIRST list with the URL. *)
Fixpoint set_first (u : N) (en : bool) (ls : list flist) : list flist :=
  match ls with
  | [] => []
  | f :: rest => if fl_url f =? u then mkFList (fl_url f) en (fl_rules f) :: rest else f :: set_first u en rest
  end.

Fixpoint remove_first (u : N) (ls : list flist) : list flist :=
  match ls with
  | [] => []
  | f :: rest => if fl_url f =? u then rest else f :: remove_first u rest
  end.

Definition find_url (u : N) (ls : list flist) : option flist := find (fun f => fl_url f =? u) ls.

(** filterExistsLocked: block lists and allow lists share one URL space. *)
Definition url_known (u : N) (st : lstate) : bool :=
  match find_url u (ls_block st), find_url u (ls_allow st) with
  | None, None => false
  | _, _ => true
  end.

Definition side (w : bool) (st : lstate) : list flist := if w then ls_allow st else ls_block st.
Definition with_side (w : bool) (st : lstate) (ls : list flist) : lstate :=
  if w then mkLState (ls_user st) (ls_block st) ls else mkLState (ls_user st) ls (ls_allow st).

Definition apply_q (st : lstate) (ch : qchange) : lstate :=
  match ch with
  | QSet w u en => with_side w st (set_first u en (side w st))
  | QRules rs => mkLState rs (ls_block st) (ls_allow st)
  | QAdd w f => if url_known (fl_url f) st then st else with_side w st (side w st ++ [mkFList (fl_url f) true (fl_rules f)])
  | QRemove w u => with_side w st (remove_first u (side w st))
  | QTouch => st
  end.

(** Whether the handler goes on to EnableFilters(true): set_url only when
    the flag changed (shouldRestart), add_url only when the list was added,
    the others always. *)
Definition restarts (st : lstate) (ch : qchange) : bool :=
  match ch with
  | QSet w u en => match find_url u (side w st) with Some f => negb (Bool.eqb (fl_on f) en) | None => false end
  | QAdd _ f => negb (url_known (fl_url f) st)
  | QRules _ | QRemove _ _ | QTouch => true
  end.

(** The snapshot: the rules the two engines are built from (the files of
    the lists are read when the engines are built; their contents do not
    change during a history, see the assumptions of the property). *)
Definition engines := (list rule * list rule)%type.   (* allow, block *)
Definition ptake (st : lstate) : engines := (allow_rules st, block_rules st).

Definition pstate := qstate lstate engines.
Definition pop := op qchange.

(** One handler call, start to end. *)
Definition handler_ops (st : lstate) (ch : qchange) : list pop :=
  OChange ch :: (if restarts st ch then [OTrigger] else []).

Definition pstep : pstate -> pop -> pstate := step apply_q ptake enq_drain_send.
Definition prun : pstate -> list pop -> pstate := run apply_q ptake enq_drain_send.
Definition pquiesce : pstate -> pstate := quiesce apply_q ptake.
Definition handle (s : pstate) (ch : qchange) : pstate := prun s (handler_ops (q_conf s) ch).

(** A server whose engines were built from its configuration (start-up:
    EnableFilters(false)) and whose loop is idle. *)
Definition pinit (st : lstate) : pstate := mkQ st [] None (ptake st) false.

(** Histories at the grain the harness drives: whole handler calls, the two
    halves of the loop's first arm, a synchronous rebuild, and the loop left
    alone until the queue is served. *)
Inductive hop :=
  | HHandle (ch : qchange)
  | HTake
  | HInstall
  | HSync
  | HLoop.

Definition hstep (s : pstate) (o : hop) : pstate :=
  match o with
  | HHandle ch => handle s ch
  | HTake => pstep s OTake
  | HInstall => pstep s OInstall
  | HSync => pstep s OSync
  | HLoop => pquiesce s
  end.
Definition hrun (s : pstate) (hs : list hop) : pstate := fold_left hstep hs s.

Section Ask.
  Variable sb_oracle par_oracle : bytes -> bool.
  Variable ss_oracle : bytes -> N -> option ssverdict.
  Variable rw_sort : list Rewrites.entry -> list Rewrites.entry.

  (** A query is answered with the engines that are installed. *)
  Definition ask_engines (e : engines) (c : cfg) (up : upstream) (q : request) : outcome :=
    process (match_request (fst e)) (match_request (snd e)) sb_oracle par_oracle ss_oracle rw_sort c up q.
  Definition ask_q (s : pstate) (c : cfg) (up : upstream) (q : request) : outcome :=
    ask_engines (q_engine s) c up q.
End Ask.

(** C16 (round 5): Server.prepareTLS as a transformer of the state the strict
    server-name check reads (internal/dnsforward/config.go, dnsforward.go as
    they are in /repo).

    One Server value lives through every reconfiguration: Server.Reconfigure
    and a restart both call Server.Prepare on it, which stores the new
    configuration (s.conf = *conf), runs prepareTLS and installs a NEW proxy.
    The fields that survive from one Prepare to the next and are read by
    Server.onGetCertificate:

      s.dnsNames                       [ts_dns_names]
      s.hasIPAddrs                     [ts_has_ip]   (read by the DDR answer only)
      s.conf.TLSConf.StrictSNICheck    [ts_strict]   (the configuration in force)

    and whether the proxy now in place got a tls.Config whose GetCertificate is
    s.onGetCertificate ([ts_installed]; without it no handshake reaches the
    check through this proxy).

    prepareTLS as written: no certificate, or neither a DoT nor a DoQ listen
    address: return, nothing assigned.  Otherwise s.hasIPAddrs is assigned
    from the certificate; with StrictSNICheck, s.dnsNames is ASSIGNED the
    certificate's SAN DNS names (sorted) or [CommonName]; without
    StrictSNICheck s.dnsNames keeps what it held (it is not read then).
    x509.ParseCertificate failing (Prepare fails as a whole) is outside the
    model: the harness uses parseable certificates.

    [appending = true] is the variant  s.dnsNames = append(s.dnsNames,
    cert.DNSNames...)  (refuted in Proofs/CertPrepare.v); the tree has
    [appending = false].  No proofs in this file. *)
From Coq Require Import List NArith Bool Arith.
From AGH Require Import Base.Run Base.Bytes Base.Dom Model.CertNames.
Import ListNotations.
Local Open Scope N_scope.

(** What one Prepare call brings: the TLS part of the ServerConfig. *)
Record tls_conf := {
  tc_has_cert : bool;      (* TLSConf.Cert != nil *)
  tc_listen : bool;        (* TLSListenAddrs != nil || QUICListenAddrs != nil *)
  tc_strict : bool;        (* TLSConf.StrictSNICheck *)
  tc_cert : cert;          (* SAN DNS names in certificate order, CommonName *)
  tc_cert_has_ip : bool    (* aghtls.CertificateHasIP *)
}.

Record tls_state := {
  ts_dns_names : list bytes;
  ts_has_ip : bool;
  ts_strict : bool;
  ts_installed : bool
}.

Definition tls_state0 : tls_state :=
  {| ts_dns_names := []; ts_has_ip := false; ts_strict := false; ts_installed := false |}.

Definition prepare_tls (appending : bool) (st : tls_state) (c : tls_conf) : tls_state :=
  if negb (tc_has_cert c) || negb (tc_listen c) then
    {| ts_dns_names := ts_dns_names st; ts_has_ip := ts_has_ip st;
       ts_strict := tc_strict c; ts_installed := false |}
  else
    {| ts_dns_names :=
         if tc_strict c then
           match c_dns_names (tc_cert c) with
           | [] => [c_common_name (tc_cert c)]
           | _ :: _ =>
               sort_names (if appending then ts_dns_names st ++ c_dns_names (tc_cert c)
                           else c_dns_names (tc_cert c))
           end
         else ts_dns_names st;
       ts_has_ip := tc_cert_has_ip c;
       ts_strict := tc_strict c;
       ts_installed := true |}.

(** Server.onGetCertificate on the state as it is at the time of the
    handshake. *)
Definition on_get_certificate (st : tls_state) (sni : bytes) (v6 : bool) : bool :=
  if ts_strict st then any_name_matches (ts_dns_names st) sni v6 else true.

Definition run_prepares (appending : bool) (st : tls_state) (confs : list tls_conf) : tls_state :=
  fold_left (prepare_tls appending) confs st.

(** C19, round 6: two enumerated names of one host whose SHA-256 hashes share
    the 2-byte prefix (one name in 65536 shares it with its own parent).  No
    proofs here.

    The code (Model/HashPrefix.v, [check]) does nothing special about it: the
    list [hashesToRequest] that [findInCache] returns has one hash per
    enumerated name without a valid entry, so
    - [getQuestion] writes the shared prefix TWICE (one label per name);
    - [processAnswer] matches the returned full hashes against every hash of
      that list;
    - [storeInCache] groups the returned hashes by prefix in a Go map: ONE
      entry for the shared prefix, holding every returned hash with it; its
      second loop runs over the list and finds, for the second hash of the
      pair, the entry (or the map key) the first one left.

    Here: variants that are NOT the code, in which the request list is reduced
    to one hash per prefix before it is used (red-team change C19-K:
    [slices.CompactFunc(hashesToRequest, samePrefix)] "so that the same prefix
    is not asked twice"), stated on a copy of [check] that is parametric in
    what is done to the list. *)
From Coq Require Import ZArith NArith List Bool.
From AGH Require Import Base.Run Base.Bytes Model.HashPrefix.
Import ListNotations.

(** [slices.CompactFunc(hs, samePrefix)]: of every run of consecutive hashes
    with equal prefixes the first one is kept. *)
Fixpoint compact_from (prev : prefix) (hs : list hash) : list hash :=
  match hs with
  | [] => []
  | h :: r =>
      if eqb_bytes (prefix_of h) prev then compact_from prev r
      else h :: compact_from (prefix_of h) r
  end.
Definition compact_prefix (hs : list hash) : list hash :=
  match hs with
  | [] => []
  | h :: r => h :: compact_from (prefix_of h) r
  end.

(** One hash per prefix, whether the equal prefixes are neighbours or not (a
    map keyed by prefix, a "seen" set): the first one is kept. *)
Fixpoint dedup_prefix (hs : list hash) : list hash :=
  match hs with
  | [] => []
  | h :: r => h :: filter (fun y => negb (eqb_bytes (prefix_of y) (prefix_of h))) (dedup_prefix r)
  end.

Section Variant.
  Variable sha : bytes -> hash.
  Variable pubsuf : bytes -> bytes * bool.
  Variable suffix : bytes.
  Variable cache_time : Z.
  (** What is done to [hashesToRequest] between [findInCache] and its three
      uses; the code: nothing. *)
  Variable f : list hash -> list hash.

  Definition check_req_with (svc : list prefix -> option (list bytes)) (order : list prefix)
      (evs : list set_ev) (now : Z) (host : bytes) (c : cache) : cache * check_out :=
    let hashes := hostname_to_hashes sha pubsuf host in
    match find_in_cache now c hashes with
    | FoundBlocked => (c, {| o_blocked := true; o_err := false; o_question := None;
                             o_sets_left := length evs |})
    | FoundClean => (c, {| o_blocked := false; o_err := false; o_question := None;
                           o_sets_left := length evs |})
    | ToRequest hs0 =>
        let hs := f hs0 in
        let q := question suffix hs in
        match svc (map prefix_of hs) with
        | None => (c, {| o_blocked := false; o_err := true; o_question := Some q;
                         o_sets_left := length evs |})
        | Some strs =>
            let received := parse_txt strs in
            let matched := find_match hs received in
            let '(c', rest) :=
              store_in_cache ((now + cache_time) / ns_sec)%Z hs received order evs c in
            (c', {| o_blocked := matched; o_err := false; o_question := Some q;
                    o_sets_left := length rest |})
        end
    end.
End Variant.

(** Model of the hand-over of a request's ClientID from
    [Server.HandleBefore] (dnsforward/beforerequest.go) to
    [Server.processInitial] (process.go) through [Server.clientIDCache]
    (C04, with C16): golibs/cache with EnableLRU and MaxCount = 1024, keyed by
    the 8 big-endian bytes of the proxy's unique RequestID.  No proofs here.

    The cache is the usage list (head = least recently used) of (key, value);
    a key occurs at most once.  [cc_max_elem] is MaxElementSize ([None]: not
    limited, as configured) counted over key and value bytes. *)
From Coq Require Import List NArith Bool.
From AGH Require Import Base.Run.
Import ListNotations.
Local Open Scope N_scope.

Record cache_conf := { cc_max_count : nat; cc_max_elem : option nat }.

(** dnsforward.go: cache.Config{EnableLRU: true, MaxCount: 1024} *)
Definition server_cache_conf : cache_conf := {| cc_max_count := 1024; cc_max_elem := None |}.

Definition cache := list (N * bytes).
Definition key_len : nat := 8.

Definition cache_del (k : N) (c : cache) : cache := filter (fun p => negb (fst p =? k)) c.
Fixpoint cache_find (k : N) (c : cache) : option bytes :=
  match c with
  | [] => None
  | (k', v) :: c' => if k' =? k then Some v else cache_find k c'
  end.

(** cache.Set (EnableLRU): too large elements are refused; while the count
    equals MaxCount the least recently used element goes (one round: the count
    drops below); an existing element of the key is unlinked; the new one is
    appended. *)
Definition cache_set (cf : cache_conf) (k : N) (v : bytes) (c : cache) : cache :=
  let too_large := match cc_max_elem cf with
                   | Some m => Nat.ltb m (key_len + length v)
                   | None => false
                   end in
  if too_large then c
  else
    let c1 := if Nat.eqb (length c) (cc_max_count cf) then tl c else c in
    cache_del k c1 ++ [(k, v)].

(** cache.Get (EnableLRU): a hit moves the element to the end. *)
Definition cache_get (k : N) (c : cache) : option bytes * cache :=
  match cache_find k c with
  | Some v => (Some v, cache_del k c ++ [(k, v)])
  | None => (None, c)
  end.

(** One request contributes two events: HandleBefore with the ClientID it
    extracted ([[]]: none; a request refused there contributes nothing more),
    later processInitial. *)
Inductive ev :=
  | EvBefore (rid : N) (cid : bytes)
  | EvInitial (rid : N).

(** The state after the event and, for processInitial, [dctx.clientID]. *)
Definition ev_step (cf : cache_conf) (c : cache) (e : ev) : cache * option bytes :=
  match e with
  | EvBefore rid cid =>
      (match cid with [] => c | _ => cache_set cf rid cid c end, None)
  | EvInitial rid =>
      match cache_get rid c with
      | (Some v, c') => (c', Some v)
      | (None, c') => (c', Some [])
      end
  end.

Fixpoint ev_run (cf : cache_conf) (c : cache) (evs : list ev) : cache * list (option bytes) :=
  match evs with
  | [] => (c, [])
  | e :: evs' =>
      let (c1, o) := ev_step cf c e in
      let (c2, os) := ev_run cf c1 evs' in
      (c2, o :: os)
  end.

Definition ev_state (cf : cache_conf) (c : cache) (evs : list ev) : cache :=
  fold_left (fun c e => fst (ev_step cf c e)) evs c.
(** What processInitial of request [rid] sees after the events [evs]. *)
Definition seen_after (cf : cache_conf) (evs : list ev) (rid : N) : bytes :=
  match snd (ev_step cf (ev_state cf [] evs) (EvInitial rid)) with
  | Some v => v
  | None => []
  end.

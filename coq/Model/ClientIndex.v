(** Model of the persistent-client registry (C04):
    internal/client/index.go, storage.go (Add / Update / RemoveByName / Find /
    FindByName / RangeByName / ApplyClientFiltering), persistent.go
    (validate, subnetCompare), aghalg.SortedMap.  No proofs here.

    Strings, ClientIDs, MACs are byte lists; an address is the pair of the byte
    list Go's [netip.Addr.AsSlice] gives (4 or 16 bytes; [[]] for the invalid
    zero Addr) and its IPv6 zone ([[]]: none); the exact-address map is keyed by
    the whole pair, as Go's map[netip.Addr] is.  A prefix is (address bytes as
    parsed, NOT masked; bit count); prefixes have no zones (netip.ParsePrefix
    rejects them).  UIDs are numbers (the harness numbers the UUIDs it sees from 1;
    0 is the zero UID).  Go maps are association lists without duplicate keys;
    the sorted subnet map is an association list kept in [subnet_compare]
    order (keys slice and value map of aghalg.SortedMap fused). *)
From Coq Require Import ZArith.
From AGH Require Import Base.Run Base.Bytes.
From AGH Require Model.Schedule.
From AGH Require Export Model.ClientValidate.
Local Open Scope N_scope.

Definition uid := N.
Definition addr := (bytes * bytes)%type.
Definition addr_eqb (a b : addr) : bool := eqb_bytes (fst a) (fst b) && eqb_bytes (snd a) (snd b).
Definition prefix := (bytes * N)%type.

(** filtering.BlockedServices: service ids and the pause schedule
    ([Model/Schedule.v]; the zone is a number, its offset function comes from
    the environment).  A nil pointer is [None] at the use sites. *)
Record blocked := { b_ids : list bytes; b_sched : Schedule.weekly; b_zone : N }.

Record client := {
  c_uid : uid;
  c_name : bytes;
  c_cids : list bytes;
  c_ips : list addr;
  c_subnets : list prefix;
  c_macs : list bytes;
  c_own_settings : bool;
  c_filtering : bool;
  c_safesearch : bool;
  c_safebrowsing : bool;
  c_parental : bool;
  c_own_blocked : bool;
  c_blocked : option blocked;         (* BlockedServices (nil pointer = None) *)
  c_ignore_qlog : bool;
  c_ignore_stats : bool;
  c_tags : list bytes;
  c_upstreams : list bytes            (* the lines of Upstreams *)
}.

Definition set_uid (u : uid) (c : client) : client :=
  {| c_uid := u; c_name := c_name c; c_cids := c_cids c; c_ips := c_ips c;
     c_subnets := c_subnets c; c_macs := c_macs c; c_own_settings := c_own_settings c;
     c_filtering := c_filtering c; c_safesearch := c_safesearch c;
     c_safebrowsing := c_safebrowsing c; c_parental := c_parental c;
     c_own_blocked := c_own_blocked c; c_blocked := c_blocked c;
     c_ignore_qlog := c_ignore_qlog c; c_ignore_stats := c_ignore_stats c;
     c_tags := c_tags c; c_upstreams := c_upstreams c |}.

Definition set_tags (ts : list bytes) (c : client) : client :=
  {| c_uid := c_uid c; c_name := c_name c; c_cids := c_cids c; c_ips := c_ips c;
     c_subnets := c_subnets c; c_macs := c_macs c; c_own_settings := c_own_settings c;
     c_filtering := c_filtering c; c_safesearch := c_safesearch c;
     c_safebrowsing := c_safebrowsing c; c_parental := c_parental c;
     c_own_blocked := c_own_blocked c; c_blocked := c_blocked c;
     c_ignore_qlog := c_ignore_qlog c; c_ignore_stats := c_ignore_stats c;
     c_tags := ts; c_upstreams := c_upstreams c |}.

(** * Association lists (Go maps) *)
Section AL.
  Context {K V : Type} (eqb : K -> K -> bool).
  Fixpoint al_get (k : K) (m : list (K * V)) : option V :=
    match m with
    | [] => None
    | (k', v) :: m' => if eqb k k' then Some v else al_get k m'
    end.
  Definition al_del (k : K) (m : list (K * V)) : list (K * V) :=
    filter (fun p => negb (eqb k (fst p))) m.
  Definition al_set (k : K) (v : V) (m : list (K * V)) : list (K * V) :=
    (k, v) :: al_del k m.
End AL.

(** * Orders: netip.Addr.Compare (without zones) and subnetCompare *)
Fixpoint cmp_bytes (a b : bytes) : comparison :=
  match a, b with
  | [], [] => Eq
  | [], _ => Lt
  | _, [] => Gt
  | x :: a', y :: b' => match N.compare x y with Eq => cmp_bytes a' b' | c => c end
  end.

(** BitLen first (IPv4 before IPv6), then the value (prefix addresses: no zone). *)
Definition addr_compare (a b : bytes) : comparison :=
  match Nat.compare (length a) (length b) with Eq => cmp_bytes a b | c => c end.

(** Longer prefix first, then by address. *)
Definition subnet_compare (x y : prefix) : comparison :=
  match N.compare (snd y) (snd x) with Eq => addr_compare (fst x) (fst y) | c => c end.

Definition prefix_eqb (x y : prefix) : bool := eqb_bytes (fst x) (fst y) && (snd x =? snd y).

(** aghalg.SortedMap.Set: binary search for the first key not below [k]
    (linear here, the same position on a sorted slice); replace or insert. *)
Fixpoint sm_set {V} (k : prefix) (v : V) (m : list (prefix * V)) : list (prefix * V) :=
  match m with
  | [] => [(k, v)]
  | (k', v') :: m' =>
      match subnet_compare k' k with
      | Lt => (k', v') :: sm_set k v m'
      | Eq => (k, v) :: m'
      | Gt => (k, v) :: m
      end
  end.
Definition sm_get {V} := @al_get prefix V prefix_eqb.
Definition sm_del {V} := @al_del prefix V prefix_eqb.

(** * netip.Prefix.Contains *)
Fixpoint take_bits (n : N) (l : bytes) : bytes :=
  match l with
  | [] => []
  | b :: l' =>
      if n =? 0 then [] else
      if n <? 8 then [b / 2 ^ (8 - n)] else b :: take_bits (n - 8) l'
  end.

Definition contains (p : prefix) (ip : bytes) : bool :=
  Nat.eqb (length (fst p)) (length ip) && negb (Nat.eqb (length ip) 0) &&
  eqb_bytes (take_bits (snd p) (fst p)) (take_bits (snd p) ip).

(** * The index (client.index) *)
Record index := {
  by_uid : list (uid * client);
  name_to : list (bytes * uid);
  cid_to : list (bytes * uid);
  ip_to : list (addr * uid);
  mac_to : list (bytes * uid);
  subnet_to : list (prefix * uid)
}.

Definition empty_index : index :=
  {| by_uid := []; name_to := []; cid_to := []; ip_to := []; mac_to := []; subnet_to := [] |}.

Definition bget {V} := @al_get bytes V eqb_bytes.
Definition bset {V} := @al_set bytes V eqb_bytes.
Definition bdel {V} := @al_del bytes V eqb_bytes.
Definition zget {V} := @al_get addr V addr_eqb.
Definition zset {V} := @al_set addr V addr_eqb.
Definition zdel {V} := @al_del addr V addr_eqb.

Definition add_keys {K M} (set : K -> uid -> M -> M) (ks : list K) (u : uid) (m : M) : M :=
  fold_left (fun m k => set k u m) ks m.
Definition del_keys {K M} (del : K -> M -> M) (ks : list K) (m : M) : M :=
  fold_left (fun m k => del k m) ks m.
(** First key of [ks] that the map gives to a different uid. *)
Fixpoint clash_key {K M} (get : K -> M -> option uid) (ks : list K) (u : uid) (m : M) : option uid :=
  match ks with
  | [] => None
  | k :: ks' =>
      match get k m with
      | Some u' => if u' =? u then clash_key get ks' u m else Some u'
      | None => clash_key get ks' u m
      end
  end.

(** index.add *)
Definition index_add (c : client) (ix : index) : index :=
  {| name_to := bset (c_name c) (c_uid c) (name_to ix);
     cid_to := add_keys bset (c_cids c) (c_uid c) (cid_to ix);
     ip_to := add_keys zset (c_ips c) (c_uid c) (ip_to ix);
     subnet_to := add_keys sm_set (c_subnets c) (c_uid c) (subnet_to ix);
     mac_to := add_keys bset (c_macs c) (c_uid c) (mac_to ix);
     by_uid := al_set N.eqb (c_uid c) c (by_uid ix) |}.

(** index.remove *)
Definition index_remove (c : client) (ix : index) : index :=
  {| name_to := bdel (c_name c) (name_to ix);
     cid_to := del_keys bdel (c_cids c) (cid_to ix);
     ip_to := del_keys zdel (c_ips c) (ip_to ix);
     subnet_to := del_keys sm_del (c_subnets c) (subnet_to ix);
     mac_to := del_keys bdel (c_macs c) (mac_to ix);
     by_uid := al_del N.eqb (c_uid c) (by_uid ix) |}.

Inductive err :=
  | EOk | EValidate | EUid | EName | ECid | EIP | ESubnet | EMac | ENotFound
  | EUpstream      (* "invalid upstream servers" *)
  | ETag           (* "invalid tag" *)
  | EPanic.        (* the call panicked (dnsproxy's parseLine, see Model/ClientValidate.v) *)

(** index.clashes: name, ClientIDs, IPs, subnets, MACs, in this order. *)
Definition clashes (c : client) (ix : index) : err :=
  match clash_key bget [c_name c] (c_uid c) (name_to ix) with Some _ => EName | None =>
  match clash_key bget (c_cids c) (c_uid c) (cid_to ix) with Some _ => ECid | None =>
  match clash_key zget (c_ips c) (c_uid c) (ip_to ix) with Some _ => EIP | None =>
  match clash_key sm_get (c_subnets c) (c_uid c) (subnet_to ix) with Some _ => ESubnet | None =>
  match clash_key bget (c_macs c) (c_uid c) (mac_to ix) with Some _ => EMac | None =>
  EOk end end end end end.

Definition deref (ix : index) (u : uid) : option client := al_get N.eqb u (by_uid ix).

Definition ids_len (c : client) : nat :=
  (length (c_ips c) + length (c_subnets c) + length (c_macs c) + length (c_cids c))%nat.

(** slices.Sort on strings (byte order): insertion sort. *)
Fixpoint ins_name (n : bytes) (l : list bytes) : list bytes :=
  match l with
  | [] => [n]
  | x :: l' => match cmp_bytes n x with Lt => n :: l | _ => x :: ins_name n l' end
  end.
Definition sort_names (l : list bytes) : list bytes := fold_right ins_name [] l.

(** What the storage is configured with: its sorted list of allowed tags and
    the oracle for [upstream.AddressToUpstream] succeeding on a token. *)
Record config := { cfg_tags : list bytes; cfg_addr_ok : bytes -> bool }.

(** Persistent.validate: name, identifiers, uid; then the upstream lines
    (error or panic); then the tags, in this order. *)
Definition validate (cfg : config) (c : client) : err :=
  if Nat.eqb (length (c_name c)) 0 then EValidate
  else if Nat.eqb (ids_len c) 0 then EValidate
  else if c_uid c =? 0 then EValidate
  else match parse_upstreams (cfg_addr_ok cfg) (c_upstreams c) with
       | LPanic => EPanic
       | LErr => EUpstream
       | LOk => if forallb (tag_ok (cfg_tags cfg)) (c_tags c) then EOk else ETag
       end.

(** ... and on success the tags of the record are sorted in place. *)
Definition normalize (c : client) : client := set_tags (sort_names (c_tags c)) c.

(** Storage.Add *)
Definition add (cfg : config) (c : client) (ix : index) : index * err :=
  match validate cfg c with
  | EOk =>
      let c := normalize c in
      match deref ix (c_uid c) with
      | Some _ => (ix, EUid)
      | None =>
          match clashes c ix with
          | EOk => (index_add c ix, EOk)
          | e => (ix, e)
          end
      end
  | e => (ix, e)
  end.

(** Storage.Update *)
Definition update (cfg : config) (name : bytes) (c : client) (ix : index) : index * err :=
  match validate cfg c with
  | EOk =>
      let c := normalize c in
      match bget name (name_to ix) with
      | None => (ix, ENotFound)
      | Some u =>
          match deref ix u with
          | None => (ix, ENotFound)     (* nil pointer in Go; excluded by the invariant *)
          | Some stored =>
              let p := set_uid (c_uid stored) c in
              match clashes p ix with
              | EOk => (index_add p (index_remove stored ix), EOk)
              | e => (ix, e)
              end
          end
      end
  | e => (ix, e)
  end.

(** Storage.RemoveByName *)
Definition remove_by_name (name : bytes) (ix : index) : index * err :=
  match bget name (name_to ix) with
  | None => (ix, ENotFound)
  | Some u =>
      match deref ix u with
      | None => (ix, ENotFound)
      | Some stored => (index_remove stored ix, EOk)
      end
  end.

Inductive op :=
  | OAdd (c : client)
  | OUpdate (name : bytes) (c : client)
  | ORemove (name : bytes).

Definition step (cfg : config) (ix : index) (o : op) : index * err :=
  match o with
  | OAdd c => add cfg c ix
  | OUpdate n c => update cfg n c ix
  | ORemove n => remove_by_name n ix
  end.

Definition run (cfg : config) (ops : list op) (ix : index) : index :=
  fold_left (fun ix o => fst (step cfg ix o)) ops ix.

(** * Lookups (uid level; [deref] gives the record) *)
Definition find_by_name (ix : index) (n : bytes) : option uid := bget n (name_to ix).
Definition find_by_cid (ix : index) (id : bytes) : option uid := bget id (cid_to ix).
Definition find_by_mac (ix : index) (m : bytes) : option uid := bget m (mac_to ix).

(** index.findByIP: exact (zone included), then the first containing prefix in
    stored order, the zone stripped. *)
Definition find_by_ip (ix : index) (ip : addr) : option uid :=
  match zget ip (ip_to ix) with
  | Some u => Some u
  | None =>
      match List.find (fun pu => contains (fst pu) (fst ip)) (subnet_to ix) with
      | Some (_, u) => Some u
      | None => None
      end
  end.

(** index.find on a string: [ip] / [mac] are what netip.ParseAddr /
    net.ParseMAC make of the same string (None: parse error). *)
Definition find (ix : index) (id : bytes) (ip : option addr) (mac : option bytes) : option uid :=
  match find_by_cid ix id with
  | Some u => Some u
  | None =>
      match (match ip with Some a => find_by_ip ix a | None => None end) with
      | Some u => Some u
      | None => match mac with Some m => find_by_mac ix m | None => None end
      end
  end.

(** Storage.Find: index.find, then the MAC of the DHCP lease of the address. *)
Definition storage_find (ix : index) (dhcp : addr -> option bytes)
    (id : bytes) (ip : option addr) (mac : option bytes) : option uid :=
  match find ix id ip mac with
  | Some u => Some u
  | None =>
      match ip with
      | Some a => match dhcp a with Some m => find_by_mac ix m | None => None end
      | None => None
      end
  end.

(** Client selection of Storage.ApplyClientFiltering. *)
Definition acf_find (ix : index) (dhcp : addr -> option bytes) (id : bytes) (a : addr) : option uid :=
  match find_by_cid ix id with
  | Some u => Some u
  | None =>
      match find_by_ip ix a with
      | Some u => Some u
      | None => match dhcp a with Some m => find_by_mac ix m | None => None end
      end
  end.

Record settings := {
  s_client_name : bytes;
  s_filtering : bool;
  s_safesearch : bool;
  s_safebrowsing : bool;
  s_parental : bool;
  s_blocked : option blocked;         (* Settings.BlockedServices *)
  s_tags : list bytes;                (* Settings.ClientTags *)
  s_services : list bytes             (* names of Settings.ServicesRules *)
}.

Definition apply_client (c : client) (g : settings) : settings :=
  let blocked := if c_own_blocked c then c_blocked c else s_blocked g in
  if c_own_settings c then
    {| s_client_name := c_name c; s_filtering := c_filtering c; s_safesearch := c_safesearch c;
       s_safebrowsing := c_safebrowsing c; s_parental := c_parental c; s_blocked := blocked;
       s_tags := c_tags c; s_services := s_services g |}
  else
    {| s_client_name := c_name c; s_filtering := s_filtering g; s_safesearch := s_safesearch g;
       s_safebrowsing := s_safebrowsing g; s_parental := s_parental g; s_blocked := blocked;
       s_tags := c_tags c; s_services := s_services g |}.

(** Storage.ApplyClientFiltering.  [None]: Go would dereference a nil client
    (a uid without a record). *)
Definition apply_client_filtering (ix : index) (dhcp : addr -> option bytes)
    (id : bytes) (a : addr) (g : settings) : option settings :=
  match acf_find ix dhcp id a with
  | None => Some g
  | Some u => match deref ix u with Some c => Some (apply_client c g) | None => None end
  end.

(** index.rangeByName: names in sorted order (insertion sort, stable). *)
Definition range_by_name (ix : index) : list bytes :=
  fold_right ins_name [] (map (fun p => c_name (snd p)) (by_uid ix)).

(** * DNSFilter.ApplyAdditionalFiltering (filtering/filter.go, blocked.go)

    The path from the registry to the request's effective blocked-service
    rules: the global list (unless the global schedule is pausing at [t]),
    then the client's record, then, when the settings now carry a
    BlockedServices value (only a client with UseOwnBlockedServices and a
    non-nil record sets one on this path), the global rules are DROPPED and
    the client's own list is applied unless the client's OWN schedule is
    pausing at [t].  [zone_off z] is the offset function of zone number [z];
    [known] are the service ids the binary has rules for (others are skipped
    with a log line). *)
Section Additional.
  Variable zone_off : N -> Z -> Z.
  Variable known : list bytes.

  Definition paused (b : blocked) (t : Z) : bool :=
    Schedule.contains (b_sched b) (zone_off (b_zone b)) t.

  (** ApplyBlockedServicesList appended to an empty list *)
  Definition services_of (ids : list bytes) : list bytes :=
    filter (fun i => existsb (eqb_bytes i) known) ids.

  Definition effective_services (b : blocked) (t : Z) : list bytes :=
    if paused b t then [] else services_of (b_ids b).

  Definition set_services (l : list bytes) (s : settings) : settings :=
    {| s_client_name := s_client_name s; s_filtering := s_filtering s; s_safesearch := s_safesearch s;
       s_safebrowsing := s_safebrowsing s; s_parental := s_parental s; s_blocked := s_blocked s;
       s_tags := s_tags s; s_services := l |}.

  (** ApplyBlockedServices: the global configuration [gb]. *)
  Definition apply_blocked_services (gb : blocked) (t : Z) (s : settings) : settings :=
    set_services (effective_services gb t) s.

  Definition apply_additional_filtering (ix : index) (dhcp : addr -> option bytes)
      (gb : blocked) (t : Z) (id : bytes) (a : addr) (g : settings) : option settings :=
    match apply_client_filtering ix dhcp id a (apply_blocked_services gb t g) with
    | None => None
    | Some s =>
        Some (match s_blocked s with
              | None => s
              | Some b => set_services (effective_services b t) s
              end)
    end.
End Additional.

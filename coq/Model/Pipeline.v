(** Executable model of AdGuard Home's DNS filtering pipeline
    (internal/dnsforward/process.go, filter.go, msg.go;
    internal/filtering/filtering.go CheckHost, matchHost, blocked.go).
    No proofs here.

    Layer A: everything AdGuard Home itself decides.  The two rule engines
    and the upstream are parameters ([engines], [upstream]); the evaluator
    instantiates the engines with [RuleEngine.match_request] over the rule
    lists the harness loaded into the real engines, and the upstream with the
    scripted answer.

    Not modelled (assumed off in the harness, see props/C01.json): legacy
    rewrites, $dnsrewrite rules, the hosts-file container, safe search, DDR,
    DHCP host names, ipset, DNS64, DNSSEC AD-bit handling, a block-page host
    given as a name (it is resolved upstream). *)
From Coq Require Import List NArith Bool.
From AGH Require Import Base.Run Base.NetAddr Base.RuleEngine.
Import ListNotations.
Local Open Scope N_scope.

(** * DNS data *)

Definition tA : N := 1.
Definition tCNAME : N := 5.
Definition tAAAA : N := 28.
Definition tHTTPS : N := 65.

(** An address together with the text the code matches rules against
    ([net.IP.String]); the text is an input, equality ignores it. *)
Record taddr := mkTA { ta_addr : addr; ta_text : bytes }.

Inductive svcparam :=
  | SPv4 (hints : list taddr)
  | SPv6 (hints : list taddr)
  | SPOther (key : N).

Inductive rdata :=
  | DA (a : taddr)
  | DAAAA (a : taddr)
  | DCNAME (target : bytes)          (* FQDN as in the record *)
  | DHTTPS (params : list svcparam)
  | DOther (ty : N) (id : N).        (* any other record, opaque *)

Record rr := mkRR { rr_name : bytes; rr_ttl : N; rr_data : rdata }.

Record resp := mkResp { rs_rcode : N; rs_answer : list rr; rs_soa : bool }.

Definition rcSuccess : N := 0.
Definition rcServfail : N := 2.
Definition rcNXDomain : N := 3.
Definition rcRefused : N := 5.

(** * Configuration *)

Inductive bmode := MDefault | MRefused | MNXDomain | MNullIP | MCustomIP.

(** The block page of safe browsing / parental control. *)
Inductive blockhost := BHEmpty | BHAddr (a : addr).

Record pclient := mkPClient {
  pc_name : bytes;
  pc_use_own_settings : bool;
  pc_filtering : bool;
  pc_safebrowsing : bool;
  pc_parental : bool;
  pc_use_own_services : bool;
  pc_services : list bytes;
  pc_services_paused : bool          (* the client's pause schedule contains now *)
}.

Record cfg := mkCfg {
  c_prot_enabled : bool;
  c_prot_deadline : option bool;     (* pause deadline; Some true = still in the future *)
  c_filtering : bool;
  c_safebrowsing : bool;
  c_parental : bool;
  c_mode : bmode;
  c_ip4 : addr;
  c_ip6 : addr;
  c_ttl : N;
  c_aaaa_disabled : bool;
  c_services : list bytes;           (* globally blocked service ids *)
  c_services_paused : bool;          (* the global pause schedule contains now *)
  c_service_table : list (bytes * list nrule);
  c_sb_host : blockhost;
  c_par_host : blockhost
}.

Record request := mkRequest {
  q_name : bytes;                    (* FQDN as sent, case preserved *)
  q_qtype : N;
  q_addr : addr;                     (* client address *)
  q_client : option pclient          (* the persistent client found for it *)
}.

(** * Filtering results *)

Inductive reason :=
  | NotFilteredNotFound | NotFilteredAllowList
  | FilteredBlockList | FilteredSafeBrowsing | FilteredParental | FilteredBlockedService.

Definition reason_eqb (a b : reason) : bool :=
  match a, b with
  | NotFilteredNotFound, NotFilteredNotFound | NotFilteredAllowList, NotFilteredAllowList
  | FilteredBlockList, FilteredBlockList | FilteredSafeBrowsing, FilteredSafeBrowsing
  | FilteredParental, FilteredParental | FilteredBlockedService, FilteredBlockedService => true
  | _, _ => false
  end.

Record result := mkResult {
  r_reason : reason;
  r_filtered : bool;
  r_service : bytes;
  r_rules : list (N * option addr)   (* rule id, IP of a hosts-style rule *)
}.

Definition no_result : result := mkResult NotFilteredNotFound false [] [].

Definition matched (r : result) : bool := negb (reason_eqb (r_reason r) NotFilteredNotFound).

Record settings := mkSettings {
  st_protection : bool;
  st_filtering : bool;
  st_safebrowsing : bool;
  st_parental : bool;
  st_client_name : bytes;
  st_client_ip : addr;
  st_services : list (bytes * list nrule)
}.

(** Server.UpdatedProtectionStatus *)
Definition protection_on (c : cfg) : bool :=
  match c_prot_deadline c with
  | None => c_prot_enabled c
  | Some future => negb future
  end.

Fixpoint lookup_service (tbl : list (bytes * list nrule)) (id : bytes) : option (list nrule) :=
  match tbl with
  | [] => None
  | (k, v) :: rest => if eqb_bytes k id then Some v else lookup_service rest id
  end.

(** ApplyBlockedServicesList: unknown ids are skipped. *)
Definition services_list (tbl : list (bytes * list nrule)) (ids : list bytes) : list (bytes * list nrule) :=
  flat_map (fun id => match lookup_service tbl id with Some rs => [(id, rs)] | None => [] end) ids.

(** clientRequestFilteringSettings = Settings + ApplyAdditionalFiltering
    (+ client.Storage.ApplyClientFiltering for the found client). *)
Definition client_settings (c : cfg) (q : request) : settings :=
  let global_svcs := if c_services_paused c then [] else services_list (c_service_table c) (c_services c) in
  match q_client q with
  | None =>
      mkSettings (protection_on c) (c_filtering c) (c_safebrowsing c) (c_parental c) [] (q_addr q) global_svcs
  | Some p =>
      let svcs :=
        if pc_use_own_services p then
          (if pc_services_paused p then [] else services_list (c_service_table c) (pc_services p))
        else global_svcs in
      if pc_use_own_settings p then
        mkSettings (protection_on c) (pc_filtering p) (pc_safebrowsing p) (pc_parental p)
                   (pc_name p) (q_addr q) svcs
      else
        mkSettings (protection_on c) (c_filtering c) (c_safebrowsing c) (c_parental c)
                   (pc_name p) (q_addr q) svcs
  end.

(** * Host checkers *)

Section Engines.
  (** The allow-list engine and the block-list engine
      ([urlfilter.DNSEngine.MatchRequest]). *)
  Variable allow_eng block_eng : ufreq -> dnsresult * bool.
  (** Safe-browsing and parental verdicts for a host. *)
  Variable sb_oracle par_oracle : bytes -> bool.

  Definition host_rule_entries (hs : list hrule) : list (N * option addr) :=
    map (fun h => (hr_id h, Some (hr_ip h))) hs.

  (** matchHostProcessAllowList *)
  Definition allowlist_result (dr : dnsresult) : result :=
    let rules :=
      match dr_net dr with
      | Some n => [(nr_id n, None)]
      | None =>
          match dr_v4 dr with
          | _ :: _ => map (fun h => (hr_id h, None)) (dr_v4 dr)
          | [] => map (fun h => (hr_id h, None)) (dr_v6 dr)
          end
      end in
    mkResult NotFilteredAllowList false [] rules.

  (** hostResultForOtherQType *)
  Definition other_qtype_result (dr : dnsresult) : result :=
    match dr_v4 dr with
    | h :: _ => mkResult FilteredBlockList true [] [(hr_id h, None)]
    | [] =>
        match dr_v6 dr with
        | h :: _ => mkResult FilteredBlockList true [] [(hr_id h, None)]
        | [] => no_result
        end
    end.

  (** matchHostProcessDNSResult *)
  Definition blocklist_result (qt : N) (dr : dnsresult) : result :=
    match dr_net dr with
    | Some n =>
        if nr_white n then mkResult NotFilteredAllowList false [] [(nr_id n, None)]
        else mkResult FilteredBlockList true [] [(nr_id n, None)]
    | None =>
        if qt =? tA then
          match dr_v4 dr with
          | _ :: _ => mkResult FilteredBlockList true [] (host_rule_entries (dr_v4 dr))
          | [] => other_qtype_result dr
          end
        else if qt =? tAAAA then
          match dr_v6 dr with
          | _ :: _ => mkResult FilteredBlockList true [] (host_rule_entries (dr_v6 dr))
          | [] => other_qtype_result dr
          end
        else other_qtype_result dr
    end.

  (** DNSFilter.matchHost: allow engine first (only when protection is on),
      then the block engine; without protection nothing is reported. *)
  Definition match_host (st : settings) (host : bytes) (qt : N) : result :=
    if negb (st_filtering st) then no_result
    else
      let rq := mkReq host qt (st_client_name st) (Some (st_client_ip st)) in
      let allow := if st_protection st then allow_eng rq else (empty_result, false) in
      if snd allow then allowlist_result (fst allow)
      else
        let blk := block_eng rq in
        if negb (snd blk) then no_result
        else if negb (st_protection st) then no_result
        else blocklist_result qt (fst blk).

  (** matchBlockedServicesRules: first service with a matching rule; the
      request carries neither type nor client. *)
  Fixpoint first_service (svcs : list (bytes * list nrule)) (host : bytes) : option (bytes * nrule) :=
    match svcs with
    | [] => None
    | (name, rs) :: rest =>
        match find (nrule_match (mkReq host 0 [] None)) rs with
        | Some r => Some (name, r)
        | None => first_service rest host
        end
    end.

  Definition match_services (st : settings) (host : bytes) : result :=
    if negb (st_protection st) then no_result
    else match first_service (st_services st) host with
         | Some (name, r) => mkResult FilteredBlockedService true name [(nr_id r, None)]
         | None => no_result
         end.

  Definition check_safebrowsing (st : settings) (host : bytes) : result :=
    if st_protection st && st_safebrowsing st && sb_oracle host
    then mkResult FilteredSafeBrowsing true [] [(0, None)] else no_result.

  Definition check_parental (st : settings) (host : bytes) : result :=
    if st_protection st && st_parental st && par_oracle host
    then mkResult FilteredParental true [] [(0, None)] else no_result.

  (** The checkers in the order of filtering.New's literal (the hosts
      container and safe search are not configured). *)
  Inductive checker := ChkRules | ChkServices | ChkSafeBrowsing | ChkParental.

  Definition checker_order : list checker := [ChkRules; ChkServices; ChkSafeBrowsing; ChkParental].

  Definition run_checker (k : checker) (st : settings) (host : bytes) (qt : N) : result :=
    match k with
    | ChkRules => match_host st host qt
    | ChkServices => match_services st host
    | ChkSafeBrowsing => check_safebrowsing st host
    | ChkParental => check_parental st host
    end.

  Fixpoint first_match (ks : list checker) (st : settings) (host : bytes) (qt : N) : result :=
    match ks with
    | [] => no_result
    | k :: rest =>
        let r := run_checker k st host qt in
        if matched r then r else first_match rest st host qt
    end.

  (** DNSFilter.CheckHost *)
  Definition check_host (st : settings) (host : bytes) (qt : N) : result :=
    match host with
    | [] => no_result
    | _ => first_match checker_order st (lower host) qt
    end.

  (** * Synthetic responses (msg.go) *)

  Definition zero4 : addr := mkAddr V4 0 [].
  Definition zero6 : addr := mkAddr V6 0 [].

  Definition rec_a (c : cfg) (name : bytes) (a : addr) : rr := mkRR name (c_ttl c) (DA (mkTA a [])).
  Definition rec_aaaa (c : cfg) (name : bytes) (a : addr) : rr := mkRR name (c_ttl c) (DAAAA (mkTA a [])).

  Definition empty_ok : resp := mkResp rcSuccess [] false.
  Definition nodata : resp := mkResp rcSuccess [] true.
  Definition nxdomain : resp := mkResp rcNXDomain [] true.
  Definition refused : resp := mkResp rcRefused [] false.
  Definition servfail : resp := mkResp rcServfail [] false.

  (** ipsFromRules: valid addresses, first occurrence kept. *)
  Fixpoint uniq_addrs (l : list addr) (seen : list addr) : list addr :=
    match l with
    | [] => []
    | a :: rest => if existsb (addr_eqb a) seen then uniq_addrs rest seen
                   else a :: uniq_addrs rest (seen ++ [a])
    end.

  Definition ips_from_rules (r : result) : list addr :=
    uniq_addrs (flat_map (fun e => match snd e with Some a => [a] | None => [] end) (r_rules r)) [].

  (** genResponseWithIPs *)
  Definition response_with_ips (c : cfg) (name : bytes) (qt : N) (ips : list addr) : resp :=
    if qt =? tA then
      if forallb is4 ips then mkResp rcSuccess (map (rec_a c name) ips) false
      else empty_ok
    else if qt =? tAAAA then
      mkResp rcSuccess (map (rec_aaaa c name) (filter (fun a => negb (is4 a)) ips)) false
    else empty_ok.

  Definition null_ip_response (c : cfg) (name : bytes) (qt : N) : resp :=
    if qt =? tA then response_with_ips c name qt [zero4]
    else if qt =? tAAAA then response_with_ips c name qt [zero6]
    else empty_ok.

  (** genForBlockingMode *)
  Definition for_blocking_mode (c : cfg) (name : bytes) (qt : N) (ips : list addr) : resp :=
    match c_mode c with
    | MCustomIP =>
        if qt =? tA then mkResp rcSuccess [rec_a c name (c_ip4 c)] false
        else if qt =? tAAAA then mkResp rcSuccess [rec_aaaa c name (c_ip6 c)] false
        else empty_ok
    | MDefault =>
        match ips with
        | _ :: _ => response_with_ips c name qt ips
        | [] => null_ip_response c name qt
        end
    | MNullIP => null_ip_response c name qt
    | MNXDomain => nxdomain
    | MRefused => refused
    end.

  (** genBlockedHost for a block page given as an address (or not at all). *)
  Definition blocked_host_response (c : cfg) (name : bytes) (qt : N) (h : blockhost) : resp :=
    match h with
    | BHEmpty => servfail
    | BHAddr a => response_with_ips c name qt [a]
    end.

  (** genDNSFilterMessage *)
  Definition filter_message (c : cfg) (name : bytes) (qt : N) (r : result) : resp :=
    if negb ((qt =? tA) || (qt =? tAAAA) || (qt =? tHTTPS)) then
      match c_mode c with MNullIP => empty_ok | _ => nodata end
    else
      match r_reason r with
      | FilteredSafeBrowsing => blocked_host_response c name qt (c_sb_host c)
      | FilteredParental => blocked_host_response c name qt (c_par_host c)
      | _ => for_blocking_mode c name qt (ips_from_rules r)
      end.

  (** * Response filtering (filter.go) *)

  Definition trim_dot (s : bytes) : bytes :=
    match rev s with 46 :: r => rev r | _ => s end.

  Definition is_v6_hint (p : svcparam) : bool := match p with SPv6 _ => true | _ => false end.

  (** removeIPv6Hints when AAAA is disabled. *)
  Definition strip_rr (c : cfg) (r : rr) : rr :=
    match rr_data r with
    | DHTTPS ps =>
        if c_aaaa_disabled c
        then mkRR (rr_name r) (rr_ttl r) (DHTTPS (filter (fun p => negb (is_v6_hint p)) ps))
        else r
    | _ => r
    end.

  (** Server.checkHostRules = CheckHostRules = matchHost on the lower-cased text. *)
  Definition check_host_rules (st : settings) (host : bytes) (ty : N) : result :=
    match_host st (lower host) ty.

  Fixpoint first_filtered_hint (st : settings) (hs : list taddr) : option result :=
    match hs with
    | [] => None
    | h :: rest =>
        let r := check_host_rules st (ta_text h) tHTTPS in
        if r_filtered r then Some r else first_filtered_hint st rest
    end.

  (** filterHTTPSRecords on the (already stripped) parameters. *)
  Fixpoint filter_https (st : settings) (ps : list svcparam) : option result :=
    match ps with
    | [] => None
    | p :: rest =>
        let hs := match p with SPv4 l | SPv6 l => l | SPOther _ => [] end in
        match first_filtered_hint st hs with
        | Some r => Some r
        | None => filter_https st rest
        end
    end.

  (** The check of one answer record (after stripping): Some result when it
      is filtered. *)
  Definition check_rr (st : settings) (r : rr) : option result :=
    match rr_data r with
    | DCNAME t =>
        let res := check_host_rules st (trim_dot t) tCNAME in
        if r_filtered res then Some res else None
    | DA a =>
        let res := check_host_rules st (ta_text a) tA in
        if r_filtered res then Some res else None
    | DAAAA a =>
        let res := check_host_rules st (ta_text a) tAAAA in
        if r_filtered res then Some res else None
    | DHTTPS ps => filter_https st ps
    | DOther _ _ => None
    end.

  (** filterDNSResponse: walks the answer; returns the records as they are
      left behind (HTTPS records visited so far stripped) and the first
      filtered result. *)
  Fixpoint filter_answer (c : cfg) (st : settings) (ans : list rr) : list rr * option result :=
    match ans with
    | [] => ([], None)
    | r :: rest =>
        let r' := strip_rr c r in
        match check_rr st r' with
        | Some res => (r' :: rest, Some res)
        | None => let '(rest', res) := filter_answer c st rest in (r' :: rest', res)
        end
    end.

  (** * The pipeline (handleDNSRequest) *)

  Record outcome := mkOutcome {
    o_resp : option resp;              (* None: processing failed, nothing set *)
    o_calls : list (bytes * N);        (* questions sent upstream *)
    o_result : result;                 (* filtering result handed to the log *)
    o_orig_kept : bool;                (* upstream response kept as original answer *)
    o_logged : bool                    (* reached query log / statistics *)
  }.

  Definition mozilla_fqdn : bytes :=
    [117;115;101;45;97;112;112;108;105;99;97;116;105;111;110;45;100;110;115;46;110;101;116;46].
  Definition healthcheck_fqdn : bytes :=
    [104;101;97;108;116;104;99;104;101;99;107;46;97;100;103;117;97;114;100;104;111;109;101;46;116;101;115;116;46].

  (** The upstream: None = resolution error (dnsproxy then leaves a SERVFAIL
      in the context and the handler returns the error). *)
  Definition upstream := bytes -> N -> option resp.

  Inductive stage := StInitial | StFilterBefore | StUpstream | StFilterAfter | StLog.
  Definition stage_order : list stage := [StInitial; StFilterBefore; StUpstream; StFilterAfter; StLog].

  Record pstate := mkPState {
    ps_resp : option resp;
    ps_calls : list (bytes * N);
    ps_result : result;
    ps_orig_kept : bool;
    ps_from_upstream : bool;
    ps_logged : bool
  }.

  Inductive rc := RcSuccess | RcFinish | RcError.

  Definition run_stage (c : cfg) (up : upstream) (q : request) (s : stage) (p : pstate) : rc * pstate :=
    let st := client_settings c q in
    match s with
    | StInitial =>
        if c_aaaa_disabled c && (q_qtype q =? tAAAA) then
          (RcFinish, mkPState (Some nodata) (ps_calls p) (ps_result p) false false false)
        else if ((q_qtype q =? tA) || (q_qtype q =? tAAAA)) && eqb_bytes (q_name q) mozilla_fqdn then
          (RcFinish, mkPState (Some nxdomain) (ps_calls p) (ps_result p) false false false)
        else if eqb_bytes (q_name q) healthcheck_fqdn then
          (RcFinish, mkPState (Some empty_ok) (ps_calls p) (ps_result p) false false false)
        else (RcSuccess, p)
    | StFilterBefore =>
        match ps_resp p with
        | Some _ => (RcSuccess, p)
        | None =>
            let res := check_host st (trim_dot (q_name q)) (q_qtype q) in
            let r := if r_filtered res then Some (filter_message c (q_name q) (q_qtype q) res) else None in
            (RcSuccess, mkPState r (ps_calls p) res false false false)
        end
    | StUpstream =>
        match ps_resp p with
        | Some _ => (RcSuccess, p)
        | None =>
            let calls := ps_calls p ++ [(q_name q, q_qtype q)] in
            match up (q_name q) (q_qtype q) with
            | None => (RcError, mkPState (Some servfail) calls (ps_result p) false false false)
            | Some r => (RcSuccess, mkPState (Some r) calls (ps_result p) false true false)
            end
        end
    | StFilterAfter =>
        match r_reason (ps_result p) with
        | NotFilteredAllowList => (RcSuccess, p)
        | _ =>
            if negb (protection_on c) || negb (ps_from_upstream p) || negb (st_filtering st) then (RcSuccess, p)
            else
              match ps_resp p with
              | None => (RcSuccess, p)
              | Some r =>
                  let '(ans', res) := filter_answer c st (rs_answer r) in
                  match res with
                  | Some fr =>
                      (RcSuccess, mkPState (Some (filter_message c (q_name q) (q_qtype q) fr))
                                           (ps_calls p) fr true true false)
                  | None =>
                      (RcSuccess, mkPState (Some (mkResp (rs_rcode r) ans' (rs_soa r)))
                                           (ps_calls p) (ps_result p) false true false)
                  end
              end
        end
    | StLog =>
        (RcSuccess, mkPState (ps_resp p) (ps_calls p) (ps_result p) (ps_orig_kept p) (ps_from_upstream p) true)
    end.

  Fixpoint run_stages (c : cfg) (up : upstream) (q : request) (ss : list stage) (p : pstate) : pstate :=
    match ss with
    | [] => p
    | s :: rest =>
        match run_stage c up q s p with
        | (RcSuccess, p') => run_stages c up q rest p'
        | (_, p') => p'
        end
    end.

  Definition process (c : cfg) (up : upstream) (q : request) : outcome :=
    let p := run_stages c up q stage_order (mkPState None [] no_result false false false) in
    mkOutcome (ps_resp p) (ps_calls p) (ps_result p) (ps_orig_kept p) (ps_logged p).
End Engines.

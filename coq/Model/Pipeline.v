(** Executable model of AdGuard Home's DNS filtering pipeline
    (internal/dnsforward/process.go, filter.go, msg.go, dnsrewrite.go;
    internal/filtering/filtering.go CheckHost, processRewrites, matchHost,
    dnsrewrite.go, hosts.go, safesearch.go, blocked.go).
    No proofs here.

    Layer A: everything AdGuard Home itself decides.  The two rule engines
    and the upstream are parameters ([engines], [upstream]); the evaluator
    instantiates the engines with [RuleEngine.match_request] over the rule
    lists the harness loaded into the real engines, and the upstream with the
    scripted answers.

    Inside the model (round 2): the legacy rewrites as the first step of
    CheckHost (the model of C06, [Model/Rewrites.v]), $dnsrewrite results in
    matchHost (before the protection gate, as written) and their answers
    (filterDNSRewrite), the hosts-file container (matchSysHosts), safe search
    (the verdict of [SafeSearch.CheckHost] is an oracle, what the pipeline does
    with it is modelled), a block-page host given as a NAME (resolved through
    the upstream), the stages DDR, DHCP hosts, DHCP addrs, the rewritten
    question and its restoration, the DHCP-host NXDOMAIN of processUpstream.

    Not modelled (assumed off in the harness, see props/C01.json): ipset
    (does not touch the response), DNS64 synthesis inside dnsproxy, DNSSEC
    AD-bit handling, per-client safe-search engines, custom upstreams. *)
From Coq Require Import List NArith Bool.
From AGH Require Import Base.Run Base.NetAddr Base.RuleEngine.
From AGH Require Model.Rewrites.
Import ListNotations.
Local Open Scope N_scope.

(** * DNS data *)

Definition tA : N := 1.
Definition tCNAME : N := 5.
Definition tPTR : N := 12.
Definition tAAAA : N := 28.
Definition tSVCB : N := 64.
Definition tHTTPS : N := 65.

(** An address together with the text the code matches rules against
    ([net.IP.String]); the text is an input, equality ignores it. *)
Record taddr := mkTA { ta_addr : addr; ta_text : bytes }.

Inductive svcparam :=
  | SPv4 (hints : list taddr)
  | SPv6 (hints : list taddr)
  | SPOther (key : N).

Inductive rdata :=
  | DA (a : taddr)
  | DAAAA (a : taddr)
  | DCNAME (target : bytes)          (* FQDN as in the record *)
  | DHTTPS (params : list svcparam)
  | DPTR (target : bytes)
  | DOther (ty : N) (id : N).        (* any other record, opaque *)

Record rr := mkRR { rr_name : bytes; rr_ttl : N; rr_data : rdata }.

(** How the question name inside an upstream answer relates to the one that
    was asked (round 6): the same bytes, lower-cased, upper-cased. *)
Inductive qcase := QAsAsked | QLower | QUpper.

(** A DNS message as far as the pipeline is concerned (round 6: the whole
    message, not only code and answer section): the response code, the answer
    section, whether the authority section holds an SOA record, the other
    records of the authority section, the additional section (without OPT),
    the TC flag, the question name's relation to the asked one. *)
Record resp := mkRespX {
  rs_rcode : N;
  rs_answer : list rr;
  rs_soa : bool;
  rs_ns : list rr;
  rs_extra : list rr;
  rs_tc : bool;
  rs_qcase : qcase
}.

(** A message with nothing but a code, an answer section and possibly an SOA
    record (every message the server builds itself; most upstream answers). *)
Definition mkResp (rc : N) (ans : list rr) (soa : bool) : resp := mkRespX rc ans soa [] [] false QAsAsked.

(** The same message with another answer section (pctx.Res.Answer = ...). *)
Definition with_answer (r : resp) (ans : list rr) : resp :=
  mkRespX (rs_rcode r) ans (rs_soa r) (rs_ns r) (rs_extra r) (rs_tc r) (rs_qcase r).

Definition upper_byte (b : N) : N := if (97 <=? b) && (b <=? 122) then b - 32 else b.
Definition upper (s : bytes) : bytes := map upper_byte s.

(** The question name inside an upstream answer to the question [asked]. *)
Definition resp_qname (r : resp) (asked : bytes) : bytes :=
  match rs_qcase r with QAsAsked => asked | QLower => lower asked | QUpper => upper asked end.

Definition rcSuccess : N := 0.
Definition rcServfail : N := 2.
Definition rcNXDomain : N := 3.
Definition rcRefused : N := 5.

(** * Configuration *)

Inductive bmode := MDefault | MRefused | MNXDomain | MNullIP | MCustomIP.

(** The block page of safe browsing / parental control: nothing, an address
    ([netip.ParseAddr] succeeds) or a host name. *)
Inductive blockhost := BHEmpty | BHAddr (a : addr) | BHName (n : bytes).

Record pclient := mkPClient {
  pc_name : bytes;
  pc_use_own_settings : bool;
  pc_filtering : bool;
  pc_safebrowsing : bool;
  pc_parental : bool;
  pc_use_own_services : bool;
  pc_services : list bytes;
  pc_services_paused : bool;         (* the client's pause schedule contains now *)
  pc_safesearch : bool;
  pc_tags : list bytes               (* sorted *)
}.

Record cfg := mkCfg {
  c_prot_enabled : bool;
  c_prot_deadline : option bool;     (* pause deadline; Some true = still in the future *)
  c_filtering : bool;
  c_safebrowsing : bool;
  c_parental : bool;
  c_mode : bmode;
  c_ip4 : addr;
  c_ip6 : addr;
  c_ttl : N;
  c_aaaa_disabled : bool;
  c_services : list bytes;           (* globally blocked service ids *)
  c_services_paused : bool;          (* the global pause schedule contains now *)
  c_service_table : list (bytes * list nrule);
  c_sb_host : blockhost;
  c_par_host : blockhost;
  (* round 2 *)
  c_rewrites : list Rewrites.entry;  (* legacy rewrites, normalised *)
  c_hosts_on : bool;                 (* conf.EtcHosts != nil *)
  c_hosts_byname : list (bytes * list addr);   (* hostsfile.Storage.ByName *)
  c_hosts_byaddr : list (addr * list bytes);   (* hostsfile.Storage.ByAddr *)
  c_arpa : list (bytes * addr);      (* netutil.IPFromReversedAddr on the names in play *)
  c_safesearch : bool;               (* conf.SafeSearchConf.Enabled (a safe-search filter is installed) *)
  c_ddr : option (list N);           (* HandleDDR: the SVCB records makeDDRResponse builds, by id *)
  c_dhcp_on : bool;                  (* dhcpServer.Enabled() *)
  c_local_suffix : bytes;            (* localDomainSuffix *)
  c_dhcp_hosts : list (bytes * addr);   (* IPByHost *)
  c_dhcp_addrs : list (addr * bytes);   (* HostByIP *)
  c_dns64 : option N                 (* dns64Pref as the 128-bit value of its /96 address *)
}.

Record request := mkRequest {
  q_name : bytes;                    (* FQDN as sent, case preserved *)
  q_qtype : N;
  q_addr : addr;                     (* client address *)
  q_client : option pclient;         (* the persistent client found for it *)
  q_private_client : bool;           (* proxy.DNSContext.IsPrivateClient *)
  q_private_rdns : option addr       (* RequestedPrivateRDNS.Addr(), None = zero prefix *)
}.

(** * Filtering results *)

Inductive reason :=
  | NotFilteredNotFound | NotFilteredAllowList
  | FilteredBlockList | FilteredSafeBrowsing | FilteredParental | FilteredBlockedService
  | FilteredSafeSearch | RewrittenLegacy | RewrittenAutoHosts | RewrittenRule.

Definition reason_code (r : reason) : N :=
  match r with
  | NotFilteredNotFound => 0 | NotFilteredAllowList => 1
  | FilteredBlockList => 3 | FilteredSafeBrowsing => 4 | FilteredParental => 5
  | FilteredSafeSearch => 7 | FilteredBlockedService => 8
  | RewrittenLegacy => 9 | RewrittenAutoHosts => 10 | RewrittenRule => 11
  end.

Definition reason_eqb (a b : reason) : bool := reason_code a =? reason_code b.

(** A value of a $dnsrewrite / hosts-file answer. *)
Inductive rrvalue := VAddr (a : addr) | VName (n : bytes) | VNil.

(** DNSRewriteResult: the RCODE and the values by record type, in order. *)
Record drwresult := mkDRW { dw_rcode : N; dw_resp : list (N * rrvalue) }.

Record result := mkResult {
  r_reason : reason;
  r_filtered : bool;
  r_service : bytes;
  r_rules : list (N * option addr);  (* rule id, IP of a hosts-style rule *)
  r_canon : bytes;                   (* CanonName *)
  r_iplist : list addr;              (* IPList *)
  r_drw : option drwresult;          (* DNSRewriteResult *)
  r_canon_rewritten : bool           (* CanonNameRewritten (fix 2e58a5d): the legacy
                                        rewrites cover CanonName itself *)
}.

Definition no_result : result := mkResult NotFilteredNotFound false [] [] [] [] None false.

Definition matched (r : result) : bool :=
  match r_reason r with NotFilteredNotFound => false | _ => true end.

Record settings := mkSettings {
  st_protection : bool;
  st_filtering : bool;
  st_safebrowsing : bool;
  st_parental : bool;
  st_client_name : bytes;
  st_client_ip : addr;
  st_services : list (bytes * list nrule);
  st_safesearch : bool;
  st_client_tags : list bytes
}.

(** Server.UpdatedProtectionStatus *)
Definition protection_on (c : cfg) : bool :=
  match c_prot_deadline c with
  | None => c_prot_enabled c
  | Some future => negb future
  end.

Fixpoint lookup_service (tbl : list (bytes * list nrule)) (id : bytes) : option (list nrule) :=
  match tbl with
  | [] => None
  | (k, v) :: rest => if eqb_bytes k id then Some v else lookup_service rest id
  end.

(** ApplyBlockedServicesList: unknown ids are skipped. *)
Definition services_list (tbl : list (bytes * list nrule)) (ids : list bytes) : list (bytes * list nrule) :=
  flat_map (fun id => match lookup_service tbl id with Some rs => [(id, rs)] | None => [] end) ids.

(** clientRequestFilteringSettings = Settings + ApplyAdditionalFiltering
    (+ client.Storage.ApplyClientFiltering for the found client). *)
Definition client_settings (c : cfg) (q : request) : settings :=
  let global_svcs := if c_services_paused c then [] else services_list (c_service_table c) (c_services c) in
  match q_client q with
  | None =>
      mkSettings (protection_on c) (c_filtering c) (c_safebrowsing c) (c_parental c) [] (q_addr q) global_svcs
                 (c_safesearch c) []
  | Some p =>
      let svcs :=
        if pc_use_own_services p then
          (if pc_services_paused p then [] else services_list (c_service_table c) (pc_services p))
        else global_svcs in
      if pc_use_own_settings p then
        mkSettings (protection_on c) (pc_filtering p) (pc_safebrowsing p) (pc_parental p)
                   (pc_name p) (q_addr q) svcs (pc_safesearch p) (pc_tags p)
      else
        mkSettings (protection_on c) (c_filtering c) (c_safebrowsing c) (c_parental c)
                   (pc_name p) (q_addr q) svcs (c_safesearch c) (pc_tags p)
  end.

(** processFilteringBeforeRequest for a locally served ARPA name: the
    redundant filters are switched off in the settings. *)
Definition rdns_settings (st : settings) : settings :=
  mkSettings (st_protection st) (st_filtering st) false false (st_client_name st) (st_client_ip st) []
             false (st_client_tags st).

Definition request_settings (c : cfg) (q : request) : settings :=
  match q_private_rdns q with
  | Some _ => rdns_settings (client_settings c q)
  | None => client_settings c q
  end.

(** * Small helpers *)

Definition trim_dot (s : bytes) : bytes :=
  match rev s with 46 :: r => rev r | _ => s end.

(** dns.Fqdn *)
Definition fqdn (s : bytes) : bytes :=
  match rev s with 46 :: _ => s | _ => s ++ [46] end.

Fixpoint assoc_bytes {A} (tbl : list (bytes * A)) (k : bytes) : option A :=
  match tbl with
  | [] => None
  | (k', v) :: rest => if eqb_bytes k' k then Some v else assoc_bytes rest k
  end.

Fixpoint assoc_addr {A} (tbl : list (addr * A)) (k : addr) : option A :=
  match tbl with
  | [] => None
  | (k', v) :: rest => if addr_eqb k' k then Some v else assoc_addr rest k
  end.

Definition addr_of_ip (i : Rewrites.ip) : addr :=
  mkAddr (if Rewrites.ip_is4 i then V4 else V6) (Rewrites.ip_val i) [].

(** The verdict of a safe-search filter for a host and type
    ([filtering.SafeSearch.CheckHost], [safesearch.Default.newResult]): an
    address of the asked family, or a new canonical name (possibly empty). *)
Inductive ssverdict := SSAddr (a : addr) | SSCname (n : bytes).

(** * Host checkers *)

Section Engines.
  (** The allow-list engine and the block-list engine
      ([urlfilter.DNSEngine.MatchRequest]). *)
  Variable allow_eng block_eng : ufreq -> dnsresult * bool.
  (** Safe-browsing and parental verdicts for a host. *)
  Variable sb_oracle par_oracle : bytes -> bool.
  (** Safe-search verdicts. *)
  Variable ss_oracle : bytes -> N -> option ssverdict.
  (** slices.SortFunc inside findRewrites (not stable). *)
  Variable rw_sort : list Rewrites.entry -> list Rewrites.entry.

  Definition host_rule_entries (hs : list hrule) : list (N * option addr) :=
    map (fun h => (hr_id h, Some (hr_ip h))) hs.

  Definition plain_result (rs : reason) (filtered : bool) (svc : bytes) (rules : list (N * option addr)) : result :=
    mkResult rs filtered svc rules [] [] None false.

  (** matchHostProcessAllowList *)
  Definition allowlist_result (dr : dnsresult) : result :=
    let rules :=
      match dr_net dr with
      | Some n => [(nr_id n, None)]
      | None =>
          match dr_v4 dr with
          | _ :: _ => map (fun h => (hr_id h, None)) (dr_v4 dr)
          | [] => map (fun h => (hr_id h, None)) (dr_v6 dr)
          end
      end in
    plain_result NotFilteredAllowList false [] rules.

  (** hostResultForOtherQType *)
  Definition other_qtype_result (dr : dnsresult) : result :=
    match dr_v4 dr with
    | h :: _ => plain_result FilteredBlockList true [] [(hr_id h, None)]
    | [] =>
        match dr_v6 dr with
        | h :: _ => plain_result FilteredBlockList true [] [(hr_id h, None)]
        | [] => no_result
        end
    end.

  (** matchHostProcessDNSResult *)
  Definition blocklist_result (qt : N) (dr : dnsresult) : result :=
    match dr_net dr with
    | Some n =>
        if nr_white n then plain_result NotFilteredAllowList false [] [(nr_id n, None)]
        else plain_result FilteredBlockList true [] [(nr_id n, None)]
    | None =>
        if qt =? tA then
          match dr_v4 dr with
          | _ :: _ => plain_result FilteredBlockList true [] (host_rule_entries (dr_v4 dr))
          | [] => other_qtype_result dr
          end
        else if qt =? tAAAA then
          match dr_v6 dr with
          | _ :: _ => plain_result FilteredBlockList true [] (host_rule_entries (dr_v6 dr))
          | [] => other_qtype_result dr
          end
        else other_qtype_result dr
    end.

  (** processDNSRewrites over the rules DNSRewrites() returned: the first new
      CNAME wins at once, a non-zero RCODE wins at once, NOERROR values are
      collected by record type. *)
  Fixpoint process_dns_rewrites (rs : list nrule) (vals : list (N * rrvalue)) (rules : list (N * option addr))
      : result :=
    match rs with
    | [] => mkResult RewrittenRule false [] rules [] [] (Some (mkDRW 0 vals)) false
    | nr :: rest =>
        match the_drw nr with
        | DRWCname n => mkResult RewrittenRule false [] [(nr_id nr, None)] n [] None false
        | DRWRcode 0 => process_dns_rewrites rest (vals ++ [(0, VNil)]) (rules ++ [(nr_id nr, None)])
        | DRWAddr a =>
            process_dns_rewrites rest (vals ++ [(if is4 a then tA else tAAAA, VAddr a)])
                                 (rules ++ [(nr_id nr, None)])
        | DRWRcode rc => mkResult RewrittenRule false [] [(nr_id nr, None)] [] [] (Some (mkDRW rc [])) false
        end
    end.

  (** processDNSResultRewrites *)
  Definition dnsrewrite_result (dr : dnsresult) (host : bytes) : result :=
    match dns_rewrites dr with
    | [] => no_result
    | rs =>
        let res := process_dns_rewrites rs [] [] in
        if eqb_bytes (r_canon res) host then no_result else res
    end.

  (** DNSFilter.matchHost: allow engine first (only when protection is on),
      then the block engine; its $dnsrewrite rules are looked at before
      anything else and whatever the protection state; without protection
      no other block-list result is reported. *)
  Definition match_host (st : settings) (host : bytes) (qt : N) : result :=
    if negb (st_filtering st) then no_result
    else
      let rq := mkReq host qt (st_client_name st) (Some (st_client_ip st)) (st_client_tags st) in
      let allow := if st_protection st then allow_eng rq else (empty_result, false) in
      if snd allow then allowlist_result (fst allow)
      else
        let blk := block_eng rq in
        let rw := dnsrewrite_result (fst blk) host in
        if matched rw then rw
        else if negb (snd blk) then no_result
        else if negb (st_protection st) then no_result
        else blocklist_result qt (fst blk).

  (** matchBlockedServicesRules: first service with a matching rule; the
      request carries neither type nor client. *)
  Fixpoint first_service (svcs : list (bytes * list nrule)) (host : bytes) : option (bytes * nrule) :=
    match svcs with
    | [] => None
    | (name, rs) :: rest =>
        match find (nrule_match (mkReq host 0 [] None [])) rs with
        | Some r => Some (name, r)
        | None => first_service rest host
        end
    end.

  Definition match_services (st : settings) (host : bytes) : result :=
    if negb (st_protection st) then no_result
    else match first_service (st_services st) host with
         | Some (name, r) => plain_result FilteredBlockedService true name [(nr_id r, None)]
         | None => no_result
         end.

  Definition check_safebrowsing (st : settings) (host : bytes) : result :=
    if st_protection st && st_safebrowsing st && sb_oracle host
    then plain_result FilteredSafeBrowsing true [] [(0, None)] else no_result.

  Definition check_parental (st : settings) (host : bytes) : result :=
    if st_protection st && st_parental st && par_oracle host
    then plain_result FilteredParental true [] [(0, None)] else no_result.

  (** checkSafeSearch (a safe-search filter is always installed; whether it
      holds rules is part of the oracle) *)
  Definition check_safesearch (c : cfg) (st : settings) (host : bytes) (qt : N) : result :=
    if negb (st_protection st) || negb (st_safesearch st) then no_result
    else match ss_oracle host qt with
         | None => no_result
         | Some (SSAddr a) => mkResult FilteredSafeSearch true [] [(0, Some a)] [] [] None false
         | Some (SSCname n) => mkResult FilteredSafeSearch true [] [] n [] None false
         end.

  (** matchSysHosts / hostsRewrites *)
  Definition match_sys_hosts (c : cfg) (st : settings) (host : bytes) (qt : N) : result :=
    if negb (st_filtering st) || negb (c_hosts_on c) then no_result
    else if (qt =? tA) || (qt =? tAAAA) then
      match assoc_bytes (c_hosts_byname c) host with
      | None | Some [] => no_result
      | Some addrs =>
          let valid := filter (fun a => if qt =? tA then is4 a else negb (is4 a)) addrs in
          mkResult RewrittenAutoHosts false [] (map (fun _ => (0, None)) addrs) [] []
                   (Some (mkDRW 0 (map (fun a => (qt, VAddr a)) valid))) false
      end
    else if qt =? tPTR then
      match assoc_bytes (c_arpa c) host with
      | None => no_result
      | Some a =>
          match assoc_addr (c_hosts_byaddr c) a with
          | None | Some [] => no_result
          | Some names =>
              mkResult RewrittenAutoHosts false [] (map (fun _ => (0, None)) names) [] []
                       (Some (mkDRW 0 (map (fun n => (qt, VName n)) names))) false
          end
      end
    else no_result.

  (** The checkers in the order of filtering.New's literal. *)
  Inductive checker := ChkSysHosts | ChkRules | ChkServices | ChkSafeBrowsing | ChkParental | ChkSafeSearch.

  Definition checker_order : list checker :=
    [ChkSysHosts; ChkRules; ChkServices; ChkSafeBrowsing; ChkParental; ChkSafeSearch].

  Definition run_checker (c : cfg) (k : checker) (st : settings) (host : bytes) (qt : N) : result :=
    match k with
    | ChkSysHosts => match_sys_hosts c st host qt
    | ChkRules => match_host st host qt
    | ChkServices => match_services st host
    | ChkSafeBrowsing => check_safebrowsing st host
    | ChkParental => check_parental st host
    | ChkSafeSearch => check_safesearch c st host qt
    end.

  Fixpoint first_match (c : cfg) (ks : list checker) (st : settings) (host : bytes) (qt : N) : result :=
    match ks with
    | [] => no_result
    | k :: rest =>
        let r := run_checker c k st host qt in
        if matched r then r else first_match c rest st host qt
    end.

  (** processRewrites as CheckHost uses it: [Some r] with reason
      RewrittenLegacy, [Some no_result] when the rewrites leave the name
      alone, [None] when the model's chase ran out of fuel. *)
  Definition legacy_rewrite (c : cfg) (host : bytes) (qt : N) : option result :=
    match Rewrites.process_rewrites rw_sort (c_rewrites c) host qt with
    | None => None
    | Some r =>
        match Rewrites.r_reason r with
        | Rewrites.Rewritten =>
            Some (mkResult RewrittenLegacy false [] [] (Rewrites.r_canon r)
                           (map addr_of_ip (Rewrites.r_ips r)) None
                           (match Rewrites.process_rewrites_covered rw_sort (c_rewrites c) host qt with
                            | Some b => b | None => false end))
        | Rewrites.NotFound => Some no_result
        end
    end.

  (** DNSFilter.CheckHost: the legacy rewrites first (only with filtering on
      for the client), then the checkers, first match wins. *)
  Definition check_host (c : cfg) (st : settings) (host : bytes) (qt : N) : option result :=
    match host with
    | [] => Some no_result
    | _ =>
        let h := lower host in
        let rw := if st_filtering st then legacy_rewrite c h qt else Some no_result in
        match rw with
        | None => None
        | Some r => if matched r then Some r else Some (first_match c checker_order st h qt)
        end
    end.

  (** * Synthetic responses (msg.go) *)

  Definition zero4 : addr := mkAddr V4 0 [].
  Definition zero6 : addr := mkAddr V6 0 [].

  Definition rec_a (c : cfg) (name : bytes) (a : addr) : rr := mkRR name (c_ttl c) (DA (mkTA a [])).
  Definition rec_aaaa (c : cfg) (name : bytes) (a : addr) : rr := mkRR name (c_ttl c) (DAAAA (mkTA a [])).
  Definition rec_cname (c : cfg) (name target : bytes) : rr := mkRR name (c_ttl c) (DCNAME (fqdn target)).
  Definition rec_ptr (c : cfg) (name target : bytes) : rr := mkRR name (c_ttl c) (DPTR (fqdn target)).

  Definition empty_ok : resp := mkResp rcSuccess [] false.
  Definition nodata : resp := mkResp rcSuccess [] true.
  Definition nxdomain : resp := mkResp rcNXDomain [] true.
  Definition refused : resp := mkResp rcRefused [] false.
  Definition servfail : resp := mkResp rcServfail [] false.

  (** ipsFromRules: valid addresses, first occurrence kept. *)
  Fixpoint uniq_addrs (l : list addr) (seen : list addr) : list addr :=
    match l with
    | [] => []
    | a :: rest => if existsb (addr_eqb a) seen then uniq_addrs rest seen
                   else a :: uniq_addrs rest (seen ++ [a])
    end.

  Definition ips_from_rules (r : result) : list addr :=
    uniq_addrs (flat_map (fun e => match snd e with Some a => [a] | None => [] end) (r_rules r)) [].

  (** The address records genResponseWithIPs / getCNAMEWithIPs build. *)
  Definition addr_records (c : cfg) (name : bytes) (qt : N) (ips : list addr) : list rr :=
    if qt =? tA then
      if forallb is4 ips then map (rec_a c name) ips else []
    else if qt =? tAAAA then
      map (rec_aaaa c name) (filter (fun a => negb (is4 a)) ips)
    else [].

  (** genResponseWithIPs *)
  Definition response_with_ips (c : cfg) (name : bytes) (qt : N) (ips : list addr) : resp :=
    mkResp rcSuccess (addr_records c name qt ips) false.

  Definition null_ip_response (c : cfg) (name : bytes) (qt : N) : resp :=
    if qt =? tA then response_with_ips c name qt [zero4]
    else if qt =? tAAAA then response_with_ips c name qt [zero6]
    else empty_ok.

  (** genForBlockingMode *)
  Definition for_blocking_mode (c : cfg) (name : bytes) (qt : N) (ips : list addr) : resp :=
    match c_mode c with
    | MCustomIP =>
        if qt =? tA then mkResp rcSuccess [rec_a c name (c_ip4 c)] false
        else if qt =? tAAAA then mkResp rcSuccess [rec_aaaa c name (c_ip6 c)] false
        else empty_ok
    | MDefault =>
        match ips with
        | _ :: _ => response_with_ips c name qt ips
        | [] => null_ip_response c name qt
        end
    | MNullIP => null_ip_response c name qt
    | MNXDomain => nxdomain
    | MRefused => refused
    end.

  (** getCNAMEWithIPs: the CNAME record first (when there is one), then the
      addresses under the canonical name. *)
  Definition cname_with_ips (c : cfg) (name : bytes) (qt : N) (ips : list addr) (cname : bytes) : resp :=
    match cname with
    | [] => mkResp rcSuccess (addr_records c name qt ips) false
    | _ => mkResp rcSuccess (rec_cname c name cname :: addr_records c (fqdn cname) qt ips) false
    end.

  (** The upstream: None = resolution error (dnsproxy then leaves a SERVFAIL
      in the context and the handler returns the error). *)
  Definition upstream := bytes -> N -> option resp.

  Definition rename_rr (name : bytes) (r : rr) : rr := mkRR name (rr_ttl r) (rr_data r).

  (** genBlockedHost: a block page given as a name is resolved through the
      proxy with the type of the question; the answers are renamed. *)
  Definition blocked_host_response (c : cfg) (up : upstream) (name : bytes) (qt : N) (h : blockhost)
      : resp * list (bytes * N) :=
    match h with
    | BHEmpty => (servfail, [])
    | BHAddr a => (response_with_ips c name qt [a], [])
    | BHName n =>
        match up (fqdn n) qt with
        | None => (servfail, [(fqdn n, qt)])
        | Some r => (mkResp rcSuccess (map (rename_rr name) (rs_answer r)) false, [(fqdn n, qt)])
        end
    end.

  (** genDNSFilterMessage: the answer and the questions it sent upstream. *)
  Definition filter_message (c : cfg) (up : upstream) (name : bytes) (qt : N) (r : result)
      : resp * list (bytes * N) :=
    if negb ((qt =? tA) || (qt =? tAAAA) || (qt =? tHTTPS)) then
      (match c_mode c with MNullIP => empty_ok | _ => nodata end, [])
    else
      match r_reason r with
      | FilteredSafeBrowsing => blocked_host_response c up name qt (c_sb_host c)
      | FilteredParental => blocked_host_response c up name qt (c_par_host c)
      | FilteredSafeSearch => (cname_with_ips c name qt (ips_from_rules r) (r_canon r), [])
      | _ => (for_blocking_mode c name qt (ips_from_rules r), [])
      end.

  (** filterDNSRewrite: the answer of a $dnsrewrite / hosts-file result.
      None = the handler fails ("no dns rewrite rule content"). *)
  Definition rewrite_answer (c : cfg) (name : bytes) (ty : N) (v : rrvalue) : list rr :=
    if (ty =? tA) then match v with VAddr a => [rec_a c name a] | _ => [] end
    else if (ty =? tAAAA) then match v with VAddr a => [rec_aaaa c name a] | _ => [] end
    else if (ty =? tPTR) then match v with VName n => [rec_ptr c name n] | _ => [] end
    else [].

  Definition dns_rewrite_response (c : cfg) (name : bytes) (qt : N) (r : result) : option resp :=
    match r_drw r with
    | None => None
    | Some d =>
        if negb (dw_rcode d =? 0) then Some (mkResp (dw_rcode d) [] false)
        else
          let vals := filter (fun p => fst p =? qt) (dw_resp d) in
          Some (mkResp rcSuccess (flat_map (fun p => rewrite_answer c name qt (snd p)) vals) false)
    end.

  (** isRewrittenCNAME *)
  Definition is_rewritten_cname (r : result) : bool :=
    (match r_reason r with RewrittenLegacy | RewrittenRule | FilteredSafeSearch => true | _ => false end) &&
    (match r_canon r with [] => false | _ => true end) &&
    (match r_iplist r with [] => true | _ => false end) &&
    negb (r_canon_rewritten r).

  (** * Response filtering (filter.go) *)

  Definition is_v6_hint (p : svcparam) : bool := match p with SPv6 _ => true | _ => false end.

  (** removeIPv6Hints when AAAA is disabled. *)
  Definition strip_rr (c : cfg) (r : rr) : rr :=
    match rr_data r with
    | DHTTPS ps =>
        if c_aaaa_disabled c
        then mkRR (rr_name r) (rr_ttl r) (DHTTPS (filter (fun p => negb (is_v6_hint p)) ps))
        else r
    | _ => r
    end.

  (** Server.checkHostRules = CheckHostRules = matchHost on the lower-cased text. *)
  Definition check_host_rules (st : settings) (host : bytes) (ty : N) : result :=
    match_host st (lower host) ty.

  Fixpoint first_filtered_hint (st : settings) (hs : list taddr) : option result :=
    match hs with
    | [] => None
    | h :: rest =>
        let r := check_host_rules st (ta_text h) tHTTPS in
        if r_filtered r then Some r else first_filtered_hint st rest
    end.

  (** filterHTTPSRecords on the (already stripped) parameters. *)
  Fixpoint filter_https (st : settings) (ps : list svcparam) : option result :=
    match ps with
    | [] => None
    | p :: rest =>
        let hs := match p with SPv4 l | SPv6 l => l | SPOther _ => [] end in
        match first_filtered_hint st hs with
        | Some r => Some r
        | None => filter_https st rest
        end
    end.

  (** The check of one answer record (after stripping): Some result when it
      is filtered. *)
  Definition check_rr (st : settings) (r : rr) : option result :=
    match rr_data r with
    | DCNAME t =>
        let res := check_host_rules st (trim_dot t) tCNAME in
        if r_filtered res then Some res else None
    | DA a =>
        let res := check_host_rules st (ta_text a) tA in
        if r_filtered res then Some res else None
    | DAAAA a =>
        let res := check_host_rules st (ta_text a) tAAAA in
        if r_filtered res then Some res else None
    | DHTTPS ps => filter_https st ps
    | DPTR _ | DOther _ _ => None
    end.

  (** filterDNSResponse: walks the answer; returns the records as they are
      left behind (HTTPS records visited so far stripped) and the first
      filtered result. *)
  Fixpoint filter_answer (c : cfg) (st : settings) (ans : list rr) : list rr * option result :=
    match ans with
    | [] => ([], None)
    | r :: rest =>
        let r' := strip_rr c r in
        match check_rr st r' with
        | Some res => (r' :: rest, Some res)
        | None => let '(rest', res) := filter_answer c st rest in (r' :: rest', res)
        end
    end.

  (** * The pipeline (handleDNSRequest) *)

  Record outcome := mkOutcome {
    o_resp : option resp;              (* None: processing failed, nothing set *)
    o_calls : list (bytes * N);        (* questions sent upstream *)
    o_result : result;                 (* filtering result handed to the log *)
    o_orig_kept : bool;                (* upstream response kept as original answer *)
    o_logged : bool;                   (* reached query log / statistics *)
    o_qname : bytes                    (* question name of the delivered message *)
  }.

  Definition mozilla_fqdn : bytes :=
    [117;115;101;45;97;112;112;108;105;99;97;116;105;111;110;45;100;110;115;46;110;101;116;46].
  Definition healthcheck_fqdn : bytes :=
    [104;101;97;108;116;104;99;104;101;99;107;46;97;100;103;117;97;114;100;104;111;109;101;46;116;101;115;116;46].
  (** "_dns.resolver.arpa." *)
  Definition ddr_fqdn : bytes :=
    [95;100;110;115;46;114;101;115;111;108;118;101;114;46;97;114;112;97;46].

  Inductive stage :=
    | StInitial | StDDR | StDHCPHosts | StDHCPAddrs | StFilterBefore | StUpstream | StFilterAfter
    | StIpset | StLog.
  Definition stage_order : list stage :=
    [StInitial; StDDR; StDHCPHosts; StDHCPAddrs; StFilterBefore; StUpstream; StFilterAfter; StIpset; StLog].

  Record pstate := mkPState {
    ps_resp : option resp;
    ps_calls : list (bytes * N);
    ps_result : result;
    ps_orig_kept : bool;
    ps_from_upstream : bool;
    ps_logged : bool;
    ps_qname : bytes;                  (* Question[0].Name of the request, as it stands *)
    ps_orig_q : option bytes;          (* origQuestion.Name once the question was rewritten *)
    ps_dhcp_host : bool;               (* isDHCPHost *)
    ps_resp_qname : bytes              (* question name inside the response *)
  }.

  Definition set_resp (p : pstate) (r : resp) : pstate :=
    mkPState (Some r) (ps_calls p) (ps_result p) (ps_orig_kept p) (ps_from_upstream p) (ps_logged p)
             (ps_qname p) (ps_orig_q p) (ps_dhcp_host p) (ps_qname p).

  Inductive rc := RcSuccess | RcFinish | RcError.

  (** dhcpHostFromRequest: the host label of an A/AAAA question for an
      immediate subdomain of the local domain. *)
  Definition dhcp_host_from_request (c : cfg) (q : request) : option bytes :=
    if negb (c_dhcp_on c) then None
    else if negb ((q_qtype q =? tA) || (q_qtype q =? tAAAA)) then None
    else
      let h := lower (removelast (q_name q)) in
      let suf := 46 :: c_local_suffix c in
      if has_suffix suf h then
        let label := firstn (length h - length suf) h in
        match label with
        | [] => None
        | _ => if existsb (N.eqb 46) label then None else Some label
        end
      else None.

  (** mapDNS64 *)
  Definition map_dns64 (pref : N) (a : addr) : addr := mkAddr V6 (pref + a_val a) [].

  Definition ddr_response (c : cfg) (q : request) (ids : list N) : resp :=
    if q_qtype q =? tSVCB
    then mkResp rcSuccess (map (fun id => mkRR (q_name q) (c_ttl c) (DOther tSVCB id)) ids) false
    else empty_ok.

  (** filterDNSRequest applied to the verdict of CheckHost. *)
  Definition apply_request_verdict (c : cfg) (up : upstream) (q : request) (p : pstate) (res : result)
      : rc * pstate :=
    let name := ps_qname p in
    let qt := q_qtype q in
    if is_rewritten_cname res then
      (RcSuccess, mkPState None (ps_calls p) res false false false (fqdn (r_canon res)) (Some name)
                           (ps_dhcp_host p) (ps_resp_qname p))
    else if r_filtered res then
      let '(r, calls) := filter_message c up name qt res in
      (RcSuccess, mkPState (Some r) (ps_calls p ++ calls) res false false false name None
                           (ps_dhcp_host p) name)
    else
      match r_reason res with
      | RewrittenLegacy | FilteredSafeSearch =>
          (RcSuccess, mkPState (Some (cname_with_ips c name qt (r_iplist res) (r_canon res))) (ps_calls p) res
                               false false false name None (ps_dhcp_host p) name)
      | RewrittenRule | RewrittenAutoHosts =>
          match dns_rewrite_response c name qt res with
          | None => (RcError, mkPState None (ps_calls p) (ps_result p) false false false name None
                                       (ps_dhcp_host p) (ps_resp_qname p))
          | Some r => (RcSuccess, mkPState (Some r) (ps_calls p) res false false false name None
                                           (ps_dhcp_host p) name)
          end
      | _ => (RcSuccess, mkPState None (ps_calls p) res false false false name None
                                  (ps_dhcp_host p) (ps_resp_qname p))
      end.

  Definition run_stage (c : cfg) (up : upstream) (q : request) (s : stage) (p : pstate) : rc * pstate :=
    let st := request_settings c q in
    match s with
    | StInitial =>
        if c_aaaa_disabled c && (q_qtype q =? tAAAA) then (RcFinish, set_resp p nodata)
        else if ((q_qtype q =? tA) || (q_qtype q =? tAAAA)) && eqb_bytes (q_name q) mozilla_fqdn then
          (RcFinish, set_resp p nxdomain)
        else if eqb_bytes (q_name q) healthcheck_fqdn then (RcFinish, set_resp p empty_ok)
        else (RcSuccess, p)
    | StDDR =>
        match c_ddr c with
        | Some ids =>
            if eqb_bytes (q_name q) ddr_fqdn then (RcFinish, set_resp p (ddr_response c q ids))
            else (RcSuccess, p)
        | None => (RcSuccess, p)
        end
    | StDHCPHosts =>
        match dhcp_host_from_request c q with
        | None => (RcSuccess, p)
        | Some host =>
            let p' := mkPState (ps_resp p) (ps_calls p) (ps_result p) (ps_orig_kept p) (ps_from_upstream p)
                               (ps_logged p) (ps_qname p) (ps_orig_q p) true (ps_resp_qname p) in
            if negb (q_private_client q) then (RcFinish, set_resp p' nxdomain)
            else
              match assoc_bytes (c_dhcp_hosts c) host with
              | None => (RcSuccess, p')
              | Some ip =>
                  let ans :=
                    if q_qtype q =? tA then [rec_a c (q_name q) ip]
                    else match c_dns64 c with
                         | Some pref => [rec_aaaa c (q_name q) (map_dns64 pref ip)]
                         | None => []
                         end in
                  (RcSuccess, set_resp p' (mkResp rcSuccess ans false))
              end
        end
    | StDHCPAddrs =>
        match ps_resp p with
        | Some _ => (RcSuccess, p)
        | None =>
            match q_private_rdns q with
            | None => (RcSuccess, p)
            | Some a =>
                if negb (q_qtype q =? tPTR) then (RcSuccess, p)
                else match assoc_addr (c_dhcp_addrs c) a with
                     | None | Some [] => (RcSuccess, p)
                     | Some host =>
                         (RcSuccess, set_resp p (mkResp rcSuccess
                            [rec_ptr c (q_name q) (host ++ 46 :: c_local_suffix c)] false))
                     end
            end
        end
    | StFilterBefore =>
        match ps_resp p with
        | Some _ => (RcSuccess, p)
        | None =>
            match check_host c st (trim_dot (ps_qname p)) (q_qtype q) with
            | None => (RcError, p)
            | Some res => apply_request_verdict c up q p res
            end
        end
    | StUpstream =>
        match ps_resp p with
        | Some _ => (RcSuccess, p)
        | None =>
            if ps_dhcp_host p then (RcFinish, set_resp p nxdomain)
            else
              let calls := ps_calls p ++ [(ps_qname p, q_qtype q)] in
              match up (ps_qname p) (q_qtype q) with
              | None =>
                  (* the client's question is put back when it had been rewritten *)
                  let qn := match ps_orig_q p with Some o => o | None => ps_qname p end in
                  (RcError, mkPState (Some servfail) calls (ps_result p) false false false
                                     qn (ps_orig_q p) false qn)
              | Some r => (RcSuccess, mkPState (Some r) calls (ps_result p) false true false
                                               (ps_qname p) (ps_orig_q p) false (resp_qname r (ps_qname p)))
              end
        end
    | StFilterAfter =>
        match r_reason (ps_result p) with
        | NotFilteredAllowList => (RcSuccess, p)
        | RewrittenLegacy | RewrittenRule | FilteredSafeSearch =>
            match ps_orig_q p, ps_resp p with
            | Some o, Some r =>
                (* the question is put back and the CNAME prepended; the
                   upstream's records are not examined *)
                (RcSuccess, mkPState (Some (with_answer r
                                              (rec_cname c o (r_canon (ps_result p)) :: rs_answer r)))
                                     (ps_calls p) (ps_result p) (ps_orig_kept p) (ps_from_upstream p)
                                     (ps_logged p) o (ps_orig_q p) (ps_dhcp_host p) o)
            | _, _ => (RcSuccess, p)
            end
        | _ =>
            if negb (protection_on c) || negb (ps_from_upstream p) || negb (st_filtering st) then (RcSuccess, p)
            else
              match ps_resp p with
              | None => (RcSuccess, p)
              | Some r =>
                  let '(ans', res) := filter_answer c st (rs_answer r) in
                  match res with
                  | Some fr =>
                      (RcSuccess, mkPState (Some (fst (filter_message c up (ps_qname p) (q_qtype q) fr)))
                                           (ps_calls p) fr true true false
                                           (ps_qname p) (ps_orig_q p) (ps_dhcp_host p) (ps_qname p))
                  | None =>
                      (RcSuccess, mkPState (Some (with_answer r ans'))
                                           (ps_calls p) (ps_result p) false true false
                                           (ps_qname p) (ps_orig_q p) (ps_dhcp_host p) (ps_resp_qname p))
                  end
              end
        end
    | StIpset => (RcSuccess, p)
    | StLog =>
        (RcSuccess, mkPState (ps_resp p) (ps_calls p) (ps_result p) (ps_orig_kept p) (ps_from_upstream p) true
                             (ps_qname p) (ps_orig_q p) (ps_dhcp_host p) (ps_resp_qname p))
    end.

  Fixpoint run_stages (c : cfg) (up : upstream) (q : request) (ss : list stage) (p : pstate) : pstate :=
    match ss with
    | [] => p
    | s :: rest =>
        match run_stage c up q s p with
        | (RcSuccess, p') => run_stages c up q rest p'
        | (_, p') => p'
        end
    end.

  Definition init_state (q : request) : pstate :=
    mkPState None [] no_result false false false (q_name q) None false (q_name q).

  Definition outcome_of (p : pstate) : outcome :=
    mkOutcome (ps_resp p) (ps_calls p) (ps_result p) (ps_orig_kept p) (ps_logged p) (ps_resp_qname p).

  Definition process (c : cfg) (up : upstream) (q : request) : outcome :=
    outcome_of (run_stages c up q stage_order (init_state q)).
End Engines.

(** Executable model of AdGuard Home's access lists
    (internal/dnsforward/access.go, beforerequest.go, dnsforward.go
    IsBlockedClient).  No proofs here. *)
From Coq Require Import List NArith Bool.
From AGH Require Import Base.Run Base.NetAddr Base.RuleEngine.
Import ListNotations.
Local Open Scope N_scope.

(** One configured client string, already classified the way
    processAccessClients does it (ParseAddr, else ParsePrefix, else a valid
    ClientID). *)
Inductive entry := EIP (a : addr) | ENet (p : prefix) | ECid (s : bytes).

Record side := mkSide { s_ips : list addr; s_nets : list prefix; s_cids : list bytes }.

Definition empty_side : side := mkSide [] [] [].

(** processAccessClients: ClientIDs are lower-cased on load. *)
Definition add_entry (s : side) (e : entry) : side :=
  match e with
  | EIP a => mkSide (s_ips s ++ [a]) (s_nets s) (s_cids s)
  | ENet p => mkSide (s_ips s) (s_nets s ++ [p]) (s_cids s)
  | ECid c => mkSide (s_ips s) (s_nets s) (s_cids s ++ [lower c])
  end.

Definition load_side (l : list entry) : side := fold_left add_entry l empty_side.

Record access := mkAccess { ac_allowed : side; ac_blocked : side; ac_hosts : list rule }.

(** newAccessCtx: every blocked-host line is lower-cased before it is parsed. *)
Definition new_access (allowed blocked : list entry) (hosts : list rule) : access :=
  mkAccess (load_side allowed) (load_side blocked) (map lower_rule hosts).

Definition side_empty (s : side) : bool :=
  match s_ips s, s_nets s, s_cids s with [], [], [] => true | _, _, _ => false end.

Definition allowlist_mode (a : access) : bool := negb (side_empty (ac_allowed a)).

Definition is_blocked_clientid (a : access) (id : bytes) : bool :=
  let alm := allowlist_mode a in
  match id with
  | [] => alm
  | _ => if alm then negb (mem_bytes id (s_cids (ac_allowed a)))
         else mem_bytes id (s_cids (ac_blocked a))
  end.

(** Which configured item decided (the rule text the code returns, projected). *)
Inductive rulekind := RkNone | RkIP | RkNet (i : nat) | RkCid.

Fixpoint find_net (nets : list prefix) (ip : addr) (i : nat) : option nat :=
  match nets with
  | [] => None
  | p :: rest => if prefix_contains p (without_zone ip) then Some i else find_net rest ip (S i)
  end.

Definition is_blocked_ip (a : access) (ip : addr) : bool * rulekind :=
  let alm := allowlist_mode a in
  let blocked := negb alm in
  let s := if alm then ac_allowed a else ac_blocked a in
  if existsb (addr_eqb ip) (s_ips s) then (blocked, RkIP)
  else match find_net (s_nets s) ip 0 with
       | Some i => (blocked, RkNet i)
       | None => (negb blocked, RkNone)
       end.

(** Server.IsBlockedClient; [ip = None] is the zero netip.Addr. *)
Definition is_blocked_client (a : access) (ip : option addr) (id : bytes) : bool * rulekind :=
  let '(by_ip, rule) := match ip with Some x => is_blocked_ip a x | None => (false, RkNone) end in
  let alm := allowlist_mode a in
  let by_id := is_blocked_clientid a id in
  let final := match rule with
               | RkNone => match id with [] => RkNone | _ => RkCid end
               | r => r
               end in
  if alm && by_ip && by_id then (true, rule)
  else if negb alm && (by_ip || by_id) then (true, final)
  else (false, final).

Definition is_blocked_host (a : access) (host : bytes) (qt : N) : bool :=
  snd (match_request (ac_hosts a) (mkReq host qt [] None)).

(** aghnet.NormalizeDomain *)
Definition normalize_domain (name : bytes) : bytes :=
  match name with
  | [46] => name
  | _ => lower (match rev name with 46 :: r => rev r | _ => name end)
  end.

Inductive proto := PUDP | PTCP | PTLS | PHTTPS | PQUIC | PDNSCrypt.

Inductive before :=
  | BServfail            (* ClientID extraction failed: SERVFAIL is answered *)
  | BDrop                (* error without a response: dnsproxy sends nothing *)
  | BRefused
  | BContinue (cache : option bytes).  (* served; ClientID put into the cache *)

Definition pre_blocked (p : proto) : before :=
  match p with PUDP | PDNSCrypt => BDrop | _ => BRefused end.

(** Server.HandleBefore.  [cid] is the result of clientIDFromDNSContext
    (None = error), [q] the single question (None = zero or several). *)
Definition handle_before (a : access) (p : proto) (cid : option bytes)
    (ip : option addr) (q : option (bytes * N)) : before :=
  match cid with
  | None => BServfail
  | Some id =>
      if fst (is_blocked_client a ip id) then pre_blocked p
      else
        let host_blocked :=
          match q with
          | Some (name, qt) => is_blocked_host a (normalize_domain name) qt
          | None => false
          end in
        if host_blocked then pre_blocked p
        else BContinue (match id with [] => None | _ => Some id end)
  end.

(** The server in front of any request handler: the handler (resolution,
    filtering, query log, statistics: everything that is state [S]) runs only
    if the pre-request hook lets the request through. *)
Section Serve.
  Context {S Req Resp : Type}.
  Variable handler : S -> Req -> S * Resp.

  Inductive reply := NoReply | Refused | Servfail | Answer (r : Resp).

  Definition serve (a : access) (p : proto) (cid : option bytes) (ip : option addr)
      (q : option (bytes * N)) (cache : list bytes) (st : S) (rq : Req)
      : S * list bytes * reply :=
    match handle_before a p cid ip q with
    | BServfail => (st, cache, Servfail)
    | BDrop => (st, cache, NoReply)
    | BRefused => (st, cache, Refused)
    | BContinue c =>
        let '(st', r) := handler st rq in
        (st', match c with Some id => id :: cache | None => cache end, Answer r)
    end.
End Serve.

(** Executable model of AdGuard Home's access lists
    (internal/dnsforward/access.go, beforerequest.go, dnsforward.go
    IsBlockedClient).  No proofs here. *)
From Coq Require Import List NArith Bool.
From AGH Require Import Base.Run Base.NetAddr Base.RuleEngine.
From AGH Require Model.ClientID.
Import ListNotations.
Local Open Scope N_scope.

(** One configured client string, already classified the way
    processAccessClients does it (ParseAddr, else ParsePrefix, else a valid
    ClientID). *)
Inductive entry := EIP (a : addr) | ENet (p : prefix) | ECid (s : bytes).

Record side := mkSide { s_ips : list addr; s_nets : list prefix; s_cids : list bytes }.

Definition empty_side : side := mkSide [] [] [].

(** processAccessClients: ClientIDs are lower-cased on load. *)
Definition add_entry (s : side) (e : entry) : side :=
  match e with
  | EIP a => mkSide (s_ips s ++ [a]) (s_nets s) (s_cids s)
  | ENet p => mkSide (s_ips s) (s_nets s ++ [p]) (s_cids s)
  | ECid c => mkSide (s_ips s) (s_nets s) (s_cids s ++ [lower c])
  end.

Definition load_side (l : list entry) : side := fold_left add_entry l empty_side.

Record access := mkAccess { ac_allowed : side; ac_blocked : side; ac_hosts : list rule }.

(** newAccessCtx: every blocked-host line is lower-cased before it is parsed. *)
Definition new_access (allowed blocked : list entry) (hosts : list rule) : access :=
  mkAccess (load_side allowed) (load_side blocked) (map lower_rule hosts).

Definition side_empty (s : side) : bool :=
  match s_ips s, s_nets s, s_cids s with [], [], [] => true | _, _, _ => false end.

Definition allowlist_mode (a : access) : bool := negb (side_empty (ac_allowed a)).

Definition is_blocked_clientid (a : access) (id : bytes) : bool :=
  let alm := allowlist_mode a in
  match id with
  | [] => alm
  | _ => if alm then negb (mem_bytes id (s_cids (ac_allowed a)))
         else mem_bytes id (s_cids (ac_blocked a))
  end.

(** Which configured item decided (the rule text the code returns, projected). *)
Inductive rulekind := RkNone | RkIP | RkNet (i : nat) | RkCid.

Fixpoint find_net (nets : list prefix) (ip : addr) (i : nat) : option nat :=
  match nets with
  | [] => None
  | p :: rest => if prefix_contains p (without_zone ip) then Some i else find_net rest ip (S i)
  end.

Definition is_blocked_ip (a : access) (ip : addr) : bool * rulekind :=
  let alm := allowlist_mode a in
  let blocked := negb alm in
  let s := if alm then ac_allowed a else ac_blocked a in
  if existsb (addr_eqb ip) (s_ips s) then (blocked, RkIP)
  else match find_net (s_nets s) ip 0 with
       | Some i => (blocked, RkNet i)
       | None => (negb blocked, RkNone)
       end.

(** Server.IsBlockedClient; [ip = None] is the zero netip.Addr. *)
Definition is_blocked_client (a : access) (ip : option addr) (id : bytes) : bool * rulekind :=
  let '(by_ip, rule) := match ip with Some x => is_blocked_ip a x | None => (false, RkNone) end in
  let alm := allowlist_mode a in
  let by_id := is_blocked_clientid a id in
  let final := match rule with
               | RkNone => match id with [] => RkNone | _ => RkCid end
               | r => r
               end in
  if alm && by_ip && by_id then (true, rule)
  else if negb alm && (by_ip || by_id) then (true, final)
  else (false, final).

Definition is_blocked_host (a : access) (host : bytes) (qt : N) : bool :=
  snd (match_request (ac_hosts a) (mkReq host qt [] None [])).

(** aghnet.NormalizeDomain *)
Definition normalize_domain (name : bytes) : bytes :=
  match name with
  | [46] => name
  | _ => lower (match rev name with 46 :: r => rev r | _ => name end)
  end.

Inductive proto := PUDP | PTCP | PTLS | PHTTPS | PQUIC | PDNSCrypt.

Inductive before :=
  | BServfail            (* ClientID extraction failed: SERVFAIL is answered *)
  | BDrop                (* error without a response: dnsproxy sends nothing *)
  | BRefused
  | BContinue (cache : option bytes).  (* served; ClientID put into the cache *)

Definition pre_blocked (p : proto) : before :=
  match p with PUDP | PDNSCrypt => BDrop | _ => BRefused end.

(** Server.HandleBefore.  [cid] is the result of clientIDFromDNSContext
    (None = error), [q] the single question (None = zero or several). *)
Definition handle_before (a : access) (p : proto) (cid : option bytes)
    (ip : option addr) (q : option (bytes * N)) : before :=
  match cid with
  | None => BServfail
  | Some id =>
      if fst (is_blocked_client a ip id) then pre_blocked p
      else
        let host_blocked :=
          match q with
          | Some (name, qt) => is_blocked_host a (normalize_domain name) qt
          | None => false
          end in
        if host_blocked then pre_blocked p
        else BContinue (match id with [] => None | _ => Some id end)
  end.

(** The question section as HandleBefore reads it: the blocked-hosts test
    runs only when there is exactly one question ([len(Question) == 1]); of
    that question the name and the type are passed on, the class is not
    looked at. *)
Record question := mkQ { q_name : bytes; q_type : N; q_class : N }.

Definition the_question (qs : list question) : option (bytes * N) :=
  match qs with
  | [q] => Some (q_name q, q_type q)
  | _ => None
  end.

Definition handle_before_msg (a : access) (p : proto) (cid : option bytes)
    (ip : option addr) (qs : list question) : before :=
  handle_before a p cid ip (the_question qs).

(** The server in front of any request handler: the handler (resolution,
    filtering, query log, statistics: everything that is state [S]) runs only
    if the pre-request hook lets the request through. *)
Section Serve.
  Context {S Req Resp : Type}.
  Variable handler : S -> Req -> S * Resp.

  Inductive reply := NoReply | Refused | Servfail | Answer (r : Resp).

  Definition serve (a : access) (p : proto) (cid : option bytes) (ip : option addr)
      (q : option (bytes * N)) (cache : list bytes) (st : S) (rq : Req)
      : S * list bytes * reply :=
    match handle_before a p cid ip q with
    | BServfail => (st, cache, Servfail)
    | BDrop => (st, cache, NoReply)
    | BRefused => (st, cache, Refused)
    | BContinue c =>
        let '(st', r) := handler st rq in
        (st', match c with Some id => id :: cache | None => cache end, Answer r)
    end.
End Serve.

(** * HandleBefore as the code runs it: ClientID extraction (the model of
      property C16, Model/ClientID.v) in front of the access decision, and the
      ClientID cache as state. *)

Definition cid_proto (p : proto) : Model.ClientID.proto :=
  match p with
  | PUDP => Model.ClientID.UDP
  | PTCP => Model.ClientID.TCP
  | PTLS => Model.ClientID.DoT
  | PHTTPS => Model.ClientID.DoH
  | PQUIC => Model.ClientID.DoQ
  | PDNSCrypt => Model.ClientID.DNSCrypt
  end.

(** The two fields of TLSConfig that HandleBefore reads. *)
Record tlsconf := mkTlsConf { tc_server_name : bytes; tc_strict : bool }.

Definition mk_doh (path : bytes) (tls_sni : option bytes) (host_hdr : bytes) : Model.ClientID.doh_req :=
  Model.ClientID.Build_doh_req path tls_sni host_hdr.

(** What HandleBefore reads from the proxy.DNSContext: protocol, the server
    name of the TLS / QUIC connection state ([None]: the connection has none),
    the HTTP request of a DoH query (URL path, TLS server name, Host), client
    address ([None] = the zero netip.Addr), the single question ([None] = zero
    or several) and dnsproxy's request id. *)
Record dnsctx := mkCtx {
  cx_proto : proto;
  cx_sni : option bytes;
  cx_http : option Model.ClientID.doh_req;
  cx_ip : option addr;
  cx_q : option (bytes * N);
  cx_rid : N
}.

(** Server.clientIDFromDNSContext, errors collapsed ([None]). *)
Definition extract_clientid (t : tlsconf) (x : dnsctx) : option bytes :=
  match Model.ClientID.client_id_of (cid_proto (cx_proto x)) (tc_server_name t) (tc_strict t)
          (cx_sni x) (cx_http x) with
  | Model.ClientID.CidOk id => Some id
  | Model.ClientID.CidErr _ => None
  end.

Definition handle_before_ctx (a : access) (t : tlsconf) (x : dnsctx) : before :=
  handle_before a (cx_proto x) (extract_clientid t x) (cx_ip x) (cx_q x).

(** golibs/cache with EnableLRU and MaxCount = [cap] ([0] = unlimited), keys
    = the 8 big-endian bytes of the request id, read as the number: the
    entries, least recently used first. *)
Definition cid_cache := list (N * bytes).

Definition cache_remove (k : N) (c : cid_cache) : cid_cache :=
  filter (fun e => negb (fst e =? k)) c.

Fixpoint cache_find (k : N) (c : cid_cache) : option bytes :=
  match c with
  | [] => None
  | (k', v) :: r => if k' =? k then Some v else cache_find k r
  end.

(** cache.Set: a full cache first drops its least recently used entry (also
    when the key is already present), then the key's old entry goes and the
    new one becomes the most recently used. *)
Definition cache_set (cap : N) (c : cid_cache) (k : N) (v : bytes) : cid_cache :=
  let c1 := if N.of_nat (length c) =? cap then tl c else c in
  cache_remove k c1 ++ [(k, v)].

(** cache.Get: a hit makes the entry the most recently used. *)
Definition cache_get (c : cid_cache) (k : N) : cid_cache * option bytes :=
  match cache_find k c with
  | Some v => (cache_remove k c ++ [(k, v)], Some v)
  | None => (c, None)
  end.

(** HandleBefore with its effect on the cache: an entry is written exactly
    when the request is let through and its ClientID is not empty. *)
Definition before_step (cap : N) (a : access) (t : tlsconf) (x : dnsctx) (c : cid_cache)
    : cid_cache * before :=
  let b := handle_before_ctx a t x in
  (match b with BContinue (Some id) => cache_set cap c (cx_rid x) id | _ => c end, b).

(** processInitial: dctx.clientID = string(s.clientIDCache.Get(key)). *)
Definition initial_read (c : cid_cache) (rid : N) : cid_cache * bytes :=
  let '(c', v) := cache_get c rid in
  (c', match v with Some id => id | None => [] end).

(** Histories over one server: pre-request hooks and processInitial reads in
    any interleaving. *)
Inductive hop := HBefore (x : dnsctx) | HInitial (rid : N).
Inductive hobs := OBefore (b : before) | OInitial (id : bytes).

Definition hist_step (cap : N) (a : access) (t : tlsconf) (c : cid_cache) (o : hop) : cid_cache * hobs :=
  match o with
  | HBefore x => let '(c', b) := before_step cap a t x c in (c', OBefore b)
  | HInitial rid => let '(c', id) := initial_read c rid in (c', OInitial id)
  end.

Fixpoint run_hist (cap : N) (a : access) (t : tlsconf) (c : cid_cache) (ops : list hop)
    : cid_cache * list hobs :=
  match ops with
  | [] => (c, [])
  | o :: rest =>
      let '(c1, ob) := hist_step cap a t c o in
      let '(c2, obs) := run_hist cap a t c1 rest in
      (c2, ob :: obs)
  end.

(** The server in front of a request handler that is given the ClientID
    processInitial reads back from the cache. *)
Section ServeCtx.
  Context {S Req Resp : Type}.
  Variable handler : S -> bytes -> Req -> S * Resp.

  Definition serve_ctx (cap : N) (a : access) (t : tlsconf) (x : dnsctx)
      (c : cid_cache) (st : S) (rq : Req) : S * cid_cache * @reply Resp :=
    let '(c1, b) := before_step cap a t x c in
    match b with
    | BServfail => (st, c1, Servfail)
    | BDrop => (st, c1, NoReply)
    | BRefused => (st, c1, Refused)
    | BContinue _ =>
        let '(c2, id) := initial_read c1 (cx_rid x) in
        let '(st', r) := handler st id rq in
        (st', c2, Answer r)
    end.
End ServeCtx.

(** Executable model of the CALLER of [Migrate] (C13, round 5): package home's
    [parseConfig] (internal/home/config.go), the only place where the upgrade
    meets the configuration FILE:

        read the file -> Migrate(body, LastSchemaVersion)
          -> if upgraded: write the new body back atomically (maybe.WriteFile)
          -> yaml.Unmarshal into the configuration -> validateConfig

    with a fault possible at every step.  The upgrade itself is [migrate] of
    Model/Migrate.v (not re-modelled); the loader is an oracle [accepts] (what
    it does with the keys the steps touch is Model/MigrateLoad.v); the atomic
    write either replaces the file by the new body or fails and leaves the
    file as it was (the statement of C14, monitored here on the real bytes).
    No proofs here. *)
From Coq Require Import List ZArith String Bool.
From AGH Require Import Model.Migrate.
Import ListNotations.
Local Open Scope string_scope.
Local Open Scope Z_scope.

(** What the configuration file is, as far as [parseConfig] can tell. *)
Inductive content :=
  | FUnreadable                 (* os.ReadFile fails: no such file, a directory *)
  | FGarbage                    (* bytes yaml does not decode into a map: Migrate returns an error *)
  | FDoc (top : option obj).     (* the decoded document; [None]: an explicit null *)

(** What [parseConfig] returns.  The four errors are one thing to the caller
    (a non-nil error); they are kept apart so that the theorems can say which
    of them may come with a changed file. *)
Inductive presult :=
  | PReadErr                    (* readConfigFile *)
  | PMigrateErr                 (* Migrate *)
  | PWriteErr                   (* "writing new config: ..." *)
  | PLoadErr                    (* yaml.Unmarshal / validateConfig / validateTLSCipherIDs *)
  | PLoaded (m : obj) (upgraded : bool)   (* nil; [m]: the document the configuration was decoded from *)
  | PPanic.

Definition is_error (r : presult) : bool :=
  match r with PReadErr | PMigrateErr | PWriteErr | PLoadErr => true | _ => false end.

Definition loaded (r : presult) : option obj :=
  match r with PLoaded m _ => Some m | _ => None end.

Definition doc_map (top : option obj) : obj := match top with None => [] | Some m => m end.

(** The schema version [Migrate] reads from a document ([uint(currentInt)]). *)
Definition doc_version (m : obj) : Z :=
  zint (fv_val TInt (field_val TInt m "schema_version")) mod 2 ^ 64.

(** The file after the call: [None] = nothing was written. *)
Definition file_after (f : content) (written : option obj) : content :=
  match written with None => f | Some b => FDoc (Some b) end.

Section ParseConfig.
Variable O : oracles.
(** The verdict of the loader (decode over the defaults + validation) on a document. *)
Variable accepts : obj -> bool.

Definition load (m : obj) (upgraded : bool) : presult :=
  if accepts m then PLoaded m upgraded else PLoadErr.

(** [parseConfig] as the code has it now.  [wr]: the atomic write-back, should
    it be attempted, succeeds.  Result and the body written to the file, if
    any.  The body the loader gets after an upgrade is the serialised new tree,
    i.e. [norm_obj] of it: the same bytes that went to the file. *)
Definition parse_config (f : content) (wr : bool) : presult * option obj :=
  match f with
  | FUnreadable => (PReadErr, None)
  | FGarbage => (PMigrateErr, None)
  | FDoc top =>
      match migrate O top last_version with
      | OErr => (PMigrateErr, None)
      | OPanic => (PPanic, None)
      | OSame => (load (doc_map top) false, None)
      | ONew m' =>
          let b := norm_obj m' in
          if wr then (load b true, Some b) else (PWriteErr, None)
      end
  end.

(** The variant that only logs a failed write-back and goes on (seeded change
    C13-J): refuted in Proofs/MigrateFile.v. *)
Definition parse_config_swallow (f : content) (wr : bool) : presult * option obj :=
  match f with
  | FUnreadable => (PReadErr, None)
  | FGarbage => (PMigrateErr, None)
  | FDoc top =>
      match migrate O top last_version with
      | OErr => (PMigrateErr, None)
      | OPanic => (PPanic, None)
      | OSame => (load (doc_map top) false, None)
      | ONew m' =>
          let b := norm_obj m' in
          (load b true, if wr then Some b else None)
      end
  end.

(** Two starts in a row: the second one reads what the first one left. *)
Definition parse_twice (f : content) (wr1 wr2 : bool) : presult * presult * content :=
  let '(r1, w1) := parse_config f wr1 in
  let f1 := file_after f w1 in
  let '(r2, w2) := parse_config f1 wr2 in
  (r1, r2, file_after f1 w2).

End ParseConfig.

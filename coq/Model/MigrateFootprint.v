(** C13: the footprint of every upgrade step, as data.

    A footprint says where a step may write, rename or delete; everything
    else in the document is outside it and must come out as it went in.  It
    is a tree that follows the document: [FAll] anything may happen at this
    node (and below); [FKeys l] if the node is a map it stays a map, its keys
    outside [l] keep their value, a key [k] of [l] follows its own footprint;
    if the node is not a map (absent, null, ill-typed) it is left as it is;
    [FElems f] if the node is a list it stays a list of the same length and
    every element follows [f]; otherwise it is left as it is.

    Keys a step only READS (ip/mac for step 6, filters[].url for step 29,
    the persistent clients themselves for step 14's move ...) are outside the
    footprint: the theorems of Proofs/MigrateFootprint.v say they are
    preserved.  No proofs here.  The same table exists as a Go literal in
    harness/configmigrate/zz_verif_C13_frame_test.go; the harness prints it
    and Run/C13.v compares it with [fp_table] at every run ([CFootprints]),
    so the two cannot drift. *)
From Coq Require Import List String Bool ZArith.
From AGH Require Import Model.Migrate.
Import ListNotations.
Local Open Scope string_scope.
Local Open Scope list_scope.

Inductive fp :=
  | FAll
  | FKeys (l : list (string * fp))
  | FElems (f : fp).

(** Printing helpers (the harness uses the same names). *)
Definition kf (k : string) (f : fp) : string * fp := (k, f).
Definition ka (k : string) : string * fp := (k, FAll).

Definition ver : string * fp := ka "schema_version".

Definition fp1 := FKeys [ver].
Definition fp2 := FKeys [ver; ka "coredns"; ka "dns"].
Definition fp3 := FKeys [ver; kf "dns" (FKeys [ka "bootstrap_dns"])].
Definition fp4 := FKeys [ver; kf "clients" (FElems (FKeys [ka "use_global_blocked_services"]))].
Definition fp5 := FKeys [ver; ka "auth_name"; ka "auth_pass"; ka "users"].
Definition fp6 := FKeys [ver; kf "clients" (FElems (FKeys [ka "ids"]))].
Definition fp7 :=
  FKeys [ver; kf "dhcp" (FKeys [ka "gateway_ip"; ka "subnet_mask"; ka "range_start"; ka "range_end";
                                ka "lease_duration"; ka "icmp_timeout_msec"; ka "dhcpv4"])].
Definition fp8 := FKeys [ver; kf "dns" (FKeys [ka "bind_host"; ka "bind_hosts"])].
Definition fp9 := FKeys [ver; kf "dns" (FKeys [ka "autohost_tld"; ka "local_domain_name"])].
Definition fp10 :=
  FKeys [ver; kf "dns" (FKeys [kf "upstream_dns" (FElems FAll); kf "local_ptr_upstreams" (FElems FAll)])].
Definition fp11 := FKeys [ver; ka "rlimit_nofile"; ka "os"].
Definition fp12 := FKeys [ver; kf "dns" (FKeys [ka "querylog_interval"])].
Definition fp13 :=
  FKeys [ver; kf "dns" (FKeys [ka "local_domain_name"]); kf "dhcp" (FKeys [ka "local_domain_name"])].
Definition fp14 := FKeys [ver; ka "clients"; kf "dns" (FKeys [ka "resolve_clients"])].
Definition fp15 :=
  FKeys [ver; ka "querylog";
         kf "dns" (FKeys [ka "querylog_enabled"; ka "querylog_file_enabled"; ka "querylog_interval";
                          ka "querylog_size_memory"])].
Definition fp16 := FKeys [ver; ka "statistics"; kf "dns" (FKeys [ka "statistics_interval"])].
Definition fp17 := FKeys [ver; kf "dns" (FKeys [ka "edns_client_subnet"])].
Definition fp18 := FKeys [ver; kf "dns" (FKeys [ka "safesearch_enabled"; ka "safe_search"])].
Definition fp19 :=
  FKeys [ver; kf "clients" (FKeys [kf "persistent" (FElems (FKeys [ka "safesearch_enabled"; ka "safe_search"]))])].
Definition fp20 := FKeys [ver; kf "statistics" (FKeys [ka "interval"])].
Definition fp21 := FKeys [ver; kf "dns" (FKeys [ka "blocked_services"])].
Definition fp22 :=
  FKeys [ver; kf "clients" (FKeys [kf "persistent" (FElems (FKeys [ka "blocked_services"]))])].
Definition fp23 := FKeys [ver; ka "bind_host"; ka "bind_port"; ka "web_session_ttl"; ka "http"].
Definition fp24 :=
  FKeys [ver; ka "log_file"; ka "log_max_backups"; ka "log_max_size"; ka "log_max_age"; ka "log_compress";
         ka "log_localtime"; ka "verbose"; ka "log"].
Definition fp25 := FKeys [ver; ka "debug_pprof"; kf "http" (FKeys [ka "pprof"])].
Definition fp26 :=
  FKeys [ver; ka "filtering";
         kf "dns" (FKeys [ka "filtering_enabled"; ka "filters_update_interval"; ka "parental_enabled";
                          ka "safebrowsing_enabled"; ka "safebrowsing_cache_size"; ka "safesearch_cache_size";
                          ka "parental_cache_size"; ka "safe_search"; ka "rewrites"; ka "blocked_services";
                          ka "protection_enabled"; ka "blocking_mode"; ka "blocking_ipv4"; ka "blocking_ipv6";
                          ka "blocked_response_ttl"; ka "protection_disabled_until"; ka "parental_block_host";
                          ka "safebrowsing_block_host"])].
Definition fp27 :=
  FKeys [ver; kf "querylog" (FKeys [kf "ignored" (FElems FAll)]);
         kf "statistics" (FKeys [kf "ignored" (FElems FAll)])].
Definition fp28 := FKeys [ver; kf "dns" (FKeys [ka "upstream_mode"; ka "all_servers"; ka "fastest_addr"])].
Definition fp29 := FKeys [ver; kf "filtering" (FKeys [ka "safe_fs_patterns"])].

(** Entry [i] is the footprint of the step that upgrades version [i] to [i+1]
    (same indexing as [steps]). *)
Definition fp_table : list fp :=
  [fp1; fp2; fp3; fp4; fp5; fp6; fp7; fp8; fp9; fp10; fp11; fp12; fp13; fp14; fp15; fp16; fp17; fp18; fp19;
   fp20; fp21; fp22; fp23; fp24; fp25; fp26; fp27; fp28; fp29].

(** The footprints of the steps [upgrade cur tgt] runs. *)
Definition fps_of (cur tgt : nat) : list fp := firstn (tgt - cur) (skipn cur fp_table).

(** ** Paths *)

Inductive seg := SK (k : string) | SI (i : nat).
Definition path := list seg.

Fixpoint lookup (p : path) (v : option val) : option val :=
  match p with
  | [] => v
  | SK k :: p' => match v with Some (VObj m) => lookup p' (get k m) | _ => None end
  | SI i :: p' => match v with Some (VArr l) => lookup p' (nth_error l i) | _ => None end
  end.

(** [outside f p]: the footprint [f] says nothing may happen at path [p]:
    the path leaves the footprint at some key [f] does not list (or by a
    segment of the wrong sort) before reaching an [FAll], and does not end at
    a node that has footprint below it. *)
Fixpoint outside (f : fp) (p : path) : bool :=
  match f with
  | FAll => false
  | FKeys l =>
      match p with
      | [] => false
      | SK k :: p' =>
          (fix go (l : list (string * fp)) : bool :=
             match l with
             | [] => true
             | (k', f') :: l' => if String.eqb k k' then outside f' p' else go l'
             end) l
      | SI _ :: _ => true
      end
  | FElems f' =>
      match p with
      | [] => false
      | SI _ :: p' => outside f' p'
      | SK _ :: _ => true
      end
  end.

Definition outside_all (fs : list fp) (p : path) : bool := forallb (fun f => outside f p) fs.

(** ** Decidable equality of footprints (for the comparison with the Go table) *)

Fixpoint fp_eqb (a b : fp) : bool :=
  match a, b with
  | FAll, FAll => true
  | FKeys la, FKeys lb =>
      (fix go (la lb : list (string * fp)) : bool :=
         match la, lb with
         | [], [] => true
         | (xa, fa) :: la', (xb, fb) :: lb' => String.eqb xa xb && fp_eqb fa fb && go la' lb'
         | _, _ => false
         end) la lb
  | FElems fa, FElems fb => fp_eqb fa fb
  | _, _ => false
  end.

Fixpoint fps_eqb (a b : list fp) : bool :=
  match a, b with
  | [], [] => true
  | x :: a', y :: b' => fp_eqb x y && fps_eqb a' b'
  | _, _ => false
  end.

(** ** The steps that rewrite a value in place

    Old value at the key (or [None]: no such key) to new value at the same
    key; the outer [None]: the documented function says nothing (an ill-typed
    value, on which the step fails).  Theorems in Proofs/MigrateValues.v; the
    harness holds the same functions written in Go from the comments of
    v3.go ... v21.go and compares them with these on samples ([CValueFn]). *)
Local Open Scope Z_scope.

(** An integer setting as the steps read it: null reads as 0, a whole float
    as its value. *)
Definition int_of (o : option val) : option (option Z) :=
  match o with
  | None => Some None
  | Some VNull => Some (Some 0)
  | Some (VInt z) => Some (Some z)
  | Some (VFloat (Some z) _) => Some (Some z)
  | _ => None
  end.

(** 3: [bootstrap_dns: x] becomes [bootstrap_dns: [x]]. *)
Definition f3 (o : option val) : option (option val) :=
  Some (match o with Some v => Some (VArr [v]) | None => None end).

(** 12: [querylog_interval: days] becomes the duration (90 days when absent). *)
Definition f12 (o : option val) : option (option val) :=
  match int_of o with
  | Some None => Some (Some (VDur (wrap64 (90 * ns_day))))
  | Some (Some z) => Some (Some (VDur (wrap64 (z * ns_day))))
  | None => None
  end.

(** 17: [edns_client_subnet: b] becomes the object with [enabled: b]. *)
Definition f17 (o : option val) : option (option val) :=
  let b := match o with Some (VBool b) => b | _ => false end in
  Some (Some (VObj [("enabled", VBool b); ("use_custom", VBool false); ("custom_ip", VStr "")])).

(** 20: [statistics.interval: days] becomes the duration (one day for 0 or absent). *)
Definition f20 (o : option val) : option (option val) :=
  match int_of o with
  | Some None => Some (Some (VDur (wrap64 ns_day)))
  | Some (Some z) => Some (Some (VDur (wrap64 ((if z =? 0 then 1 else z) * ns_day))))
  | None => None
  end.

(** 21: [blocked_services: ids] becomes [{schedule, ids}]. *)
Definition f21 (o : option val) : option (option val) :=
  match o with
  | None | Some VNull => Some (Some (VObj [("schedule", schedule0)]))
  | Some (VArr l) => Some (Some (VObj [("schedule", schedule0); ("ids", VArr l)]))
  | _ => None
  end.


Definition value_fn (n : Z) : option val -> option (option val) :=
  if n =? 3 then f3 else if n =? 12 then f12 else if n =? 17 then f17
  else if n =? 20 then f20 else if n =? 21 then f21 else fun _ => None.

(** C16 (round 5): Go's strings.ToLower on arbitrary byte strings.

    The ClientID code lower-cases with strings.ToLower, which is Unicode
    aware: on a string with a byte >= 128 it decodes UTF-8 rune by rune
    (an invalid byte decodes to U+FFFD, width 1), maps every rune with
    unicode.ToLower and encodes the result (strings.Map).  Mirrored here:

      [decode1]       utf8.DecodeRuneInString (go1.24: first-byte table,
                      accept ranges; shortest form only, no surrogates, at most
                      U+10FFFF; anything else = (U+FFFD, 1))
      [runes]         the runes of  for _, c := range s
      [encode_rune]   utf8.AppendRune (an invalid rune is written as U+FFFD)
      [case_ranges]   unicode.CaseRanges projected to (Lo, Hi, Delta[LowerCase])
                      (go1.24.2; the harness prints the table of the running
                      toolchain at every run and the evaluator compares)
      [rune_lower]    unicode.ToLower: ASCII directly, else the range that
                      contains the rune (the ranges are disjoint and sorted:
                      the first match of a linear scan is what the binary
                      search of unicode.to finds), UpperLower ranges alternate
      [go_to_lower]   strings.ToLower: the ASCII fast path, else strings.Map
                      (modelled by its result: every rune re-encoded; the
                      copy-on-first-change loop returns the same bytes, as a
                      valid sequence re-encodes to itself).
    No proofs in this file. *)
From Coq Require Import List NArith ZArith Bool Arith.
From AGH Require Import Base.Run Base.Bytes.
Import ListNotations.
Local Open Scope N_scope.

Definition rune_error : N := 65533.   (* U+FFFD *)
Definition max_rune : N := 1114111.   (* U+10FFFF *)

Definition in_range (lo hi b : N) : bool := (lo <=? b) && (b <=? hi).
Definition is_cont (b : N) : bool := in_range 128 191 b.

(** utf8.DecodeRuneInString: the rune and its width in bytes (>= 1 on a
    non-empty string). *)
Definition decode1 (s : bytes) : N * nat :=
  match s with
  | [] => (rune_error, 0%nat)
  | b0 :: t =>
      if b0 <? 128 then (b0, 1%nat)
      else if in_range 194 223 b0 then
        match t with
        | b1 :: _ => if is_cont b1 then ((b0 - 192) * 64 + (b1 - 128), 2%nat) else (rune_error, 1%nat)
        | _ => (rune_error, 1%nat)
        end
      else if in_range 224 239 b0 then
        match t with
        | b1 :: b2 :: _ =>
            let lo := if b0 =? 224 then 160 else 128 in
            let hi := if b0 =? 237 then 159 else 191 in
            if in_range lo hi b1 && is_cont b2
            then ((b0 - 224) * 4096 + (b1 - 128) * 64 + (b2 - 128), 3%nat)
            else (rune_error, 1%nat)
        | _ => (rune_error, 1%nat)
        end
      else if in_range 240 244 b0 then
        match t with
        | b1 :: b2 :: b3 :: _ =>
            let lo := if b0 =? 240 then 144 else 128 in
            let hi := if b0 =? 244 then 143 else 191 in
            if in_range lo hi b1 && is_cont b2 && is_cont b3
            then ((b0 - 240) * 262144 + (b1 - 128) * 4096 + (b2 - 128) * 64 + (b3 - 128), 4%nat)
            else (rune_error, 1%nat)
        | _ => (rune_error, 1%nat)
        end
      else (rune_error, 1%nat)
  end.

(** for _, c := range s.  The fuel is the length of the string (every step
    consumes at least one byte). *)
Fixpoint runes_fuel (fuel : nat) (s : bytes) : list N :=
  match fuel with
  | O => []
  | S f =>
      match s with
      | [] => []
      | _ :: _ => let (r, w) := decode1 s in r :: runes_fuel f (skipn w s)
      end
  end.

Definition runes (s : bytes) : list N := runes_fuel (length s) s.

(** utf8.AppendRune *)
Definition encode_rune (r : N) : bytes :=
  if r <? 128 then [r]
  else if r <? 2048 then [192 + r / 64; 128 + r mod 64]
  else if (max_rune <? r) || in_range 55296 57343 r then [239; 191; 189]
  else if r <? 65536 then [224 + r / 4096; 128 + (r / 64) mod 64; 128 + r mod 64]
  else [240 + r / 262144; 128 + (r / 4096) mod 64; 128 + (r / 64) mod 64; 128 + r mod 64].

(** unicode.CaseRanges: (Lo, Hi, Delta[LowerCase]); a delta above MaxRune is
    unicode.UpperLower. *)
Definition case_ranges : list (N * N * Z) := [
  (65, 90, 32%Z);
  (97, 122, 0%Z);
  (181, 181, 0%Z);
  (192, 214, 32%Z);
  (216, 222, 32%Z);
  (224, 246, 0%Z);
  (248, 254, 0%Z);
  (255, 255, 0%Z);
  (256, 303, 1114112%Z);
  (304, 304, (-199)%Z);
  (305, 305, 0%Z);
  (306, 311, 1114112%Z);
  (313, 328, 1114112%Z);
  (330, 375, 1114112%Z);
  (376, 376, (-121)%Z);
  (377, 382, 1114112%Z);
  (383, 383, 0%Z);
  (384, 384, 0%Z);
  (385, 385, 210%Z);
  (386, 389, 1114112%Z);
  (390, 390, 206%Z);
  (391, 392, 1114112%Z);
  (393, 394, 205%Z);
  (395, 396, 1114112%Z);
  (398, 398, 79%Z);
  (399, 399, 202%Z);
  (400, 400, 203%Z);
  (401, 402, 1114112%Z);
  (403, 403, 205%Z);
  (404, 404, 207%Z);
  (405, 405, 0%Z);
  (406, 406, 211%Z);
  (407, 407, 209%Z);
  (408, 409, 1114112%Z);
  (410, 410, 0%Z);
  (412, 412, 211%Z);
  (413, 413, 213%Z);
  (414, 414, 0%Z);
  (415, 415, 214%Z);
  (416, 421, 1114112%Z);
  (422, 422, 218%Z);
  (423, 424, 1114112%Z);
  (425, 425, 218%Z);
  (428, 429, 1114112%Z);
  (430, 430, 218%Z);
  (431, 432, 1114112%Z);
  (433, 434, 217%Z);
  (435, 438, 1114112%Z);
  (439, 439, 219%Z);
  (440, 441, 1114112%Z);
  (444, 445, 1114112%Z);
  (447, 447, 0%Z);
  (452, 452, 2%Z);
  (453, 453, 1%Z);
  (454, 454, 0%Z);
  (455, 455, 2%Z);
  (456, 456, 1%Z);
  (457, 457, 0%Z);
  (458, 458, 2%Z);
  (459, 459, 1%Z);
  (460, 460, 0%Z);
  (461, 476, 1114112%Z);
  (477, 477, 0%Z);
  (478, 495, 1114112%Z);
  (497, 497, 2%Z);
  (498, 498, 1%Z);
  (499, 499, 0%Z);
  (500, 501, 1114112%Z);
  (502, 502, (-97)%Z);
  (503, 503, (-56)%Z);
  (504, 543, 1114112%Z);
  (544, 544, (-130)%Z);
  (546, 563, 1114112%Z);
  (570, 570, 10795%Z);
  (571, 572, 1114112%Z);
  (573, 573, (-163)%Z);
  (574, 574, 10792%Z);
  (575, 576, 0%Z);
  (577, 578, 1114112%Z);
  (579, 579, (-195)%Z);
  (580, 580, 69%Z);
  (581, 581, 71%Z);
  (582, 591, 1114112%Z);
  (592, 592, 0%Z);
  (593, 593, 0%Z);
  (594, 594, 0%Z);
  (595, 595, 0%Z);
  (596, 596, 0%Z);
  (598, 599, 0%Z);
  (601, 601, 0%Z);
  (603, 603, 0%Z);
  (604, 604, 0%Z);
  (608, 608, 0%Z);
  (609, 609, 0%Z);
  (611, 611, 0%Z);
  (613, 613, 0%Z);
  (614, 614, 0%Z);
  (616, 616, 0%Z);
  (617, 617, 0%Z);
  (618, 618, 0%Z);
  (619, 619, 0%Z);
  (620, 620, 0%Z);
  (623, 623, 0%Z);
  (625, 625, 0%Z);
  (626, 626, 0%Z);
  (629, 629, 0%Z);
  (637, 637, 0%Z);
  (640, 640, 0%Z);
  (642, 642, 0%Z);
  (643, 643, 0%Z);
  (647, 647, 0%Z);
  (648, 648, 0%Z);
  (649, 649, 0%Z);
  (650, 651, 0%Z);
  (652, 652, 0%Z);
  (658, 658, 0%Z);
  (669, 669, 0%Z);
  (670, 670, 0%Z);
  (837, 837, 0%Z);
  (880, 883, 1114112%Z);
  (886, 887, 1114112%Z);
  (891, 893, 0%Z);
  (895, 895, 116%Z);
  (902, 902, 38%Z);
  (904, 906, 37%Z);
  (908, 908, 64%Z);
  (910, 911, 63%Z);
  (913, 929, 32%Z);
  (931, 939, 32%Z);
  (940, 940, 0%Z);
  (941, 943, 0%Z);
  (945, 961, 0%Z);
  (962, 962, 0%Z);
  (963, 971, 0%Z);
  (972, 972, 0%Z);
  (973, 974, 0%Z);
  (975, 975, 8%Z);
  (976, 976, 0%Z);
  (977, 977, 0%Z);
  (981, 981, 0%Z);
  (982, 982, 0%Z);
  (983, 983, 0%Z);
  (984, 1007, 1114112%Z);
  (1008, 1008, 0%Z);
  (1009, 1009, 0%Z);
  (1010, 1010, 0%Z);
  (1011, 1011, 0%Z);
  (1012, 1012, (-60)%Z);
  (1013, 1013, 0%Z);
  (1015, 1016, 1114112%Z);
  (1017, 1017, (-7)%Z);
  (1018, 1019, 1114112%Z);
  (1021, 1023, (-130)%Z);
  (1024, 1039, 80%Z);
  (1040, 1071, 32%Z);
  (1072, 1103, 0%Z);
  (1104, 1119, 0%Z);
  (1120, 1153, 1114112%Z);
  (1162, 1215, 1114112%Z);
  (1216, 1216, 15%Z);
  (1217, 1230, 1114112%Z);
  (1231, 1231, 0%Z);
  (1232, 1327, 1114112%Z);
  (1329, 1366, 48%Z);
  (1377, 1414, 0%Z);
  (4256, 4293, 7264%Z);
  (4295, 4295, 7264%Z);
  (4301, 4301, 7264%Z);
  (4304, 4346, 0%Z);
  (4349, 4351, 0%Z);
  (5024, 5103, 38864%Z);
  (5104, 5109, 8%Z);
  (5112, 5117, 0%Z);
  (7296, 7296, 0%Z);
  (7297, 7297, 0%Z);
  (7298, 7298, 0%Z);
  (7299, 7300, 0%Z);
  (7301, 7301, 0%Z);
  (7302, 7302, 0%Z);
  (7303, 7303, 0%Z);
  (7304, 7304, 0%Z);
  (7312, 7354, (-3008)%Z);
  (7357, 7359, (-3008)%Z);
  (7545, 7545, 0%Z);
  (7549, 7549, 0%Z);
  (7566, 7566, 0%Z);
  (7680, 7829, 1114112%Z);
  (7835, 7835, 0%Z);
  (7838, 7838, (-7615)%Z);
  (7840, 7935, 1114112%Z);
  (7936, 7943, 0%Z);
  (7944, 7951, (-8)%Z);
  (7952, 7957, 0%Z);
  (7960, 7965, (-8)%Z);
  (7968, 7975, 0%Z);
  (7976, 7983, (-8)%Z);
  (7984, 7991, 0%Z);
  (7992, 7999, (-8)%Z);
  (8000, 8005, 0%Z);
  (8008, 8013, (-8)%Z);
  (8017, 8017, 0%Z);
  (8019, 8019, 0%Z);
  (8021, 8021, 0%Z);
  (8023, 8023, 0%Z);
  (8025, 8025, (-8)%Z);
  (8027, 8027, (-8)%Z);
  (8029, 8029, (-8)%Z);
  (8031, 8031, (-8)%Z);
  (8032, 8039, 0%Z);
  (8040, 8047, (-8)%Z);
  (8048, 8049, 0%Z);
  (8050, 8053, 0%Z);
  (8054, 8055, 0%Z);
  (8056, 8057, 0%Z);
  (8058, 8059, 0%Z);
  (8060, 8061, 0%Z);
  (8064, 8071, 0%Z);
  (8072, 8079, (-8)%Z);
  (8080, 8087, 0%Z);
  (8088, 8095, (-8)%Z);
  (8096, 8103, 0%Z);
  (8104, 8111, (-8)%Z);
  (8112, 8113, 0%Z);
  (8115, 8115, 0%Z);
  (8120, 8121, (-8)%Z);
  (8122, 8123, (-74)%Z);
  (8124, 8124, (-9)%Z);
  (8126, 8126, 0%Z);
  (8131, 8131, 0%Z);
  (8136, 8139, (-86)%Z);
  (8140, 8140, (-9)%Z);
  (8144, 8145, 0%Z);
  (8152, 8153, (-8)%Z);
  (8154, 8155, (-100)%Z);
  (8160, 8161, 0%Z);
  (8165, 8165, 0%Z);
  (8168, 8169, (-8)%Z);
  (8170, 8171, (-112)%Z);
  (8172, 8172, (-7)%Z);
  (8179, 8179, 0%Z);
  (8184, 8185, (-128)%Z);
  (8186, 8187, (-126)%Z);
  (8188, 8188, (-9)%Z);
  (8486, 8486, (-7517)%Z);
  (8490, 8490, (-8383)%Z);
  (8491, 8491, (-8262)%Z);
  (8498, 8498, 28%Z);
  (8526, 8526, 0%Z);
  (8544, 8559, 16%Z);
  (8560, 8575, 0%Z);
  (8579, 8580, 1114112%Z);
  (9398, 9423, 26%Z);
  (9424, 9449, 0%Z);
  (11264, 11311, 48%Z);
  (11312, 11359, 0%Z);
  (11360, 11361, 1114112%Z);
  (11362, 11362, (-10743)%Z);
  (11363, 11363, (-3814)%Z);
  (11364, 11364, (-10727)%Z);
  (11365, 11365, 0%Z);
  (11366, 11366, 0%Z);
  (11367, 11372, 1114112%Z);
  (11373, 11373, (-10780)%Z);
  (11374, 11374, (-10749)%Z);
  (11375, 11375, (-10783)%Z);
  (11376, 11376, (-10782)%Z);
  (11378, 11379, 1114112%Z);
  (11381, 11382, 1114112%Z);
  (11390, 11391, (-10815)%Z);
  (11392, 11491, 1114112%Z);
  (11499, 11502, 1114112%Z);
  (11506, 11507, 1114112%Z);
  (11520, 11557, 0%Z);
  (11559, 11559, 0%Z);
  (11565, 11565, 0%Z);
  (42560, 42605, 1114112%Z);
  (42624, 42651, 1114112%Z);
  (42786, 42799, 1114112%Z);
  (42802, 42863, 1114112%Z);
  (42873, 42876, 1114112%Z);
  (42877, 42877, (-35332)%Z);
  (42878, 42887, 1114112%Z);
  (42891, 42892, 1114112%Z);
  (42893, 42893, (-42280)%Z);
  (42896, 42899, 1114112%Z);
  (42900, 42900, 0%Z);
  (42902, 42921, 1114112%Z);
  (42922, 42922, (-42308)%Z);
  (42923, 42923, (-42319)%Z);
  (42924, 42924, (-42315)%Z);
  (42925, 42925, (-42305)%Z);
  (42926, 42926, (-42308)%Z);
  (42928, 42928, (-42258)%Z);
  (42929, 42929, (-42282)%Z);
  (42930, 42930, (-42261)%Z);
  (42931, 42931, 928%Z);
  (42932, 42947, 1114112%Z);
  (42948, 42948, (-48)%Z);
  (42949, 42949, (-42307)%Z);
  (42950, 42950, (-35384)%Z);
  (42951, 42954, 1114112%Z);
  (42960, 42961, 1114112%Z);
  (42966, 42969, 1114112%Z);
  (42997, 42998, 1114112%Z);
  (43859, 43859, 0%Z);
  (43888, 43967, 0%Z);
  (65313, 65338, 32%Z);
  (65345, 65370, 0%Z);
  (66560, 66599, 40%Z);
  (66600, 66639, 0%Z);
  (66736, 66771, 40%Z);
  (66776, 66811, 0%Z);
  (66928, 66938, 39%Z);
  (66940, 66954, 39%Z);
  (66956, 66962, 39%Z);
  (66964, 66965, 39%Z);
  (66967, 66977, 0%Z);
  (66979, 66993, 0%Z);
  (66995, 67001, 0%Z);
  (67003, 67004, 0%Z);
  (68736, 68786, 64%Z);
  (68800, 68850, 0%Z);
  (71840, 71871, 32%Z);
  (71872, 71903, 0%Z);
  (93760, 93791, 32%Z);
  (93792, 93823, 0%Z);
  (125184, 125217, 34%Z);
  (125218, 125251, 0%Z)
].

Definition upper_lower (d : Z) : bool := (Z.of_N max_rune <? d)%Z.

Definition range_of (r : N) : option (N * N * Z) :=
  find (fun e => in_range (fst (fst e)) (snd (fst e)) r) case_ranges.

(** unicode.ToLower *)
Definition rune_lower (r : N) : N :=
  if r <? 128 then lower_byte r
  else match range_of r with
       | Some (lo, _, d) =>
           if upper_lower d then lo + (((r - lo) / 2) * 2 + 1)   (* (r-lo)&^1 | 1 *)
           else Z.to_N (Z.of_N r + d)
       | None => r
       end.

Definition is_ascii (s : bytes) : bool := forallb (fun b => b <? 128) s.

(** strings.ToLower *)
Definition go_to_lower (s : bytes) : bytes :=
  if is_ascii s then lower s
  else flat_map (fun c => encode_rune (rune_lower c)) (runes s).

(** The two runes outside ASCII whose lower case is an ASCII letter
    (Proofs/GoLower.v: there is no other): U+212A KELVIN SIGN -> k and
    U+0130 LATIN CAPITAL LETTER I WITH DOT ABOVE -> i. *)
Definition kelvin_sign : N := 8490.
Definition dotted_capital_i : N := 304.

Definition has_special (s : bytes) : bool :=
  existsb (fun c => (c =? kelvin_sign) || (c =? dotted_capital_i)) (runes s).
